"""Per-property configuration of vcheck: one module per property under bin/propdefs/ (PROP dict)."""
import importlib, os, glob
HERE = os.path.dirname(os.path.abspath(__file__))
PROPS = {}
for f in sorted(glob.glob(os.path.join(HERE, "propdefs", "C[0-9][0-9].py"))):
    pid = os.path.basename(f)[:-3]
    try:
        PROPS[pid] = importlib.import_module("propdefs." + pid).PROP
    except Exception as e:  # a broken definition must not take the other properties down
        import sys
        print("warning: propdefs/%s.py failed to load: %s" % (pid, e), file=sys.stderr)

# hook commits in /repo (guard: --cfg falconre_falcon_verif)
HOOK_COMMITS = ["5e2d7b0", "40c2125", "9dda66b", "c144129"]
# properties not claimed, with the reason (kept current by hand)
NOT_APPLICABLE = {}
