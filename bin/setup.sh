#!/bin/sh
# setup_cmd: build everything from files on disk, offline.
set -e
cd "$(dirname "$0")/.."
export CARGO_NET_OFFLINE=true
mkdir -p work evidence
cp /repo/Cargo.lock harness/Cargo.lock
(cd harness && cargo build --offline --bins 2>&1 | tail -3)
cd coq
coq_makefile -f _CoqProject -o Makefile $(find theories -name '*.v' | sort) >/dev/null
find theories -name '*.v' | sort | sed 's#^\./##' | tr '\n' '\n' > /dev/null
timeout 3000 make -j16 2>&1 | tail -3
echo setup done
