#!/bin/sh
# setup_cmd: build everything the registered checks need from files on disk, offline.
# Each check rebuilds what it needs anyway, so a failure of one target here must not take the others
# down (-k / --keep-going).  Files outside the checks' dependency cones (e.g. Graph/SemiNca4.v, a
# 40-minute finite-domain theorem used only by the thorough tier of C11) are not built here.
cd "$(dirname "$0")/.."
export CARGO_NET_OFFLINE=true
mkdir -p work evidence
cp /repo/Cargo.lock harness/Cargo.lock
(cd harness && cargo build --offline --bins --keep-going 2>&1 | tail -3)
TARGETS=$(python3 - <<'PY'
import sys, os
sys.path.insert(0, "bin")
import props
t = set()
for pid, c in props.PROPS.items():
    for x in c.get("coq_targets", []):
        t.add(x if x.endswith(".vo") else x + ".vo")
    t.add("theories/Props/%s.vo" % pid)
print(" ".join(sorted(t)))
PY
)
cd coq
coq_makefile -f _CoqProject -o Makefile $(find theories -name '*.v' | sort) >/dev/null
find theories -name '*.v' | sort | tr '\n' '\n' | sed -e '$!b' -e 's/$//' | awk 'BEGIN{ORS=""} {if (NR>1) print "\n"; print}' > .filelist
timeout 6000 make -k -j16 $TARGETS 2>&1 | tail -3
echo setup done
exit 0
