#!/bin/sh
# setup_cmd: build everything from files on disk, offline.  Each check rebuilds what it needs, so a
# failure of one target here must not take the others down (-k / --keep-going).
cd "$(dirname "$0")/.."
export CARGO_NET_OFFLINE=true
mkdir -p work evidence
cp /repo/Cargo.lock harness/Cargo.lock
(cd harness && cargo build --offline --bins --keep-going 2>&1 | tail -3)
cd coq
coq_makefile -f _CoqProject -o Makefile $(find theories -name '*.v' | sort) >/dev/null
find theories -name '*.v' | sort > .filelist.tmp; tr '\n' '\n' < .filelist.tmp > /dev/null; rm -f .filelist.tmp
timeout 3000 make -k -j16 2>&1 | tail -3
echo setup done
exit 0
