from propdefs.common import *

PROP = {
    "bin": "c03",
    "coq_targets": ["theories/Isa/C03Check"],
    "n": {"quick": 1250, "thorough": 18000},
    "theorems": ["run_graph_straight", "tie_transfers", "addsub_imm_sim", "addsub_shift_sim", "mov_reg_sim", "mov_wide_sim", "adds_imm_sim", "adds_shift_sim", "subs_imm_sim_partial", "subs_shift_sim_partial", "subs_carry_refuted", "ldr_imm_sim", "str_imm_sim", "ldst_ord_sim", "stp_sim", "ldp_sim", "ldst_imm_sim", "ldpsw_sim", "ldst_reg_sim", "b_sim", "bl_sim", "br_sim", "blr_sim", "ret_sim", "bcond_sim", "cb_sim", "tb_sim", "addsub_shift_sim_all", "adds_shift_sim_all", "subs_shift_sim_all_partial", "addsub_ext_sim", "adds_ext_sim", "subs_ext_sim_partial", "orr_imm_sim", "nop_sim", "decode_fields", "sim_all", "c03_end_to_end"],
    "tie_name": "mirror(decode word) = IL dumped by translator::aarch64 (syntactic tie) / dumped IL runs without getting stuck",
    "rule": "cases 0..846 (every seed): fixed corpus of past regression shapes (ldp with Rt = base, adds/subs with INT_MIN operands, loads into XZR/WZR "
            "with write-back, cbz/tbz on W registers with a non-zero upper half) + the register-aliasing table (every form x Rd/Rn/Rm/Rt/Rt2 coincidences, "
            "incl. the CONSTRAINED UNPREDICTABLE ones that the specification leaves Undef, x register 31 in every position); cases 847..9367: a stride "
            "permutation of the 8521-entry structured table (all classes x W/X x flags x boundary immediates/amounts x every addressing mode; MOV bitmask "
            "immediates; NOP/PRFM; STLUR; SIMD&FP B/H/S/D/Q loads/stores and pairs); beyond: random words of the classes, one in four a UNIFORMLY random "
            "32-bit word. Each word is lifted by the real translate_block (LE and BE translator, 6 addresses) and compared on 2..16 sampled states. "
            "ACCEPTANCE clause: lifter-accepts <-> (Isa/A64.decode accepts and the mirror accepts) for every word. non-trivial = accepted and specified; "
            "distinct by (word, address, endianness)",
    "trusted_base": [KERNEL, HARNESS_TB,
                     "Isa/A64.v: hand transcription of the Arm ARM (DDI 0487) pseudocode for the listed classes, EL0, no alignment/MMU faults (the oracle the property names)",
                     "Exec/Sem.v as the meaning of 'running the lifted IL' (tied to executor::Driver by C07)",
                     "bad64 0.6 / Binary Ninja arm64 decoder: its operand presentation is modelled in Isa/A64Lift.v (operands_of) and re-checked per enumerated word by the syntactic tie"],
    "assumptions": ["data accesses that wrap around 2^64 and CONSTRAINED UNPREDICTABLE register coincidences are outside the comparison (a64step = Undef)",
                    "instruction address + 4 < 2^64"],
    "partial": [
        "theorem [U] + syntactic tie per enumerated word (c03_end_to_end: decode w = Some i /\\ non-vector /\\ tie => run of the DUMPED IL = a64step, all states; field "
        "ranges discharged by decode_fields): ADD/SUB/ADDS in the immediate, shifted-register (LSL LSR ASR ROR) and extended-register (UXTB..SXTX, #0..4) "
        "forms incl. MOV to/from SP; MOV register (ORR alias); MOV wide / inverted wide (MOVZ/MOVN aliases); MOV bitmask immediate (ORR immediate alias, "
        "DecodeBitMasks); NOP/PRFM/PRFUM; every single-register load/store LDR/LDRB/LDRH/LDRSB/LDRSH/LDRSW/STR/STRB/STRH in all addressing modes incl. "
        "STLUR*; LDAR/LDLAR/STLR/STLLR(+B/H); LDP/STP/LDNP/STNP (32/64-bit) and LDPSW in all modes; B, BL, BR, BLR, RET, B.cond, CBZ/CBNZ, TBZ/TBNZ",
        "partial theorem [U] (sim_c true: everything but C agrees, and c = NOT C is proved) + refutation witness subs_carry_refuted: SUBS in all three "
        "operand forms (known finding kf:subs-carry-is-borrow; fixing it needs the unedited test subs_xn to change)",
        "specification + mirror + syntactic tie + sampled comparison incl. V0..V31, NO theorem (extending the theorems' embedding emb to V0..V31 did not "
        "fit in round 4; sim_all / c03_end_to_end carry is_vector i = false): SIMD&FP LDR/STR/LDUR/STUR of B/H/S/D/Q in all addressing modes, "
        "LDP/STP/LDNP/STNP of S/D/Q, the AdvSIMD element moves spelled MOV (INS element, INS general, UMOV S/D, DUP element scalar, ORR vector with Rm = Rn), "
        "scalar ADD/SUB of D registers",
        "forms the lifter rejects hold vacuously (sim_rejected): CMP/CMN/NEG/NEGS aliases, MOVK, non-alias MOVZ/MOVN/ORR, LDR/LDRSW literal; since fix 8be3994 "
        "also every vector / SVE ADD, SUB and every MOV with SVE registers (they were lifted as one scalar operation)",
        "accepted words outside the specification: 0 on a 3 000 000-word uniform scan (545 065 accepted) apart from the 7 words of known finding "
        "kf:reserved-bitmask-immediate-accepted (ORR-immediate with a RESERVED bitmask encoding, UNDEFINED in the Arm ARM, decoded by bad64 as mov); "
        "SVE prefetches are specified as NOP; per run: evidence extra.accepted_words_outside_the_specification",
        "not compared by design (a64step = Undef): CONSTRAINED UNPREDICTABLE register coincidences (write-back with base = transfer register, ldp t = t2, "
        "ordered accesses with (1) fields not all ones), accesses wrapping around 2^64; the hypotheses wf / emb / mapped / addr + 4 < 2^64 of sim",
    ],
    "level_text": "38 unbounded Coq theorems (Props/C03.v), closed under the global context: for EVERY integer-class word the specification's decoder "
                  "accepts (all register/immediate/shift/extend/addressing-mode fields) and every state, running the Gallina mirror of the AArch64 builders "
                  "in the reference IL semantics yields the X0-X30/SP, NZCV, memory and next pc of a Gallina transcription of the Arm ARM pseudocode "
                  "(sim_all; SUBS only up to the inverted carry, a known finding with a refutation witness); decode_fields discharges the field ranges and "
                  "c03_end_to_end transfers the result to the IL dumped by the real translate_block for every enumerated word whose kernel-evaluated "
                  "syntactic tie holds. SIMD&FP loads/stores, AdvSIMD element moves and scalar D add/sub are specified, mirrored, tied and compared on sampled states (no theorem). Every run also "
                  "checks that lifter and specification agree on WHICH words are accepted, and counts the accepted words outside the specification.",
    "level_note": "Trusted: Coq kernel + vm_compute; the transcription of the Arm ARM (Isa/A64.v); Exec/Sem.v; the harness printer. The decoder bad64 is not trusted "
                  "beyond the enumerated words: its operand presentation is re-checked against the mirror on every run.",
}
