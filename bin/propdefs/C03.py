from propdefs.common import *

PROP = {
    "bin": "c03",
    "coq_targets": ["theories/Isa/C03Check"],
    "n": {"quick": 1200, "thorough": 16000},
    "theorems": ["run_graph_straight", "tie_transfers", "addsub_imm_sim", "addsub_shift_sim", "mov_reg_sim", "mov_wide_sim", "adds_imm_sim", "adds_shift_sim", "subs_imm_sim_partial", "subs_shift_sim_partial", "subs_carry_refuted", "ldr_imm_sim", "str_imm_sim", "ldst_ord_sim", "stp_sim", "ldp_sim", "ldst_imm_sim", "ldpsw_sim", "ldst_reg_sim", "b_sim", "bl_sim", "br_sim", "blr_sim", "ret_sim", "bcond_sim", "cb_sim", "tb_sim", "addsub_shift_sim_all", "adds_shift_sim_all", "subs_shift_sim_all_partial", "addsub_ext_sim", "adds_ext_sim", "subs_ext_sim_partial", "decode_fields", "sim_all", "c03_end_to_end"],
    "tie_name": "mirror(decode word) = IL dumped by translator::aarch64 (syntactic tie) / dumped IL runs without getting stuck",
    "rule": "case i < 7034: entry (i * 7919 mod 7034) of the structured table of instruction words (add/sub immediate | shifted | extended register x W/X x "
            "with/without flags x register 31 in every field x boundary immediates and amounts; ORR/MOV, MOVZ/MOVN/MOVK; every (size, opc) load/store x "
            "unsigned-offset | unscaled | pre | post | register-offset (all 8 options x S) | ordered | literal | pairs (all four modes, LDPSW) with "
            "base = transfer register coincidences; B, BL, BR, BLR, RET, B.cond x 16, CBZ/CBNZ, TBZ/TBNZ); case i >= 7034: a random word of those classes "
            "(fields uniform, register 31 boosted).  Each word is lifted by the real translate_block (little- and big-endian translator, 6 addresses) and "
            "compared on 2..16 sampled states (boundary values in the registers read, values at carry/overflow boundaries relative to the immediate, "
            "unaligned / page-crossing / top-of-address-space bases, all 16 NZCV for B.cond).  non-trivial = accepted by the lifter and in the listed classes; "
            "distinct by (word, address, endianness)",
    "trusted_base": [KERNEL, HARNESS_TB,
                     "Isa/A64.v: hand transcription of the Arm ARM (DDI 0487) pseudocode for the listed classes, EL0, no alignment/MMU faults (the oracle the property names)",
                     "Exec/Sem.v as the meaning of 'running the lifted IL' (tied to executor::Driver by C07)",
                     "bad64 0.6 / Binary Ninja arm64 decoder: its operand presentation is modelled in Isa/A64Lift.v (operands_of) and re-checked per enumerated word by the syntactic tie"],
    "assumptions": ["data accesses that wrap around 2^64 and CONSTRAINED UNPREDICTABLE register coincidences are outside the comparison (a64step = Undef)",
                    "instruction address + 4 < 2^64"],
    "partial": [
        "theorem [U] + syntactic tie per enumerated word (c03_end_to_end: decode w = Some i /\\ tie => run of the DUMPED IL = a64step, all states; field "
        "ranges discharged by decode_fields): ADD/SUB/ADDS in the immediate, shifted-register (LSL LSR ASR ROR) and extended-register (UXTB..SXTX, #0..4) "
        "forms incl. MOV to/from SP; MOV register (ORR alias); MOV wide / inverted wide (MOVZ/MOVN aliases); every single-register load/store "
        "LDR/LDRB/LDRH/LDRSB/LDRSH/LDRSW/STR/STRB/STRH in all addressing modes (unsigned offset, unscaled, pre-index, post-index, register offset "
        "UXTW/LSL/SXTW/SXTX); LDAR/LDLAR/STLR/STLLR(+B/H); LDP/STP/LDNP/STNP (32/64-bit) and LDPSW in all modes; B, BL, BR, BLR, RET, B.cond, "
        "CBZ/CBNZ, TBZ/TBNZ",
        "partial theorem [U] (sim_c true: everything but C agrees, and c = NOT C is proved) + refutation witness subs_carry_refuted: SUBS in all three "
        "operand forms (known finding kf:subs-carry-is-borrow; fixing it needs the unedited test subs_xn to change)",
        "forms the lifter rejects hold vacuously (sim_rejected): CMP/CMN/NEG/NEGS aliases, MOVK, non-alias MOVZ/MOVN/ORR, LDR/LDRSW literal",
        "accepted by the lifter but outside the property's integer classes and outside Isa/A64.decode, neither theorem nor comparison: SIMD&FP register "
        "loads/stores (ldr/str b/h/s/d/q), NOP, PRFM, STLUR*, LDAPR-class; the harness tags them cov:accepted-outside-the-listed-classes",
        "not compared by design (a64step = Undef): CONSTRAINED UNPREDICTABLE register coincidences (write-back with base = transfer register, ldp t = t2), "
        "accesses wrapping around 2^64; the hypotheses wf / emb / mapped / addr + 4 < 2^64 of sim",
    ],
    "level_text": "36 unbounded Coq theorems (Props/C03.v), closed under the global context: for EVERY word the specification's decoder accepts "
                  "(all listed classes, all register/immediate/shift/extend/addressing-mode fields) and every state, running the Gallina mirror of the "
                  "AArch64 builders in the reference IL semantics yields the X0-X30/SP, NZCV, memory and next pc of a Gallina transcription of the Arm ARM "
                  "pseudocode (sim_all; SUBS only up to the inverted carry, a known finding with a refutation witness); decode_fields discharges the "
                  "field ranges and c03_end_to_end transfers the result to the IL dumped by the real translate_block for every enumerated word whose "
                  "kernel-evaluated syntactic tie (mirror(decoded word) = dumped IL) holds. Independently every enumerated word is compared in the kernel "
                  "against the specification on sampled boundary states.",
    "level_note": "Trusted: Coq kernel + vm_compute; the transcription of the Arm ARM (Isa/A64.v); Exec/Sem.v; the harness printer. The decoder bad64 is not trusted "
                  "beyond the enumerated words: its operand presentation is re-checked against the mirror on every run.",
}
