from propdefs.common import *

PROP = {
    "bin": "c17",
    "coq_targets": ["theories/Flow/C17Check"],
    "n": {"quick": 480, "thorough": 12000},
    "theorems": ["spo_sound", "spo_unknown", "spo_completes"],
    "rule": "random IL functions over the stack pointer of one of the seven architectures (1-6 blocks, <=4 instructions each): "
            "push/pop-like `sp = sp -/+ c`, `c + sp`, nested `(sp + c) - 4`, sp-relative stores/loads, `fp = sp`, `sp = fp`, loads into sp, "
            "and-masking, `sp = const`, other non-affine updates, temporaries, intrinsics; chains, diamonds with unbalanced arms, loops, "
            "entry block inside a loop in ~1/12; 3 executions each from random initial stack pointers (incl. wrapping ones); "
            "non-trivial = contains a push/pop and >= 3 locations; distinct by function text",
    "trusted_base": [KERNEL, HARNESS_TB],
    "assumptions": [],
    "partial": [],
    "level_text": "",
    "level_note": "",
}
