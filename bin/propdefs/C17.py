from propdefs.common import *

PROP = {
    "bin": "c17",
    "minimize": True,   # harness implements `--only i --keep p0,p1,..` (notes/minimisation.md)
    "coq_targets": ["theories/Flow/C17Check"],
    "n": {"quick": 480, "thorough": 12000},
    "theorems": ["spo_sound", "spo_unknown", "spo_completes"],
    "rule": "1/5 of the cases: prologue/epilogue machine code (push/pop, sub/add sp, and-mask, leave, frame-pointer moves, saves/restores of the link register, ret) for x86, amd64, mips, mipsel, ppc, aarch64 lifted by the real translators (Translator::translate_function) and analysed with the matching Architecture; otherwise random IL functions over the stack pointer of one of the seven architectures (1-6 blocks, <=4 instructions each): "
            "push/pop-like `sp = sp -/+ c`, `c + sp`, nested `(sp + c) - 4`, sp-relative stores/loads, `fp = sp`, `sp = fp`, loads into sp, "
            "and-masking, `sp = const`, other non-affine updates, temporaries, intrinsics; chains, diamonds with unbalanced arms, loops, "
            "entry block inside a loop in ~1/12; 3 executions each from random initial stack pointers (incl. wrapping ones); "
            "non-trivial = contains a push/pop and >= 3 locations; distinct by function text",
    "trusted_base": [KERNEL, HARNESS_TB],
    "assumptions": ["cfg_inv (C15) and sp_wf (1 <= w <= 64, one width for the stack pointer's name, well-sorted sources assigned to it) for the theorems", "reported integers are read modulo 2^w (DESIGN.md)", "executions are those of Exec/Sem.v"],
    "partial": [],
    "level_text": "Unbounded Coq theorems about a Gallina transcription of stack_pointer_offsets.rs (as repaired) run through the C09 engine model, parameterised by the stack-pointer scalar: for every function whose entry block has no incoming edge and every stack-pointer width 1..64, the analysis completes within the C09 step bound, every reported number k satisfies sp_after = (sp_entry + k) mod 2^w on every execution of the reference IL semantics, and loads into sp / non-affine sources / disagreeing predecessors never yield a number. Plus an in-kernel differential tie of the model to the Rust code for the stack pointers of all seven architectures and an execution-based oracle on generated functions.",
    "level_note": "Trusted: Coq kernel + vm_compute; the harness; Exec/Sem.v as the meaning of execution; Architecture::stack_pointer() is read from the Rust code by the harness (not modelled); one fifth of the inputs are lifted from machine code by the real translators, the others are IL functions built through the il API; the model is hand-written and tied differentially.",
}
