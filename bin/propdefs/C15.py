from propdefs.common import *

PROP = {
    "bin": "c15",
    "minimize": True,   # harness implements `--only i --keep p0,p1,..` (notes/minimisation.md)
    "coq_targets": ["theories/Cfg/C15Check"],
    "n": {"quick": 600, "thorough": 12000},
    "theorems": ["cfg_inv_preserved", "s_run_inv", "sinv_cfg_inv", "blockify_reachable", "merge_lang", "merge_step_lang", "merge_clang", "merge_step_clang", "append_struct", "append_runs_first_then_second", "insert_struct", "rho_fresh_injective", "graph_inv_preserved", "adjacency_agrees", "history_refines", "e_run_refines", "fourmap_cfg_inv", "fourmap_merge_lang"],
    "rule": "one history per case from one xoshiro256** stream per (seed,index): 1-3 graphs from ControlFlowGraph::new(), 1-50 operations "
            "(new_block, un/conditional_edge incl. self-loops and duplicate guards, set_entry/exit, Block pushes, remove_instruction, set_address, "
            "merge, append/insert of any graph of the case, blockify), block indices mostly existing, 1/12 arbitrary (failing operations); "
            "non-trivial = at least 5 operations with an effective merge or a successful append; distinct by hash of the case term",
    "trusted_base": [KERNEL, HARNESS_TB, "serde_json view of Block (next_instruction_index is private)"],
    "assumptions": [],
    "partial": ["theorems 1-3 are proved on the static-view model Cfg/SOps.v and transported to the four-map model Cfg/CfgOps.v by the proved refinement (history_refines), for operation arguments >= 0 (usize)",
                "lang_eq (C15Check) is an unverified decision procedure: search aid only"],
    "level_text": "Unbounded Coq theorems [U]: (1) every graph reachable from ControlFlowGraph::new() by any sequence of the public operations, failing ones included, satisfies cfg_inv (static-view model); (2) merge terminates, never errs and preserves the language of (operation|guard) words from the entry on every invariant-satisfying graph, with the one-step lemma merge_step_lang; (3) append never fails under its documented precondition and is the disjoint union with an injectively re-indexed copy plus exactly one unconditional edge, its executable words are those of the first graph or a complete word of the first followed by a word of the second; (4) on the four-map model over Graph/Graph.v every history keeps C11's graph_inv and successor/predecessor queries agree with the edge set; (5) the four-map model refines the static model operation by operation (history_refines), which transports (1) and (2). Both models are tied to the Rust code differentially in the kernel after every operation of generated histories, and every observed state is checked against the invariant and (merge, append, insert) a language-equivalence oracle.",
    "level_note": "Trusted: Coq kernel + vm_compute; the harness/pretty-printer; the model (Cfg/CfgOps.v over Graph/Graph.v) is hand-written and tied to the code differentially, not by translation.",
}
