from propdefs.common import *

PROP = {
    "bin": "c15",
    "coq_targets": ["theories/Cfg/C15Check"],
    "n": {"quick": 600, "thorough": 12000},
    "theorems": [],
    "rule": "one history per case from one xoshiro256** stream per (seed,index): 1-3 graphs from ControlFlowGraph::new(), 1-50 operations "
            "(new_block, un/conditional_edge incl. self-loops and duplicate guards, set_entry/exit, Block pushes, remove_instruction, set_address, "
            "merge, append/insert of any graph of the case, blockify), block indices mostly existing, 1/12 arbitrary (failing operations); "
            "non-trivial = at least 5 operations with an effective merge or a successful append; distinct by hash of the case term",
    "trusted_base": [KERNEL, HARNESS_TB, "serde_json view of Block (next_instruction_index is private)"],
    "assumptions": [],
    "partial": [],
    "level_text": "",
    "level_note": "Trusted: Coq kernel + vm_compute; the harness/pretty-printer; the model (Cfg/CfgOps.v over Graph/Graph.v) is hand-written and tied to the code differentially, not by translation.",
}
