from propdefs.common import *

PROP = {
    "bin": "c02",
    "coq_targets": ["theories/Isa/C02Check", "theories/Isa/MipsAll", "theories/Isa/MipsRefuted", "theories/Isa/PpcProofs"],
    "n": {"quick": 2400, "thorough": 60000},
    "theorems": ["mips_plain_forms_correct", "mips_single_block_correct", "mips_control_correct", "mips_branch_block_correct",
                 "mips_fields_okb_ok", "mips_branch_okb_ok", "mips_nodup_temps_distinct", "ppc_forms_correct", "ppc_fields_okb_ok", "mips_fields_okb_complete", "mips_branch_okb_complete", "ppc_fields_okb_complete",
                 "mips_jr_target_read_after_slot_refuted", "mips_unaligned_lw_refuted"],
    "tie_name": "mirror_block (decoded words) = IL dumped by translator::mips::{Mips,Mipsel}::translate_block",
    "rule": "case i: i mod 4 = 3 is a PowerPC case, the others MIPS. MIPS case = form (k mod #forms) x variant (k div #forms): the variant picks "
            "endianness, lift address {0x401000, 0x90002000}, register pattern (distinct, $zero in each field, rd=rs, rd=rt, rs=rt, all equal, $ra, "
            "field sweeps 0..31), immediate {0,1,0xffff,0x7fff,0x8000,0xfffc,random}, and for branches one of 11 delay-slot classes (nop, writes the "
            "branch's source, reads $ra, writes $ra, lw, sw $ra, mult, trapping add, lwl, ...); 12 sampled states per case (overflow / sign boundaries, "
            "shift amounts >= 32, all four byte offsets and page-end / wrap addresses for lwl lwr swl swr). PPC likewise over 30 forms, 10 states. "
            "non-trivial = accepted by the lifter; distinct by (form, words, endianness, address)",
    "trusted_base": [KERNEL, HARNESS_TB, "Isa/Mips.v, Isa/Ppc.v (hand transcriptions of the MIPS32 / PowerPC Book I manuals: the oracle)",
                     "Exec/Sem.v + Isa/ILRun.v (reference IL semantics; tied to executor::Driver by C07)",
                     "capstone's decoder (its alias selection is modelled in the mirror and tied syntactically)"],
    "assumptions": ["lift address a with 0 <= a and a + 8 < 2^32; branch targets inside [0, 2^32)",
                    "sc on the LLbit = 1 path", "PPC: Rc = 0 and OE = 0 encodings; every crN-so equals XER[SO] in sampled states (the IL has no XER[SO])"],
    "partial": [
        "MIPS theorem + syntactic tie [U]: all 60 non-control forms the lifter handles except rdhwr (ALU, shifts, immediates, lui, clz/clo, mult/div/madd/msub with HI/LO, "
        "mfhi/mflo/mthi/mtlo, lb lbu lh lhu lw ll lwl lwr sb sh sw sc swl swr in both endiannesses, teq break syscall sync pref) and all 12 branch/jump forms x every such slot form",
        "MIPS side conditions: memory forms for mapped and naturally aligned accesses (complement = kf:mips-unaligned-access-no-address-error); jr/jalr for slots that leave the target "
        "register unchanged (complement = kf:mips-jr-jalr-target-read-after-slot); div/divu by zero: HI/LO UNPREDICTABLE, not compared; sc on the LLbit = 1 path; rdhwr sampled only (UNPREDICTABLE)",
        "PowerPC theorem + syntactic tie [U]: add subf addze addi/li addis/lis cmpwi cmplwi lbz lwz lwzu stw stwu mr nop rlwinm/slwi srawi mtlr mtctr mflr b bl blr bctr; stmw: mirror + tie + sampled only",
        "PowerPC forms capstone decodes but the lifter rejects are not judged: every bc / conditional bclr, cmpwi/cmplwi cr0, or, ori, mfctr, RA = 0 memory forms (so the suspected bclr-CTR defect is neither confirmed nor refuted)",
        "accepted encodings with non-canonical reserved fields are listed (extra.mips_sweep_accepted) but not judged; PPC Rc = 1 / OE = 1 encodings are outside the specification",
    ],
    "level_text": "Unbounded Coq theorems (all register/immediate fields, all lift addresses, all well-formed machine states, all IL states embedding them) that Gallina mirrors of the "
                  "MIPS and PowerPC semantics builders, of the MIPS delay-slot sequencing and of merge_successors produce IL whose reference-semantics run equals a manual-derived ISA "
                  "specification: every MIPS form the lifter handles except rdhwr (60 non-control forms, 12 branch/jump forms with every delay-slot form) and every PowerPC form it accepts "
                  "except stmw. On every run each mirror is compared syntactically with the IL the real lifter emits for each enumerated encoding (which transfers the theorems to that "
                  "encoding for all states), and the emitted IL is executed in the kernel against the specification on sampled states.",
    "level_note": "Trusted: Coq kernel + vm_compute; the two ISA specifications; Exec/Sem.v; capstone; the harness printer. No theorem: PPC stmw, MIPS rdhwr.",
}
