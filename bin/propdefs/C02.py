from propdefs.common import *

PROP = {
    "bin": "c02",
    "coq_targets": ["theories/Isa/C02Check", "theories/Isa/MipsProofs", "theories/Isa/MipsRefuted"],
    "n": {"quick": 2400, "thorough": 60000},
    "theorems": ["mips_plain_forms_correct", "mips_single_block_correct", "mips_control_correct", "mips_branch_block_correct",
                 "mips_fields_okb_ok", "mips_branch_okb_ok",
                 "mips_jr_target_read_after_slot_refuted", "mips_unaligned_lw_refuted"],
    "tie_name": "mirror_block (decoded words) = IL dumped by translator::mips::{Mips,Mipsel}::translate_block",
    "rule": "case i: i mod 4 = 3 is a PowerPC case, the others MIPS. MIPS case = form (k mod #forms) x variant (k div #forms): the variant picks "
            "endianness, lift address {0x401000, 0x90002000}, register pattern (distinct, $zero in each field, rd=rs, rd=rt, rs=rt, all equal, $ra, "
            "field sweeps 0..31), immediate {0,1,0xffff,0x7fff,0x8000,0xfffc,random}, and for branches one of 11 delay-slot classes (nop, writes the "
            "branch's source, reads $ra, writes $ra, lw, sw $ra, mult, trapping add, lwl, ...); 12 sampled states per case (overflow / sign boundaries, "
            "shift amounts >= 32, all four byte offsets and page-end / wrap addresses for lwl lwr swl swr). PPC likewise over 30 forms, 10 states. "
            "non-trivial = accepted by the lifter; distinct by (form, words, endianness, address)",
    "trusted_base": [KERNEL, HARNESS_TB, "Isa/Mips.v, Isa/Ppc.v (hand transcriptions of the MIPS32 / PowerPC Book I manuals: the oracle)",
                     "Exec/Sem.v + Isa/ILRun.v (reference IL semantics; tied to executor::Driver by C07)",
                     "capstone's decoder (its alias selection is modelled in the mirror and tied syntactically)"],
    "assumptions": ["lift address a with 0 <= a and a + 8 < 2^32; branch targets inside [0, 2^32)",
                    "sc on the LLbit = 1 path", "PPC: Rc = 0 and OE = 0 encodings; every crN-so equals XER[SO] in sampled states (the IL has no XER[SO])"],
    "partial": [
        "MIPS theorem + syntactic tie [U]: add addu sub subu and or xor nor slt sltu movn movz mul sll srl sra sllv srlv srav addi addiu slti sltiu andi ori xori "
        "lui mfhi mflo mthi mtlo teq break syscall sync pref (aliases move negu nop); j jal jr jalr beq bne blez bgtz bltz bgez bltzal bgezal x every such slot form",
        "MIPS spec + mirror (syntactic tie) + sampled comparison, no theorem [D]: mult multu madd maddu msub msubu div divu clz clo lb lbu lh lhu lw ll lwl lwr sb sh sw sc swl swr",
        "MIPS sampled only: rdhwr (UNPREDICTABLE in the spec: nothing compared)",
        "jr/jalr theorem assumes the slot leaves the target register unchanged (complement = known finding kf:mips-jr-jalr-target-read-after-slot)",
        "PowerPC: spec + sampled comparison only [D]; no mirror, no theorem",
        "accepted encodings with non-canonical reserved fields are listed (extra.mips_sweep_accepted) but not judged",
    ],
    "level_text": "MIPS: unbounded Coq theorems (all register/immediate fields, all states, all embeddings) that a Gallina mirror of the semantics builders and of the "
                  "delay-slot sequencing produces IL whose reference-semantics run equals a manual-derived ISA specification, for 39 non-control forms and all 12 branch/jump "
                  "forms with every such delay-slot form; on every run the mirror is compared syntactically with the IL the real lifter emits for each enumerated encoding, "
                  "and the emitted IL is executed in the kernel against the specification on sampled states. The remaining 24 accepted MIPS forms and all PowerPC forms: "
                  "sampled in-kernel comparison only.",
    "level_note": "Trusted: Coq kernel + vm_compute; the two ISA specifications; Exec/Sem.v; capstone; the harness printer. Not proved: multiply/divide/HI-LO, clz/clo, loads/stores, PowerPC.",
}
