from propdefs.common import *

PROP = {
    "bin": "c02",
    "coq_targets": ["theories/Isa/C02Check"],
    "n": {"quick": 2400, "thorough": 60000},
    "theorems": [],
    "rule": "case i = form (i mod #forms) x variant (i div #forms): variant picks endianness, register pattern (distinct, $zero in each field, "
            "rd=rs, rd=rt, rs=rt, all equal, $ra, field sweeps), immediate {0,1,0xffff,0x7fff,0x8000,0xfffc,random}, for branches a delay-slot class; "
            "each case carries 12 sampled states (overflow / sign boundaries, shift amounts >= 32, unaligned and page-crossing addresses). "
            "non-trivial = accepted by the lifter; distinct by (form, words, endianness, address)",
    "trusted_base": [KERNEL, HARNESS_TB, "Isa/Mips.v (transcription of the MIPS32 manual)", "Exec/Sem.v (reference IL semantics, tied to executor::Driver by C07)", "capstone (decoder)"],
    "assumptions": [],
    "partial": [],
    "level_text": "in progress",
    "level_note": "",
}
