from propdefs.common import *

PROP = {
    "bin": "c12",
    "minimize": True,   # harness implements `--only i --keep p0,p1,..` (notes/minimisation.md)
    "coq_targets": ["theories/Flow/C12Check", "theories/Flow/RDProofs"],
    "n": {"quick": 320, "thorough": 8000},
    "theorems": ["rd_sound", "rd_precise", "ud_contains_last_writer", "ud_guards_contain_last_writer", "du_inverse"],
    "rule": "random IL functions (1-6 blocks, <=4 instructions each, loops in 2/3, guarded edges, empty blocks, loads/stores, "
            "injected `x = x - 4`, `z = x + y`, `x = x ^ x`, definitions read only by a guard, intrinsics with declared/undeclared/multi-scalar effects in 30%, "
            "unreachable blocks in ~7%, one name at two widths (a:32 / a:8) in 20%), 3 initial states each, 60 steps; non-trivial = >= 4 locations and (multi-read instruction or loop or "
            "guarded edge or instruction reading its own destination); distinct by function text",
    "trusted_base": [KERNEL, HARNESS_TB],
    "assumptions": ["functions satisfy C15's structural invariant cfg_inv (du_inverse needs nothing)",
                    "execution = Exec/Sem.v (executing an intrinsic is a fault there, so no trace continues past one)"],
    "partial": [],
    "level_text": "Unbounded Coq theorems over all IL functions satisfying cfg_inv (loops, unreachable and empty blocks, intrinsics), all initial "
                  "states, all trace lengths: after every executed location the last writer of every scalar is in the reported reaching "
                  "definitions (rd_sound); every reported assignment/load reaches the location on a path without an intervening assignment/load "
                  "of the same scalar (rd_precise); the use-def chain of every reached instruction and of every evaluated guard, taken or not, "
                  "contains the last writer of every scalar read (ud_contains_last_writer, ud_guards_contain_last_writer); def-use is exactly the "
                  "inverse relation (du_inverse). The engine-solution property (C09) and the forward/backward converse (C18) are discharged, not "
                  "assumed. The Gallina transcriptions of reaching_definitions/use_def/def_use are tied to the Rust code differentially in the "
                  "kernel, and the observed maps are re-judged against executions of Exec/Sem.v.",
    "level_note": "Trusted: Coq kernel + vm_compute; harness/pretty-printer incl. the bit-mask encoding of location sets over Function::locations; "
                  "the models are hand-written and tied differentially, not by translation.",
}
