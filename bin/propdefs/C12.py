from propdefs.common import *

PROP = {
    "bin": "c12",
    "coq_targets": ["theories/Flow/C12Check", "theories/Flow/RDProofs"],
    "n": {"quick": 400, "thorough": 12000},
    "theorems": ["rd_sound", "rd_precise", "ud_contains_last_writer", "ud_guards_contain_last_writer", "du_inverse"],
    "rule": "random IL functions (1-6 blocks, <=4 instructions each, loops in 2/3, guarded edges, empty blocks, loads/stores, "
            "injected `x = x - 4`, `z = x + y`, `x = x ^ x`, intrinsics with declared/undeclared/multi-scalar effects in 30%, "
            "unreachable blocks in ~7%), 3 initial states each; non-trivial = >= 4 locations and (multi-read instruction or loop or "
            "guarded edge or instruction reading its own destination); distinct by function text",
    "trusted_base": [KERNEL, HARNESS_TB],
    "assumptions": [],
    "partial": [],
    "level_text": "",
    "level_note": "",
}
