from propdefs.common import *

PROP = {
    "bin": "c13",
    "coq_targets": ["theories/Flow/C13Check"],
    "n": {"quick": 480, "thorough": 12000},
    "theorems": ["constants_sound_partial", "constants_eval_sound_partial", "constants_sound_refuted"],
    "rule": "random IL functions over 2-5 scalars (1-6 blocks, <=4 instructions each): constant assignments, `s = t op c`, `s = t op u`, "
            "`s = s + 1`, loads, stores, intrinsics with declared/undeclared effects, indirect branches, flags from comparisons; chains, "
            "diamonds, loops, entry inside a loop in ~1/12, an unreachable predecessor block in ~1/5, entry block initialising every scalar in 1/2; "
            "3 executions each from random initial states, 3 Constants::eval probes; non-trivial = >= 4 locations and (diamond or loop or load or "
            "indirect branch); distinct by function text",
    "trusted_base": [KERNEL, HARNESS_TB],
    "assumptions": [],
    "partial": [],
    "level_text": "",
    "level_note": "",
}
