from propdefs.common import *

PROP = {
    "bin": "c13",
    "minimize": True,   # harness implements `--only i --keep p0,p1,..` (notes/minimisation.md)
    "coq_targets": ["theories/Flow/C13Check"],
    "n": {"quick": 480, "thorough": 12000},
    "theorems": ["constants_sound", "constants_eval_sound", "constants_exact", "constants_remap_total", "constants_completes", "constants_only_budget_error", "constants_half_assigned_repaired"],
    "rule": "random IL functions over 2-5 scalars (1-6 blocks, <=4 instructions each): constant assignments, `s = t op c`, `s = t op u`, "
            "`s = s + 1`, loads, stores, intrinsics with declared/undeclared effects, indirect branches, flags from comparisons; chains, "
            "diamonds, loops, entry inside a loop in ~1/12, an unreachable predecessor block in ~1/5, entry block initialising every scalar in 1/2; "
            "3 executions each from random initial states, 3 Constants::eval probes; non-trivial = >= 4 locations and (diamond or loop or load or "
            "indirect branch); distinct by function text",
    "trusted_base": [KERNEL, HARNESS_TB],
    "assumptions": ["cfg_inv (C15) and c13_wf (one width per scalar name, well-sorted assignment sources of the destination width) for the theorems", "executions are those of Exec/Sem.v"],
    "partial": [],
    "level_text": "Unbounded Coq theorems about a Gallina transcription of constants.rs (lattice, length-first partial_cmp, join, eval, trans, remap) run through the C09 engine model: on every well-formed function (no definite-assignment hypothesis), every reported constant and every Constants::eval answer agrees with every execution of the reference IL semantics (all loops, all initial states); the engine result is an exact solution; the remap pass is total; the analysis completes within the C09 step bound and for any budget fails only with FixedPointMaxSteps. Plus an in-kernel differential tie of the model to the Rust code and an execution-based oracle on generated functions.",
    "level_note": "Trusted: Coq kernel + vm_compute; the harness (generator, Debug-rendering parser of the private map, printer); Exec/Sem.v as the meaning of execution (executions stop at intrinsics and indirect branches); the model is hand-written and tied to the code differentially.",
}
