from propdefs.common import *
import os
# C19_N=<k> shrinks the quick tier for scratch-worktree experiments (never set by registered commands)

PROP = {
    "bin": "c19",
    "coq_targets": ["theories/Elf/C19Check", "theories/Elf/ElfProofs", "theories/Elf/ElfLink"],
    "n": {"quick": int(os.environ.get("C19_N", "320")), "thorough": 6000},
    "theorems": ["memory_image", "arch_of_header", "rebase_uniform_memory", "rebase_uniform_sections", "rebase_uniform_entries", "rebase_uniform_symbols", "rebase_uniform_program_entry", "entries_are", "reloc_once_partial", "reloc_once"],
    "rule": "one xoshiro256** stream per (seed,index): 80% single objects (ELF32/64, LE/BE, EM_386/X86_64/MIPS/PPC/AARCH64 plus refused PPC-LE and "
            "unsupported machines; 1-5 program headers with filesz <= memsz, random flags incl. OS bits, odd alignments, occasional overlap; .symtab and, in 60%, "
            "a dynamic segment with .dynsym/.hash/PLT relocations; 0-2 user entries) loaded at base 0 and at a base from {0, 0x1000, 0x40000000, random}; "
            "20% EM_386 main + libx.so (DT_NEEDED, 1-4 JMP_SLOT/GLOB_DAT/R_386_32 relocations) through ElfLinker; "
            "non-trivial = loaded with base != 0, or linked; distinct by the whole case text",
    "trusted_base": [KERNEL, HARNESS_TB, "goblin 0.6.0 (ELF parser: the model's inputs are what goblin parsed from the generated file)"],
    "assumptions": ["goblin parses the generated files as written", "u64 additions are overflow-checked (harness build profile)"],
    "partial": ["reloc_once is proved for the modelled x86 relocation pass (relocs_x86: R_386_32/GLOB_DAT/JMP_SLOT, disjoint slots each inside one stored section) "
                "and for the symbol table of the two-object link (reloc_once_partial); that the slots of a concrete link lie inside one section of the merged memory is a hypothesis; "
                "R_386_RELATIVE, relocations_mips, DT_NEEDED recursion beyond one library, just_interpreter and program_verbose/program_recursive_verbose are not covered by theorems "
                "(the first is modelled and tied, the others are not modelled)"],
    "level_text": "Unbounded Coq theorems that the Gallina transcription of loader::Elf (after goblin) maps exactly the image (file bytes, zero fill, translated R/W/X, nothing else), "
                  "selects the architecture named in the header, reports exactly the defined function symbols + entry + user entries, and rebases memory, entries, symbols and the "
                  "program entry uniformly; plus an in-kernel differential tie of that transcription (and of the x86 linker path) to the Rust code on generated ELF files.",
    "level_note": "Trusted: Coq kernel + vm_compute; goblin (its parse of each generated file is the model's input); the harness's ELF writer and pretty-printer. "
                  "The model is hand-written and tied to the code differentially, not by translation.",
}
