from propdefs.common import *
import os
# C19_N=<k> shrinks the quick tier for scratch-worktree experiments (never set by registered commands)

PROP = {
    "bin": "c19",
    "coq_targets": ["theories/Elf/C19Check", "theories/Elf/ElfProofs", "theories/Elf/ElfLink", "theories/Elf/ElfMips", "theories/Elf/ElfLinkN", "theories/Elf/ElfMipsFull"],
    "n": {"quick": int(os.environ.get("C19_N", "240")), "thorough": 6000},
    "theorems": ["memory_image", "arch_of_header", "rebase_uniform_memory", "rebase_uniform_sections", "rebase_uniform_entries", "rebase_uniform_symbols", "rebase_uniform_program_entry", "entries_are", "reloc_once_partial", "reloc_once", "reloc_once_relative", "reloc_once_link", "reloc_once_mips", "reloc_once_linkn", "link_symbol_first", "link_exports_once", "interp_image", "reloc_once_linkn_relative", "reloc_once_mips_full"],
    "rule": "one xoshiro256** stream per (seed,index): 80% single objects (ELF32/64, LE/BE, EM_386/X86_64/MIPS/PPC/AARCH64 plus refused PPC-LE and "
            "unsupported machines; 1-5 program headers with filesz <= memsz, random flags incl. OS bits, odd alignments, occasional overlap; .symtab and, in 60%, "
            "a dynamic segment with .dynsym/.hash/PLT relocations; 0-2 user entries) loaded at base 0 and at a base from {0, 0x1000, 0x40000000, random}; "
            "10% EM_386 main + one or two libraries (DT_NEEDED libx.so/liby.so at 0x42000000/0x44000000, duplicate definitions; or just_interpreter with /ld.so at 0x40000000; 1-4 JMP_SLOT/GLOB_DAT/R_386_32 relocations) and 10% EM_MIPS (BE/LE) main + libx.so (GOT with local/global entries, "
            "R_MIPS_REL32 with and without a named symbol) through ElfLinker; "
            "non-trivial = loaded with base != 0, or linked; distinct by the whole case text",
    "trusted_base": [KERNEL, HARNESS_TB, "goblin 0.6.0 (ELF parser: the model's inputs are what goblin parsed from the generated file)"],
    "assumptions": ["goblin parses the generated files as written", "u64 additions are overflow-checked (harness build profile)"],
    "partial": ["reloc_once: x86 proved at memory level (reloc_once, reloc_once_relative) and from description-level hypotheses for one library, k libraries, "
                "just_interpreter and R_386_RELATIVE in main (reloc_once_link, reloc_once_linkn, interp_image, reloc_once_linkn_relative; libraries without relocations of their own); "
                "MIPS proved at memory level, conditional on the pass returning Ok (reloc_once_mips, reloc_once_mips_full: local/defined/external GOT entries, R_MIPS_REL32 incl. named symbols); "
                "open: a description-level MIPS link theorem, libraries with their own relocations (incl. R_386_RELATIVE in a library) at description level; "
                "nested DT_NEEDED, dynrelas, program_verbose/program_recursive_verbose: not modelled"],
    "level_text": "Unbounded Coq theorems that the Gallina transcription of loader::Elf (after goblin) maps exactly the image (file bytes, zero fill, translated R/W/X, nothing else), "
                  "selects the architecture named in the header, reports exactly the defined function symbols + entry + user entries, and rebases memory, entries, symbols and the "
                  "program entry uniformly; plus an in-kernel differential tie of that transcription (and of the x86 linker path) to the Rust code on generated ELF files.",
    "level_note": "Trusted: Coq kernel + vm_compute; goblin (its parse of each generated file is the model's input); the harness's ELF writer and pretty-printer. "
                  "The model is hand-written and tied to the code differentially, not by translation.",
}
