from propdefs.common import *
import os

# C01_N=<n> overrides the number of encodings of the quick tier (larger ad-hoc runs)

PROP = {
    "bin": "c01",
    "coq_targets": ["theories/Isa/C01Check", "theories/Isa/X86Proofs", "theories/Isa/X86Tie", "theories/Isa/X86SimMem", "theories/Isa/X86SimStack", "theories/Isa/X86SimCarry", "theories/Isa/X86SimMore", "theories/Isa/X86SimXchg", "theories/Isa/X86SimMul", "theories/Isa/X86SimShift", "theories/Isa/X86SimRot", "theories/Isa/X86SimCtl", "theories/Isa/X86SimBt", "theories/Isa/X86SimCall", "theories/Isa/X86SimCmov"],
    "n": {"quick": int(os.environ.get("C01_N", "2400")), "thorough": 40000},
    "theorems": ["reg_get_set_correct", "reg_set_prefix_refuted", "of_add_correct", "of_sub_correct", "cf_sub_correct",
                 "cf_add_correct", "sf_correct", "set_zf_den", "set_sf_den", "set_cf_den", "set_of_den", "lift_mov_reg_reg_correct",
                 "add_reg_ops_correct", "sub_reg_ops_correct", "cmp_reg_ops_correct", "logic_reg_ops_correct", "incdec_reg_ops_correct",
                 "il_run_one_block", "add_sim", "sub_sim", "cmp_sim", "logic_sim", "incdec_sim", "mov_sim", "tie_transfers",
                 "ck_tie_is_syntactic_tie", "cc_condition_correct", "setcc_sim", "movx_sim", "addr_expr_correct", "lea_sim", "mem_load_spec", "mem_store_spec", "mov_load_sim", "mov_store_sim", "add_load_sim", "sub_load_sim",
                 "cmp_load_sim", "logic_load_sim", "movx_load_sim", "add_rmw_sim", "sub_rmw_sim", "tie_transfers_when", "logic_rmw_sim", "cmp_mem_sim", "incdec_rmw_sim", "push_sim", "pop_sim", "push_mem_sim", "pop_mem_sim",
                 "adc_sim", "adc_load_sim", "adc_rmw_sim", "sbb_sim", "sbb_load_sim", "sbb_rmw_sim",
                 "test_sim", "test_mem_sim", "neg_sim", "neg_rmw_sim", "not_sim", "not_rmw_sim", "xchg_sim", "xchg_mem_sim", "xadd_sim", "xadd_mem_sim", "imul2_sim", "imul3_sim", "shift_sim", "shift1_sim", "rot_sim", "rot1_sim", "il_run_block_goto", "jmp_rel_sim", "jmp_ind_sim", "ret0_sim", "ret_imm_sim", "jcc_sim", "jcxz_sim", "loop_sim", "bt_sim", "call_rel_sim", "call_ind_sim", "cmov_sim"],
    "rule": "instruction encodings enumerated from the opcode tables of harness/src/bin/c01.rs (mnemonic x operand size 8/16/32/64(/128) x "
            "register/memory/immediate forms x legacy high-byte registers x rep/repne x both modes, plus 1 076 PRIORITY forms -- 412 operand-aliasing forms (same-register pairs, sub-register-of-destination sources, base/index = destination), 212 address-size-prefixed forms (amd64 0x67 32-bit and x86 0x67 16-bit addressing for lea/mov/add and the bit-string forms bt/bts/btr/btc m,r), 425 boundary-immediate forms (every accepted instruction with an imm8 count/selector -- rol/ror/shl/shr/sar, shld/shrd, bt/bts/btr/btc, pslldq/psrldq, pshufd -- with {0,1,size-1,size,size+1,15,16,17,31,32,33,63,64,65,0x7f,0x80,0xff} per operand size (a reduced list in 32-bit mode), ret imm16 boundaries; since round 7 also jcxz/jecxz/jrcxz/loop* in every flavour of both modes, with (e/r)cx = 0 and = 1 in the first two states, and ret/ret imm16 in both modes) -- that are visited first, interleaved 1:1 with the rest, so the quick tier (2 400 encodings) contains all of them; cl counts are sampled from the same boundary list; about 6 300 forms); per memory operand the six states cycle through plain / wrapping (index with the top address bit set, base solved modulo 2^asz so that base+index*scale+disp wraps 2^16, 2^32 or 2^64 into a scratch page) / boundary-index scenarios, prefixed registers carry garbage above the address width, lea sums are placed at wrap-by-a-little, 2^asz-1 and 2^(asz-1), bit-string offsets of narrow-addressed bt* are a small amount plus a multiple of 2^(asz+3) (the element is mapped only if the whole address wraps at the address width), visited in a "
            "seed-dependent permutation, wrapping around with fresh operands/states when n exceeds the table; each encoding with 6 "
            "boundary-biased machine states (registers, flags, memory image, class-specific count/divisor/pointer hints); amd64 samples carry "
            "the host CPU's result; non-trivial = encoding accepted by the lifter; distinct by (mode, bytes)",
    "trusted_base": [KERNEL, HARNESS_TB,
                     "the host processor (AMD EPYC) observed through native/x86run.c (state load/save via signal contexts)",
                     "Isa/X86.v: hand transcription of the Intel SDM instruction pages -- compared with the processor inside Coq on every amd64 sample of every run",
                     "the harness' own encoder (opcode tables): a wrong encoding shows up as a spec-vs-CPU disagreement",
                     "Exec/Sem.v as the meaning of IL (tied to executor::Driver by C07)"],
    "assumptions": ["flat segmentation (cs/ds/es/ss bases 0); fs/gs-relative forms not generated",
                    "results the SDM calls undefined are not compared; PF/AF are not modelled by the lifter and not compared (PF is an input to jp/setp/cmovp)",
                    "32-bit mode has no processor oracle on this host: x86 forms are compared with Isa/X86.v only (the same spec functions are validated through the amd64 encodings)"],
    "partial": [
        "THEOREM + SYNTACTIC TIE, all states (Props/C01.v: *_sim theorems + tie_transfers / tie_transfers_when): for these forms, for every well-formed machine state and EVERY IL state "
        "embedding it, X86Run.run_instr on the real lifter's dumped IL AND successor list (carried over by the syntactic tie, checked each run; the successor list of translate_block is "
        "part of the tie since round 7, X86Mirror.mirror_succ) ends in a state embedding X86.step's result -- all GPRs, CF/ZF/SF/OF/DF (where the spec defines them), memory, next address. "
        "Forms: mov, add, sub, cmp, and, or, xor, adc, sbb in all three operand positions (r <- r|imm, r <- [m], [m] <- r|imm), test r|[m], r|imm; inc/dec/neg/not r and [m]; xchg and "
        "xadd r,r and [m],r (incl. ONE register for both operands); imul r,r|[m] and imul r,r|[m],imm; shl/shr/sar/rol/ror r|[m] by imm8, cl and the implicit 1 of the D0/D1 encodings; "
        "bt/bts/btr/btc r,r|imm8 and [m],imm8 (offset modulo the operand size); setcc r8 (14 codes that do not read PF), movzx/movsx/movsxd from register and from memory, "
        "lea r,[base+index*scale+disp], push r|imm|[m], pop r|[m]; control transfers: jmp rel, jmp r|[m], call rel, call r|[m] (register other than the stack pointer), ret and ret imm16 (both modes), jcc (14 codes without PF, incl. target = "
        "fall-through), jcxz/jecxz/jrcxz, loop/loope/loopne, cmovcc r,r (14 codes; incl. the 32-bit zero-extension in long mode when the condition is false) (Goto variant of the one-block runner lemma, guarded successor lists, the three-block graph of a conditional jump); all sub-register "
        "kinds, both modes, every address size incl. the 0x67 prefix. Memory/stack forms are proved under the state condition that the accessed bytes do not cross the end of the address "
        "space of the operand's address size (no_wrap / push_no_wrap / pop_no_wrap; the spec wraps there, Sem faults). In the quick tier: 1 810 of 2 400 encodings (75.4 %, seed 1; 1 826 / "
        "1 826 / 1 851 with seeds 2-4; per mnemonic class in extra.stats['byclass:<class>:<kind>']; evidence extra.stats['encodings:sim-theorem-and-tie']); 45 more (xor x,x lifted to the constant 0; setp/setnp; jp/jnp; cmovcc r,[m] and cmovp/cmovnp; call rsp) have the tie "
        "but no theorem. Also proved for all values: X86Register::get/set, set_zf/sf/of/cf, cc_condition for all 16 codes, Mode::operand_value address expressions = X86.ea, "
        "Sem.mem_load/mem_store = X86 mem_rd/mem_wr at 8/16/32/64 bits",
        "NOT mirrored / no theorem (processor + spec on sampled states only): absolute and rip-relative memory operands (no base, no index) of every form; shld/shrd, cmpxchg, "
        "one-operand mul/imul, div/idiv, the bit-string form bt* [m],r, bsf/bsr, string instructions, leave, cbw..cqo, flag instructions, SSE (the Coq operand type does not distinguish rip-relative from absolute operands, so neither is mirrored)",
        "processor + specification comparison on sampled states only ([D]): every other accepted form of the core classes (ALU incl. adc/sbb/test/neg/not, all memory forms, movzx/movsx/movsxd/lea/xchg/push/pop/call/ret/leave, jmp/jcc/setcc/cmovcc/loop/jecxz, shl/shr/sar/rol/ror/shld/shrd, mul/imul/div/idiv, cbw..cqo, bt/bts/btr/btc, bsf/bsr, movs/cmps/stos/lods/scas with rep, clc/stc/cmc/cld/std)",
        "architecturally undefined (form, state) combinations are never compared: X86.step returns XUnspec there and the oracle is silent (only the tie is evaluated) -- "
        "shld/shrd r/m16 with a masked count above 16 (imm8 or cl; the only count > operand size combination that exists), besides the per-component undefined results "
        "(flags after mul/div/bsf/bt, OF after multi-bit shifts/rotates/shld/shrd, CF after shl/shr by >= size, bsf/bsr destination for a zero source) which are masked out",
        "processor comparison only, no Coq specification: cmpxchg, bswap, sahf, SSE subset (mov*ps/pd/dq*, movq/movd, pxor/por/paddq/psubq/psubb/pcmpeq*/pminub/punpckl*/pshufd/pslldq/psrldq/pmovmskb, movhpd/movlpd)",
        "accepted by the lifter but not generated (no coverage): segment-override forms (fs/gs), 16-bit addressing in 32-bit mode for forms other than lea/mov/add/bt* (those are compared with the specification, image bytes below 64 KiB supplied explicitly), moffs forms of mov, far control transfers, int/syscall/sysenter/hlt/cli/sti/ud2/pause/prefetch (privileged or no architectural state change), lock prefixes, cmpxchg8b/16b is not accepted",
        "x86 (32-bit) SSE forms are rejected by the lifter (no xmm registers in the x86 register table) -- outside the property",
    ],
    "level_text": "Per run, inside the Coq kernel: every generated encoding is lifted by the real lifter, its IL is run in the reference IL semantics from 6 machine states and compared "
                  "with the host processor's result for the same bytes (amd64) and with the Coq ISA specification X86.step (both modes); a sort error at lift or run time is a failure. "
                  "Unbounded Coq theorems (all machine states, all embedding IL states) against X86.step, transferred to the real lifter's dumped IL and successor list by a syntactic tie checked "
                  "each run, for mov/add/sub/cmp/and/or/xor/adc/sbb/test in every operand position, inc/dec/neg/not, xchg/xadd, imul (2- and 3-operand), shl/shr/sar/rol/ror (imm8, cl, 1), "
                  "bt/bts/btr/btc (offset modulo size), setcc (14 codes), movzx/movsx, lea, push/pop, jmp and call rel/indirect, ret/ret imm16, jcc (14 codes), jcxz/jecxz/jrcxz, loop*, cmovcc r,r: "
                  "1 810 of the 2 400 quick-tier encodings (75.4 %); memory and stack forms under a no-address-wrap condition on the state. The other 25 % (absolute/rip-relative operands, "
                  "shld/shrd, mul/div, bit strings, string instructions, cmovcc from memory, SSE) rest on the sampled-state comparison only.",
    "level_note": "Unbounded theorems + per-run syntactic tie for 1 810 of the 2 400 quick-tier encodings (75.4 %); differential against the processor and the Coq ISA specification (sampled states) for the rest. Trusted: Coq kernel + vm_compute, the CPU and the native runner, "
                  "the ISA transcription (validated against the CPU each run), the harness encoder/printer, Exec/Sem.v.",
}
