from propdefs.common import *

PROP = {
    "bin": "c01",
    "coq_targets": ["theories/Isa/C01Check"],
    "n": {"quick": 2400, "thorough": 40000},
    "theorems": ["patch_nil"],
    "rule": "encodings enumerated from the opcode tables of harness/src/bin/c01.rs (both modes), visited in a seed-dependent order; "
            "each with 6 boundary-biased machine states; non-trivial = accepted by the lifter; distinct by (mode, bytes)",
    "trusted_base": [KERNEL, HARNESS_TB, "host CPU via native/x86run.c", "Isa/X86.v (ISA specification, validated against the CPU on every run)"],
    "assumptions": [],
    "partial": [],
    "level_text": "differential",
    "level_note": "",
}
