from propdefs.common import *

PROP = {
    "bin": "c20",
    "coq_targets": ["theories/Arch/C20Check"],
    "n": {"quick": 85, "thorough": 85},
    "theorems": ["cc_ok_sound", "cases_are_cc_ok", "coverage_sound", "coverage_complete", "cc_ok_complete", "clause_complete_partial", "clause_complete_stack_base", "clause_complete_stack_stride"],
    "rule": "finite configuration property: one case per (architecture, clause) for the 7 architectures x 12 clauses, plus one "
            "coverage case; the tables are regenerated from the code on every run; every case is non-trivial; distinct by (architecture, clause)",
    "trusted_base": [KERNEL, HARNESS_TB,
                     "Arch/CcSpec.v: hand transcription of the psABI documents (i386, x86-64, MIPS o32, PPC32 SVR4, AAPCS64) and the per-architecture allow-list a_extras of non-register scalars the lifters may emit",
                     "the guarded hook verif_registers() returns the translators' register tables; the lifted-instruction corpus is a sample of each translator's output"],
    "assumptions": ["the ABI facts of Arch/CcSpec.v are the documents'", "scalars of lifted code are sampled from a fixed corpus of instructions per architecture"],
    "partial": ["clause 'the translator emits ...' is checked against the translator's register table (complete) and against a sample of lifted instructions that exercises every table row with a lifted encoding and the push/pop/call/ret/frame instructions (not all encodings; amd64 xmm16-31, PPC cr0-7, AArch64 z/p rows are never lifted)"],
    "level_text": "Unbounded Coq theorem that the executable checker cc_ok implies the statement of C20 (a Prop over the dumped tables and the ABI transcription), "
                  "plus, on every run, the in-kernel evaluation of cc_ok clause by clause on the tables regenerated from the code (finite domain: 7 architectures).",
    "level_note": "Trusted: Coq kernel + vm_compute; the harness dump/pretty-printer; the ABI transcription CcSpec.v; the register-table hook.",
}
