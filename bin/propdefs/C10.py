from propdefs.common import *

PROP = {
    "bin": "c10",
    "minimize": True,   # harness implements `--only i --keep p0,p1,..` (notes/minimisation.md)
    "coq_targets": ["theories/SSA/C10Check"],
    "coq_targets_thorough": ["theories/SSA/SsaSmall"],
    "n": {"quick": 480, "thorough": 12000},
    "theorems": ["ssa_check_sound", "check_typing_sound", "ssa_step_sim", "ssa_operands_agree",
                 "ssa_total", "ssa_model_erase", "ssa_model_single_def", "ssa_model_arity", "ssa_correct_partial",
                 "non_locals_cover", "idf_covered_model", "idf_no_phi_agree", "idf_no_phi_entry",
                 "rename_edge_agree", "rename_entry_agree"],
    "rule": "cases 0-7 of every seed are fixed shapes (entry self-loop with/without exit, dominator-tree siblings and deep chains that redefine a name, a scalar read and written by the same instruction as its only reader (assign/load), Lengauer-Tarjan's 13-block flow graph, a 12-block ladder); then random IL functions, one xoshiro256** stream per (seed,index): fixed skeletons (diamond whose join branches on guards, nested "
            "diamonds inside a loop, loop through the entry, self-loops, three-way fans) 5/12 and random CFGs of 1-8 blocks with back edges, "
            "self-loops and (1/3) blocks unreachable from the entry 7/12; 0-3 instructions per block (assign 60%, load 10%, store 10%, nop 4-20%, "
            "intrinsics with/without declared effects (1-2 written / read expressions) 16% in 1/3 of the cases; in 1/3 of the cases blocks lose an instruction through remove_instruction (index gaps)) over 3-6 scalars of widths 1/8/16/32/64; in 1/4 of the cases a scalar "
            "`g` is assigned in several blocks and read ONLY by edge guards; 3 initial states per case (values 0..7 or random, 1/12 undefined), 40 steps. "
            "non-trivial = the CFG has a join (a block with >= 2 incoming edges); distinct by hash of the case text",
    "trusted_base": [KERNEL, HARNESS_TB, "Exec/Sem.v + SSA/SemSSA.v as the meaning of `executing` the two forms"],
    "assumptions": ["a scalar name has one width per function (wf_names)", "theorems about the model: cfg_inv and block count <= usize::MAX"],
    "partial": ["completeness for ALL programs (`ssa_correct_full`: the algorithm's output always passes the validator) is not proved: "
                "decided per output by running the verified validator in the kernel [V], proved for 74 676 enumerated functions of <= 3 blocks [F], "
                "and the Gallina model of the algorithm is tied to the Rust output on every generated case [D]",
                "what is proved of it [U]: the model returns Ok (unconditionally since round 4: C11's `snca_correct`; only premise: block count <= usize::MAX), its output erases to the input, "
                "has unique versioned definitions, well-formed structure and phi arity; ssa_check f f' = remaining f' (uses defined, local consistency of the "
                "inferred typing); of `remaining` the dominance-frontier content is proved (the placement covers the iterated frontier: idf_covered_model; "
                "idf_no_phi_agree/idf_no_phi_entry), the renaming invariant of the dominator-tree walk and the completeness of `infer` are the open rest "
                "(SsaComplete.ssa_remaining_open)",
                "`ssa_model_passes_small` [F] is built and checked in the thorough tier only (SSA/SsaSmall.v, coq_targets_thorough)"],
    "level_text": "Unbounded Coq theorem `ssa_check_sound` (closed under the global context): whenever the executable validator accepts (f, f'), "
                  "f' differs from f only in ssa fields and phi nodes, is valid SSA (single assignment; every operand, declared intrinsic read, edge guard "
                  "and phi slot names the most recent definition on every CFG path from the entry; phi arity) and f under Exec/Sem and f' under SSA/SemSSA "
                  "(phi nodes selecting by incoming edge, in parallel) run in lock step from every initial state for every number of steps (same locations, "
                  "values, stores, branches, faults). The validator is run in the kernel on the Rust output of every generated function; a Gallina "
                  "transcription of the algorithm (over the C11 graph models) is compared with the Rust output on the same cases and passes the validator "
                  "on all 74 676 functions of a small enumerated family.",
    "level_note": "Trusted: Coq kernel + vm_compute; Exec/Sem.v and SSA/SemSSA.v as the definition of execution; the harness pretty-printer (the "
                  "dumped f, f' are the terms the validator sees). Not proved: that the algorithm passes the validator on every program (proved of it: the model is total (`ssa_total`), its output erases "
                  "to the input, has unique definitions and correct phi arity, the phi placement covers the iterated dominance frontier; open: the renaming invariant).",
}
