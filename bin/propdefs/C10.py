from propdefs.common import *

PROP = {
    "bin": "c10",
    "coq_targets": ["theories/SSA/C10Check"],
    "n": {"quick": 480, "thorough": 12000},
    "theorems": ["ssa_check_sound", "check_typing_sound", "ssa_step_sim"],
    "rule": "random IL functions, one xoshiro256** stream per (seed,index): fixed skeletons (diamond whose join branches on guards, nested "
            "diamonds inside a loop, loop through the entry, self-loops, three-way fans) 5/12 and random CFGs of 1-8 blocks with back edges, "
            "self-loops and (1/3) blocks unreachable from the entry 7/12; 0-3 instructions per block (assign 68%, load 10%, store 10%, nop 5%, "
            "intrinsics with/without declared effects 7% in 1/5 of the cases) over 3-6 scalars of widths 1/8/16/32/64; in 1/4 of the cases a scalar "
            "`g` is assigned in several blocks and read ONLY by edge guards; 3 initial states per case (values 0..7 or random, 1/12 undefined), 40 steps. "
            "non-trivial = the CFG has a join (a block with >= 2 incoming edges); distinct by hash of the case text",
    "trusted_base": [KERNEL, HARNESS_TB, "Exec/Sem.v + SSA/SemSSA.v as the meaning of `executing` the two forms"],
    "assumptions": ["a scalar name has one width per function (wf_names)"],
    "partial": [],
    "level_text": "",
    "level_note": "",
}
