from propdefs.common import *

PROP = {
    "bin": "c11",
    "coq_targets": ["theories/Graph/C11Check"],
    "n": {"quick": 2300, "thorough": 30000, "smoke": 2100},
    "theorems": ["graph_inv", "graph_inv_step", "remove_vertex_effect", "reachable_correct", "unreachable_correct", "idom_check_sound",
                 "dominators_check_sound", "df_check_sound", "semi_nca_correct_le_3", "algorithms_correct_le_3",
                 "dom_of_idom", "dom_of_root", "df_of_idom", "df_of_root", "dom_antisym", "topo_check_sound", "trans_preds_check_sound", "acyclic_check_sound",
                 "domtree_check_sound", "reducible_check_sound", "loops_check_sound", "back_edges_correct"],
    "rule": "every digraph on 1, 2, 3 vertices x every root (1570 cases, on three of every four positions up to position 2094); the other positions: 70% random digraphs (1-14 vertices, contiguous / sparse / random 64-bit ids, "
            "sparse/dense/spine/DAG shapes, forced self-loops, two-entry cycles, root inside a loop, unreachable components, 2.5% roots outside the graph) on which "
            "every public algorithm is run, 30% edit histories of 1-40 insert/remove operations over a pool of 2-6 ids with all public views dumped after each step; "
            "non-trivial = graph with a cycle, an unreachable vertex or >= 4 vertices / history with a failing operation or a removal of a vertex with incident edges; "
            "distinct by canonical input text",
    "trusted_base": [KERNEL, HARNESS_TB, "std BTreeMap/BTreeSet/FxHashMap taken to be finite maps/sets (ascending iteration for BTree*)"],
    "assumptions": ["vertex ids range over usize (modelled as N); graphs are built through the public insert/remove API"],
    "partial": [],
    "level_text": "",
    "level_note": "",
}
