from propdefs.common import *

PROP = {
    "bin": "c11",
    "minimize": True,   # harness implements `--only i --keep p0,p1,..` (notes/minimisation.md)
    "coq_targets": ["theories/Graph/C11Check"],
    # built only in the thorough tier once vcheck supports the key (42 min of vm_compute when not cached): all digraphs on 4 vertices
    "coq_targets_thorough": ["theories/Graph/SemiNca4"],
    "n": {"quick": 2300, "thorough": 40000, "smoke": 2100},
    "theorems": ["graph_inv", "graph_inv_step", "remove_vertex_effect", "reachable_correct", "unreachable_correct", "idom_check_sound",
                 "dominators_check_sound", "df_check_sound", "semi_nca_correct_le_3", "algorithms_correct_le_3",
                 "dom_of_idom", "dom_of_root", "df_of_idom", "df_of_root", "dom_antisym", "topo_check_sound", "topo_check_complete", "trans_preds_check_sound", "acyclic_check_sound",
                 "domtree_check_sound", "reducible_check_sound", "loops_check_sound", "back_edges_correct", "remove_unreachable_correct", "pre_order_perm", "dominator_tree_of_idoms", "looptree_check_sound",
                 "tab_ok_always", "idom_exists", "idom_unique", "dominator_tree_correct", "compute_dominators_correct", "compute_back_edges_correct",
                 "compute_dominance_frontiers_correct", "unreachable_excluded", "pre_order_search_order",
                 "topo_correct", "topo_error_iff_cycle", "is_acyclic_iff", "post_order_correct", "is_reducible_correct", "pre_order_is_dfs", "compute_loops_correct", "compute_loop_tree_correct", "transitive_preds_correct",
                 "compute_dfs_tree_correct", "compute_acyclic_correct", "pre_order_is_dfs_spec", "pre_order_check_sound", "post_order_check_sound",
                 "dfs_tree_check_sound", "acyclic_graph_check_sound", "snca_numbering", "dfs_edge_lemma", "path_lemma", "sd_cand_edge", "sd_cand_up", "sdom_recurrence", "dom_anc", "idom_anc_cand", "cand_anc", "dom_between", "nca_step",
                 "idom_check_complete", "dfs_tree_pre_order", "dfs_parent_chain", "snca_correct", "dominator_tree_all", "dominators_all", "back_edges_all",
                 "dominance_frontiers_all", "is_reducible_all", "loops_all", "loop_tree_all"],
    "rule": "every digraph on 1, 2, 3 vertices x every root (1570 cases, on three of every four positions up to position 2094), followed at every seed by 30 fixed cases (graphs and edit histories with vertex id usize::MAX = 2^64-1 as vertex / root / DFS-tree parent, 2-cycles a<->b, removal of a vertex whose neighbour is both successor and predecessor); the other positions: 70% random digraphs (1-14 vertices, contiguous / sparse / random 64-bit ids, "
            "sparse/dense/spine/DAG shapes, forced self-loops, two-entry cycles, root inside a loop, unreachable components, 2.5% roots outside the graph) on which "
            "every public algorithm is run, 30% edit histories of 1-40 insert/remove operations over a pool of 2-6 ids with all public views dumped after each step; "
            "non-trivial = graph with a cycle, an unreachable vertex or >= 4 vertices / history with a failing operation or a removal of a vertex with incident edges; "
            "distinct by canonical input text",
    "trusted_base": [KERNEL, HARNESS_TB, "std BTreeMap/BTreeSet/FxHashMap taken to be finite maps/sets (ascending iteration for BTree*)"],
    "assumptions": ["vertex ids range over usize (modelled as N); graphs are built through the public insert/remove API"],
    "partial": ["Semi-NCA and every theorem depending on it are proved for graphs with at most usize::MAX vertices (hypothesis N.of_nat (length (vertex_indices g)) <= usize_max of snca_correct: "
                "the semidominator minimum starts from usize::MAX as in the Rust code, so DFS numbers must not exceed it; a real Graph cannot hold more entries)",
                "the executable oracles accept any DFS child order (each has a soundness theorem against Graph/Spec.v / SpecDfs.v); the exact order the Rust code produces is fixed only by the tie",
                "native recursion depth (stack overflow on very long paths) is not modelled"],
    "level_text": "Unbounded Coq theorems about the Gallina model of falcon::graph: the four views of Graph<V,E> stay mutually consistent under every sequence of insert/remove operations (failing ones included, never a panic); "
                  "reachable/unreachable/remove_unreachable_vertices, pre-order (permutation + search order), post-order (valid DFS finishing order), pre-order is a DFS pre-order (relational), transitive predecessors, topological ordering (Ok = topological order, Err iff cycle), is_acyclic, compute_dfs_tree (spanning tree of the reachable subgraph, its pre-order is the DFS pre-order of the graph), compute_acyclic are correct; "
                  "Semi-NCA is proved for ALL graphs (snca_correct: the model of compute_immediate_dominators returns exactly the textbook immediate-dominator relation, by DFS path lemma, semidominator recurrence, link-eval path compression invariant and the NCA step), hence dominator tree, dominator sets, back edges, dominance frontiers (incl. start node), is_reducible (Hecht-Ullman), natural loops and the loop nesting graph of the model are correct unconditionally and unreachable vertices are excluded; immediate dominators exist and are unique; "
                  "verified validators (idom_check, sound and complete, and fourteen more, each with a soundness theorem -- no oracle is unverified) whose acceptance implies the textbook relational definition, evaluated in the kernel on every result the Rust code returns; "
                  "finite-domain theorems (all digraphs on <= 3 vertices x all roots) for Semi-NCA and for all 17 routines of the model; plus the in-kernel differential tie model = code on generated graphs and edit histories.",
    "level_note": "Trusted: Coq kernel + vm_compute; the harness/pretty-printer; std BTreeMap/FxHashMap as finite maps; the model is hand-written and tied to the code differentially. "
                  "Semi-NCA correctness is [U] for the model (snca_correct), additionally [V] per output of the Rust code and [F] small scope.",
}
