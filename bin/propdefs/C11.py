from propdefs.common import *

PROP = {
    "bin": "c11",
    "coq_targets": ["theories/Graph/C11Check"],
    "n": {"quick": 2400, "thorough": 40000},
    "theorems": [],
    "rule": "cases 0..1569: every digraph on 1, 2, 3 vertices x every root; then 70% random digraphs (1-14 vertices, contiguous / sparse / random 64-bit ids, "
            "sparse/dense/spine/DAG shapes, forced self-loops, two-entry cycles, root inside a loop, unreachable components, 2.5% roots outside the graph) on which "
            "every public algorithm is run, 30% edit histories of 1-40 insert/remove operations over a pool of 2-6 ids with all public views dumped after each step; "
            "non-trivial = graph with a cycle, an unreachable vertex or >= 4 vertices / history with a failing operation or a removal of a vertex with incident edges; "
            "distinct by canonical input text",
    "trusted_base": [KERNEL, HARNESS_TB, "std BTreeMap/BTreeSet/FxHashMap taken to be finite maps/sets (ascending iteration for BTree*)"],
    "assumptions": ["vertex ids range over usize (modelled as N); graphs are built through the public insert/remove API"],
    "partial": [],
    "level_text": "",
    "level_note": "",
}
