from propdefs.common import *

PROP = {
    "bin": "c07",
    "coq_targets": ["theories/Exec/C07Check"],
    "n": {"quick": 640, "thorough": 12000},
    "theorems": [],
    "rule": "one program per (seed,index): 1-2 random IL functions (ilgen::gen_function: 1-6 blocks, loops, empty blocks, 2-/3-way guarded fans, "
            "8/16/32/64-bit loads and stores, mixed-width scalars, big/little-endian paged memory, indirect branches to existing instruction addresses), "
            "random initial scalars and memory, executor::Driver::step run for up to 200 steps with the complete per-step change set recorded; "
            "62% well-formed stream, 38% malformed stream (undefined scalars, unmapped bytes, zero divisors, intrinsics, non-exhaustive / overlapping / "
            "unguarded / single-false guards, store at the top of the address space, >64-bit addresses, ill-typed states, non-byte widths, re-lifting); "
            "non-trivial = at least 3 executed steps including a load, store, fan or branch, or a run ending in one of the property's error kinds; "
            "distinct by hash of the canonical case text",
    "trusted_base": [KERNEL, HARNESS_TB, "paged memory as a byte map (property C08)", "indirect-branch re-lifting (translator oracle)"],
    "assumptions": [],
    "partial": [],
    "level_text": "",
    "level_note": "",
}
