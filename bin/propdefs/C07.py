from propdefs.common import *

PROP = {
    "bin": "c07",
    "minimize": True,   # harness implements `--only i --keep p0,p1,..` (notes/minimisation.md)
    "coq_targets": ["theories/Exec/C07Check"],
    "n": {"quick": 480, "thorough": 12000},
    "theorems": ["step_refines", "guards_det_suffices", "steps_refine", "step_frame", "step_deterministic", "no_guessed_value", "stuck_situations", "paged_exec_sim", "driver_is_byte_instance", "paged_step_refines", "paged_steps_refine", "paged_fresh_related", "example_hypotheses", "example_paged_run"],
    "rule": "one program per (seed,index): 1-2 random IL functions (ilgen::gen_function: 1-6 blocks, loops, empty blocks, 2-/3-way guarded fans, "
            "8/16/32/64-bit loads and stores, mixed-width scalars, big/little-endian paged memory, indirect branches to existing instruction addresses), "
            "random initial scalars and memory, executor::Driver::step run for up to 200 steps with the complete per-step change set recorded; "
            "62% well-formed stream, 38% malformed stream (undefined scalars, unmapped bytes, zero divisors, intrinsics, non-exhaustive / overlapping / "
            "unguarded / single-false guards, stores/loads at and over the top of the address space, >64-bit addresses, ill-typed states, non-byte widths, re-lifting); "
            "non-trivial = at least 3 executed steps including a load, store, fan or branch, or a run ending in one of the property's error kinds; "
            "distinct by hash of the canonical case text",
    "trusted_base": [KERNEL, HARNESS_TB, "C08's proofs about Mem/Paged.v (composed formally: paged_step(s)_refine)", "C18's IL/LocProofs.v (closure of valid locations)", "indirect-branch re-lifting (translator oracle)"],
    "assumptions": ["memory operands narrower than 2^63 bits (composition with C08)", "program well formed: cfg_inv, wf_expr/wf_op sort rules, wf_names (one width and SSA version per name), "
                    "guards on every edge of a fan", "widths < 2^64", "no load/store range wrapping past 2^64 (top_at; property silent on wrapped ranges)",
                    "the run starts at a valid location (C18 valid_loc)"],
    "partial": ["re-lifting at indirect-branch targets outside the program: translator oracle, nothing claimed after it",
                "load/store whose range wraps past 2^64: excluded (property silent; store => Err(Custom), load => None or overflow panic)",
                "re-lifting oracle assumed not to distinguish a paged memory from its byte view (lift_compat)"],
    "level_text": "Unbounded Coq theorems that the Gallina transcription of State::execute / Driver::step refines the executable IL semantics Exec/Sem.v "
                  "(one step, all step counts, frame, determinism, every error situation reported as Err), composed with C08 into one statement (the driver over the real paged-memory model refines Sem), plus an in-kernel differential tie of the "
                  "transcription to executor::Driver::step on generated programs (complete per-step change sets) and an oracle check of every observed "
                  "transition against Sem.sem_step.",
    "level_note": "Trusted: Coq kernel + vm_compute; the harness/pretty-printer; the re-lifting translator; "
                  "the model is hand-written and tied to the code differentially, not by translation.",
}
