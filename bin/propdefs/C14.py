from propdefs.common import *

PROP = {
    "bin": "c14",
    "coq_targets": ["theories/Flow/C14Check"],
    "n": {"quick": 400, "thorough": 12000},
    "theorems": [],
    "rule": "random IL functions as for C12 (loops, guarded edges, empty blocks, loads/stores, `x = x - 4`, `z = x + y`), "
            "intrinsics in 45% (undeclared, declared, multi-scalar, write-only, read-only, empty effects), indirect branches in 30%, "
            "blocks unreachable from the entry in ~13%; 4 initial states each, 60 execution steps; "
            "non-trivial = >= 4 locations and at least one operation replaced by nop; distinct by function text",
    "trusted_base": [KERNEL, HARNESS_TB, "the harness's comparison `output == input with nops at mask` (Rust derived ==) behind the compact ODiff encoding"],
    "assumptions": [],
    "partial": [],
    "level_text": "",
    "level_note": "",
}
