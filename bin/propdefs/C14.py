from propdefs.common import *

PROP = {
    "bin": "c14",
    "minimize": True,   # harness implements `--only i --keep p0,p1,..` (notes/minimisation.md)
    "coq_targets": ["theories/Flow/C14Check", "theories/Flow/DCEProofs"],
    "n": {"quick": 320, "thorough": 8000},
    "theorems": ["dce_shape", "dce_equiv", "key_consistent_check", "key_consistent_check_complete"],
    "rule": "random IL functions as for C12 (loops, guarded edges, empty blocks, loads/stores, `x = x - 4`, `z = x + y`, definitions read only by a guard), "
            "intrinsics in 45% (undeclared, declared, multi-scalar, write-only, read-only, empty effects), indirect branches in 30%, "
            "blocks unreachable from the entry in ~13%; 4 initial states each, 60 execution steps; "
            "non-trivial = >= 4 locations and at least one operation replaced by nop; distinct by function text",
    "trusted_base": [KERNEL, HARNESS_TB, "the harness's comparison `output == input with nops at mask` (Rust derived ==) behind the compact ODiff encoding"],
    "assumptions": ["dce_equiv: functions satisfy C15's structural invariant cfg_inv and key_consistent (a read scalar and a written scalar "
                    "with the same (name, ssa) key have the same width -- Exec/Sem.v's typing convention; false for ill-typed IL such as "
                    "x:32 = <16-bit expr> followed by a read of x:16); dce_shape needs nothing",
                    "'whenever a block without successors is reached' is read as 'when execution ends in one' (Sem's Exit)",
                    "executing an intrinsic has no IL semantics: the comparison ends when one is reached (states compared there)"],
    "partial": [],
    "level_text": "Unbounded Coq theorems: dce_shape (every function: only operations change, and only to nop) and dce_equiv (lock-step simulation "
                  "for all fuels and all initial states: same path, same stores in the same order, equal whole scalar states at every indirect "
                  "branch, at every intrinsic and at the end of every block without successors, as long as the input does not fault). The proof "
                  "consumes C12's trace invariant and the repaired use-def relation. The Gallina transcription of dead_code_elimination is tied to "
                  "the Rust code differentially in the kernel, and every observed output is re-run in lock step against its input in Exec/Sem.v.",
    "level_note": "Trusted: Coq kernel + vm_compute; harness/pretty-printer incl. the ODiff encoding (Rust == on il::Function); the model is "
                  "hand-written and tied differentially, not by translation.",
}
