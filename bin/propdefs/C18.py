from propdefs.common import *

PROP = {
    "bin": "c18",
    "coq_targets": ["theories/IL/C18Check"],
    "n": {"quick": 1200, "thorough": 20000},
    "theorems": [],
    "rule": "one program per case from one xoshiro256** stream per (seed,index): 1-3 functions from ilgen::gen_function "
            "(empty blocks, self-loops, multi-in/out blocks, unreachable blocks) at interleaved addresses, then instructions removed "
            "(non-contiguous index fields), instructions re-addressed (duplicates within and across functions, no address), "
            "1/12 functions without entry; non-trivial = at least 4 locations and one edge; distinct by hash of the case term",
    "trusted_base": [KERNEL, HARNESS_TB],
    "assumptions": ["functions satisfy cfg_inv (IL/Func.v; established for every ControlFlowGraph history by C15) - re-checked on every generated case",
                    "Program keeps key = Function::index (prog_inv) - re-checked on every generated case"],
    "partial": [],
    "level_text": "",
    "level_note": "Trusted: Coq kernel + vm_compute; the harness/pretty-printer; the model (IL/Loc.v) is hand-written and tied to the code differentially, not by translation.",
}
