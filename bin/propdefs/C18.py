from propdefs.common import *

PROP = {
    "bin": "c18",
    "coq_targets": ["theories/IL/C18Check"],
    "n": {"quick": 1200, "thorough": 20000},
    "theorems": ["forward_spec", "backward_spec", "fwd_bwd_converse", "forward_total", "backward_total", "locations_complete", "locations_nodup", "locations_valid", "forward_closure_eq_paths", "forward_closure_eq_graph_reachable", "breach_graph_reachable", "apply_from_id", "apply_from_id_same", "migrate_id", "from_address_complete", "from_address_sound"],
    "rule": "one program per case from one xoshiro256** stream per (seed,index): 1-3 functions from ilgen::gen_function "
            "(empty blocks, self-loops, multi-in/out blocks, unreachable blocks) at interleaved addresses, then instructions removed "
            "(non-contiguous index fields), instructions re-addressed (duplicates within and across functions, no address), "
            "1/12 functions without entry; non-trivial = at least 4 locations and one edge; distinct by hash of the case term",
    "trusted_base": [KERNEL, HARNESS_TB],
    "assumptions": ["functions satisfy cfg_inv (IL/Func.v; established for every ControlFlowGraph history by C15) - re-checked on every generated case",
                    "Program keeps key = Function::index (prog_inv) - re-checked on every generated case"],
    "partial": [],
    "level_text": "Unbounded Coq theorems [U] about the Gallina model of lib/il/location.rs + Function::locations under cfg_inv (C15's invariant): forward/backward are the one-step relation of the static structure and converse to each other, total and closed on valid locations; locations() enumerates every instruction / empty block / edge exactly once; the forward closure of the entry location = locations on edge paths from the entry block = locations of the blocks in the graph library's reachable_vertices(entry) (via C11's reachable_vertices_correct and C15's refinement); apply(from l) and migrate are the identity on an equal program; from_address is complete and sound. The model is tied to the Rust code differentially in the kernel on generated programs (model = observed), and the observed values are checked against an independent relational oracle (converse, exactly-once enumeration, closure = reachability, round trip, address look-up).",
    "level_note": "Trusted: Coq kernel + vm_compute; the harness/pretty-printer; the model (IL/Loc.v) is hand-written and tied to the code differentially, not by translation.",
}
