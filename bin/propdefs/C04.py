from propdefs.common import *

PROP = {
    "bin": "c04",
    "coq_targets": ["theories/IL/C04Check"],
    "n": {"quick": 8000, "thorough": 120000},
    "theorems": ["c_bin_spec", "c_bin_spec_noshift", "c_bin_sort_error", "c_ext_spec", "new_big_spec", "c_bin_inr", "c_ext_inr", "no_panic",
                 "eval_den", "build_sort_error", "replace_scalar_subst", "replace_scalar_subst2", "rspec_sound", "c_bin_spec_c",
                 "c_bin_i_fst", "c_ext_i_fst", "eval_i_fst", "alloc_bounded", "eval_alloc_bounded"],
    "rule": "first: a deterministic sweep of every operator x widths {1,8,32,64,65,128} x all pairs of boundary values {0,1,2^(w-1)-1,2^(w-1),2^w-1,w} (complete whenever n/2 covers it); then cases drawn from one xoshiro256** stream per (seed,index): 45% Constant operators at boundary-biased widths/values, "
            "10% extensions/truncations, 35% expression trees built through the public constructors then eval'd, 10% replace_scalar; "
            "non-trivial = boundary operand (sign bit set, zero divisor, shift) or tree of >= 3 nodes; distinct by canonical case text",
    "trusted_base": [KERNEL, HARNESS_TB, "num-bigint (BigUint/BigInt operators taken to be the mathematical ones on Z)"],
    "assumptions": ["num-bigint arithmetic is exact", "widths range over 1 <= w < 2^64 (usize)"],
    "partial": ["rotl is specified (and proved) for amounts <= width only; the oracle is silent above",
                "width 0 and widths >= 2^64 are outside the theorems (width 0: to_bigint/ashr/sext underflow `bits - 1`, tie only)"],
    "level_text": "Unbounded Coq theorems (all widths >= 1, all operand values) that the Gallina transcription of Constant/Expression/eval equals "
                  "two's-complement bit-vector arithmetic, plus an in-kernel differential tie of that transcription to the Rust code on generated cases "
                  "(model = observed, and observed = specification).",
    "level_note": "'No unbounded allocation' is a theorem about an instrumented second transcription (IL/ConstCost.v, proved to compute the same results as IL/Const.v): "
                  "every big integer materialised is < 2^(2w+2) (2^(w+bits+2) for extensions), independent of operand values; num-bigint's own internal temporaries are not modelled. "
                  "Trusted: Coq kernel + vm_compute; num-bigint; the harness/pretty-printer; the model is hand-written and tied to the code differentially, not by translation.",
}
