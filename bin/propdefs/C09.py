from propdefs.common import *

PROP = {
    "bin": "c09",
    "minimize": True,   # harness implements `--only i --keep p0,p1,..` (notes/minimisation.md)
    "coq_targets": ["theories/Flow/C09Check", "theories/Flow/FixedPointProofs", "theories/Flow/FpILProofs", "theories/Flow/C09Example"],
    "n": {"quick": 1600, "thorough": 40000, "sens": 240},
    "theorems": ["fp_solution", "fp_solution_backward", "fp_forced", "fp_forced_backward", "fp_forced_postfix", "fp_forced_postfix_backward",
                 "fp_least", "fp_least_backward", "none_only_at_entry", "fp_terminates", "fp_terminates_backward", "fp_budget_suffices",
                 "fp_no_maxsteps", "fp_budget", "fp_maxsteps_iff", "run_never_out_of_fuel", "fp_error_not_unsound",
                 "fp_error_not_unsound_backward", "fp_ordering_origin", "fp_monotone_no_error", "fp_complete", "fp_complete_backward",
                 "fp_good", "fp_least_rel", "fp_monotone_no_error_rel", "fp_complete_rel", "fp_terminates_rel", "fp_budget_suffices_rel",
                 "fp_forward_solution", "fp_backward_solution", "il_location_hyps_forward", "il_location_hyps_backward", "fp_forward_budget", "fp_backward_terminates"],
    "rule": "one xoshiro256** stream per (seed,index): a random IL function from ilgen::gen_function (30% 'tiny' stream of 1-2 blocks for the "
            "leastness enumeration, else 2-6 blocks; loops, self-loops, empty blocks, unreachable blocks; entry and exit moved to a random block "
            "with probability 1/3 each; 1/60 functions without entry or exit), an analysis from 8 families written against the public trait "
            "(gen/kill bit sets with union; bit sets with intersection; flat constant lattice; bounded counter min(k,x+1); unbounded counter; "
            "non-monotone xor / k-x transfer; join that fails or returns its first argument; transfer function that fails or panics at a location), "
            "direction (60% forward), force (30%), max_analysis_steps (35% 0..12, 25% within 3 of the exact number of pops needed, else 400; backward: "
            "watchdog of 300 transfer calls); non-trivial = error outcome, or a result with >= 2 locations on a function with a loop; "
            "distinct by direction + force + budget + analysis + function text",
    "trusted_base": [KERNEL, HARNESS_TB,
                     "the harness's Rust rendering of each analysis (trans/join/partial_cmp) agrees with its Gallina rendering in Flow/C09Check.v "
                     "(both are ten-line integer functions; a disagreement shows as a tie failure)"],
    "assumptions": ["location hypotheses of the abstract theorems are discharged for IL functions from cfg_inv (C15) via C18's lemmas in IL/LocProofs.v",
                    "HashMap with keys ProgramLocation / RefProgramLocation behaves as a finite map (model: association list)"],
    "partial": [],
    "level_text": "Unbounded Coq theorems about a line-by-line Gallina transcription of both work-list engines, abstract in the analysis and the location graph: "
                  "whatever is returned satisfies the data-flow equations on exactly the reachable locations (no monotonicity assumed), is below every "
                  "post-fixpoint under lattice hypotheses, the loop stops within 1+d*n*(h+1) pops, the step budget is characterised exactly (off-by-one "
                  "included), a non-ascending step yields the ordering error and never a result, and monotone analyses over finite height complete with "
                  "a result; instantiated for IL functions with C18's location lemmas.  The transcription is tied to the Rust engines in the kernel on "
                  "generated (function, analysis) pairs (model result = observed result), and the observed result is checked against the specification "
                  "(reachable set, equations re-evaluated, leastness by enumeration of all solutions on small instances, termination / error class).",
    "level_note": "Trusted: Coq kernel + vm_compute; the harness and its two renderings of the analyses; the model is hand-written and tied differentially. "
                  "force = true is outside the property text: only the post-fixpoint inequality is proved, and termination needs an extra hypothesis.",
}
