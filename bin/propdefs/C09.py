from propdefs.common import *

PROP = {
    "bin": "c09",
    "coq_targets": ["theories/Flow/C09Check", "theories/Flow/FixedPointProofs"],
    "n": {"quick": 1600, "thorough": 40000},
    "theorems": [],
    "rule": "",
    "trusted_base": [KERNEL, HARNESS_TB],
    "assumptions": [],
    "partial": [],
    "level_text": "",
    "level_note": "",
}
