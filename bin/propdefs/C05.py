from propdefs.common import *

PROP = {
    "bin": "c05",
    "coq_targets": ["theories/Lift/C05Check", "theories/Lift/WfProofs", "theories/Lift/MirrorWf", "theories/Lift/MirrorA64"],
    # n = random inputs per configuration (7 translators x 2 policies), on top of the structured sweeps;
    # n >= 20000 selects the full structured sweeps
    "n": {"quick": 300, "thorough": 150000},
    "theorems": ["wf_result_sound", "guards_det_sound", "exactly_one_sound", "wf_expr_constructors", "oracle_sound", "env_ok_satisfiable",
                 "mips_mirror_block_good", "mips_lift_always_ok", "mips_branch_no_panic", "ppc_mirror_block_good", "ppc_lift_always_ok",
                 "a64_no_panic", "a64_block_good", "a64_word_good"],
    "rule": "inputs are a pure function of (seed, n, index): a regression corpus, then per translator x policy a structured sweep in which every field "
            "that selects an operand KIND or width is enumerated and register / immediate VALUE fields take boundary values "
            "(MIPS: every major opcode x every function code x every shamt for SPECIAL/2/3, all REGIMM / COPz selectors, each word alone and with a delay-slot nop; "
            "PPC: every primary opcode x all 1024 extended opcodes x Rc, every BO x BI; A64: every value of bits 31..21 x every value of bits 15..10 "
            "(option, imm3, opcode, index mode), add/sub extended-register: all options x imm3 x 12 register patterns, shifted-register imm6 in {0,1,31,32,63}; "
            "x86/amd64: every one-byte and 0F-two-byte opcode x 28 ModRM/SIB/immediate suffixes x {no prefix, 67, one rotating of 12 others} x truncations, "
            "plus 67 / 67 66 / 67 48 / 67 4c-prefixed lea, mov, add, movzx, movsx, movsxd, xchg, cmp x every suffix), then n random inputs per configuration; "
            "load addresses include 0, 2^32-4, 2^64-16. Every input is lifted twice in a child process under catch_unwind. ONLY DISTINCT SHAPES are sent to Coq: an "
            "input becomes a case iff it shows an instruction-graph shape, a successor-list shape, an error/panic site or a known-finding class that no earlier input "
            "showed (shape = dump with names, addresses and constants wider than one bit renamed by first occurrence; the validators are conjunctions over instruction "
            "graphs and the successor list and only look at widths, structure, syntactic equality and 1-bit constants), and carries only those graphs. "
            "Known-finding classes are exact decode-level predicates (x86: prefixes + opcode + ModRM form at the instruction starts reported by the lifter; A64: bit "
            "pattern of a word); a tagged case names the single clause it may violate and its TIE fails if anything else fails (then it is a VIOLATION). "
            "non-trivial = the result holds at least one IL instruction; distinct by the set of shape hashes. evidence 'extra' records inputs per segment and outcome.",
    "trusted_base": [KERNEL, HARNESS_TB, "Exec/Sem.v `den` (the IL's denotation, shared specification)",
                     "the shape abstraction used to deduplicate dumps before they are sent to Coq (harness c05.rs `shapes`)"],
    "assumptions": ["a guard that contains a division is rejected (it could fault); widths above 4096 bits are rejected",
                    "successors naming the same address twice count as a violation of 'one successor is enabled' (they collapse into one edge of the recovered graph)"],
    "partial": ["the mirror theorems cover the instruction classes mirrored by C02/C03 (MIPS 72 forms, PPC forms of PpcLift, A64 classes of A64Lift); x86 and "
                "the unmirrored classes are covered by the per-output validators only",
                "'never panics, aborts or fails to terminate on ANY byte string' ranges over capstone (C), bad64 and the Rust lifters: EXPLORED by the sweep "
                "(every input in a child process, panics caught, dead child / timeout reported), not proved",
                "determinism of lifting is differential: each input lifted twice in fresh translator instances and the dumps compared",
                "the validators are proved sound, not complete: a rejection of lifter output is examined by hand (lifter defect or too coarse an abstraction)"],
    "level_text": "Unbounded Coq theorems that (1) the lifter mirrors of MIPS (all forms incl. delay-slot sequencing), PPC and A64 (Isa/*Lift.v, tied per "
                  "encoding to the Rust lifters by C02/C03) never panic and produce only well-formed, deterministic blocks for EVERY field value, and (2) "
                  "the two validators run on every dumped BlockTranslationResult are sound -- wf_result implies the "
                  "well-formedness proposition, guards_det_check implies that for EVERY valuation exactly one out-edge of each block and one successor of "
                  "the block is enabled under the IL's denotation -- evaluated in the kernel on the IL that the seven Rust translators actually return "
                  "for the swept inputs under both unsupported-instruction policies; totality over raw bytes is explored, not proved.",
    "level_note": "Trusted: Coq kernel + vm_compute; the harness (child-process driver, dump printer, shape deduplication); the decoders (capstone, bad64) "
                  "are exercised, not modelled.",
}
