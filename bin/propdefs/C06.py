from propdefs.common import *
import os as _os

PROP = {
    "bin": "c06",
    "coq_targets": ["theories/Lift/C06Check"],
    "n": {"quick": int(_os.environ.get("C06_N", "640")), "thorough": 16000},   # C06_N: smaller runs for sensitivity experiments
    "theorems": ["lang_bisim_sound", "bisim_from_sound", "lang_prefix_closed", "lang_eq_feasible", "lang_bisim_exec", "lang_bisim_exec_sem", "recover_names_ok", "lang_eq_exec_sem", "sem_pexec_link", "recover_once", "recover_struct_once", "merge_flang", "recover_full_lang", "recover_graph_spec", "recover_entry_block", "recover_lang_partial", "lang_eq_exec_sem_lang", "recover_executes_like_machine_code", "recover_graph_spec_m", "recover_lang_m", "recover_executes_like_machine_code_m"],
    "rule": "11 + 10 hand-written regression programs, then random machine-code programs, one xoshiro256** stream per (seed,index): "
            "toy fixed-width ISA (add / three-block conditional add / jmp / jcc with both successor orders / halt / indirect jump) of "
            "1-70 instructions (60% 17-40) at every alignment of the base modulo 64, control-transfer density 3/8/20/40%, "
            "targets uniform over the program (self, next, past-the-end included), 15% unmapped holes, entry inside the program in 40%, "
            "1-3 manual edges in 25% (head a control transfer in 3/4 of them); MIPS and x86 byte programs drive the real block translators with every direct "
            "control-transfer mnemonic they terminate blocks on (MIPS 15, x86 42 incl. rel8/rel32 jcc, jecxz/jcxz, loop*, jmp, call, ret, hlt); "
            "the isolated lifts must agree with the harness's own decoder table. "
            "non-trivial = the recovered function has at least 3 blocks; distinct by hash of the program text",
    "trusted_base": [KERNEL, HARNESS_TB,
                     "the harness's own instruction decoder (reachability, instruction lengths) and the isolated single-instruction lifts "
                     "that make up the reference items",
                     "Exec/Sem.v as the meaning of 'execution' of a graph"],
    "assumptions": ["a manual edge (h, t) leaves the basic block that starts at h (last instruction of the straight-line run from h)",
                    "a requested manual edge replaces the successor edge with the same head and tail; successors of one instruction "
                    "that share a target are one edge guarded by the disjunction of their guards"],
    "partial": ["with manual edges the model theorems (recover_graph_spec_m, recover_lang_m, recover_executes_like_machine_code_m) need man_fit: "
                "every manual head's block translation ends at the end of the head's straight-line run (outside the known-finding class)",
                "det / sem_wf of the merged function and of the reference are hypotheses of the end-to-end theorems (evaluated per case), "
                "not derived from prog_ok",
                "that C06Check.gprog satisfies rspec (and layout-order independence of the language) is not proved: per case the "
                "validator compares against gprog",
                "tb_spec of the block translators (incl. the harness's toy translator) is a tested fact (tb_check per recorded block)"],
    "level_text": "Verified validator: every function returned by the real translate_function_extended is checked in the Coq kernel against "
                  "the reference graph assembled (in Coq) from the program read one instruction at a time: language bisimulation "
                  "(lang_bisim, proved sound for all graphs), multiset of (address, operation) items, entry/edge/exit naming, and equal "
                  "runs of the reference IL semantics from random states.",
    "level_note": "[U] soundness of the checker, lang_eq_exec for Exec/Sem.v, end-to-end theorems for the model incl. merge under tb_spec (with manual edges under man_fit); "
                  "[V] the property itself per generated program; exact tie of the model incl. merge; [D] executor::Driver vs toy interpreter.",
}
