from propdefs.common import *

PROP = {
    "bin": "c08",
    "minimize": True,   # harness implements `--only i --keep p0,p1,..` (notes/minimisation.md)
    "coq_targets": ["theories/Mem/C08Check", "theories/Mem/C08CheckE"],
    "n": {"quick": 2000, "thorough": 30000},
    "theorems": ["inv_preserved", "abs_store", "abs_load", "reject_bad_width", "eq_refl_clone", "eq_implies_same_loads",
                 "perm_range", "perm_default_backing", "store_keeps_perms", "store_clone_indep", "cells_store_refines",
                 "history_loads", "history_perms", "expr_store_sim", "expr_load_sim", "expr_abs_load", "expr_eval_is_empty_valuation"],
    "rule": "three histories in four over paged::Memory<il::Constant>, one in four over paged::Memory<il::Expression> (stored values = small expression trees with constant and scalar leaves; for every load both the returned TREE and its value under the history's valuation of the scalars are compared); histories of 1-60 operations (store 40%, load 35%, clone 5%, new 1%, set_permissions 6%, permissions 8%, eq 5%) over three "
            "handles, one xoshiro256** stream per (seed,index); widths {8,16,24,32,64,128,136} (+ a malformed "
            "stream with 0/7/12 bits in 1/8 of the histories); addresses within +-9 of 1-3 bases (page boundaries 1024k, 0, 2^64-32, last page) "
            "or within +-16 of an earlier address (60%); backing in half of the histories; both endiannesses. "
            "non-trivial = the history contains at least one store that overlaps an earlier store on the same handle or crosses a 1024-byte "
            "page boundary; distinct by hash of the canonical case text",
    "trusted_base": [KERNEL, HARNESS_TB, "num-bigint", "safe-Rust ownership (RC::make_mut under &mut self) for clone independence",
                     "lib/memory/backing.rs stand-in (get8/permissions over disjoint sections; C16 owns the real model)"],
    "assumptions": ["address ranges lie in the address space: stores and loads with a + k <= 2^64 (ranges ending exactly at 2^64 are "
                    "judged; ranges that wrap 2^64 are outside the oracle, the tie still covers them)",
                    "values and loads narrower than 2^63 bits; set_permissions ranges shorter than 2^63 bytes",
                    "backing sections do not reach 2^64 and hand out u8 bytes"],
    "partial": ["V = il::Expression: the theorems are about the denotation of the returned expressions under any valuation of their scalars; the exact trees are tied differentially (model tree = observed tree), not characterised by a theorem",
                "clone independence is Rust ownership (trusted); the Coq statement is immediate in a pure model",
                "loads / set_permissions whose range wraps 2^64 still panic in an overflow-checked build (outside the property)"],
    "level_text": "Unbounded Coq theorems for the Gallina transcription of paged::Memory<il::Constant> (pages, cells/backrefs, three-phase store, "
                  "first-phase + byte-wise load through the Value trait, PartialEq, permissions): representation invariant preserved over all "
                  "operation sequences, store = byte-array write, load = specified assembly of the most recent bytes (all widths >= 1 byte, both "
                  "endiannesses, page crossings, backing fallback, None iff a byte is absent), equality reflexive and implying equal loads, "
                  "permission range/default/frame properties; plus an in-kernel differential tie of the transcription to the Rust code on generated "
                  "histories (model replay = observed, observed = byte-array specification).",
    "level_note": "Trusted: Coq kernel + vm_compute; num-bigint; harness/pretty-printer; the model is hand-written and tied differentially; "
                  "clone independence rests on safe-Rust ownership; backing.rs is represented by a get8/permissions stand-in (C16 verifies it).",
}
