from propdefs.common import *

PROP = {
    "bin": "c08",
    "coq_targets": ["theories/Mem/C08Check"],
    "n": {"quick": 2000, "thorough": 40000},
    "theorems": ["reject_bad_width", "eq_refl_clone", "eq_implies_same_loads", "perm_range", "perm_default_backing", "store_keeps_perms", "cells_store_refines"],
    "rule": "histories of 1-60 operations (store 40%, load 35%, clone 5%, new 1%, set_permissions 6%, permissions 8%, eq 5%) over three "
            "handles of paged::Memory<il::Constant>, one xoshiro256** stream per (seed,index); widths {8,16,24,32,64,128,136} (+ a malformed "
            "stream with 0/7/12 bits in 1/8 of the histories); addresses within +-9 of 1-3 bases (page boundaries 1024k, 0, 2^64-32, last page) "
            "or within +-16 of an earlier address (60%); backing in half of the histories; both endiannesses. "
            "non-trivial = the history contains at least one store that overlaps an earlier store on the same handle or crosses a 1024-byte "
            "page boundary; distinct by hash of the canonical case text",
    "trusted_base": [KERNEL, HARNESS_TB, "num-bigint", "safe-Rust ownership (RC::make_mut under &mut self) for clone independence",
                     "lib/memory/backing.rs stand-in (get8/permissions over disjoint sections; C16 owns the real model)"],
    "assumptions": ["address ranges a..a+k lie below 2^64 (ranges reaching 2^64 are outside the oracle; the tie still covers them)",
                    "backing sections do not reach 2^64"],
    "partial": [],
    "level_text": "",
    "level_note": "",
}
