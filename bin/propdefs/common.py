KERNEL = "Coq 8.16.1 kernel incl. its vm_compute machine (no native_compute)"
HARNESS_TB = "Rust harness fvh (case generation, catch_unwind, canonicalisation, Gallina pretty-printer) and bin/vcheck"
