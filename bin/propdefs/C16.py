from propdefs.common import *
import os
# C16_N=<k> shrinks the quick tier for scratch-worktree experiments (never set by registered commands)

PROP = {
    "bin": "c16",
    "minimize": True,   # harness implements `--only i --keep p0,p1,..` (notes/minimisation.md)
    "coq_targets": ["theories/Mem/C16Check", "theories/Mem/BackingRegions"],
    "n": {"quick": int(os.environ.get("C16_N", "2400")), "thorough": 60000},
    "theorems": ["sections_disjoint", "abs_set_memory_step", "abs_set_memory", "get8_spec", "permissions_spec", "get_spec", "get32_spec", "set32_spec", "region_access", "find_sec_is_cover", "never_covered_unmapped"],
    "rule": "one xoshiro256** stream per (seed,index): endianness, arena (60% at 0, 20% at 0x100000, 20% in the last 256 bytes below 2^64), "
            "1-12 operations (80% set_memory with length 0-40 biased to 0/1/2/4/40 and to addresses aligned with earlier regions, 20% set32 mostly inside "
            "earlier regions), then sections() and get8/permissions/get32/get sweeps over the hull of the history +-6; "
            "non-trivial = at least two writes of which one touches an earlier region (overlap, nesting, adjacency, empty inside); distinct by endianness + operation list",
    "trusted_base": [KERNEL, HARNESS_TB],
    "assumptions": ["written regions do not wrap the address space: a + len <= 2^64 (the last byte may be written)"],
    "partial": [],
    "level_text": "Unbounded Coq theorems (all histories, all addresses below 2^64, any permission type) that the Gallina transcription of "
                  "backing::Memory refines a last-writer-wins byte/permission map, keeps its sections sorted, disjoint and non-empty, reads wide values "
                  "bytewise across sections without panicking, and confines 32-bit accesses to one region; plus an in-kernel differential tie of that "
                  "transcription to the Rust code on generated histories (model = observed, and observed = specification).",
    "level_note": "Trusted: Coq kernel + vm_compute; the harness/pretty-printer; the model is hand-written and tied to the code differentially, not by translation. "
                  "Regions that wrap the address space (a + len > 2^64) are outside the theorems and the oracle; regions ending exactly at 2^64 are inside.",
}
