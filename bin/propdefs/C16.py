from propdefs.common import *

PROP = {
    "bin": "c16",
    "coq_targets": ["theories/Mem/C16Check"],
    "n": {"quick": 3000, "thorough": 60000},
    "theorems": [],
    "rule": "one xoshiro256** stream per (seed,index): endianness, arena (60% at 0, 20% at 0x100000, 20% in the last 256 bytes below 2^64), "
            "1-12 operations (80% set_memory with length 0-40 biased to 0/1/2/4/40 and to addresses aligned with earlier regions, 20% set32 mostly inside "
            "earlier regions), then sections() and get8/permissions/get32/get sweeps over the hull of the history +-6; "
            "non-trivial = at least two writes of which one touches an earlier region (overlap, nesting, adjacency, empty inside); distinct by endianness + operation list",
    "trusted_base": [KERNEL, HARNESS_TB],
    "assumptions": ["u64 additions are overflow-checked (harness build profile); a region's exclusive end a+len is below 2^64"],
    "partial": [],
    "level_text": "",
    "level_note": "",
}
