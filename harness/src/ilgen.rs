//! ilgen -- Gallina printers for falcon IL objects (matching coq/theories/IL/{Expr,Func,Loc}.v) and a
//! random generator of IL functions built through the public `il` API.
//! Owned by the integrator; agents may append strictly new items at the end of the file.
use crate::*;
use falcon::il::{
    self, Block, Constant, ControlFlowGraph, Edge, Expression, Function, Instruction, Intrinsic,
    Operation, PhiNode, Program, Scalar,
};
use std::collections::BTreeMap;

// ---------------------------------------------------------------- name interning
/// scalar / mnemonic names -> N ids, by first occurrence (deterministic for a deterministic case)
#[derive(Default, Clone)]
pub struct Interner {
    pub map: BTreeMap<String, u64>,
    pub names: Vec<String>,
}
impl Interner {
    pub fn new() -> Interner {
        Interner::default()
    }
    pub fn id(&mut self, name: &str) -> u64 {
        if let Some(i) = self.map.get(name) {
            return *i;
        }
        let i = self.names.len() as u64;
        self.map.insert(name.to_string(), i);
        self.names.push(name.to_string());
        i
    }
}

// ---------------------------------------------------------------- printers
pub fn coq_const(c: &Constant) -> String {
    format!("(mkc {} {})", c.bits(), z_big(c.value()))
}
pub fn coq_scalar(s: &Scalar, it: &mut Interner) -> String {
    format!(
        "(mks {} {} {})",
        n_lit(it.id(s.name())),
        s.bits(),
        coq_opt(s.ssa().map(|v| n_lit(v as u64)))
    )
}
pub fn coq_expr(e: &Expression, it: &mut Interner) -> String {
    use Expression::*;
    let mut bin = |o: &str, l: &Expression, r: &Expression, it: &mut Interner| {
        format!("(EBin {} {} {})", o, coq_expr(l, it), coq_expr(r, it))
    };
    match e {
        Scalar(s) => format!("(EScalar {})", coq_scalar(s, it)),
        Constant(c) => format!("(EConst {})", coq_const(c)),
        Add(l, r) => bin("Add", l, r, it),
        Sub(l, r) => bin("Sub", l, r, it),
        Mul(l, r) => bin("Mul", l, r, it),
        Divu(l, r) => bin("Divu", l, r, it),
        Modu(l, r) => bin("Modu", l, r, it),
        Divs(l, r) => bin("Divs", l, r, it),
        Mods(l, r) => bin("Mods", l, r, it),
        And(l, r) => bin("And", l, r, it),
        Or(l, r) => bin("Or", l, r, it),
        Xor(l, r) => bin("Xor", l, r, it),
        Shl(l, r) => bin("Shl", l, r, it),
        Shr(l, r) => bin("Shr", l, r, it),
        AShr(l, r) => bin("AShr", l, r, it),
        Cmpeq(l, r) => bin("Cmpeq", l, r, it),
        Cmpneq(l, r) => bin("Cmpneq", l, r, it),
        Cmplts(l, r) => bin("Cmplts", l, r, it),
        Cmpltu(l, r) => bin("Cmpltu", l, r, it),
        Zext(b, x) => format!("(EExt Zext {} {})", b, coq_expr(x, it)),
        Sext(b, x) => format!("(EExt Sext {} {})", b, coq_expr(x, it)),
        Trun(b, x) => format!("(EExt Trun {} {})", b, coq_expr(x, it)),
        Ite(c, t, f) => format!("(EIte {} {} {})", coq_expr(c, it), coq_expr(t, it), coq_expr(f, it)),
    }
}
pub fn coq_intrinsic(i: &Intrinsic, it: &mut Interner) -> String {
    let m = it.id(&format!("intrinsic:{}", i.mnemonic()));
    let args = coq_list(i.arguments().iter().map(|e| coq_expr(e, it)).collect::<Vec<_>>());
    let wr = coq_opt(i.written_expressions().map(|v| coq_list(v.iter().map(|e| coq_expr(e, it)).collect::<Vec<_>>())));
    let rd = coq_opt(i.read_expressions().map(|v| coq_list(v.iter().map(|e| coq_expr(e, it)).collect::<Vec<_>>())));
    format!("(mkintr {} {} {} {})", n_lit(m), args, wr, rd)
}
pub fn coq_operation(o: &Operation, it: &mut Interner) -> String {
    match o {
        Operation::Assign { dst, src } => format!("(OAssign {} {})", coq_scalar(dst, it), coq_expr(src, it)),
        Operation::Store { index, src } => format!("(OStore {} {})", coq_expr(index, it), coq_expr(src, it)),
        Operation::Load { dst, index } => format!("(OLoad {} {})", coq_scalar(dst, it), coq_expr(index, it)),
        Operation::Branch { target } => format!("(OBranch {})", coq_expr(target, it)),
        Operation::Intrinsic { intrinsic } => format!("(OIntrinsic {})", coq_intrinsic(intrinsic, it)),
        Operation::Nop { placeholder } => format!("(ONop {})", coq_opt(placeholder.as_ref().map(|p| coq_operation(p, it)))),
    }
}
pub fn coq_optz(o: Option<u64>) -> String {
    coq_opt(o.map(|v| format!("{}", v)))
}
pub fn coq_instruction(i: &Instruction, it: &mut Interner) -> String {
    format!("(mkinstr {} {} {})", i.index(), coq_operation(i.operation(), it), coq_optz(i.address()))
}
/// PhiNode has no iterator over `incoming`; probe the given candidate block indices (ascending).
pub fn coq_phi(p: &PhiNode, block_indices: &[usize], it: &mut Interner) -> String {
    let inc: Vec<String> = block_indices
        .iter()
        .filter_map(|b| p.incoming_scalar(*b).map(|s| format!("({}, {})", b, coq_scalar(s, it))))
        .collect();
    format!(
        "(mkphi {} {} {})",
        coq_list(inc),
        coq_opt(p.entry_scalar().map(|s| coq_scalar(s, it))),
        coq_scalar(p.out(), it)
    )
}
/// `b_next` (next_instruction_index) is private: it is recovered as (max index + 1) unless the caller
/// knows better and passes `next`.
pub fn coq_block(b: &Block, next: Option<usize>, all_blocks: &[usize], it: &mut Interner) -> String {
    let nx = next.unwrap_or_else(|| b.instructions().iter().map(|i| i.index() + 1).max().unwrap_or(0));
    format!(
        "(mkblock {} {} {} {})",
        b.index(),
        nx,
        coq_list(b.instructions().iter().map(|i| coq_instruction(i, it)).collect::<Vec<_>>()),
        coq_list(b.phi_nodes().iter().map(|p| coq_phi(p, all_blocks, it)).collect::<Vec<_>>())
    )
}
pub fn coq_edge(e: &Edge, it: &mut Interner) -> String {
    format!("(mkedge {} {} {})", e.head(), e.tail(), coq_opt(e.condition().map(|c| coq_expr(c, it))))
}
/// `g_next_index` is private too: recovered as (max block index + 1) unless given.
pub fn coq_cfg(g: &ControlFlowGraph, next_index: Option<usize>, it: &mut Interner) -> String {
    let idx: Vec<usize> = g.blocks().iter().map(|b| b.index()).collect();
    let nx = next_index.unwrap_or_else(|| idx.iter().map(|i| i + 1).max().unwrap_or(0));
    format!(
        "(mkcfg {} {} {} {} {})",
        coq_list(g.blocks().iter().map(|b| coq_block(b, None, &idx, it)).collect::<Vec<_>>()),
        coq_list(g.edges().iter().map(|e| coq_edge(e, it)).collect::<Vec<_>>()),
        nx,
        coq_optz(g.entry().map(|v| v as u64)),
        coq_optz(g.exit().map(|v| v as u64))
    )
}
pub fn coq_function(f: &Function, it: &mut Interner) -> String {
    format!(
        "(mkfunc {} {} {})",
        f.address(),
        coq_cfg(f.control_flow_graph(), None, it),
        coq_optz(f.index().map(|v| v as u64))
    )
}
pub fn coq_program(p: &Program, it: &mut Interner) -> String {
    let fs: Vec<String> = p
        .functions_map()
        .iter()
        .map(|(k, f)| format!("({}, {})", k, coq_function(f, it)))
        .collect();
    format!("(mkprog {})", coq_list(fs))
}
/// il::FunctionLocation -> floc
pub fn coq_floc(l: &il::FunctionLocation) -> String {
    match l {
        il::FunctionLocation::Instruction(b, i) => format!("(LInstr {} {})", b, i),
        il::FunctionLocation::Edge(h, t) => format!("(LEdge {} {})", h, t),
        il::FunctionLocation::EmptyBlock(b) => format!("(LEmpty {})", b),
    }
}
pub fn coq_ref_floc(l: &il::RefFunctionLocation) -> String {
    coq_floc(&l.clone().into())
}
pub fn coq_ploc(l: &il::ProgramLocation) -> String {
    let fi = format!("{}", l).split(':').next().map(|_| ()).map(|_| ());
    let _ = fi;
    // function_index is private; recover it through Display ("0x<idx>:<loc>" or "<loc>")
    let s = format!("{}", l);
    let inner = format!("{}", l.function_location());
    let fidx = if s.len() > inner.len() {
        let pre = &s[..s.len() - inner.len() - 1];
        u64::from_str_radix(pre.trim_start_matches("0x"), 16).ok()
    } else {
        None
    };
    format!("(mkploc {} {})", coq_optz(fidx), coq_floc(l.function_location()))
}

// ---------------------------------------------------------------- random IL functions
#[derive(Clone)]
pub struct GenOpts {
    /// scalar pool: (name, bits)
    pub scalars: Vec<(String, usize)>,
    pub min_blocks: u64,
    pub max_blocks: u64,
    pub max_instrs: u64,
    pub mem: bool,        // loads / stores
    pub intrinsics: bool, // intrinsic operations (declared and undeclared effects)
    pub branches: bool,   // indirect Branch operations
    pub empty_blocks: bool,
    pub loops: bool,
    pub unreachable: bool, // blocks without a path from the entry
    pub addr_bits: usize,  // width of memory addresses
    pub expr_depth: u32,
    pub addresses: bool, // give instructions addresses
    pub div: bool,       // allow division operators
    /// remove a non-last instruction from some blocks (Block::remove_instruction, as dead-code
    /// elimination clients do), so that instruction INDICES differ from POSITIONS
    pub gaps: bool,
}
impl Default for GenOpts {
    fn default() -> Self {
        GenOpts {
            scalars: vec![("a".into(), 32), ("b".into(), 32), ("c".into(), 32), ("x".into(), 8), ("f".into(), 1), ("q".into(), 64)],
            min_blocks: 1,
            max_blocks: 7,
            max_instrs: 4,
            mem: true,
            intrinsics: false,
            branches: false,
            empty_blocks: true,
            loops: true,
            unreachable: false,
            addr_bits: 32,
            expr_depth: 3,
            addresses: true,
            div: false,
            gaps: true,
        }
    }
}

pub fn small_const(r: &mut Rng, bits: usize) -> Expression {
    let v: u64 = match r.below(8) {
        0 => 0,
        1 => 1,
        2 => u64::MAX,
        3 => 1u64.checked_shl(bits.saturating_sub(1) as u32).unwrap_or(0),
        4 => r.below(16),
        _ => r.next(),
    };
    il::expr_const(v, bits)
}

/// well-sorted random expression of width `bits` over the scalar pool
pub fn gen_expr(r: &mut Rng, o: &GenOpts, bits: usize, depth: u32) -> Expression {
    if depth == 0 || r.chance(1, 4) {
        let cands: Vec<&(String, usize)> = o.scalars.iter().filter(|s| s.1 == bits).collect();
        if !cands.is_empty() && r.chance(2, 3) {
            let s = r.pick(&cands);
            return il::expr_scalar(s.0.clone(), s.1);
        }
        return small_const(r, bits);
    }
    let d = depth - 1;
    let e = match r.below(14) {
        0..=5 => {
            let mut ops = vec!["add", "sub", "mul", "and", "or", "xor", "shl", "shr", "ashr"];
            if o.div {
                ops.extend(["divu", "modu", "divs", "mods"]);
            }
            let op = *r.pick(&ops);
            let (a, b) = (gen_expr(r, o, bits, d), gen_expr(r, o, bits, d));
            match op {
                "add" => Expression::add(a, b),
                "sub" => Expression::sub(a, b),
                "mul" => Expression::mul(a, b),
                "and" => Expression::and(a, b),
                "or" => Expression::or(a, b),
                "xor" => Expression::xor(a, b),
                "shl" => Expression::shl(a, b),
                "shr" => Expression::shr(a, b),
                "ashr" => Expression::ashr(a, b),
                "divu" => Expression::divu(a, b),
                "modu" => Expression::modu(a, b),
                "divs" => Expression::divs(a, b),
                _ => Expression::mods(a, b),
            }
        }
        6 | 7 if bits == 1 => {
            let w = o.scalars[r.below(o.scalars.len() as u64) as usize].1;
            let (a, b) = (gen_expr(r, o, w, d), gen_expr(r, o, w, d));
            match r.below(4) {
                0 => Expression::cmpeq(a, b),
                1 => Expression::cmpneq(a, b),
                2 => Expression::cmplts(a, b),
                _ => Expression::cmpltu(a, b),
            }
        }
        8 if bits > 1 => {
            let narrower: Vec<usize> = o.scalars.iter().map(|s| s.1).filter(|w| *w < bits).collect();
            if narrower.is_empty() {
                Ok(small_const(r, bits))
            } else {
                let w = *r.pick(&narrower);
                let a = gen_expr(r, o, w, d);
                if r.chance(1, 2) { Expression::zext(bits, a) } else { Expression::sext(bits, a) }
            }
        }
        9 => {
            let wider: Vec<usize> = o.scalars.iter().map(|s| s.1).filter(|w| *w > bits).collect();
            if wider.is_empty() {
                Ok(small_const(r, bits))
            } else {
                let w = *r.pick(&wider);
                Expression::trun(bits, gen_expr(r, o, w, d))
            }
        }
        10 => {
            let c = gen_expr(r, o, 1, d);
            Expression::ite(c, gen_expr(r, o, bits, d), gen_expr(r, o, bits, d))
        }
        _ => Ok(gen_expr(r, o, bits, 0)),
    };
    e.expect("generator builds well-sorted expressions")
}

pub fn gen_cond(r: &mut Rng, o: &GenOpts) -> Expression {
    gen_expr(r, o, 1, o.expr_depth.min(2).max(1))
}

fn push_op(r: &mut Rng, o: &GenOpts, b: &mut Block) {
    let pick = r.below(100);
    let s = o.scalars[r.below(o.scalars.len() as u64) as usize].clone();
    if o.mem && pick < 12 {
        let w = *r.pick(&[8usize, 16, 32, 64]);
        let src = gen_expr(r, o, w, 1.min(o.expr_depth));
        let src = if o.scalars.iter().any(|x| x.1 == w) { src } else { small_const(r, w) };
        b.store(gen_addr(r, o), src);
    } else if o.mem && pick < 24 {
        let mem_scalars: Vec<&(String, usize)> = o.scalars.iter().filter(|x| x.1 % 8 == 0 && x.1 > 0).collect();
        if mem_scalars.is_empty() {
            b.nop();
        } else {
            let d = r.pick(&mem_scalars);
            b.load(il::scalar(d.0.clone(), d.1), gen_addr(r, o));
        }
    } else if o.intrinsics && pick < 30 {
        let declared = r.chance(1, 2);
        let w = il::expr_scalar(s.0.clone(), s.1);
        let rd = o.scalars[r.below(o.scalars.len() as u64) as usize].clone();
        let intr = Intrinsic::new(
            if declared { "declared" } else { "syscall" },
            "intrinsic",
            vec![],
            if declared { Some(vec![w]) } else { None },
            if declared { Some(vec![il::expr_scalar(rd.0, rd.1)]) } else { None },
            vec![0x0f, 0x05],
        );
        b.intrinsic(intr);
    } else if o.branches && pick < 33 {
        b.branch(gen_expr(r, o, o.addr_bits, 1));
    } else if pick < 38 {
        b.nop();
    } else {
        b.assign(il::scalar(s.0.clone(), s.1), gen_expr(r, o, s.1, o.expr_depth));
    }
}

/// addresses stay in a small arena so that loads hit earlier stores
pub fn gen_addr(r: &mut Rng, o: &GenOpts) -> Expression {
    let base = il::expr_const(0x1000 + r.below(24), o.addr_bits);
    let cands: Vec<&(String, usize)> = o.scalars.iter().filter(|s| s.1 == o.addr_bits).collect();
    if !cands.is_empty() && r.chance(1, 4) {
        let s = r.pick(&cands);
        Expression::add(
            base,
            Expression::and(il::expr_scalar(s.0.clone(), s.1), il::expr_const(7, o.addr_bits)).unwrap(),
        )
        .unwrap()
    } else {
        base
    }
}

/// Random function. Guards out of every block are mutually exclusive and exhaustive
/// (one unconditional edge, a complementary pair, or a three-way unsigned-range fan).
pub fn gen_function(r: &mut Rng, o: &GenOpts, address: u64) -> Function {
    let nb = r.range(o.min_blocks, o.max_blocks) as usize;
    let mut cfg = ControlFlowGraph::new();
    let mut addr = address;
    for _ in 0..nb {
        let b = cfg.new_block().unwrap();
        let n = if o.empty_blocks && r.chance(1, 6) { 0 } else { r.range(1, o.max_instrs.max(1)) };
        for _ in 0..n {
            push_op(r, o, b);
        }
        if o.addresses {
            for i in b.instructions_mut() {
                i.set_address(Some(addr));
                if r.chance(3, 4) {
                    addr += 4;
                }
            }
        }
    }
    if o.gaps && r.chance(1, 3) {
        for bi in 0..nb {
            let len = cfg.block(bi).unwrap().instructions().len();
            if len >= 2 && r.chance(1, 2) {
                let pos = r.below(len as u64 - 1) as usize;
                let idx = cfg.block(bi).unwrap().instructions()[pos].index();
                cfg.block_mut(bi).unwrap().remove_instruction(idx).unwrap();
            }
        }
    }
    let reach_n = if o.unreachable && nb > 2 && r.chance(1, 3) { nb - 1 - r.below(2) as usize } else { nb };
    let reach_n = reach_n.max(1);
    for h in 0..nb {
        // targets: forward edges always allowed; backward / self edges only with loops
        let mut tgt = |r: &mut Rng| -> usize {
            let hi = if h < reach_n { reach_n } else { nb };
            if o.loops && r.chance(1, 4) {
                r.below(hi as u64) as usize
            } else if h + 1 < hi {
                r.range(h as u64 + 1, hi as u64 - 1) as usize
            } else {
                usize::MAX
            }
        };
        let shape = r.below(10);
        let (t1, t2, t3) = (tgt(r), tgt(r), tgt(r));
        if t1 == usize::MAX {
            continue; // exit block
        }
        if shape < 4 || t2 == usize::MAX || t2 == t1 {
            if shape == 0 && nb > 1 && h + 1 == reach_n {
                continue;
            }
            cfg.unconditional_edge(h, t1).unwrap();
        } else if shape < 8 || t3 == usize::MAX || t3 == t1 || t3 == t2 {
            let c = gen_cond(r, o);
            let nc = Expression::cmpeq(c.clone(), il::expr_const(0, 1)).unwrap();
            cfg.conditional_edge(h, t1, c).unwrap();
            cfg.conditional_edge(h, t2, nc).unwrap();
        } else {
            // three-way fan on an unsigned value: x < k1 ; k1 <= x < k2 ; k2 <= x
            let s = o.scalars[r.below(o.scalars.len() as u64) as usize].clone();
            let (x, w) = (il::expr_scalar(s.0.clone(), s.1), s.1);
            if w < 2 {
                cfg.unconditional_edge(h, t1).unwrap();
                continue;
            }
            let k1 = il::expr_const(1, w);
            let k2 = il::expr_const(3, w);
            let lt1 = Expression::cmpltu(x.clone(), k1).unwrap();
            let lt2 = Expression::cmpltu(x.clone(), k2).unwrap();
            let not = |e: Expression| Expression::cmpeq(e, il::expr_const(0, 1)).unwrap();
            cfg.conditional_edge(h, t1, lt1.clone()).unwrap();
            cfg.conditional_edge(h, t2, Expression::and(not(lt1), lt2.clone()).unwrap()).unwrap();
            cfg.conditional_edge(h, t3, not(lt2)).unwrap();
        }
    }
    cfg.set_entry(0).unwrap();
    cfg.set_exit(nb - 1).unwrap();
    Function::new(address, cfg)
}

/// a program holding the given functions (indices assigned by add_function)
pub fn program_of(fs: Vec<Function>) -> Program {
    let mut p = Program::new();
    for f in fs {
        p.add_function(f);
    }
    p
}
