pub fn placeholder() {}
