//! C20 harness: regenerates, from the code, the architecture descriptors, the default calling-convention
//! tables (fields and query answers), the translators' register tables (guarded hook `verif_registers`),
//! the scalars / address widths that occur in IL lifted by each architecture's translator, a decode
//! byte-order probe and the loader's choice of descriptor -- as Gallina `dump` terms (Arch/Descr.v).
//! One case per (architecture, clause) + one coverage case; everything is deterministic (no PRNG use).
use falcon::analysis::calling_convention::{ArgumentType, CallingConvention, ReturnAddressType};
use falcon::architecture::{self, Architecture, Endian};
use falcon::il;
use falcon::loader::Loader;
use falcon::translator::Options;
use fvh::*;
use std::collections::{BTreeMap, BTreeSet};

type Reg = (String, usize);

const CLAUSES: [&str; 12] = [
    "CDescr", "CLifted", "CStackOps", "CNamed", "CArgs", "CRet", "CRetAddr", "CStackStride", "CStackBase", "CDisjoint",
    "CSpPreserved", "CClasses",
];

fn archs() -> Vec<Box<dyn Architecture>> {
    vec![
        Box::new(architecture::X86::new()),
        Box::new(architecture::Amd64::new()),
        Box::new(architecture::Mips::new()),
        Box::new(architecture::Mipsel::new()),
        Box::new(architecture::Ppc::new()),
        Box::new(architecture::AArch64::new()),
        Box::new(architecture::AArch64Eb::new()),
    ]
}

/// the translator's register table, through the guarded hooks
fn table(name: &str) -> Vec<Reg> {
    match name {
        "x86" => falcon::translator::x86::verif_registers(false),
        "amd64" => falcon::translator::x86::verif_registers(true),
        "mips" | "mipsel" => falcon::translator::mips::verif_registers(),
        "ppc" => falcon::translator::ppc::verif_registers(),
        "aarch64" | "aarch64eb" => falcon::translator::aarch64::verif_registers(),
        _ => vec![],
    }
}

// ---------------------------------------------------------------- instruction corpus
// byte sequences of the translators' own unit tests (lib/translator/*/test*.rs) ...
const X86_CORPUS: &[&[u8]] = &[
    &[0x0f, 0x05],
    &[0x0f, 0x0b],
    &[0x0f, 0x34],
    &[0x0f, 0x94, 0xc0, 0x90],
    &[0x0f, 0x95, 0xc0, 0x90],
    &[0x0f, 0x9c, 0xc0, 0x90],
    &[0x0f, 0xbf, 0xc3, 0x90],
    &[0x48, 0x01, 0xd8, 0x90],
    &[0x48, 0x09, 0xd8, 0x90],
    &[0x48, 0x0f, 0x42, 0xc3, 0x90],
    &[0x48, 0x0f, 0x44, 0xc3, 0x90],
    &[0x48, 0x0f, 0x45, 0xc3, 0x90],
    &[0x48, 0x0f, 0x4f, 0xc3, 0x90],
    &[0x48, 0x0f, 0xa3, 0xd8, 0x90],
    &[0x48, 0x0f, 0xa4, 0xd8, 0x04, 0x90],
    &[0x48, 0x0f, 0xa5, 0xd8, 0x90],
    &[0x48, 0x0f, 0xab, 0xd8, 0x90],
    &[0x48, 0x0f, 0xac, 0xd8, 0x04, 0x90],
    &[0x48, 0x0f, 0xad, 0xd8, 0x90],
    &[0x48, 0x0f, 0xaf, 0xc3, 0x90],
    &[0x48, 0x0f, 0xb1, 0xcb, 0x90],
    &[0x48, 0x0f, 0xb3, 0xd8, 0x90],
    &[0x48, 0x0f, 0xbb, 0xd8, 0x90],
    &[0x48, 0x0f, 0xbc, 0xc3, 0x90],
    &[0x48, 0x0f, 0xbd, 0xc3, 0x90],
    &[0x48, 0x0f, 0xc1, 0xd8, 0x90],
    &[0x48, 0x0f, 0xc8, 0x90],
    &[0x48, 0x11, 0xd8, 0x90],
    &[0x48, 0x19, 0xd8, 0x90],
    &[0x48, 0x21, 0xd8, 0x90],
    &[0x48, 0x29, 0xd8, 0x90],
    &[0x48, 0x31, 0xd8, 0x90],
    &[0x48, 0x39, 0xd8, 0x90],
    &[0x48, 0x63, 0xc1, 0x90],
    &[0x48, 0x85, 0xd8, 0x90],
    &[0x48, 0x89, 0xd8, 0x90],
    &[0x48, 0x8b, 0x03, 0x90],
    &[0x48, 0x8d, 0x44, 0x8b, 0x10, 0x90],
    &[0x48, 0x8d, 0x83, 0x00, 0x01, 0x00, 0x00, 0x90],
    &[0x48, 0x93, 0x90],
    &[0x48, 0x98, 0x90],
    &[0x48, 0xa5, 0x90],
    &[0x48, 0xc1, 0xc0, 0x11, 0x90],
    &[0x48, 0xd1, 0xe0, 0x90],
    &[0x48, 0xd1, 0xe8, 0x90],
    &[0x48, 0xd1, 0xf8, 0x90],
    &[0x48, 0xd3, 0xe0, 0x90],
    &[0x48, 0xd3, 0xe8, 0x90],
    &[0x48, 0xd3, 0xf8, 0x90],
    &[0x48, 0xf7, 0xd0, 0x90],
    &[0x48, 0xf7, 0xd8, 0x90],
    &[0x48, 0xf7, 0xe3, 0x90],
    &[0x48, 0xf7, 0xeb, 0x90],
    &[0x48, 0xf7, 0xf3, 0x90],
    &[0x48, 0xf7, 0xfb, 0x90],
    &[0x48, 0xff, 0xc0, 0x90],
    &[0x48, 0xff, 0xc8, 0x90],
    &[0x49, 0xc1, 0xc8, 0x11, 0x90],
    &[0x50, 0x90],
    &[0x53, 0x90],
    &[0x58, 0x90],
    &[0x5b, 0x90],
    &[0x66, 0x0f, 0x12, 0x00, 0x90],
    &[0x66, 0x0f, 0x16, 0x00, 0x90],
    &[0x66, 0x0f, 0x60, 0xc1, 0x90],
    &[0x66, 0x0f, 0x61, 0xc1, 0x90],
    &[0x66, 0x0f, 0x6e, 0xce, 0x90],
    &[0x66, 0x0f, 0x70, 0xc1, 0x00, 0x90],
    &[0x66, 0x0f, 0x70, 0xc1, 0x1b, 0x90],
    &[0x66, 0x0f, 0x73, 0xd8, 0x04, 0x90],
    &[0x66, 0x0f, 0x73, 0xd8, 0x08, 0x90],
    &[0x66, 0x0f, 0x73, 0xf8, 0x04, 0x90],
    &[0x66, 0x0f, 0x73, 0xf8, 0x08, 0x90],
    &[0x66, 0x0f, 0x74, 0xc1, 0x90],
    &[0x66, 0x0f, 0x76, 0xc1, 0x90],
    &[0x66, 0x0f, 0xd4, 0xc1, 0x90],
    &[0x66, 0x0f, 0xd7, 0xd4, 0x90],
    &[0x66, 0x0f, 0xda, 0xc1, 0x90],
    &[0x66, 0x0f, 0xeb, 0xc1, 0x90],
    &[0x66, 0x0f, 0xef, 0xc0, 0x90],
    &[0x66, 0x0f, 0xef, 0xc1, 0x90],
    &[0x66, 0x0f, 0xf8, 0xc1, 0x90],
    &[0x66, 0x0f, 0xfb, 0xc1, 0x90],
    &[0x66, 0x48, 0x0f, 0x6e, 0xc0, 0x90],
    &[0x66, 0x98, 0x90],
    &[0x66, 0x99, 0x90],
    &[0x66, 0xaf, 0x90],
    &[0x74, 0x0e],
    &[0x8d, 0x48, 0xfd],
    &[0x90],
    &[0x98, 0x90],
    &[0x99, 0x90],
    &[0x9e, 0x90],
    &[0xa4, 0x90],
    &[0xa6, 0x90],
    &[0xaa, 0x90],
    &[0xac, 0x90],
    &[0xad, 0x90],
    &[0xae, 0x90],
    &[0xc3],
    &[0xc9, 0x90],
    &[0xcd, 0x80],
    &[0xe2, 0xfe, 0x90],
    &[0xeb, 0x0e],
    &[0xf5, 0x90],
    &[0xf8, 0x90],
    &[0xf9, 0x90],
    &[0xfa, 0x90],
    &[0xfb, 0x90],
    &[0xfc, 0x90],
    &[0xfd, 0x90],
    &[0xff, 0xd0],
    &[0xff, 0xd3],
];
const MIPS_CORPUS: &[&[u8]] = &[
    &[0x00, 0x00, 0x00, 0x00],
    &[0x00, 0x00, 0x00, 0x0c],
    &[0x00, 0x00, 0x00, 0x0d],
    &[0x00, 0x00, 0x00, 0x0f],
    &[0x00, 0x00, 0x20, 0x10],
    &[0x00, 0x00, 0x20, 0x12],
    &[0x00, 0x00, 0x20, 0x25],
    &[0x00, 0x05, 0x20, 0x23],
    &[0x00, 0x05, 0x24, 0x00],
    &[0x00, 0x05, 0x24, 0x02],
    &[0x00, 0x05, 0x24, 0x03],
    &[0x00, 0x05, 0x27, 0xc3],
    &[0x00, 0x80, 0x00, 0x11],
    &[0x00, 0x80, 0x00, 0x13],
    &[0x00, 0x84, 0x20, 0x25],
    &[0x00, 0x85, 0x00, 0x18],
    &[0x00, 0x85, 0x00, 0x19],
    &[0x00, 0x85, 0x00, 0x1a],
    &[0x00, 0x85, 0x00, 0x1b],
    &[0x00, 0x85, 0x00, 0x34],
    &[0x00, 0xa0, 0x20, 0x25],
    &[0x00, 0xa6, 0x20, 0x0a],
    &[0x00, 0xa6, 0x20, 0x0b],
    &[0x00, 0xa6, 0x20, 0x20],
    &[0x00, 0xa6, 0x20, 0x21],
    &[0x00, 0xa6, 0x20, 0x22],
    &[0x00, 0xa6, 0x20, 0x23],
    &[0x00, 0xa6, 0x20, 0x24],
    &[0x00, 0xa6, 0x20, 0x25],
    &[0x00, 0xa6, 0x20, 0x26],
    &[0x00, 0xa6, 0x20, 0x27],
    &[0x00, 0xa6, 0x20, 0x2a],
    &[0x00, 0xa6, 0x20, 0x2b],
    &[0x00, 0xc5, 0x20, 0x04],
    &[0x00, 0xc5, 0x20, 0x06],
    &[0x00, 0xc5, 0x20, 0x07],
    &[0x20, 0xa4, 0x12, 0x34],
    &[0x24, 0xa4, 0x12, 0x34],
    &[0x24, 0xa4, 0xff, 0xff],
    &[0x28, 0xa4, 0x10, 0x00],
    &[0x28, 0xca, 0x00, 0x08],
    &[0x2c, 0xa4, 0x10, 0x00],
    &[0x2c, 0xa4, 0xff, 0xff],
    &[0x30, 0xa4, 0x12, 0x34],
    &[0x34, 0xa4, 0x12, 0x34],
    &[0x38, 0xa4, 0x0f, 0x0f],
    &[0x3c, 0x04, 0x12, 0x34],
    &[0x70, 0x85, 0x00, 0x00],
    &[0x70, 0x85, 0x00, 0x01],
    &[0x70, 0x85, 0x00, 0x04],
    &[0x70, 0x85, 0x00, 0x05],
    &[0x70, 0xa4, 0x20, 0x20],
    &[0x70, 0xa4, 0x20, 0x21],
    &[0x70, 0xa6, 0x20, 0x02],
    &[0x7c, 0x04, 0xe8, 0x3b],
    &[0x80, 0xa4, 0x00, 0xef],
    &[0x84, 0xa4, 0x00, 0xef],
    &[0x88, 0xa4, 0x00, 0x00],
    &[0x8c, 0xa4, 0x00, 0xef],
    &[0x90, 0xa4, 0x00, 0xf0],
    &[0x94, 0xa4, 0x00, 0xef],
    &[0x98, 0xa4, 0x00, 0x00],
    &[0xc0, 0xa4, 0x00, 0xef],
    &[0xcc, 0x80, 0x00, 0x00],
];
const PPC_CORPUS: &[&[u8]] = &[
    &[0x54, 0x86, 0x10, 0x3a],
    &[0x60, 0x00, 0x00, 0x00],
];
const A64_CORPUS: &[u32] = &[
    0x0e0c3ffd,
    0x14000002,
    0x2900712f,
    0x29400d2f,
    0x36800044,
    0x37800044,
    0x3900012f,
    0x3940012f,
    0x3980012f,
    0x39c0012f,
    0x3d80012f,
    0x3dc0012f,
    0x4e081c1f,
    0x54000040,
    0x69400d2f,
    0x6e0d17ff,
    0x7900012f,
    0x7940012f,
    0x7980012f,
    0x79c0012f,
    0x8b0073e0,
    0x8b020020,
    0x8b200c20,
    0x8b202c20,
    0x8b204c20,
    0x8b206c20,
    0x8b208c20,
    0x8b20ac20,
    0x8b20cc20,
    0x8b20ec20,
    0x8b4063e0,
    0x8b8063e0,
    0x91001063,
    0xa900712f,
    0xa9400d2f,
    0xab020020,
    0xb4000044,
    0xb5000044,
    0xb800312f,
    0xb900012f,
    0xb940012f,
    0xb980012f,
    0xcb020020,
    0xd2800043,
    0xd2800580,
    0xd28005a0,
    0xd503201f,
    0xd61f0020,
    0xd63f0020,
    0xeb020020,
    0xf800313f,
    0xf840312f,
    0xf840852f,
    0xf8408d2f,
    0xf868592f,
    0xf868792f,
    0xf868c92f,
    0xf868d92f,
    0xf900012f,
    0xf900013f,
    0xf940012f,
    0xf940052f,
];
// ... and the usual prologue / epilogue / call / stack-access instructions of each ABI
const X86_EXTRA: &[&[u8]] = &[
    &[0x55], &[0x89, 0xe5], &[0x83, 0xec, 0x10], &[0x8b, 0x45, 0x08], &[0x89, 0x45, 0xfc], &[0xc9], &[0xc3],
    &[0xe8, 0x00, 0x00, 0x00, 0x00], &[0xb8, 0x44, 0x33, 0x22, 0x11], &[0x5b], &[0x56], &[0x57], &[0x5e], &[0x5f],
    &[0x53], &[0x51], &[0x52], &[0x50], &[0xfc], &[0xf3, 0xa4], &[0x65, 0xa1, 0x14, 0x00, 0x00, 0x00],
    &[0xcd, 0x80], &[0x8d, 0x4c, 0x24, 0x04], &[0x83, 0xe4, 0xf0], &[0xff, 0x71, 0xfc], &[0x01, 0xd8], &[0x31, 0xc9],
    &[0x0f, 0xaf, 0xc2], &[0xf7, 0xe1], &[0x89, 0xf7], &[0x89, 0xd3], &[0xff, 0xd0], &[0xc2, 0x08, 0x00],
    &[0x64, 0x8b, 0x05, 0x00, 0x00, 0x00, 0x00], &[0x8a, 0x07], &[0x66, 0x89, 0x07], &[0xaa], &[0xab],
];
const AMD64_EXTRA: &[&[u8]] = &[
    &[0x55], &[0x48, 0x89, 0xe5], &[0x48, 0x83, 0xec, 0x20], &[0x48, 0x8b, 0x44, 0x24, 0x08], &[0xc9], &[0xc3],
    &[0xe8, 0x00, 0x00, 0x00, 0x00], &[0x48, 0x89, 0xf7], &[0x4d, 0x89, 0xc8], &[0x4d, 0x89, 0xda], &[0x4d, 0x89, 0xec],
    &[0x4d, 0x89, 0xfe], &[0x48, 0x89, 0xd1], &[0x48, 0x89, 0xd8], &[0x66, 0x48, 0x0f, 0x6e, 0xc0],
    &[0x64, 0x48, 0x8b, 0x04, 0x25, 0x28, 0x00, 0x00, 0x00], &[0x65, 0x48, 0x8b, 0x04, 0x25, 0x28, 0x00, 0x00, 0x00],
    &[0x0f, 0x05], &[0x41, 0x54], &[0x41, 0x55], &[0x41, 0x56], &[0x41, 0x57], &[0x41, 0x5c], &[0x53], &[0x5b],
    &[0x48, 0x8d, 0x3d, 0x00, 0x10, 0x00, 0x00], &[0x48, 0x31, 0xc0], &[0x4c, 0x89, 0xe7], &[0x4c, 0x89, 0xd0],
    &[0x4c, 0x89, 0xd8], &[0x49, 0x89, 0xc1], &[0x49, 0x89, 0xc0], &[0xff, 0xd0], &[0x66, 0x0f, 0xef, 0xc9],
    &[0x66, 0x0f, 0xd4, 0xd3], &[0x66, 0x45, 0x0f, 0xef, 0xc0],
];
// (big-endian words; stored in the architecture's byte order before lifting)
const MIPS_EXTRA: &[u32] = &[
    0x27bdffe0, 0xafbf001c, 0xafbe0018, 0x03a0f025, 0x03a0f021, 0x8fbf001c, 0x8fbe0018, 0x03e00008, 0x0c000400,
    0x3c1c0002, 0x279c8000, 0x24020001, 0x8f990010, 0x0320f809, 0x00851021, 0x00041080, 0x00850018, 0x00001012,
    0x00001810, 0x0085001a, 0xafa40020, 0x8fa50024, 0x00808025, 0x00a08825, 0x00c09025, 0x00e09825, 0x0000a025,
    0x0000a825, 0x0000b025, 0x0000b825, 0x03a0e825, 0x27bd0020, 0x00000000, 0x0000000c, 0x24010001, 0x00201825,
    0x01094020, 0x012a5821, 0x018d7024, 0x01f8c825, 0x035bd025, 0x93a20010, 0xa3a20010, 0x97a20010, 0xa7a20010,
];
const PPC_EXTRA: &[u32] = &[
    0x7c0802a6, 0x9421fff0, 0x90010014, 0x80010014, 0x7c0803a6, 0x4e800020, 0x38630001, 0x38600000, 0x48000009,
    0x7c3f0b78, 0x2c030000, 0x7c642a14, 0x89230000, 0x99230000, 0x4e800420, 0x7d2903a6, 0x3d201000, 0x61290010,
    0x5486103a, 0x7c642850, 0x7c630194, 0x28030005, 0x85230004, 0x60000000, 0x38210010, 0x93e1000c, 0x83e1000c,
    0x7c0a5b78, 0x7d6c6378, 0x7dcf7378, 0x7e118378, 0x7e539378, 0x7e95a378, 0x7ed7b378, 0x7f19c378, 0x7f5bd378,
    0x7f9de378, 0x7fdff378, 0x7c4d1378, 0x80a10008, 0x90c1000c, 0x7c0004ac, 0x7c6802a6, 0x7c8903a6, 0x4e800021,
    0x41820008, 0x40820008, 0x4bfffff9, 0x7c841b78, 0x7ca62b78, 0x7ce83b78,
];
const A64_EXTRA: &[u32] = &[
    0xa9bf7bfd, 0x910003fd, 0xa8c17bfd, 0xd65f03c0, 0x94000001, 0xd10083ff, 0x910083ff, 0xf90007e0, 0xf94007e0,
    0xaa0103e0, 0x3dc003e0, 0x9e670000, 0xd63f0200, 0xaa1403f3, 0xaa1603f5, 0xaa1803f7, 0xaa1a03f9, 0xaa1c03fb,
    0xaa0203e1, 0xaa0403e3, 0xaa0603e5, 0xaa0803e7, 0xaa0a03e9, 0xaa0c03eb, 0xaa0e03ed, 0xaa1003ef, 0xaa1203f1,
    0xaa1e03e0, 0xf9400bf3, 0xa90153f3, 0xa9425bf5, 0xb9400fe0, 0x39403fe0, 0x79401fe0, 0x3d8003e1, 0xad0007e0,
    0x6d0027e8, 0xfd4007e8, 0xd61f0200, 0x8b020020, 0xeb01001f, 0x54000040, 0xb4000040, 0x1e604100, 0x4ea11c20,
];

fn le32(ws: &[u32]) -> Vec<Vec<u8>> { ws.iter().map(|w| w.to_le_bytes().to_vec()).collect() }
fn be32(ws: &[u32]) -> Vec<Vec<u8>> { ws.iter().map(|w| w.to_be_bytes().to_vec()).collect() }
fn swap4(b: &[u8]) -> Vec<u8> { b.chunks(4).flat_map(|c| c.iter().rev().cloned().collect::<Vec<u8>>()).collect() }

/// one instruction per row of the translator's register table (every sub-register kind of every GPR, 16-bit
/// sp/bp/si/di, segment bases, xmm; every MIPS / PPC / A64 register), where an encoding exists
fn register_rows(name: &str) -> Vec<Vec<u8>> {
    let mut v: Vec<Vec<u8>> = vec![];
    let modrm = |i: u8| 0xC0 | (i << 3) | ((i + 1) % 8);
    match name {
        "x86" => {
            for i in 0..8u8 {
                v.push(vec![0x88, modrm(i)]);            // mov r8, r8   (al cl dl bl ah ch dh bh)
                v.push(vec![0x66, 0x89, modrm(i)]);      // mov r16, r16 (ax cx dx bx sp bp si di)
                v.push(vec![0x89, modrm(i)]);            // mov r32, r32
                v.push(vec![0x66, 0x50 + i]); v.push(vec![0x66, 0x58 + i]);   // push / pop r16
                v.push(vec![0x50 + i]); v.push(vec![0x58 + i]);               // push / pop r32
            }
            for p in [0x26u8, 0x2e, 0x36, 0x3e, 0x64, 0x65] { v.push(vec![p, 0xa1, 0, 0, 0, 0]); }   // mov eax, seg:[0]
            v.push(vec![0xc2, 0x08, 0x00]); v.push(vec![0xc9]); v.push(vec![0xc8, 0x10, 0x00, 0x00]);  // ret 8, leave, enter 16,0
            v.push(vec![0x66, 0xc3]); v.push(vec![0x66, 0xc9]);
        }
        "amd64" => {
            for i in 0..8u8 {
                v.push(vec![0x88, modrm(i)]);                 // al .. bh
                v.push(vec![0x40, 0x88, modrm(i)]);           // al cl dl bl spl bpl sil dil
                v.push(vec![0x45, 0x88, modrm(i)]);           // r8b .. r15b
                v.push(vec![0x66, 0x89, modrm(i)]); v.push(vec![0x66, 0x45, 0x89, modrm(i)]);
                v.push(vec![0x89, modrm(i)]); v.push(vec![0x45, 0x89, modrm(i)]);
                v.push(vec![0x48, 0x89, modrm(i)]); v.push(vec![0x4d, 0x89, modrm(i)]);
                v.push(vec![0x50 + i]); v.push(vec![0x58 + i]); v.push(vec![0x41, 0x50 + i]); v.push(vec![0x41, 0x58 + i]);
                v.push(vec![0x66, 0x50 + i]); v.push(vec![0x66, 0x58 + i]);
                v.push(vec![0x66, 0x0f, 0xef, 0xC0 | (i << 3) | i]);          // pxor xmm0-7
                v.push(vec![0x66, 0x45, 0x0f, 0xef, 0xC0 | (i << 3) | i]);    // pxor xmm8-15
                v.push(vec![0x62, 0xa1, 0x7d, 0x00, 0xef, 0xC0 | (i << 3) | i]);   // vpxord xmm16-23 (EVEX)
                v.push(vec![0x62, 0x01, 0x7d, 0x00, 0xef, 0xC0 | (i << 3) | i]);   // vpxord xmm24-31 (EVEX)
            }
            for p in [0x26u8, 0x2e, 0x36, 0x3e, 0x64, 0x65] { v.push(vec![p, 0x48, 0x8b, 0x04, 0x25, 0, 0, 0, 0]); }
            v.push(vec![0xc2, 0x08, 0x00]); v.push(vec![0xc9]); v.push(vec![0xc8, 0x10, 0x00, 0x00]);
            v.push(vec![0x66, 0xc9]);
        }
        "mips" | "mipsel" => {
            for d in 0..32u32 {
                let w = (d << 21) | (d << 16) | (d << 11) | 0x21;       // addu $d, $d, $d
                v.push(if name == "mips" { w.to_be_bytes().to_vec() } else { w.to_le_bytes().to_vec() });
            }
        }
        "ppc" => {
            for r in 0..32u32 { v.push((0x7c000378u32 | (r << 21) | (r << 16) | (r << 11)).to_be_bytes().to_vec()); }  // or r, r, r
            for c in 0..8u32 { v.push((0x2c030000u32 | (c << 23)).to_be_bytes().to_vec()); }                           // cmpwi crN, r3, 0
            v.push(0x7d2903a6u32.to_be_bytes().to_vec()); v.push(0x7d2902a6u32.to_be_bytes().to_vec());                 // mtctr / mfctr r9
        }
        _ => {
            for n in 0..31u32 { v.push((0xaa0003e0u32 | (n << 16) | n).to_le_bytes().to_vec()); }    // mov xN, xN
            for n in 0..32u32 {
                v.push((0x3dc003e0u32 | n).to_le_bytes().to_vec());    // ldr qN, [sp]
                v.push((0x85804000u32 | n).to_le_bytes().to_vec());    // ldr zN, [x0]   (SVE)
                if n < 16 { v.push((0x85800000u32 | n).to_le_bytes().to_vec()); }   // ldr pN, [x0]   (SVE)
            }
        }
    }
    v
}

/// the instructions that move the stack pointer by the ISA's definition
fn stack_ops(name: &str) -> Vec<(&'static str, Vec<u8>)> {
    let w = |big: bool, x: u32| if big { x.to_be_bytes().to_vec() } else { x.to_le_bytes().to_vec() };
    match name {
        "x86" => vec![("push eax", vec![0x50]), ("pop eax", vec![0x58]), ("push ax", vec![0x66, 0x50]), ("pop ax", vec![0x66, 0x58]),
                      ("push imm8", vec![0x6a, 0x01]), ("call rel32", vec![0xe8, 0, 0, 0, 0]), ("call eax", vec![0xff, 0xd0]),
                      ("ret", vec![0xc3]), ("ret 8", vec![0xc2, 0x08, 0x00]), ("leave", vec![0xc9]), ("enter 16,0", vec![0xc8, 0x10, 0x00, 0x00]),
                      ("sub esp,16", vec![0x83, 0xec, 0x10]), ("mov esp,ebp", vec![0x89, 0xec]),
                      ("sub sp,16", vec![0x66, 0x83, 0xec, 0x10]), ("mov sp,bp", vec![0x66, 0x89, 0xec])],
        "amd64" => vec![("push rax", vec![0x50]), ("pop rax", vec![0x58]), ("push r12", vec![0x41, 0x54]), ("pop r12", vec![0x41, 0x5c]),
                        ("push ax", vec![0x66, 0x50]), ("pop ax", vec![0x66, 0x58]), ("push imm8", vec![0x6a, 0x01]),
                        ("call rel32", vec![0xe8, 0, 0, 0, 0]), ("call rax", vec![0xff, 0xd0]), ("ret", vec![0xc3]), ("ret 8", vec![0xc2, 0x08, 0x00]),
                        ("leave", vec![0xc9]), ("enter 16,0", vec![0xc8, 0x10, 0x00, 0x00]), ("sub rsp,32", vec![0x48, 0x83, 0xec, 0x20]),
                        ("mov rsp,rbp", vec![0x48, 0x89, 0xec]), ("sub esp,16", vec![0x83, 0xec, 0x10]), ("mov esp,ebp", vec![0x89, 0xec]),
                        ("sub sp,16", vec![0x66, 0x83, 0xec, 0x10]), ("mov sp,bp", vec![0x66, 0x89, 0xec])],
        "mips" | "mipsel" => { let b = name == "mips";
            vec![("addiu $sp,$sp,-32", w(b, 0x27bdffe0)), ("addiu $sp,$sp,32", w(b, 0x27bd0020)), ("move $sp,$fp", w(b, 0x03c0e825))] }
        "ppc" => vec![("stwu r1,-16(r1)", w(true, 0x9421fff0)), ("addi r1,r1,16", w(true, 0x38210010)), ("mr r1,r31", w(true, 0x7fe1fb78))],
        _ => vec![("stp x29,x30,[sp,#-16]!", w(false, 0xa9bf7bfd)), ("ldp x29,x30,[sp],#16", w(false, 0xa8c17bfd)),
                  ("sub sp,sp,#32", w(false, 0xd10083ff)), ("add sp,sp,#32", w(false, 0x910083ff)), ("mov sp,x29", w(false, 0x910003bf))],
    }
}

fn corpus(name: &str) -> Vec<Vec<u8>> {
    let own = |c: &[&[u8]]| c.iter().map(|b| b.to_vec()).collect::<Vec<_>>();
    let mut v = match name {
        "x86" => { let mut v = own(X86_EXTRA); v.extend(own(X86_CORPUS)); v }
        "amd64" => { let mut v = own(AMD64_EXTRA); v.extend(own(X86_CORPUS)); v }
        "mips" => { let mut v = be32(MIPS_EXTRA); v.extend(own(MIPS_CORPUS)); v }
        "mipsel" => { let mut v = le32(MIPS_EXTRA); v.extend(MIPS_CORPUS.iter().map(|b| swap4(b))); v }
        "ppc" => { let mut v = be32(PPC_EXTRA); v.extend(own(PPC_CORPUS)); v }
        "aarch64" | "aarch64eb" => { let mut v = le32(A64_EXTRA); v.extend(le32(A64_CORPUS)); v }
        _ => vec![],
    };
    v.extend(register_rows(name));
    v.extend(stack_ops(name).into_iter().map(|(_, b)| b));
    v
}

struct Lifted {
    ok: usize,
    failed: usize,
    seen: BTreeSet<Reg>,
    addr_widths: BTreeSet<usize>,
    assigned: BTreeSet<String>,
    written: BTreeSet<Reg>,
    text: String,
}

fn lift(arch: &dyn Architecture, seqs: &[Vec<u8>]) -> Lifted {
    let tr = arch.translator();
    let mut l = Lifted { ok: 0, failed: 0, seen: BTreeSet::new(), addr_widths: BTreeSet::new(), assigned: BTreeSet::new(), written: BTreeSet::new(), text: String::new() };
    for bytes in seqs {
        let r = observe(|| tr.translate_block(bytes, 0x1000, &Options::default()));
        let btr = match r { Obs::Ok(b) => b, _ => { l.failed += 1; continue; } };
        l.ok += 1;
        for (_, cfg) in btr.instructions() {
            for block in cfg.blocks() {
                for ins in block.instructions() {
                    let op = ins.operation();
                    l.text.push_str(&format!("{}\n", op));
                    let mut scalars: Vec<&il::Scalar> = vec![];
                    if let Some(v) = op.scalars_read() { scalars.extend(v); }
                    if let Some(v) = op.scalars_written() { scalars.extend(v); }
                    for s in scalars { l.seen.insert((s.name().to_string(), s.bits())); }
                    if let Some(v) = op.scalars_written() { for s in v { l.written.insert((s.name().to_string(), s.bits())); } }
                    match op {
                        il::Operation::Load { index, .. } | il::Operation::Store { index, .. } => { l.addr_widths.insert(index.bits()); }
                        _ => {}
                    }
                    if let il::Operation::Assign { dst, .. } | il::Operation::Load { dst, .. } = op { l.assigned.insert(dst.name().to_string()); }
                }
            }
            for e in cfg.edges() {
                if let Some(c) = e.condition() {
                    for s in c.scalars() { l.seen.insert((s.name().to_string(), s.bits())); }
                }
            }
        }
    }
    l
}

/// In which byte order does the translator decode?  One instruction that writes the stack pointer is stored
/// both ways; an x86 `mov esp, 0x11223344` carries its immediate both ways.
fn probe(arch: &dyn Architecture) -> &'static str {
    let sp = arch.stack_pointer().name().to_string();
    let hit = |bytes: Vec<u8>, want_imm: bool| -> bool {
        let l = lift(arch, &[bytes]);
        if want_imm { l.ok == 1 && l.text.to_lowercase().contains("11223344") } else { l.ok == 1 && l.assigned.contains(&sp) }
    };
    let (little, big) = match arch.name() {
        "x86" | "amd64" => (hit(vec![0xbc, 0x44, 0x33, 0x22, 0x11], true), hit(vec![0xbc, 0x11, 0x22, 0x33, 0x44], true)),
        "mips" | "mipsel" => (hit(0x27bdffe0u32.to_le_bytes().to_vec(), false), hit(0x27bdffe0u32.to_be_bytes().to_vec(), false)),
        "ppc" => (hit(0x9421fff0u32.to_le_bytes().to_vec(), false), hit(0x9421fff0u32.to_be_bytes().to_vec(), false)),
        _ => (hit(0xd10083ffu32.to_le_bytes().to_vec(), false), hit(0xd10083ffu32.to_be_bytes().to_vec(), false)),
    };
    match (little, big) { (true, false) => "PLittle", (false, true) => "PBig", (true, true) => "PBoth", _ => "PNeither" }
}

/// a bare ELF header (no program / section headers) for the loader
fn elf_header(machine: u16, class64: bool, big: bool) -> Vec<u8> {
    let mut b = vec![0x7f, b'E', b'L', b'F', if class64 { 2 } else { 1 }, if big { 2 } else { 1 }, 1, 0, 0, 0, 0, 0, 0, 0, 0, 0];
    let p16 = |b: &mut Vec<u8>, v: u16| b.extend_from_slice(&if big { v.to_be_bytes() } else { v.to_le_bytes() });
    let p32 = |b: &mut Vec<u8>, v: u32| b.extend_from_slice(&if big { v.to_be_bytes() } else { v.to_le_bytes() });
    let p64 = |b: &mut Vec<u8>, v: u64| b.extend_from_slice(&if big { v.to_be_bytes() } else { v.to_le_bytes() });
    p16(&mut b, 2); p16(&mut b, machine); p32(&mut b, 1);
    if class64 { p64(&mut b, 0); p64(&mut b, 0); p64(&mut b, 0); } else { p32(&mut b, 0); p32(&mut b, 0); p32(&mut b, 0); }
    p32(&mut b, 0);
    p16(&mut b, if class64 { 64 } else { 52 }); p16(&mut b, if class64 { 56 } else { 32 }); p16(&mut b, 0);
    p16(&mut b, if class64 { 64 } else { 40 }); p16(&mut b, 0); p16(&mut b, 0);
    b
}
fn elf_machine(name: &str) -> (u16, bool) {
    match name { "x86" => (3, false), "amd64" => (62, true), "mips" | "mipsel" => (8, false), "ppc" => (20, false), _ => (183, true) }
}

// ---------------------------------------------------------------- the dump of one architecture
struct Dump {
    name: String, endian: Endian, word: usize, sp: Reg, cc: CallingConvention,
    argtypes: Vec<ArgumentType>, queried: Vec<Reg>, is_preserved: Vec<Option<bool>>, is_trashed: Vec<Option<bool>>,
    table: Vec<Reg>, lifted: Lifted, stack_ops: Vec<(String, Vec<Reg>)>, stack_ops_rejected: Vec<String>, probe: &'static str, elf: (u16, bool), loader: Option<(String, Endian)>,
}

fn reg_of(s: &il::Scalar) -> Reg { (s.name().to_string(), s.bits()) }
fn sorted(h: &std::collections::HashSet<il::Scalar>) -> Vec<Reg> { let mut v: Vec<Reg> = h.iter().map(reg_of).collect(); v.sort(); v }

fn dump(arch: &dyn Architecture) -> Dump {
    let name = arch.name().to_string();
    let cc = arch.calling_convention();
    let sp = reg_of(&arch.stack_pointer());
    let table = table(&name);
    let lifted = lift(arch, &corpus(&name));
    let mut stack_ops_ok = vec![];
    let mut stack_ops_rejected = vec![];
    for (m, bytes) in stack_ops(&name) {
        let l = lift(arch, &[bytes]);
        if l.ok == 1 { stack_ops_ok.push((m.to_string(), l.written.iter().filter(|r| !r.0.starts_with("temp_")).cloned().collect::<Vec<Reg>>())); }
        else { stack_ops_rejected.push(m.to_string()); }
    }
    let mut q: BTreeSet<Reg> = BTreeSet::new();
    q.insert(sp.clone());
    q.extend(cc.argument_registers().iter().map(reg_of));
    q.extend(sorted(cc.preserved_registers()));
    q.extend(sorted(cc.trashed_registers()));
    q.insert(reg_of(cc.return_register()));
    if let Some(r) = cc.return_address_type().register() { q.insert(reg_of(r)); }
    q.extend(table.iter().cloned());
    q.extend(lifted.seen.iter().cloned());
    let queried: Vec<Reg> = q.into_iter().collect();
    let is_preserved = queried.iter().map(|(n, b)| cc.is_preserved(&il::scalar(n.clone(), *b))).collect();
    let is_trashed = queried.iter().map(|(n, b)| cc.is_trashed(&il::scalar(n.clone(), *b))).collect();
    let argtypes = (0..13).map(|i| cc.argument_type(i)).collect();
    let (machine, class64) = elf_machine(&name);
    let big = arch.endian() == Endian::Big;
    let loader = match observe(|| falcon::loader::Elf::new(elf_header(machine, class64, big), 0)) {
        Obs::Ok(elf) => Some((elf.architecture().name().to_string(), elf.architecture().endian())),
        _ => None,
    };
    Dump { name, endian: arch.endian(), word: arch.word_size(), sp, cc, argtypes, queried, is_preserved, is_trashed,
           table, probe: probe(arch), lifted, stack_ops: stack_ops_ok, stack_ops_rejected, elf: (machine, big), loader }
}

// ---------------------------------------------------------------- Gallina printers
fn g_reg(r: &Reg) -> String { format!("(\"{}\", {})", r.0, r.1) }
fn g_regs(v: &[Reg]) -> String { coq_list(v.iter().map(g_reg)) }
fn g_endian(e: &Endian) -> &'static str { match e { Endian::Big => "Big", Endian::Little => "Little" } }
fn g_optb(o: &Option<bool>) -> String { coq_opt(o.map(|b| coq_bool(b).to_string())) }
fn g_arg(a: &ArgumentType) -> String {
    match a { ArgumentType::Register(s) => format!("(LReg {})", g_reg(&reg_of(s))), ArgumentType::Stack(o) => format!("(LStack {})", o) }
}
fn g_ra(a: &ReturnAddressType) -> String {
    match a { ReturnAddressType::Register(s) => format!("(LReg {})", g_reg(&reg_of(s))), ReturnAddressType::Stack(o) => format!("(LStack {})", o) }
}
fn ident(name: &str) -> String { format!("t_{}", name) }

fn g_dump(d: &Dump) -> String {
    let cc = &d.cc;
    let args: Vec<Reg> = cc.argument_registers().iter().map(reg_of).collect();
    format!(
        "Definition {} : dump := {{|\n d_name := \"{}\"; d_endian := {}; d_word := {}; d_sp := {};\n d_cc := {{| args := {};\n   preserved := {};\n   trashed := {};\n   stack_off := {}; stack_len := {}; ret_addr := {}; ret_reg := {} |}};\n d_argtypes := {};\n d_queried := {};\n d_is_preserved := {};\n d_is_trashed := {};\n d_table := {};\n d_seen := {};\n d_stack_ops := {};\n d_addr_widths := {}; d_probe := {}; d_elf := ({}, {});\n d_loader := {} |}}.",
        ident(&d.name), d.name, g_endian(&d.endian), d.word, g_reg(&d.sp), g_regs(&args),
        g_regs(&sorted(cc.preserved_registers())), g_regs(&sorted(cc.trashed_registers())),
        cc.stack_argument_offset(), cc.stack_argument_length(), g_ra(cc.return_address_type()), g_reg(&reg_of(cc.return_register())),
        coq_list(d.argtypes.iter().map(g_arg)), g_regs(&d.queried),
        coq_list(d.is_preserved.iter().map(g_optb)), coq_list(d.is_trashed.iter().map(g_optb)),
        g_regs(&d.table), g_regs(&d.lifted.seen.iter().cloned().collect::<Vec<_>>()),
        coq_list(d.stack_ops.iter().map(|(m, ws)| format!("(\"{}\", {})", m, g_regs(ws)))),
        coq_list(d.lifted.addr_widths.iter().map(|w| w.to_string())), d.probe, d.elf.0, if d.elf.1 { "Big" } else { "Little" },
        coq_opt(d.loader.as_ref().map(|(n, e)| format!("(\"{}\", {})", n, g_endian(e)))))
}

fn h_regs(v: &[Reg]) -> String { v.iter().map(|r| format!("{}:{}", r.0, r.1)).collect::<Vec<_>>().join(" ") }
fn h_arg(a: &ArgumentType) -> String { match a { ArgumentType::Register(s) => format!("{}:{}", s.name(), s.bits()), ArgumentType::Stack(o) => format!("stack+{}", o) } }

/// one-line rendering of what the clause looks at
fn describe(d: &Dump, clause: &str) -> String {
    let cc = &d.cc;
    let named: Vec<Reg> = {
        let mut v: Vec<Reg> = cc.argument_registers().iter().map(reg_of).collect();
        v.extend(sorted(cc.preserved_registers())); v.extend(sorted(cc.trashed_registers()));
        v.push(reg_of(cc.return_register()));
        if let Some(r) = cc.return_address_type().register() { v.push(reg_of(r)); }
        v
    };
    let uni: BTreeSet<Reg> = d.table.iter().cloned().chain(d.lifted.seen.iter().cloned()).collect();
    let body = match clause {
        "CDescr" => format!("endian={} word_size={} stack_pointer={}:{} elf(e_machine={},{}) -> loader picks {:?}",
            g_endian(&d.endian), d.word, d.sp.0, d.sp.1, d.elf.0, if d.elf.1 { "MSB" } else { "LSB" }, d.loader.as_ref().map(|(n, e)| format!("{}/{}", n, g_endian(e)))),
        "CLifted" => format!("lifted {} blocks ({} rejected): sp in table={} sp in IL={} address widths={:?} decode order={} scalars in lifted IL outside the register table (flags, specials, and anything else)=[{}]",
            d.lifted.ok, d.lifted.failed, d.table.contains(&d.sp), d.lifted.seen.contains(&d.sp), d.lifted.addr_widths, d.probe,
            h_regs(&d.lifted.seen.iter().filter(|r| !d.table.contains(r) && !r.0.starts_with("temp_")).cloned().collect::<Vec<_>>())),
        "CStackOps" => format!("stack_pointer={}:{}; scalars written by [{}] (not lifted: {:?})", d.sp.0, d.sp.1,
            d.stack_ops.iter().map(|(m, ws)| format!("{} -> {}", m, h_regs(ws))).collect::<Vec<_>>().join("; "), d.stack_ops_rejected),
        "CNamed" => format!("named registers the translator does not produce with that width=[{}]", h_regs(&named.iter().filter(|r| !uni.contains(r)).cloned().collect::<Vec<_>>())),
        "CArgs" => format!("argument_registers=[{}]", h_regs(&cc.argument_registers().iter().map(reg_of).collect::<Vec<_>>())),
        "CRet" => format!("return_register={}:{}", cc.return_register().name(), cc.return_register().bits()),
        "CRetAddr" => format!("return_address_type={}", match cc.return_address_type() { ReturnAddressType::Register(s) => format!("Register({}:{})", s.name(), s.bits()), ReturnAddressType::Stack(o) => format!("Stack({})", o) }),
        "CStackStride" => format!("stack_argument_length={} bytes word_size={} bits argument_type(0..13)=[{}]", cc.stack_argument_length(), d.word, d.argtypes.iter().map(h_arg).collect::<Vec<_>>().join(" ")),
        "CStackBase" => format!("stack_argument_offset={}", cc.stack_argument_offset()),
        "CDisjoint" => { let t: BTreeSet<String> = cc.trashed_registers().iter().map(|s| s.name().to_string()).collect();
            format!("names both preserved and trashed=[{}]", sorted(cc.preserved_registers()).iter().filter(|r| t.contains(&r.0)).map(|r| r.0.clone()).collect::<Vec<_>>().join(" ")) }
        "CSpPreserved" => format!("is_preserved({}:{})={:?} is_trashed={:?}", d.sp.0, d.sp.1, cc.is_preserved(&il::scalar(d.sp.0.clone(), d.sp.1)), cc.is_trashed(&il::scalar(d.sp.0.clone(), d.sp.1))),
        _ => format!("preserved=[{}] trashed=[{}]", h_regs(&sorted(cc.preserved_registers())), h_regs(&sorted(cc.trashed_registers()))),
    };
    format!("{}/{}: {}", d.name, clause, body)
}

fn main() {
    quiet_panics();
    let args = parse_args();
    let dumps: Vec<Dump> = archs().iter().map(|a| dump(a.as_ref())).collect();
    let mut header = String::from("From Coq Require Import String.\nFrom Coq Require Import ZArith List NArith.\nFrom Falcon Require Import Base.Res Arch.Descr Arch.CcSpec Arch.CcOk Arch.C20Check.\nImport ListNotations.\nLocal Open Scope Z_scope.\nLocal Open Scope string_scope.\n");
    for d in &dumps { header.push_str(&g_dump(d)); header.push('\n'); }
    let mut cases: Vec<Case> = vec![];
    for d in &dumps {
        for cl in CLAUSES.iter() {
            cases.push(Case {
                coq: format!("(K {} {})", cl, ident(&d.name)),
                descr: describe(d, cl),
                tags: vec![format!("arch:{}", d.name), format!("clause:{}", cl)],
                nontrivial: true,
                key: format!("{}/{}", d.name, cl),
            });
        }
    }
    let names: Vec<String> = dumps.iter().map(|d| format!("\"{}\"", d.name)).collect();
    cases.push(Case { coq: format!("(KCoverage {})", coq_list(names.clone())), descr: format!("architectures dumped: {}", names.join(" ")),
                      tags: vec!["coverage".into()], nontrivial: true, key: "coverage".into() });
    let total = cases.len();
    let cases: Vec<Case> = match args.only { Some(i) => cases.into_iter().skip(i as usize).take(1).collect(), None => cases };
    let mut extra = BTreeMap::new();
    for d in &dumps {
        extra.insert(d.name.clone(), serde_json::json!({"blocks_lifted": d.lifted.ok, "blocks_rejected": d.lifted.failed,
            "table_registers": d.table.len(), "scalars_seen": d.lifted.seen.len(), "queried": d.queried.len(),
            "stack_ops_lifted": d.stack_ops.len(), "stack_ops_rejected": d.stack_ops_rejected,
            "table_rows_never_seen": d.table.iter().filter(|r| !d.lifted.seen.contains(r)).map(|r| r.0.clone()).collect::<Vec<_>>()}));
    }
    write_cases(&args, "C20", &header, "ck", &cases, 4, serde_json::json!({"total_cases": total, "per_arch": extra}));
}
