//! C06 harness: function recovery (Translator::translate_function_extended) against the program read
//! one instruction at a time.
//!
//! * TOY ISA (4-byte instructions) with its own `Translator` implementation whose `translate_block` lifts the
//!   maximal straight-line run inside the bytes it is given, up to and including the first control transfer --
//!   this drives the REAL default methods `translate_function_extended` / `translate_function`.
//! * the same generator retargeted to hand-encoded MIPS and x86 instructions drives the real block translators.
//! * the reference is dumped as ITEMS (address, length, IL of the unit lifted in isolation, successors); the
//!   reference graph G_prog is assembled from them inside Coq (Lift/C06Check.v).
//! * executor::Driver traces of the recovered function are compared with the toy interpreter (differential).
use falcon::architecture::Endian;
use falcon::executor;
use falcon::il::{self, ControlFlowGraph, Expression};
use falcon::memory::backing;
use falcon::memory::MemoryPermissions;
use falcon::translator::{BlockTranslationResult, ManualEdge, Options, Translator};
use falcon::{Error, RC};
use fvh::ilgen::*;
use fvh::*;
use std::collections::{BTreeMap, BTreeSet, VecDeque};

// ------------------------------------------------------------------------------------------ programs
/// program text at `base`; `mapped[i]` says whether byte i exists in memory (holes are unmapped)
#[derive(Clone)]
struct Prog {
    base: u64,
    bytes: Vec<u8>,
    mapped: Vec<bool>,
}
impl Prog {
    fn memory(&self, endian: Endian) -> backing::Memory {
        let mut m = backing::Memory::new(endian);
        let mut i = 0;
        while i < self.bytes.len() {
            if !self.mapped[i] {
                i += 1;
                continue;
            }
            let mut j = i;
            while j < self.bytes.len() && self.mapped[j] {
                j += 1;
            }
            m.set_memory(self.base + i as u64, self.bytes[i..j].to_vec(), MemoryPermissions::READ | MemoryPermissions::EXECUTE);
            i = j;
        }
        m
    }
    /// n mapped bytes at address a
    fn get(&self, a: u64, n: usize) -> Option<&[u8]> {
        if a < self.base {
            return None;
        }
        let o = (a - self.base) as usize;
        if o + n > self.bytes.len() || !(o..o + n).all(|i| self.mapped[i]) {
            return None;
        }
        Some(&self.bytes[o..o + n])
    }
}

/// one machine instruction as the harness's own decoder sees it (MIPS: a branch together with its delay slot)
struct Unit {
    len: u64,
    plain: bool,    // falls through and is not a control transfer
    succ: Vec<u64>, // direct successors
}

trait Isa {
    fn name(&self) -> &'static str;
    fn endian(&self) -> Endian;
    fn translator(&self) -> &dyn Translator;
    /// None: the address is not (completely) mapped
    fn decode(&self, p: &Prog, a: u64) -> Option<Unit>;
    /// scalars of the initial states: (name, bits)
    fn registers(&self) -> Vec<(String, usize)>;
}

// ------------------------------------------------------------------------------------------ the toy ISA
#[derive(Clone, Copy, Debug, PartialEq)]
enum Toy {
    Add(u8, u16),
    Cadd(u8, u16),     // if r7 == 0 { r += imm }   (three IL blocks)
    Jmp(i16),          // pc-relative, in instructions
    Jcc(u8, u8, i16),  // cond, reg, rel.  cond bit0: 0 = "reg == 0", 1 = "reg != 0"; bit1: fall-through successor listed first
    Halt,
    Jr(u8),
}
impl Toy {
    fn encode(self) -> [u8; 4] {
        match self {
            Toy::Add(r, i) => [1, r, i as u8, (i >> 8) as u8],
            Toy::Jmp(d) => [2, 0, d as u8, ((d as u16) >> 8) as u8],
            Toy::Jcc(c, r, d) => [3, (c << 4) | r, d as u8, ((d as u16) >> 8) as u8],
            Toy::Halt => [4, 0, 0, 0],
            Toy::Cadd(r, i) => [5, r, i as u8, (i >> 8) as u8],
            Toy::Jr(r) => [6, r, 0, 0],
        }
    }
    fn decode(b: &[u8]) -> Option<Toy> {
        let imm = b[2] as u16 | ((b[3] as u16) << 8);
        match b[0] {
            1 if b[1] < 8 => Some(Toy::Add(b[1], imm)),
            2 => Some(Toy::Jmp(imm as i16)),
            3 if (b[1] & 15) < 8 && (b[1] >> 4) < 4 => Some(Toy::Jcc(b[1] >> 4, b[1] & 15, imm as i16)),
            4 => Some(Toy::Halt),
            5 if b[1] < 8 => Some(Toy::Cadd(b[1], imm)),
            6 if b[1] < 8 => Some(Toy::Jr(b[1])),
            _ => None,
        }
    }
    fn is_control(self) -> bool {
        !matches!(self, Toy::Add(..) | Toy::Cadd(..))
    }
    fn target(a: u64, d: i16) -> u64 {
        a.wrapping_add((d as i64 * 4) as u64)
    }
    fn succ(self, a: u64) -> Vec<u64> {
        match self {
            Toy::Add(..) | Toy::Cadd(..) => vec![a + 4],
            Toy::Jmp(d) => vec![Toy::target(a, d)],
            Toy::Jcc(c, _, d) => {
                if c & 2 != 0 { vec![a + 4, Toy::target(a, d)] } else { vec![Toy::target(a, d), a + 4] }
            }
            Toy::Halt | Toy::Jr(_) => vec![],
        }
    }
}
fn reg(r: u8) -> String {
    format!("r{}", r)
}
fn not(e: Expression) -> Expression {
    Expression::cmpeq(e, il::expr_const(0, 1)).unwrap()
}
fn toy_cond(c: u8, r: u8) -> Expression {
    let x = il::expr_scalar(reg(r), 32);
    if c & 1 == 0 { Expression::cmpeq(x, il::expr_const(0, 32)).unwrap() } else { Expression::cmpneq(x, il::expr_const(0, 32)).unwrap() }
}
/// IL of one toy instruction and its successors
fn toy_lift(i: Toy, a: u64) -> Result<(ControlFlowGraph, Vec<(u64, Option<Expression>)>), Error> {
    let mut g = ControlFlowGraph::new();
    let mut succ = vec![];
    match i {
        Toy::Cadd(r, imm) => {
            let head = { let b = g.new_block()?; b.nop(); b.index() };
            let body = {
                let b = g.new_block()?;
                b.assign(il::scalar(reg(r), 32), Expression::add(il::expr_scalar(reg(r), 32), il::expr_const(imm as u64, 32))?);
                b.index()
            };
            let tail = g.new_block()?.index();
            let c = toy_cond(0, 7);
            g.conditional_edge(head, body, c.clone())?;
            g.conditional_edge(head, tail, not(c))?;
            g.unconditional_edge(body, tail)?;
            g.set_entry(head)?;
            g.set_exit(tail)?;
            succ.push((a + 4, None));
        }
        _ => {
            let idx = {
                let b = g.new_block()?;
                match i {
                    Toy::Add(r, imm) => b.assign(il::scalar(reg(r), 32), Expression::add(il::expr_scalar(reg(r), 32), il::expr_const(imm as u64, 32))?),
                    Toy::Jr(r) => b.branch(il::expr_scalar(reg(r), 32)),
                    _ => b.nop(),
                }
                b.index()
            };
            g.set_entry(idx)?;
            g.set_exit(idx)?;
            match i {
                Toy::Add(..) => succ.push((a + 4, None)),
                Toy::Jmp(d) => succ.push((Toy::target(a, d), None)),
                Toy::Jcc(c, r, d) => {
                    let cond = toy_cond(c, r);
                    let taken = (Toy::target(a, d), Some(cond.clone()));
                    let fall = (a + 4, Some(not(cond)));
                    if c & 2 != 0 { succ.push(fall); succ.push(taken); } else { succ.push(taken); succ.push(fall); }
                }
                _ => {}
            }
        }
    }
    g.set_address(Some(a));
    Ok((g, succ))
}

struct ToyTranslator;
impl Translator for ToyTranslator {
    /// the maximal straight-line run inside `bytes`, up to and including the first control transfer; when the
    /// bytes run out the block ends with a fall-through successor (as x86's `CS_ERR_OK` with offset != 0)
    fn translate_block(&self, bytes: &[u8], address: u64, _options: &Options) -> Result<BlockTranslationResult, Error> {
        let mut graphs = vec![];
        let mut successors = vec![];
        let mut offset = 0usize;
        loop {
            if offset + 4 > bytes.len() {
                if offset == 0 {
                    return Err(Error::DisassemblyFailure);
                }
                successors.push((address + offset as u64, None));
                break;
            }
            let a = address + offset as u64;
            let ins = Toy::decode(&bytes[offset..offset + 4]).ok_or(Error::DisassemblyFailure)?;
            let (g, succ) = toy_lift(ins, a)?;
            graphs.push((a, g));
            offset += 4;
            if ins.is_control() {
                successors = succ;
                break;
            }
        }
        Ok(BlockTranslationResult::new(graphs, address, offset, successors))
    }
}
struct ToyIsa {
    tr: ToyTranslator,
}
impl Isa for ToyIsa {
    fn name(&self) -> &'static str { "toy" }
    fn endian(&self) -> Endian { Endian::Little }
    fn translator(&self) -> &dyn Translator { &self.tr }
    fn decode(&self, p: &Prog, a: u64) -> Option<Unit> {
        let b = p.get(a, 4)?;
        let i = Toy::decode(b).expect("generator emits valid toy instructions");
        Some(Unit { len: 4, plain: !i.is_control(), succ: i.succ(a) })
    }
    fn registers(&self) -> Vec<(String, usize)> { (0..8).map(|r| (reg(r), 32)).collect() }
}

/// toy interpreter: the sequence of (IL-instruction address, registers before it) an execution visits
fn toy_interp(p: &Prog, fa: u64, regs0: &[u32; 8], limit: usize) -> Vec<(u64, [u32; 8])> {
    let mut regs = *regs0;
    let mut pc = fa;
    let mut seq = vec![];
    while seq.len() < limit {
        let b = match p.get(pc, 4) { Some(b) => b, None => break };
        let i = Toy::decode(b).unwrap();
        seq.push((pc, regs));
        match i {
            Toy::Add(r, imm) => { regs[r as usize] = regs[r as usize].wrapping_add(imm as u32); pc += 4; }
            Toy::Cadd(r, imm) => {
                if regs[7] == 0 { seq.push((pc, regs)); regs[r as usize] = regs[r as usize].wrapping_add(imm as u32); }
                pc += 4;
            }
            Toy::Jmp(d) => pc = Toy::target(pc, d),
            Toy::Jcc(c, r, d) => {
                let z = regs[r as usize] == 0;
                let taken = if c & 1 == 0 { z } else { !z };
                pc = if taken { Toy::target(pc, d) } else { pc + 4 };
            }
            Toy::Halt | Toy::Jr(_) => break,
        }
    }
    seq.truncate(limit);
    seq
}

/// executor::Driver over the recovered function: addresses of the IL instructions executed, final registers.
/// Stops at a Branch operation (not executed), at `limit` instructions, or at the first error.
fn driver_trace(f: &il::Function, regs0: &[u32; 8], limit: usize) -> Option<Vec<(u64, [u32; 8])>> {
    observe_plain(|| {
        let mut program = il::Program::new();
        program.add_function(f.clone());
        let entry = f.control_flow_graph().entry().unwrap();
        let eb = f.block(entry).unwrap();
        let floc = if eb.is_empty() { il::FunctionLocation::EmptyBlock(entry) } else { il::FunctionLocation::Instruction(entry, eb.instructions()[0].index()) };
        let mut state = executor::State::new(executor::Memory::new(Endian::Little));
        for (r, v) in regs0.iter().enumerate() {
            state.set_scalar(reg(r as u8), il::const_(*v as u64, 32));
        }
        let mut d = executor::Driver::new(RC::new(program), il::ProgramLocation::new(Some(0), floc), state, RC::new(falcon::architecture::Mips::new()));
        let mut seq = vec![];
        let mut steps = 0;
        while seq.len() < limit && steps < 40 * limit + 400 {
            steps += 1;
            let mut stop = false;
            if let Ok(loc) = d.location().apply(d.program()) {
                if let Some(i) = loc.instruction() {
                    let mut regs = [0u32; 8];
                    for r in 0..8 {
                        regs[r] = d.state().get_scalar(&reg(r as u8)).and_then(|c| c.value_u64()).unwrap_or(0) as u32;
                    }
                    seq.push((i.address().unwrap_or(u64::MAX), regs));
                    if matches!(i.operation(), il::Operation::Branch { .. }) { stop = true; }
                }
            }
            if stop { break; }
            match d.clone().step() {
                Ok(n) => d = n,
                Err(_) => break,
            }
        }
        seq
    })
}

// ------------------------------------------------------------------------------------------ reference items
struct Item {
    addr: u64,
    len: u64,
    plain: bool,
    graphs: Vec<ControlFlowGraph>,
    succ: Vec<(u64, Option<Expression>)>,
}
fn hole_graph() -> ControlFlowGraph {
    let mut g = ControlFlowGraph::new();
    let i = g.new_block().unwrap().index();
    g.set_entry(i).unwrap();
    g.set_exit(i).unwrap();
    g
}
/// every unit reachable from the roots through direct successors, each lifted in isolation
fn reference_items(isa: &dyn Isa, p: &Prog, roots: &[u64]) -> Result<Vec<Item>, String> {
    let mut seen: BTreeSet<u64> = BTreeSet::new();
    let mut q: VecDeque<u64> = roots.iter().cloned().collect();
    let mut items = BTreeMap::new();
    while let Some(a) = q.pop_front() {
        if !seen.insert(a) {
            continue;
        }
        match isa.decode(p, a) {
            None => {
                items.insert(a, Item { addr: a, len: 0, plain: false, graphs: vec![hole_graph()], succ: vec![] });
            }
            Some(u) => {
                let bytes = p.get(a, u.len as usize).unwrap();
                let r = isa.translator().translate_block(bytes, a, &Options::default()).map_err(|e| format!("isolated lift at {:#x}: {}", a, e))?;
                let mut got: Vec<u64> = r.successors().iter().map(|s| s.0).collect();
                let mut want = u.succ.clone();
                got.sort(); want.sort(); got.dedup(); want.dedup(); // BlockTranslationResult::new joins successors with one target
                if got != want {
                    return Err(format!("isolated lift at {:#x}: successors {:x?}, decoder says {:x?}", a, got, want));
                }
                for s in &u.succ { q.push_back(*s); }
                items.insert(a, Item { addr: a, len: u.len, plain: u.plain, graphs: r.instructions().iter().map(|x| x.1.clone()).collect(), succ: r.successors().clone() });
            }
        }
    }
    Ok(items.into_values().collect())
}
fn coq_item(i: &Item, it: &mut Interner) -> String {
    format!("(mkpi {} {} {} {} {})", i.addr, i.len, coq_bool(i.plain),
        coq_list(i.graphs.iter().map(|g| coq_cfg(g, None, it)).collect::<Vec<_>>()),
        coq_list(i.succ.iter().map(|(a, c)| format!("({}, {})", a, coq_opt(c.as_ref().map(|e| coq_expr(e, it))))).collect::<Vec<_>>()))
}

// ------------------------------------------------------------------------------------------ toy generator
struct Gen {
    prog: Prog,
    fa: u64,
    manual: Vec<(u64, u64, Option<Expression>)>,
    tags: Vec<String>,
    descr: String,
}
fn gen_toy(r: &mut Rng) -> Gen {
    let n = match r.below(10) { 0 => r.range(1, 8), 1..=6 => r.range(17, 40), 7 | 8 => r.range(41, 70), _ => r.range(8, 17) } as i64;
    let align = r.below(16);
    let base = 0x1000 + 4 * align;
    let ctl = *r.pick(&[3u64, 8, 20, 40]);
    let mut ins: Vec<Toy> = vec![];
    let mut same_target = false;
    for i in 0..n {
        let last = i == n - 1;
        let x = if r.below(100) < ctl || (last && r.chance(7, 10)) {
            let tgt = |r: &mut Rng, same: &mut bool| -> i16 {
                let t = match r.below(40) { 0 => { *same = true; i + 1 } 1 => i, 2 => n, _ => r.below(n as u64) as i64 };
                (t - i) as i16
            };
            match r.below(20) {
                0..=10 if !last => { let mut s = false; let d = tgt(r, &mut s); same_target |= s; Toy::Jcc(r.below(4) as u8, r.below(8) as u8, d) }
                11..=16 => { let mut s = false; Toy::Jmp(tgt(r, &mut s)) }
                17 | 18 => Toy::Halt,
                19 => Toy::Jr(r.below(8) as u8),
                _ => Toy::Halt,
            }
        } else if r.chance(3, 20) {
            Toy::Cadd(r.below(8) as u8, r.below(5) as u16)
        } else {
            Toy::Add(r.below(8) as u8, *r.pick(&[0u16, 1, 1, 2, 0xffff, 7]))
        };
        ins.push(x);
    }
    let bytes: Vec<u8> = ins.iter().flat_map(|i| i.encode()).collect();
    let mut mapped = vec![true; bytes.len()];
    let mut tags = vec![format!("isa:toy"), format!("align:{}", align), format!("n:{}", if n < 17 { "<17" } else if n <= 40 { "17-40" } else { ">40" })];
    if n > 3 && r.chance(3, 20) {
        let i = r.range(1, n as u64 - 1) as usize;
        let j = (i + r.range(1, 6) as usize).min(n as usize);
        for b in 4 * i..4 * j { mapped[b] = false; }
        tags.push("has:hole".into());
    }
    let live: Vec<i64> = (0..n).filter(|i| mapped[4 * *i as usize]).collect();
    let fa = if r.chance(3, 5) || live.is_empty() { base } else { base + 4 * *r.pick(&live) as u64 };
    if fa != base { tags.push("entry:inside".into()); }
    let mut manual = vec![];
    if r.chance(1, 4) {
        let ctls: Vec<i64> = (0..n).filter(|i| ins[*i as usize].is_control()).collect();
        for _ in 0..r.range(1, 3) {
            let h = if !ctls.is_empty() && r.chance(3, 4) { *r.pick(&ctls) } else { r.below(n as u64) as i64 };
            let t = if r.chance(1, 12) { n } else { r.below(n as u64) as i64 };
            let c = if r.chance(1, 2) { None } else { Some(toy_cond(r.below(2) as u8, r.below(8) as u8)) };
            manual.push((base + 4 * h as u64, base + 4 * t as u64, c));
        }
        tags.push("has:manual".into());
    }
    let _ = same_target;
    if ins.iter().any(|i| matches!(i, Toy::Jcc(_, _, 1))) { tags.push("has:jcc-to-next".into()); }
    let descr = format!("toy base={:#x} entry={:#x} prog=[{}] holes={:?} manual={:?}", base, fa,
        ins.iter().enumerate().map(|(i, x)| format!("{:#x}:{:?}", base + 4 * i as u64, x)).collect::<Vec<_>>().join(" "),
        (0..n as usize).filter(|i| !mapped[4 * i]).map(|i| base + 4 * i as u64).collect::<Vec<_>>(),
        manual.iter().map(|m| format!("{:#x}->{:#x}{}", m.0, m.1, if m.2.is_some() { "?" } else { "" })).collect::<Vec<_>>());
    Gen { prog: Prog { base, bytes, mapped }, fa, manual, tags, descr }
}

// ------------------------------------------------------------------------------------------ real ISAs
/// abstract instruction of the retargeted generator; targets are unit indices
#[derive(Clone, Copy, Debug, PartialEq)]
enum AIns {
    Plain(u8),       // variant
    Jmp(u8, usize),  // variant, target unit
    Jcc(u8, usize),  // variant, target unit
    Call(u8, usize), // linking branch / call: the lifter keeps lifting after it (no successor for the target)
    Stop(u8),        // variant
}
fn be32(w: u32) -> [u8; 4] { w.to_be_bytes() }
fn rd_be32(b: &[u8]) -> u32 { u32::from_be_bytes([b[0], b[1], b[2], b[3]]) }

struct MipsIsa { tr: falcon::translator::mips::Mips }
impl MipsIsa {
    fn plain(v: u8) -> u32 {
        match v % 4 {
            0 => 0,                                                  // nop
            k => (0x09 << 26) | ((8 + k as u32) << 21) | ((8 + k as u32) << 16) | (k as u32), // addiu $t(k), $t(k), k
        }
    }
    fn size(i: AIns) -> usize { if matches!(i, AIns::Plain(_)) { 4 } else { 8 } }
    fn encode(i: AIns, a: u64, addr_of: &dyn Fn(usize) -> u64, slot: u8) -> Vec<u8> {
        let off = |t: u64| -> u32 { (((t as i64 - (a as i64 + 4)) >> 2) as i32 as u32) & 0xffff };
        let mut v = vec![];
        match i {
            AIns::Plain(k) => v.extend(be32(Self::plain(k))),
            AIns::Jmp(k, t) => {
                let t = addr_of(t);
                let w = if k % 2 == 0 { 0x1000_0000 | off(t) } else { (0x02 << 26) | (((t >> 2) as u32) & 0x03ff_ffff) };
                v.extend(be32(w)); v.extend(be32(Self::plain(slot)));
            }
            AIns::Jcc(k, t) => {
                let t = addr_of(t);
                let w = match k % 8 {
                    0 => (0x04 << 26) | (8 << 21) | (9 << 16) | off(t),   // beq $t0, $t1
                    1 => (0x05 << 26) | (8 << 21) | (9 << 16) | off(t),   // bne $t0, $t1
                    2 => (0x04 << 26) | (10 << 21) | off(t),              // beqz $t2
                    3 => (0x05 << 26) | (10 << 21) | off(t),              // bnez $t2
                    4 => (0x01 << 26) | (11 << 21) | (1 << 16) | off(t),  // bgez $t3
                    5 => (0x07 << 26) | (11 << 21) | off(t),              // bgtz $t3
                    6 => (0x06 << 26) | (11 << 21) | off(t),              // blez $t3
                    _ => (0x01 << 26) | (11 << 21) | off(t),              // bltz $t3
                };
                v.extend(be32(w)); v.extend(be32(Self::plain(slot)));
            }
            AIns::Call(k, t) => {
                let t = addr_of(t);
                let w = match k % 4 {
                    0 => (0x01 << 26) | (0x11 << 16) | off(t),                    // bal
                    1 => (0x03 << 26) | (((t >> 2) as u32) & 0x03ff_ffff),        // jal
                    2 => (0x01 << 26) | (11 << 21) | (0x11 << 16) | off(t),       // bgezal $t3
                    _ => (0x01 << 26) | (11 << 21) | (0x10 << 16) | off(t),       // bltzal $t3
                };
                v.extend(be32(w)); v.extend(be32(Self::plain(slot)));
            }
            AIns::Stop(_) => { v.extend(be32(0x03e0_0008)); v.extend(be32(Self::plain(slot))); } // jr $ra
        }
        v
    }
}
impl Isa for MipsIsa {
    fn name(&self) -> &'static str { "mips" }
    fn endian(&self) -> Endian { Endian::Big }
    fn translator(&self) -> &dyn Translator { &self.tr }
    fn decode(&self, p: &Prog, a: u64) -> Option<Unit> {
        let w = rd_be32(p.get(a, 4)?);
        let op = w >> 26;
        let simm = ((w & 0xffff) as u16 as i16 as i64) << 2;
        let rel = (a as i64 + 4 + simm) as u64;
        if w == 0 || op == 0x09 {
            return Some(Unit { len: 4, plain: true, succ: vec![a + 4] });
        }
        p.get(a, 8)?; // branch and delay slot are one unit
        match op {
            0x04 | 0x05 => {
                let (rs, rt) = ((w >> 21) & 31, (w >> 16) & 31);
                if op == 0x04 && rs == 0 && rt == 0 { Some(Unit { len: 8, plain: false, succ: vec![rel] }) }
                else { Some(Unit { len: 8, plain: false, succ: vec![rel, a + 8] }) }
            }
            // the harness's own table of the generated branch mnemonics (from the encoding, independent of the lifter)
            0x06 | 0x07 => Some(Unit { len: 8, plain: false, succ: vec![rel, a + 8] }),                     // blez, bgtz
            0x01 => match (w >> 16) & 31 {
                0 | 1 => Some(Unit { len: 8, plain: false, succ: vec![rel, a + 8] }),                       // bltz, bgez
                0x10 | 0x11 => Some(Unit { len: 8, plain: true, succ: vec![a + 8] }),                       // bltzal, bgezal, bal: linking
                _ => panic!("harness: unexpected MIPS REGIMM word {:#x}", w),
            },
            0x03 => Some(Unit { len: 8, plain: true, succ: vec![a + 8] }),                                  // jal: linking
            0x02 => Some(Unit { len: 8, plain: false, succ: vec![((a + 4) & 0xf000_0000) | (((w & 0x03ff_ffff) as u64) << 2)] }),
            _ if w == 0x03e0_0008 => Some(Unit { len: 8, plain: false, succ: vec![] }),
            _ => panic!("harness: unexpected MIPS word {:#x}", w),
        }
    }
    fn registers(&self) -> Vec<(String, usize)> {
        ["$t0", "$t1", "$t2", "$t3", "$ra"].iter().map(|n| (n.to_string(), 32)).collect()
    }
}

struct X86Isa { tr: falcon::translator::x86::X86 }
impl X86Isa {
    fn plain(v: u8) -> Vec<u8> {
        match v % 6 {
            0 => vec![0x90],                         // nop
            1 => vec![0x83, 0xc0, 0x01],             // add eax, 1
            2 => vec![0x83, 0xc3, 0xff],             // add ebx, -1
            3 => vec![0xb8, 0x00, 0x00, 0x00, 0x00], // mov eax, 0
            4 => vec![0x83, 0xc1, 0x02],             // add ecx, 2
            _ => vec![0x90],
        }
    }
    /// opcode bytes before the displacement, and whether the displacement is rel8
    fn opcode(i: AIns) -> (Vec<u8>, bool) {
        match i {
            AIns::Jcc(k, _) => match k % 37 {
                k @ 0..=15 => (vec![0x70 + k], true),                 // jo jno jb jae je jne jbe ja js jns jp jnp jl jge jle jg  rel8
                k @ 16..=31 => (vec![0x0f, 0x80 + (k - 16)], false),  // the same sixteen, rel32
                32 => (vec![0xe3], true),                             // jecxz
                33 => (vec![0x67, 0xe3], true),                       // jcxz
                34 => (vec![0xe2], true),                             // loop
                35 => (vec![0xe1], true),                             // loope
                _ => (vec![0xe0], true),                              // loopne
            },
            AIns::Jmp(k, _) => if k % 2 == 0 { (vec![0xeb], true) } else { (vec![0xe9], false) },
            AIns::Call(..) => (vec![0xe8], false),
            _ => (vec![], true),
        }
    }
    fn rel8(i: AIns) -> bool { matches!(i, AIns::Jcc(..) | AIns::Jmp(..)) && Self::opcode(i).1 }
    fn size(i: AIns) -> usize {
        match i {
            AIns::Plain(v) => Self::plain(v).len(),
            AIns::Stop(_) => 1,
            _ => { let (op, r8) = Self::opcode(i); op.len() + if r8 { 1 } else { 4 } }
        }
    }
    fn encode(i: AIns, a: u64, addr_of: &dyn Fn(usize) -> u64) -> Vec<u8> {
        match i {
            AIns::Plain(v) => Self::plain(v),
            AIns::Stop(k) => vec![if k % 2 == 0 { 0xf4 } else { 0xc3 }],      // hlt / ret
            AIns::Jmp(_, t) | AIns::Jcc(_, t) | AIns::Call(_, t) => {
                let (mut v, r8) = Self::opcode(i);
                let d = addr_of(t) as i64 - (a as i64 + Self::size(i) as i64);
                if r8 { v.push(d as i8 as u8) } else { v.extend((d as i32).to_le_bytes()) }
                v
            }
        }
    }
}
impl Isa for X86Isa {
    fn name(&self) -> &'static str { "x86" }
    fn endian(&self) -> Endian { Endian::Little }
    fn translator(&self) -> &dyn Translator { &self.tr }
    fn decode(&self, p: &Prog, a: u64) -> Option<Unit> {
        // the harness's own table of the generated mnemonics (from the encoding, independent of the lifter):
        // length, and for control transfers the targets
        let b0 = p.get(a, 1)?[0];
        let len = match b0 {
            0x90 | 0xf4 | 0xc3 => 1, 0x83 => 3, 0xb8 | 0xe9 | 0xe8 => 5, 0xeb | 0x70..=0x7f | 0xe0..=0xe3 => 2, 0x67 => 3, 0x0f => 6,
            _ => panic!("harness: unexpected x86 byte {:#x}", b0),
        };
        let b = p.get(a, len)?;
        let next = a + len as u64;
        let t8 = (next as i64 + b[len - 1] as i8 as i64) as u64;
        let t32 = || (next as i64 + i32::from_le_bytes([b[len - 4], b[len - 3], b[len - 2], b[len - 1]]) as i64) as u64;
        Some(match b0 {
            0xf4 | 0xc3 => Unit { len: 1, plain: false, succ: vec![] },                       // hlt, ret
            0xeb => Unit { len: 2, plain: false, succ: vec![t8] },                            // jmp rel8
            0xe9 => Unit { len: 5, plain: false, succ: vec![t32()] },                         // jmp rel32
            0x70..=0x7f | 0xe0..=0xe3 => Unit { len: 2, plain: false, succ: vec![next, t8] }, // jcc rel8, loopne/loope/loop/jecxz
            0x67 => { assert_eq!(b[1], 0xe3); Unit { len: 3, plain: false, succ: vec![next, t8] } } // jcxz
            0x0f => { assert!((0x80..=0x8f).contains(&b[1])); Unit { len: 6, plain: false, succ: vec![next, t32()] } } // jcc rel32
            _ => Unit { len: len as u64, plain: true, succ: vec![next] },                     // nop add mov, call rel32 (the lifter falls through)
        })
    }
    fn registers(&self) -> Vec<(String, usize)> {
        let mut v: Vec<(String, usize)> = ["eax", "ebx", "ecx", "esp"].iter().map(|n| (n.to_string(), 32)).collect();
        v.extend(["ZF", "CF", "SF", "OF", "PF"].iter().map(|n| (n.to_string(), 1)));
        v
    }
}

/// random program over the abstract instructions, laid out and encoded for MIPS (`mips`) or x86
fn gen_real(r: &mut Rng, mips: bool, fixed: Option<(u64, Vec<AIns>, usize)>) -> Gen {
    let is_fixed = fixed.is_some();
    let (base, mut ins, fa_idx) = match fixed {
        Some(f) => f,
        None => {
            let n = if r.chance(1, 6) { r.range(2, 10) } else { r.range(17, 40) } as usize;
            let base = if mips { 0x1000 + 4 * r.below(16) } else { 0x1000 + r.below(64) };
            let ctl = *r.pick(&[4u64, 10, 25]);
            let mut ins = vec![];
            for i in 0..n {
                let last = i == n - 1;
                let tgt = |r: &mut Rng| -> usize { match r.below(30) { 0 => (i + 1).min(n - 1), 1 => i, _ => r.below(n as u64) as usize } };
                let x = if last { if r.chance(1, 2) { AIns::Stop(r.below(2) as u8) } else { AIns::Jmp(r.below(4) as u8, tgt(r)) } }
                else if r.below(100) < ctl {
                    match r.below(12) { 0..=5 => AIns::Jcc(r.below(74) as u8, tgt(r)), 6..=8 => AIns::Jmp(r.below(4) as u8, tgt(r)),
                                        9 | 10 => AIns::Call(r.below(4) as u8, tgt(r)), _ => AIns::Stop(r.below(2) as u8) }
                } else { AIns::Plain(r.below(12) as u8) };
                ins.push(x);
            }
            let fa_idx = if r.chance(2, 3) { 0 } else { r.below(n as u64) as usize };
            (base, ins, fa_idx)
        }
    };
    let n = ins.len();
    let size = |i: AIns| if mips { MipsIsa::size(i) } else { X86Isa::size(i) };
    let mut offs = vec![0u64; n + 1];
    for i in 0..n { offs[i + 1] = offs[i] + size(ins[i]) as u64; }
    // x86: rel8 must reach; retarget to the unit nearest to the jump that is in range
    if !mips {
        for i in 0..n {
            if !X86Isa::rel8(ins[i]) { continue; }
            let t = match ins[i] { AIns::Jmp(_, t) | AIns::Jcc(_, t) => t, _ => continue };
            let from = offs[i + 1] as i64;
            let ok = |t: usize| { let d = offs[t] as i64 - from; (-128..=127).contains(&d) };
            if !ok(t) {
                let mut t2 = t;
                while !ok(t2) { if t2 > i { t2 -= 1 } else { t2 += 1 } }
                ins[i] = match ins[i] { AIns::Jmp(k, _) => AIns::Jmp(k, t2), AIns::Jcc(k, _) => AIns::Jcc(k, t2), x => x };
            }
        }
    }
    // MIPS only: with a small probability a jump targets the DELAY SLOT of another branch (index + 1000)
    if mips && !is_fixed {
        let units: Vec<usize> = (0..n).filter(|i| !matches!(ins[*i], AIns::Plain(_))).collect();
        for i in 0..n {
            if !units.is_empty() && r.chance(1, 14) {
                let u = *r.pick(&units) + 1000;
                ins[i] = match ins[i] { AIns::Jmp(k, _) => AIns::Jmp(k & !1, u), AIns::Jcc(k, _) => AIns::Jcc(k, u), x => x };
            }
        }
    }
    let addr_of = |t: usize| if t >= 1000 { base + offs[t - 1000] + 4 } else { base + offs[t] };
    let mut bytes = vec![];
    for i in 0..n {
        let slot = r.below(4) as u8;
        let e = if mips { MipsIsa::encode(ins[i], addr_of(i), &addr_of, slot) } else { X86Isa::encode(ins[i], addr_of(i), &addr_of) };
        assert_eq!(e.len(), size(ins[i]));
        bytes.extend(e);
    }
    let mut mapped = vec![true; bytes.len()];
    let mut tags = vec![format!("isa:{}", if mips { "mips" } else { "x86" }), format!("align:{}", if mips { (base % 64) / 4 } else { base % 64 }),
                        format!("n:{}", if n < 17 { "<17" } else if n <= 40 { "17-40" } else { ">40" })];
    if is_fixed { tags.push("fixed:real".into()); }
    let mut holes = vec![];
    if !is_fixed && n > 4 && r.chance(1, 8) {
        let i = r.range(1, n as u64 - 1) as usize;
        let j = (i + r.range(1, 3) as usize).min(n);
        for b in offs[i]..offs[j] { mapped[b as usize] = false; }
        holes = (i..j).collect();
        tags.push("has:hole".into());
    }
    let fa_idx = if holes.contains(&fa_idx) { 0 } else { fa_idx };
    let fa = addr_of(fa_idx);
    if fa_idx != 0 { tags.push("entry:inside".into()); }
    let mut manual = vec![];
    if !is_fixed && r.chance(1, 6) {
        let ctls: Vec<usize> = (0..n).filter(|i| !matches!(ins[*i], AIns::Plain(_))).collect();
        if !ctls.is_empty() {
            let h = *r.pick(&ctls);
            let t = r.below(n as u64) as usize;
            manual.push((addr_of(h), addr_of(t), None));
            tags.push("has:manual".into());
        }
    }
    // which control-transfer mnemonics occur (distribution evidence)
    for i in &ins {
        let name: Option<String> = match (*i, mips) {
            (AIns::Jcc(k, _), true) => Some(["beq", "bne", "beqz", "bnez", "bgez", "bgtz", "blez", "bltz"][(k % 8) as usize].into()),
            (AIns::Jmp(k, _), true) => Some(if k % 2 == 0 { "b" } else { "j" }.into()),
            (AIns::Call(k, _), true) => Some(["bal", "jal", "bgezal", "bltzal"][(k % 4) as usize].into()),
            (AIns::Stop(_), true) => Some("jr".into()),
            (AIns::Jcc(k, _), false) => Some(match k % 37 {
                k @ 0..=31 => format!("j{}{}", ["o", "no", "b", "ae", "e", "ne", "be", "a", "s", "ns", "p", "np", "l", "ge", "le", "g"][(k % 16) as usize], if k < 16 { ".rel8" } else { ".rel32" }),
                32 => "jecxz".into(), 33 => "jcxz".into(), 34 => "loop".into(), 35 => "loope".into(), _ => "loopne".into() }),
            (AIns::Jmp(k, _), false) => Some(if k % 2 == 0 { "jmp.rel8" } else { "jmp.rel32" }.into()),
            (AIns::Call(..), false) => Some("call.rel32".into()),
            (AIns::Stop(k), false) => Some(if k % 2 == 0 { "hlt" } else { "ret" }.into()),
            _ => None,
        };
        if let Some(nm) = name { let t = format!("mn:{}:{}", if mips { "mips" } else { "x86" }, nm); if !tags.contains(&t) { tags.push(t); } }
    }
    let same = (0..n).any(|i| matches!(ins[i], AIns::Jcc(_, t) if t == i + 1));
    if same { tags.push("has:jcc-to-next".into()); }
    let descr = format!("{} base={:#x} entry={:#x} prog=[{}] holes={:?} manual={:?} bytes={}", if mips { "mips" } else { "x86" }, base, fa,
        ins.iter().enumerate().map(|(i, x)| format!("{:#x}:{:?}", addr_of(i), x)).collect::<Vec<_>>().join(" "),
        holes.iter().map(|h| addr_of(*h)).collect::<Vec<_>>(),
        manual.iter().map(|m: &(u64, u64, Option<Expression>)| format!("{:#x}->{:#x}", m.0, m.1)).collect::<Vec<_>>(),
        bytes.iter().map(|b| format!("{:02x}", b)).collect::<String>());
    Gen { prog: Prog { base, bytes, mapped }, fa, manual, tags, descr }
}


/// records what get_bytes + translate_block produced at every block address the default method asked for
struct Logging<'a> {
    inner: &'a dyn Translator,
    log: std::cell::RefCell<Vec<(u64, Result<BlockTranslationResult, &'static str>)>>,
}
impl<'a> Translator for Logging<'a> {
    fn translate_block(&self, bytes: &[u8], address: u64, options: &Options) -> Result<BlockTranslationResult, Error> {
        let r = self.inner.translate_block(bytes, address, options);
        self.log.borrow_mut().push((address, match &r { Ok(b) => Ok(b.clone()), Err(e) => Err(err_kind(e)) }));
        r
    }
}
// ------------------------------------------------------------------------------------------ one case
fn run_case(isa: &dyn Isa, g: Gen, r: &mut Rng, toy: bool) -> Case {
    let Gen { prog, fa, manual, mut tags, descr } = g;
    let mem = prog.memory(isa.endian());
    let mut options = Options::new();
    for (h, t, c) in &manual {
        options.add_manual_edge(ManualEdge::new(*h, *t, c.clone()));
    }
    let default_path = manual.is_empty() && r.chance(1, 2);
    let logging = Logging { inner: isa.translator(), log: std::cell::RefCell::new(vec![]) };
    let obs = observe(|| if default_path { logging.translate_function(&mem, fa) } else { logging.translate_function_extended(&mem, fa, &options) });
    let tb_log = logging.log.borrow().clone();
    tags.push(format!("res:{}", obs.kind()));
    if std::env::var("C06_DEBUG").is_ok() {
        let r = if default_path { isa.translator().translate_function(&mem, fa) } else { isa.translator().translate_function_extended(&mem, fa, &options) };
        match r { Ok(f) => eprintln!("{}", f.control_flow_graph()), Err(e) => eprintln!("error: {:?}", e) }
    }

    let mut it = Interner::new();
    let regs = isa.registers();
    for (n, _) in &regs { it.id(n); }
    let mut roots = vec![fa];
    for (h, t, _) in &manual { roots.push(*h); roots.push(*t); }
    // an isolated single-unit lift that contradicts the harness's decoder (wrong successor addresses) is a
    // failure of the block translator: the case is emitted without items, which the oracle rejects
    let mut descr = descr;
    let items = match reference_items(isa, &prog, &roots) {
        Ok(i) => i,
        Err(e) => { tags.push("ref:isolated-lift-disagrees".into()); descr = format!("{} !! {}", descr, e); vec![] }
    };

    // classification from the reference side
    let by_addr: BTreeMap<u64, &Item> = items.iter().map(|i| (i.addr, i)).collect();
    let run_len = |a0: u64| -> u64 {
        let (mut a, mut bytes) = (a0, 0u64);
        loop {
            match by_addr.get(&a) {
                Some(i) if i.len > 0 => { bytes += i.len; if !i.plain { break; } a += i.len; }
                _ => break,
            }
            if bytes > 4096 { break; }
        }
        bytes
    };
    let mut targets: BTreeSet<u64> = BTreeSet::new();
    targets.insert(fa);
    for i in &items { if !i.plain { for s in &i.succ { targets.insert(s.0); } } }
    for (h, t, _) in &manual { targets.insert(*h); targets.insert(*t); }
    if targets.iter().any(|t| run_len(*t) > 64) { tags.push("has:run>64".into()); }
    if items.iter().any(|i| i.succ.iter().any(|s| s.0 <= i.addr)) { tags.push("has:backward".into()); }
    // a branch target that is not the start of a run = lies inside another target's straight-line run
    let mid = targets.iter().any(|t| items.iter().any(|i| i.plain && i.addr + i.len == *t));
    if mid { tags.push("has:target-inside-run".into()); }
    for (h, _, _) in &manual {
        // exact: does the block translated at the head reach the end of the head's straight-line run?  A unit must lie
        // inside the 64-byte window that starts at the head; MIPS ends a full window BEFORE a branch unit that starts
        // at offset >= 56 (`offset + 8 >= bytes.len()`, also for the linking branches inside the run).
        let avail = (0..64u64).take_while(|i| prog.get(*h + i, 1).is_some()).count() as u64;
        let (mut a, mut o, mut fits) = (*h, 0u64, true);
        loop {
            match by_addr.get(&a) {
                Some(i) if i.len > 0 => {
                    let ok = if isa.name() == "mips" && i.len == 8 && avail == 64 { o + 8 < 64 } else { o + i.len <= avail };
                    if !ok { fits = false; break; }
                    if !i.plain { break; }
                    o += i.len; a += i.len;
                }
                _ => break,
            }
        }
        if !fits || run_len(*h) > 64 { tags.push("kf:manual-head-run-exceeds-window".into()); break; }
    }
    // MIPS: a target that is the delay slot of a reachable branch (the slot's IL is then shared between the
    // branch unit and the run that starts at the slot)
    if isa.name() == "mips" && items.iter().any(|i| i.len == 8 && targets.contains(&(i.addr + 4))) {
        tags.push("has:target-in-delay-slot".into());
    }
    let holes = items.iter().filter(|i| i.len == 0).count();
    if holes > 0 { tags.push("has:unmapped-target".into()); }

    // initial states
    let mut inits = vec![];
    let mut regsets = vec![];
    for _ in 0..2 {
        let mut vals = vec![];
        let mut rs = [0u32; 8];
        for (k, (name, bits)) in regs.iter().enumerate() {
            let v: u64 = match r.below(4) { 0 => 0, 1 => 1, 2 => r.below(4), _ => r.next() } & if *bits >= 64 { u64::MAX } else { (1u64 << bits) - 1 };
            if k < 8 { rs[k] = v as u32; }
            vals.push(format!("(({}, None), mkc {} {})", n_lit(it.id(name)), bits, v));
        }
        inits.push(coq_list(vals));
        regsets.push(rs);
    }

    // differential: executor::Driver vs the toy interpreter (no manual edges: they add behaviours)
    let mut drv_ok = true;
    if toy && manual.is_empty() {
        if let Obs::Ok(f) = &obs {
            for rs in &regsets {
                let want = toy_interp(&prog, fa, rs, 120);
                match driver_trace(f, rs, 120) {
                    Some(got) => { if got != want { drv_ok = false; } }
                    None => drv_ok = false,
                }
            }
            tags.push(format!("driver:{}", if drv_ok { "agree" } else { "DISAGREE" }));
        }
    }

    let coq_items = coq_list(items.iter().map(|i| coq_item(i, &mut it)).collect::<Vec<_>>());
    let coq_manual = coq_list(manual.iter().map(|(h, t, c)| format!("(mkme {} {} {})", h, t, coq_opt(c.as_ref().map(|e| coq_expr(e, &mut it))))).collect::<Vec<_>>());
    let coq_obs = match &obs { Obs::Ok(f) => format!("(Ok {})", coq_function(f, &mut it)), Obs::Err(k) => format!("(Err {})", k), Obs::Panic => "Panic".to_string() };
    let coq_tb = coq_list(tb_log.iter().map(|(a, r)| match r {
        Ok(b) => format!("({}, Ok (mkbr {} {}))", a,
            coq_list(b.instructions().iter().map(|(ia, g)| format!("({}, {})", ia, coq_cfg(g, None, &mut it))).collect::<Vec<_>>()),
            coq_list(b.successors().iter().map(|(t, c)| format!("({}, {})", t, coq_opt(c.as_ref().map(|e| coq_expr(e, &mut it))))).collect::<Vec<_>>())),
        Err(k) => format!("({}, Err {})", a, k),
    }).collect::<Vec<_>>());
    let coq = format!("KRec {} {} {} {} {} {} {}", fa, coq_items, coq_manual, coq_list(inits), coq_bool(drv_ok), coq_tb, coq_obs);
    let blocks = match &obs { Obs::Ok(f) => f.blocks().len(), _ => 0 };
    tags.push(format!("blocks:{}", if blocks < 3 { "<3" } else if blocks < 10 { "3-9" } else { ">=10" }));
    let mut hsh: u64 = 0xcbf29ce484222325;
    for b in descr.as_bytes() { hsh = (hsh ^ *b as u64).wrapping_mul(0x100000001b3); }
    Case { coq, descr: format!("{} [{}] -> {}", descr, isa.name(), obs.kind()), tags, nontrivial: blocks >= 3, key: format!("{:016x}", hsh) }
}

/// hand-written regression programs (indices 0..N_FIXED): the minimised forms of past failures and of the
/// situations the property names
const N_FIXED: u64 = 11;
const N_FIXED_REAL: u64 = 10;
fn fixed_toy(index: u64) -> Gen {
    use Toy::*;
    let (base, ins, fa_idx, holes, manual): (u64, Vec<Toy>, usize, Vec<usize>, Vec<(usize, usize, Option<Expression>)>) = match index {
        // conditional jump whose target is its own fall-through (x86 `je +0`)
        0 => (0x1000, vec![Jcc(0, 0, 1), Add(1, 1), Halt], 0, vec![], vec![]),
        // one straight-line run of 84 bytes
        1 => (0x1000, (0..20).map(|i| Add((i % 8) as u8, 1)).chain([Halt]).collect(), 0, vec![], vec![]),
        // loop whose back edge enters the middle of the entry block
        2 => (0x1008, vec![Add(0, 1), Add(1, 1), Add(2, 1), Add(0, 0xffff), Jcc(1, 0, -2), Halt], 0, vec![], vec![]),
        // jump table: two guarded manual edges out of an indirect jump
        3 => (0x1000, vec![Add(0, 1), Jr(1), Add(2, 1), Halt, Add(3, 1), Halt], 0, vec![],
              vec![(1, 2, Some(toy_cond(0, 1))), (1, 4, Some(toy_cond(1, 1)))]),
        // 19-instruction loop at alignment 13, entered in the middle, window ends inside it
        4 => (0x1034, (0..18).map(|i| Add((i % 8) as u8, 2)).chain([Jmp(-18)]).collect(), 9, vec![], vec![]),
        // branches into an unmapped hole and past the end
        5 => (0x1000, vec![Jcc(2, 0, 3), Add(1, 1), Jmp(4), Add(2, 1), Add(2, 1), Halt], 0, vec![3, 4], vec![]),
        // manual edge whose head starts a run longer than one window (known finding)
        6 => (0x1000, (0..18).map(|i| Add((i % 8) as u8, 1)).chain([Halt, Add(0, 1), Halt]).collect(), 0, vec![], vec![(1, 19, None)]),
        // the function is a jump to itself
        7 => (0x1004, vec![Jmp(0)], 0, vec![], vec![]),
        // blocks that share two and more instructions: the entry block is cut by the window after 16
        // instructions, the back edge enters it at its third instruction, and the block lifted there shares
        // 14 instructions with the entry block and 2 with the block after it
        8 => (0x1000, (0..20).map(|i| Add((i % 8) as u8, 1)).chain([Jcc(1, 0, -18), Halt]).collect(), 0, vec![], vec![]),
        // the function entry is a loop header; the loop is closed by a separate block ending in `jmp entry`
        // (one unguarded out-edge into a block with one in-edge: merge must not swallow the entry)
        9 => (0x1010, vec![Add(0, 1), Jcc(0, 1, 3), Add(2, 1), Jmp(-3), Halt], 0, vec![], vec![]),
        // a reachable unmapped address with a requested unguarded self edge: an empty block that loops silently
        // (thorough seed 1 case 19634: the language checker used to answer `false` on silent cycles)
        _ => (0x1000, vec![Jcc(0, 0, 2), Halt, Add(0, 1)], 0, vec![2], vec![(2, 2, None)]),
    };
    let bytes: Vec<u8> = ins.iter().flat_map(|i| i.encode()).collect();
    let mut mapped = vec![true; bytes.len()];
    for h in &holes { for b in 4 * h..4 * h + 4 { mapped[b] = false; } }
    let at = |i: usize| base + 4 * i as u64;
    let manual: Vec<(u64, u64, Option<Expression>)> = manual.into_iter().map(|(h, t, c)| (at(h), at(t), c)).collect();
    let mut tags = vec!["isa:toy".to_string(), format!("fixed:{}", index)];
    if !manual.is_empty() { tags.push("has:manual".into()); }
    if !holes.is_empty() { tags.push("has:hole".into()); }
    if ins.iter().any(|i| matches!(i, Toy::Jcc(_, _, 1))) { tags.push("has:jcc-to-next".into()); }
    let descr = format!("toy(fixed {}) base={:#x} entry={:#x} prog=[{}] holes={:?} manual={:?}", index, base, at(fa_idx),
        ins.iter().enumerate().map(|(i, x)| format!("{:#x}:{:?}", at(i), x)).collect::<Vec<_>>().join(" "),
        holes.iter().map(|h| at(*h)).collect::<Vec<_>>(),
        manual.iter().map(|m| format!("{:#x}->{:#x}{}", m.0, m.1, if m.2.is_some() { "?" } else { "" })).collect::<Vec<_>>());
    Gen { prog: Prog { base, bytes, mapped }, fa: at(fa_idx), manual, tags, descr }
}

fn gen_case(seed: u64, index: u64) -> Case {
    if index < N_FIXED {
        let mut r = Rng::for_case(seed, index);
        let isa = ToyIsa { tr: ToyTranslator };
        return run_case(&isa, fixed_toy(index), &mut r, true);
    }

    let mut r = Rng::for_case(seed, index);
    if index < N_FIXED + N_FIXED_REAL {
        use AIns::*;
        let k = index - N_FIXED;
        if k >= 8 {
            // every generated control-transfer mnemonic once (k = 8: MIPS, k = 9: x86), each jumping over one plain instruction
            let mips = k == 8;
            let mut ins: Vec<AIns> = vec![];
            let nj = if mips { 8 } else { 37 };
            for j in 0..nj { let i = ins.len(); ins.extend([Jcc(j as u8, i + 2), Plain(1)]); }
            for j in 0..(if mips { 4 } else { 1 }) { let i = ins.len(); ins.extend([Call(j as u8, i + 2), Plain(2)]); }
            for j in 0..2 { let i = ins.len(); ins.extend([Jmp(j as u8, i + 2), Plain(1), Plain(2)]); }
            { let i = ins.len(); ins.extend([Jcc(0, i + 2), Stop(1), Stop(0)]); }
            let g = gen_real(&mut r, mips, Some((0x1000, ins, 0)));
            return if mips { run_case(&MipsIsa { tr: falcon::translator::mips::Mips::new() }, g, &mut r, false) }
                   else { run_case(&X86Isa { tr: falcon::translator::x86::X86::new() }, g, &mut r, false) };
        }
        let mips = k % 2 == 0;
        // a branch placed so that it (MIPS: its delay slot) straddles the end of the first 64-byte window
        let lead = if mips { 14 + (k / 2) as usize } else { 20 + (k / 2) as usize };
        let mut ins: Vec<AIns> = (0..lead).map(|i| Plain(if mips { 1 + (i % 3) as u8 } else { 1 })).collect();
        let t = ins.len() + 2;
        ins.extend([Jcc(0, t), Plain(1), Plain(2), Stop(0)]);
        let g = gen_real(&mut r, mips, Some((0x1000, ins, 0)));
        return if mips { run_case(&MipsIsa { tr: falcon::translator::mips::Mips::new() }, g, &mut r, false) }
               else { run_case(&X86Isa { tr: falcon::translator::x86::X86::new() }, g, &mut r, false) };
    }
    match index % 10 {
        0 | 1 => { let g = gen_real(&mut r, true, None); run_case(&MipsIsa { tr: falcon::translator::mips::Mips::new() }, g, &mut r, false) }
        2 | 3 => { let g = gen_real(&mut r, false, None); run_case(&X86Isa { tr: falcon::translator::x86::X86::new() }, g, &mut r, false) }
        _ => { let isa = ToyIsa { tr: ToyTranslator }; let g = gen_toy(&mut r); run_case(&isa, g, &mut r, true) }
    }
}

fn main() {
    if std::env::var("C06_DEBUG").is_err() { quiet_panics(); }
    let args = parse_args();
    let idxs: Vec<u64> = match args.only { Some(i) => vec![i], None => (0..args.n).collect() };
    let cases: Vec<Case> = idxs.iter().map(|i| gen_case(args.seed, *i)).collect();
    let nt = cases.iter().filter(|c| c.nontrivial).count();
    write_cases(&args, "C06",
        "From Coq Require Import ZArith List NArith.\nFrom Falcon Require Import Base.Res IL.Const IL.Expr IL.Func Lift.Recover Lift.C06Check.\nImport ListNotations.\nLocal Open Scope Z_scope.",
        "ck", &cases, 16, serde_json::json!({"nontrivial_programs": nt}));
}
