//! C08 harness: histories over up to three `memory::paged::Memory<il::Constant>` handles.
//! Every operation runs under catch_unwind; the observable result is recorded after each one.
//! A history ends at the first panic (the handle may be half-updated afterwards).
//! Histories run in CHILD processes (`--child 1 --lo a --hi b --cout file`): a stack overflow (unbounded recursion
//! in `load`), an abort or non-termination kills / stalls the child, not the check.  The parent attributes the death
//! to the first history the child did not deliver, re-runs that history alone in a tracing child (which records,
//! before every operation, the history so far with that operation observed as `Panic`), and emits that record as the
//! case: model /= observed and the oracle fails on a named history and operation.
use falcon::architecture::Endian;
use falcon::il::{Constant, Expression, Scalar};
use falcon::memory::Value;
use falcon::memory::backing;
use falcon::memory::paged::Memory;
use falcon::memory::MemoryPermissions;
use falcon::RC;
use fvh::*;
use num_bigint::BigUint;
use std::fmt::Write as _;

const WIDTHS: [usize; 7] = [8, 16, 24, 32, 64, 128, 136];
const BAD_WIDTHS: [usize; 3] = [0, 7, 12];
const PERMS: [u32; 6] = [1, 3, 5, 7, 4, 0];
const TOP: u64 = u64::MAX; // 2^64 - 1

#[derive(Clone)]
struct Sec {
    addr: u64,
    data: Vec<u8>,
    perm: u32,
}
#[derive(Clone)]
struct Back {
    endian: Endian,
    secs: Vec<Sec>,
}
impl Back {
    fn build(&self) -> backing::Memory {
        let mut b = backing::Memory::new(self.endian.clone());
        for s in &self.secs {
            b.set_memory(s.addr, s.data.clone(), MemoryPermissions::from_bits_truncate(s.perm));
        }
        b
    }
}
fn e_coq(e: &Endian) -> &'static str {
    match e { Endian::Little => "LE", Endian::Big => "BE" }
}
/// printed from the *built* backing's sections (ascending BTreeMap order)
fn back_coq(b: &backing::Memory, e: &Endian) -> String {
    let secs = b.sections().iter().map(|(a, s)| {
        format!("({}, ({}, {}))", a, coq_list(s.data().iter().map(|x| x.to_string())), s.permissions().bits())
    });
    format!("(mkback {} {})", e_coq(e), coq_list(secs))
}

/// stored value: a constant, or (expression stream) a small tree with constant leaves, mirrored by `rexpr`
#[derive(Clone)]
enum Tree {
    Const(BigUint, usize),
    /// scalar `s<id>` of the given width (expression stream only)
    Scalar(u64, usize),
    Bin(&'static str, Box<Tree>, Box<Tree>),
    Zext(usize, Box<Tree>),
}
impl Tree {
    fn coq(&self) -> String {
        match self {
            Tree::Const(v, w) => format!("(RConst {} {})", z_big(v), w),
            Tree::Scalar(id, w) => format!("(RScalar (mks {} {} None))", n_lit(*id), w),
            Tree::Bin(o, a, b) => format!("(RBin {} {} {})", o, a.coq(), b.coq()),
            Tree::Zext(w, a) => format!("(RExt Zext {} {})", w, a.coq()),
        }
    }
    fn build(&self) -> Expression {
        match self {
            Tree::Const(v, w) => Expression::constant(Constant::new_big(v.clone(), *w)),
            Tree::Scalar(id, w) => Expression::scalar(Scalar::new(format!("s{}", id), *w)),
            Tree::Bin(o, a, b) => match *o {
                "Add" => Expression::add(a.build(), b.build()).unwrap(),
                "Xor" => Expression::xor(a.build(), b.build()).unwrap(),
                _ => Expression::and(a.build(), b.build()).unwrap(),
            },
            Tree::Zext(w, a) => Expression::zext(*w, a.build()).unwrap(),
        }
    }
    fn show(&self) -> String { format!("{}", self.build()) }
}
/// scalar ids: two scalars per width, id = 2*w + j (name "s<id>")
fn gen_tree(r: &mut Rng, w: usize, v: BigUint, used: &mut std::collections::BTreeSet<(u64, usize)>) -> Tree {
    if w == 0 { return Tree::Const(v, w); }
    let mut sc = |r: &mut Rng| { let id = 2 * w as u64 + r.below(2); used.insert((id, w)); Tree::Scalar(id, w) };
    match r.below(12) {
        0 | 1 => Tree::Bin(*r.pick(&["Add", "Xor", "And"]), Box::new(Tree::Const(v, w)), Box::new(Tree::Const(r.big(w), w))),
        2 if w > 8 => { let sw = w - 8; Tree::Zext(w, Box::new(Tree::Const(r.big(sw), sw))) }
        3 => sc(r),
        4 => { let a = sc(r); Tree::Bin(*r.pick(&["Add", "Xor", "And"]), Box::new(a), Box::new(Tree::Const(v, w))) }
        5 => { let a = sc(r); let b = sc(r); Tree::Bin(*r.pick(&["Add", "Xor"]), Box::new(a), Box::new(b)) }
        _ => Tree::Const(v, w),
    }
}
/// the value every scalar denotes in this history (a function of the id only, so it is known before the scalar is used)
fn scalar_value(seed: u64, idx: u64, id: u64, w: usize) -> BigUint {
    Rng::for_case(seed ^ 0x5ca1a5, idx.wrapping_mul(4099).wrapping_add(id)).big(w)
}
/// Gallina `expr` term of an expression (scalars are named s<id>)
fn expr_coq(e: &Expression) -> String {
    use Expression::*;
    let b = |o: &str, l: &Expression, r: &Expression| format!("(EBin {} {} {})", o, expr_coq(l), expr_coq(r));
    match e {
        Scalar(s) => format!("(EScalar (mks {} {} {}))", n_lit(s.name().trim_start_matches('s').parse().unwrap()), s.bits(), coq_opt(s.ssa().map(|x| n_lit(x as u64)))),
        Constant(c) => format!("(EConst (mkc {} {}))", c.bits(), z_big(c.value())),
        Add(l, r) => b("Add", l, r), Sub(l, r) => b("Sub", l, r), Mul(l, r) => b("Mul", l, r), Divu(l, r) => b("Divu", l, r),
        Modu(l, r) => b("Modu", l, r), Divs(l, r) => b("Divs", l, r), Mods(l, r) => b("Mods", l, r), And(l, r) => b("And", l, r),
        Or(l, r) => b("Or", l, r), Xor(l, r) => b("Xor", l, r), Shl(l, r) => b("Shl", l, r), Shr(l, r) => b("Shr", l, r),
        AShr(l, r) => b("AShr", l, r), Cmpeq(l, r) => b("Cmpeq", l, r), Cmpneq(l, r) => b("Cmpneq", l, r),
        Cmplts(l, r) => b("Cmplts", l, r), Cmpltu(l, r) => b("Cmpltu", l, r),
        Zext(n, x) => format!("(EExt Zext {} {})", n, expr_coq(x)), Sext(n, x) => format!("(EExt Sext {} {})", n, expr_coq(x)),
        Trun(n, x) => format!("(EExt Trun {} {})", n, expr_coq(x)),
        Ite(c, t, f) => format!("(EIte {} {} {})", expr_coq(c), expr_coq(t), expr_coq(f)),
    }
}

enum Op {
    Store(usize, u64, Tree, usize),
    Load(usize, u64, usize),
    Clone(usize, usize),
    New(usize, Endian, Option<usize>),
    SetPerm(usize, u64, u64, u32),
    Perm(usize, u64),
    Eq(usize, usize),
}

/// base addresses the history clusters around
fn bases(r: &mut Rng) -> Vec<u64> {
    let mut v = vec![];
    let n = r.range(1, 3);
    for _ in 0..n {
        v.push(match r.below(12) {
            0 => 0,
            1 => TOP - 31, // 2^64 - 32
            2 => TOP - 1023, // last page
            3 => 1024 * ((1u64 << 54) - 1) , // last page boundary
            4 => 1024 * (1u64 << 30),
            5 => 1024 * r.range(1, 1 << 40),
            _ => 1024 * r.range(1, 9),
        });
    }
    v
}
fn around(r: &mut Rng, base: u64, spread: u64) -> u64 {
    let d = r.below(2 * spread + 1);
    if d >= spread {
        base.checked_add(d - spread).unwrap_or(TOP - r.below(4))
    } else {
        base.checked_sub(spread - d).unwrap_or(r.below(4))
    }
}
fn gen_addr(r: &mut Rng, bases: &[u64], earlier: &[u64]) -> u64 {
    if !earlier.is_empty() && r.chance(3, 5) {
        let e = *r.pick(earlier);
        around(r, e, 16)
    } else {
        let b = *r.pick(bases);
        if b == TOP - 31 { around(r, b, 31) } else { around(r, b, 9) }
    }
}
fn gen_back(r: &mut Rng, e: &Endian, bases: &[u64]) -> Back {
    let mut secs: Vec<Sec> = vec![];
    let n = r.range(1, 3);
    for _ in 0..n {
        let b = *r.pick(bases);
        let len = r.range(1, 40);
        let start = if b < 20 { r.below(8) } else { b - r.below(20) };
        // never reach 2^64 (section_address + len must not overflow), never overlap another section
        if start.checked_add(len + 8).is_none() { continue; }
        if secs.iter().any(|s| start < s.addr + s.data.len() as u64 && s.addr < start + len) { continue; }
        let data = (0..len).map(|_| r.below(256) as u8).collect();
        secs.push(Sec { addr: start, data, perm: *r.pick(&PERMS[..5]) });
    }
    Back { endian: if r.chance(1, 8) { flip(e) } else { e.clone() }, secs }
}
fn flip(e: &Endian) -> Endian {
    match e { Endian::Big => Endian::Little, Endian::Little => Endian::Big }
}
fn hex(v: &BigUint) -> String { format!("0x{:x}", v) }

#[derive(Default, Clone)]
struct Stats {
    overlap: u32, cross: u32, wrapped: u32, top: u32, loads_none: u32, loads_some: u32, panicked: bool,
    kinds: std::collections::BTreeSet<&'static str>,
    used: std::collections::BTreeSet<(u64, usize)>,
}
struct Hdr { expr_mode: bool, endian: Endian, table: String, b0: Option<usize>, has_backing: bool, malformed: bool, seed: u64, idx: u64 }

fn finish(h: &Hdr, coq_ops: &[String], descr: &str, st: &Stats, aborted: bool) -> Case {
    let val = coq_list(st.used.iter().map(|(id, w)| format!("(mks {} {} None, mkc {} {})", n_lit(*id), w, w, z_big(&scalar_value(h.seed, h.idx, *id, *w)))));
    let pre = format!("{} {} {}", e_coq(&h.endian), h.table, coq_opt(h.b0.map(|i| format!("{}%nat", i))));
    let ops = coq_list(coq_ops.iter().cloned());
    let coq = if h.expr_mode { format!("KE {} {} {}", pre, val, ops) } else { format!("KC (KHist {} {})", pre, ops) };
    let mut tags = vec![format!("value:{}", if h.expr_mode { "Expression" } else { "Constant" }), format!("endian:{}", e_coq(&h.endian)), format!("backing:{}", h.has_backing), format!("ops:{}", (coq_ops.len() / 10) * 10)];
    for k in &st.kinds { tags.push(format!("has:{}", k)); }
    if st.overlap > 0 { tags.push("has:overlapping-store".into()); }
    if st.cross > 0 { tags.push("has:page-crossing-store".into()); }
    if st.wrapped > 0 { tags.push("has:wrapping-store".into()); }
    if st.top > 0 { tags.push("has:store-ending-at-top".into()); }
    if st.loads_none > 0 { tags.push("has:load-none".into()); }
    if st.loads_some > 0 { tags.push("has:load-some".into()); }
    if !st.used.is_empty() { tags.push("has:scalars".into()); }
    if st.panicked { tags.push("res:panic".into()); }
    if aborted { tags.push("res:process-died".into()); }
    tags.push(if h.malformed { "stream:malformed".into() } else { "stream:valid".into() });
    let mut hsh: u64 = 0xcbf29ce484222325;
    for b in coq.as_bytes() { hsh = (hsh ^ *b as u64).wrapping_mul(0x100000001b3); }
    Case { coq, descr: descr.to_string(), tags, nontrivial: st.overlap > 0 || st.cross > 0, key: format!("{:016x}", hsh) }
}

/// the operation about to run, rendered with the observation "the process died in it"
fn abort_text(op: &Op, expr_mode: bool) -> (String, String) {
    let wrap = |s: String| -> String { if expr_mode { format!("EOther ({})", s) } else { s } };
    match op {
        Op::Store(h, a, t, _) => {
            let lhs = if expr_mode { format!("EStore {} {} {}", h, a, t.coq()) }
                      else { match t { Tree::Const(v, w) => { let c = Constant::new_big(v.clone(), *w); format!("OStore {} {} {} {}", h, a, c.bits(), z_big(c.value())) } _ => unreachable!() } };
            (format!("({}, BUnit Panic)", lhs), format!("h{}.store(0x{:x},{})=PROCESS-DIED", h, a, t.show()))
        }
        Op::Load(h, a, w) => (if expr_mode { format!("(ELoadX {} {} {} Panic, BLoad Panic)", h, a, w) } else { format!("(OLoad {} {} {}, BLoad Panic)", h, a, w) },
                              format!("h{}.load(0x{:x},{})=PROCESS-DIED", h, a, w)),
        Op::Clone(s, d) => (format!("({}, BUnit Panic)", wrap(format!("OClone {} {}", s, d))), format!("h{}=h{}.clone() PROCESS-DIED", d, s)),
        Op::New(h, e, b) => (format!("({}, BUnit Panic)", wrap(format!("ONew {} {} {}", h, e_coq(e), coq_opt(b.map(|i| format!("{}%nat", i)))))), format!("h{}=new() PROCESS-DIED", h)),
        Op::SetPerm(h, a, len, p) => (format!("({}, BUnit Panic)", wrap(format!("OSetPerm {} {} {} {}", h, a, len, p))), format!("h{}.set_permissions(0x{:x},{},{})=PROCESS-DIED", h, a, len, p)),
        Op::Perm(h, a) => (format!("({}, BPerm Panic)", wrap(format!("OPerm {} {}", h, a))), format!("h{}.permissions(0x{:x})=PROCESS-DIED", h, a)),
        Op::Eq(h1, h2) => (format!("({}, BEq Panic)", wrap(format!("OEq {} {}", h1, h2))), format!("h{}==h{}:PROCESS-DIED", h1, h2)),
    }
}

/// one history over three handles of Memory<V>.  `mk` builds the stored value from its tree,
/// `ev` turns a loaded value into the constant it denotes (identity / executor::eval).
fn gen_case_v<V: Value>(seed: u64, idx: u64, expr_mode: bool, mk: &dyn Fn(&Tree) -> V,
                        ev: &dyn Fn(&V) -> Result<Constant, falcon::Error>, shape: &dyn Fn(&V) -> String, trace: Option<&dyn Fn(&Case)>) -> Case {
    let mut rng = Rng::for_case(seed, idx);
    let r = &mut rng;
    let endian = if r.chance(1, 2) { Endian::Little } else { Endian::Big };
    let bs = bases(r);
    let mut backs: Vec<Back> = vec![];
    let has_backing = r.chance(1, 2);
    backs.push(gen_back(r, &endian, &bs));
    if r.chance(1, 2) { let c = backs[0].clone(); backs.push(c); } else { let b = gen_back(r, &endian, &bs); backs.push(b); }
    let built: Vec<RC<backing::Memory>> = backs.iter().map(|b| RC::new(b.build())).collect();
    let mkmem = |e: &Endian, b: Option<usize>| -> Memory<V> {
        match b {
            Some(i) => Memory::new_with_backing(e.clone(), RC::new((*built[i]).clone())),
            None => Memory::new(e.clone()),
        }
    };
    let b0 = if has_backing { Some(0) } else { None };
    let m0: Memory<V> = match b0 { Some(i) => Memory::new_with_backing(endian.clone(), built[i].clone()), None => Memory::new(endian.clone()) };
    let mut hs: Vec<Memory<V>> = vec![m0.clone(), m0.clone(), m0];

    let nops = r.range(1, 60);
    let malformed_history = r.chance(1, 8);
    let mut earlier: Vec<u64> = backs[0].secs.iter().map(|s| s.addr).collect();
    if !has_backing { earlier.clear(); }
    let mut ranges: Vec<Vec<(u128, u128)>> = vec![vec![], vec![], vec![]];
    let mut st = Stats::default();
    let table = coq_list(built.iter().zip(backs.iter()).map(|(b, s)| back_coq(b, &s.endian)));
    let hdr = Hdr { expr_mode, endian: endian.clone(), table, b0, has_backing, malformed: malformed_history, seed, idx };
    let mut coq_ops: Vec<String> = vec![];
    let mut descr = format!("{}{} backing={}", if expr_mode { "V=Expression " } else { "" }, e_coq(&endian), if has_backing { "yes" } else { "no" });
    let wrap_other = |s: String| -> String { if expr_mode { format!("EOther ({})", s) } else { s } };
    let mut reached = 0usize; // operations generated so far = droppable elements of this history (minimisation protocol)
    for pos in 0..nops as usize {
        reached = pos + 1;
        let h = r.below(3) as usize;
        let k = r.below(100);
        let op = if k < 40 {
            let w = if malformed_history && r.chance(1, 4) { *r.pick(&BAD_WIDTHS) } else { *r.pick(&WIDTHS) };
            let mut a = gen_addr(r, &bs, &earlier);
            // near the top of the address space: one store in three ends exactly at 2^64
            if a > TOP - 64 && w >= 8 && r.chance(1, 3) { a = TOP - (w as u64 / 8) + 1; }
            let v = match r.below(6) { 0 => BigUint::from(0u32), 1 => (BigUint::from(1u32) << w) - BigUint::from(1u32), _ => r.big(w) };
            let t = if expr_mode { gen_tree(r, w, v, &mut st.used) } else { Tree::Const(v, w) };
            Op::Store(h, a, t, w)
        } else if k < 75 {
            let w = if malformed_history && r.chance(1, 4) { *r.pick(&BAD_WIDTHS) } else { *r.pick(&WIDTHS) };
            Op::Load(h, gen_addr(r, &bs, &earlier), w)
        } else if k < 80 {
            Op::Clone(h, r.below(3) as usize)
        } else if k < 81 {
            Op::New(h, if r.chance(1, 4) { flip(&endian) } else { endian.clone() }, if r.chance(2, 3) { Some(r.below(2) as usize) } else { None })
        } else if k < 87 {
            let a = gen_addr(r, &bs, &earlier);
            let len = match r.below(8) { 0 => 0, 1 => 1, 2 => 1024, 3 => 1025, 4 => r.range(1, 5000), _ => r.range(1, 64) };
            Op::SetPerm(h, a, len, *r.pick(&PERMS))
        } else if k < 95 {
            Op::Perm(h, gen_addr(r, &bs, &earlier))
        } else {
            Op::Eq(h, r.below(3) as usize)
        };
        // minimisation protocol (`--keep p0,p1,..`): the operation was generated exactly as usual (same Rng stream, same
        // address pool) but is not run; only what generation of later operations depends on is kept up to date
        if !kept(pos) {
            if let Op::Store(_, a, _, _) = &op { earlier.push(*a); }
            continue;
        }
        if let Some(tr) = trace {
            let (pc, pd) = abort_text(&op, expr_mode);
            let mut ops2 = coq_ops.clone();
            ops2.push(pc);
            tr(&finish(&hdr, &ops2, &format!("{}; {}", descr, pd), &st, true).with_elements(reached));
        }
        let (coq, d, was_panic) = match op {
            Op::Store(h, a, t, w) => {
                st.kinds.insert("store");
                let bytes = (w / 8) as u64;
                let val = mk(&t);
                let o = observe(|| hs[h].store(a, val.clone()));
                if w >= 8 && w % 8 == 0 {
                    let end = a as u128 + bytes as u128;
                    if end <= 1u128 << 64 {
                        if end == 1u128 << 64 { st.top += 1; }
                        if ranges[h].iter().any(|(s, e)| (a as u128) < *e && *s < end) { st.overlap += 1; }
                        if a as u128 / 1024 != (end - 1) / 1024 { st.cross += 1; }
                        ranges[h].push((a as u128, end));
                    } else {
                        st.wrapped += 1;
                    }
                }
                earlier.push(a);
                let lhs = if expr_mode { format!("EStore {} {} {}", h, a, t.coq()) }
                          else { match &t { Tree::Const(v, w) => { let c = Constant::new_big(v.clone(), *w); format!("OStore {} {} {} {}", h, a, c.bits(), z_big(c.value())) } _ => unreachable!() } };
                (format!("({}, BUnit {})", lhs, o.coq(|_| "tt".into())),
                 format!("h{}.store(0x{:x},{})={}", h, a, t.show(), o.kind()), matches!(o, Obs::Panic))
            }
            Op::Load(h, a, w) => {
                st.kinds.insert("load");
                // the value the implementation returned (its tree, in the expression stream), then what it denotes
                let raw = observe(|| hs[h].load(a, w));
                let o: Obs<Option<Constant>> = match &raw {
                    Obs::Ok(Some(x)) => observe(|| Ok(Some(ev(x)?))),
                    Obs::Ok(None) => Obs::Ok(None),
                    Obs::Err(k) => Obs::Err(k),
                    Obs::Panic => Obs::Panic,
                };
                match &o { Obs::Ok(None) => st.loads_none += 1, Obs::Ok(Some(_)) => st.loads_some += 1, _ => {} }
                let show = match &o { Obs::Ok(Some(c)) => format!("{}:{}", hex(c.value()), c.bits()), Obs::Ok(None) => "None".into(), x => x.kind() };
                let lhs = if expr_mode { format!("ELoadX {} {} {} {}", h, a, w, raw.coq(|x| coq_opt(x.as_ref().map(|v| shape(v))))) } else { format!("OLoad {} {} {}", h, a, w) };
                (format!("({}, BLoad {})", lhs, o.coq(|x| coq_opt(x.as_ref().map(|c| format!("(mkc {} {})", c.bits(), z_big(c.value())))))),
                 format!("h{}.load(0x{:x},{})={}", h, a, w, show), matches!(o, Obs::Panic) || matches!(raw, Obs::Panic))
            }
            Op::Clone(s, d) => {
                st.kinds.insert("clone");
                let c = hs[s].clone();
                hs[d] = c;
                let rs = ranges[s].clone();
                ranges[d] = rs;
                (format!("({}, BUnit (Ok tt))", wrap_other(format!("OClone {} {}", s, d))), format!("h{}=h{}.clone()", d, s), false)
            }
            Op::New(h, e, b) => {
                st.kinds.insert("new");
                hs[h] = mkmem(&e, b);
                ranges[h].clear();
                (format!("({}, BUnit (Ok tt))", wrap_other(format!("ONew {} {} {}", h, e_coq(&e), coq_opt(b.map(|i| format!("{}%nat", i)))))),
                 format!("h{}=new({},{:?})", h, e_coq(&e), b), false)
            }
            Op::SetPerm(h, a, len, p) => {
                st.kinds.insert("set_permissions");
                let o = observe(|| { hs[h].set_permissions(a, len, MemoryPermissions::from_bits_truncate(p)); Ok(()) });
                (format!("({}, BUnit {})", wrap_other(format!("OSetPerm {} {} {} {}", h, a, len, p)), o.coq(|_| "tt".into())),
                 format!("h{}.set_permissions(0x{:x},{},{})={}", h, a, len, p, o.kind()), matches!(o, Obs::Panic))
            }
            Op::Perm(h, a) => {
                st.kinds.insert("permissions");
                let o = observe(|| Ok(hs[h].permissions(a).map(|p| p.bits())));
                let show = match &o { Obs::Ok(x) => format!("{:?}", x), x => x.kind() };
                (format!("({}, BPerm {})", wrap_other(format!("OPerm {} {}", h, a)), o.coq(|x| coq_opt(x.map(|p| p.to_string())))),
                 format!("h{}.permissions(0x{:x})={}", h, a, show), matches!(o, Obs::Panic))
            }
            Op::Eq(h1, h2) => {
                st.kinds.insert("eq");
                let o = observe(|| Ok(hs[h1] == hs[h2]));
                let show = match &o { Obs::Ok(x) => format!("{}", x), x => x.kind() };
                (format!("({}, BEq {})", wrap_other(format!("OEq {} {}", h1, h2)), o.coq(|x| coq_bool(*x).to_string())),
                 format!("h{}==h{}:{}", h1, h2, show), matches!(o, Obs::Panic))
            }
        };
        coq_ops.push(coq);
        write!(descr, "; {}", d).unwrap();
        if was_panic { st.panicked = true; break; }
    }
    if let Some(k) = keep_arg() { descr = format!("[operations kept: {} of {}] {}", k, reached, descr); }
    finish(&hdr, &coq_ops, &descr, &st, false).with_elements(reached)
}

/// three histories in four over Memory<il::Constant>, one in four over Memory<il::Expression>
fn gen_case(seed: u64, idx: u64, trace: Option<&dyn Fn(&Case)>) -> Case {
    if idx % 4 == 3 {
        // the denotation of a loaded expression: substitute the history's valuation for every scalar, then eval
        let ev = |x: &Expression| -> Result<Constant, falcon::Error> {
            let mut e = x.clone();
            for s in x.scalars() {
                let id: u64 = s.name().trim_start_matches('s').parse().unwrap();
                e = e.replace_scalar(s, &Expression::constant(Constant::new_big(scalar_value(seed, idx, id, s.bits()), s.bits())))?;
            }
            falcon::executor::eval(&e)
        };
        gen_case_v::<Expression>(seed, idx, true, &|t| t.build(), &ev, &|x| expr_coq(x), trace)
    } else {
        gen_case_v::<Constant>(seed, idx, false,
            &|t| match t { Tree::Const(v, w) => Constant::new_big(v.clone(), *w), _ => unreachable!() },
            &|c| Ok(c.clone()), &|_| String::new(), trace)
    }
}

// ---------------------------------------------------------------- child / parent protocol
fn case_json(c: &Case) -> String {
    serde_json::json!({"coq": c.coq, "descr": c.descr, "tags": c.tags, "nontrivial": c.nontrivial, "key": c.key}).to_string()
}
fn case_of_json(l: &str) -> Option<Case> {
    let v: serde_json::Value = serde_json::from_str(l).ok()?;
    Some(Case {
        coq: v["coq"].as_str()?.to_string(), descr: v["descr"].as_str()?.to_string(),
        tags: v["tags"].as_array()?.iter().filter_map(|t| t.as_str().map(|x| x.to_string())).collect(),
        nontrivial: v["nontrivial"].as_bool()?, key: v["key"].as_str()?.to_string(),
    })
}

/// `--child 1 --lo a --hi b --cout file [--trace file]`: one serialised case per line, flushed after each history;
/// with `--trace`, the record "history so far + the operation about to run observed as Panic" is rewritten before
/// every operation.
fn child_main(args: &Args) {
    use std::io::Write as _;
    let lo: u64 = args.extra["lo"].parse().unwrap();
    let hi: u64 = args.extra["hi"].parse().unwrap();
    let mut out = std::fs::File::create(&args.extra["cout"]).unwrap();
    let tpath = args.extra.get("trace").cloned();
    for i in lo..hi {
        let c = match &tpath {
            Some(tp) => {
                let f = |c: &Case| { let mut t = std::fs::File::create(tp).unwrap(); t.write_all(case_json(c).as_bytes()).unwrap(); t.sync_data().ok(); };
                gen_case(args.seed, i, Some(&f))
            }
            None => gen_case(args.seed, i, None),
        };
        writeln!(out, "{}", case_json(&c)).unwrap();
        out.flush().unwrap();
    }
}

/// run a child to completion or until `limit`; true = exited normally with status 0
fn run_child(exe: &std::path::Path, a: &[String], limit: std::time::Duration) -> (bool, &'static str) {
    use std::process::{Command, Stdio};
    let mut ch = Command::new(exe).args(a).stdin(Stdio::null()).stdout(Stdio::null()).stderr(Stdio::null()).spawn().expect("spawn child");
    let t0 = std::time::Instant::now();
    loop {
        match ch.try_wait() {
            Ok(Some(st)) => return (st.success(), if st.success() { "ok" } else { "abort" }),
            Ok(None) => {
                if t0.elapsed() > limit { let _ = ch.kill(); let _ = ch.wait(); return (false, "timeout"); }
                std::thread::sleep(std::time::Duration::from_millis(5));
            }
            Err(_) => return (false, "abort"),
        }
    }
}

/// histories [lo, hi) through child processes; a dead or stalled child yields, for the first history it did not
/// deliver, the tracing child's last record (that history, cut at the operation that killed the process)
fn run_range(args: &Args, exe: &std::path::Path, lo: u64, hi: u64, chunk_limit: std::time::Duration, one_limit: std::time::Duration) -> Vec<Case> {
    let mut cases = vec![];
    let mut next = lo;
    let mut base = vec!["--child".to_string(), "1".into(), "--seed".into(), args.seed.to_string(), "--n".into(), args.n.to_string(), "--out".into(), args.out.clone()];
    if let Some(k) = keep_arg() { base.extend(["--keep".to_string(), k]); } // minimisation protocol: children drop the same operations
    while next < hi {
        let f = format!("{}/child_{}.jsonl", args.out, next);
        let mut a = base.clone();
        a.extend(["--lo".to_string(), next.to_string(), "--hi".into(), hi.to_string(), "--cout".into(), f.clone()]);
        let (ok, _) = run_child(exe, &a, chunk_limit);
        let got: Vec<Case> = std::fs::read_to_string(&f).unwrap_or_default().lines().filter_map(case_of_json).collect();
        let _ = std::fs::remove_file(&f);
        let k = got.len() as u64;
        cases.extend(got);
        next += k;
        if ok && next >= hi { break; }
        if next >= hi { break; }
        // history `next` killed or stalled the child: run it alone, tracing
        let (f2, f3) = (format!("{}/child_{}_one.jsonl", args.out, next), format!("{}/child_{}_trace.json", args.out, next));
        let mut a = base.clone();
        a.extend(["--lo".to_string(), next.to_string(), "--hi".into(), (next + 1).to_string(), "--cout".into(), f2.clone(), "--trace".into(), f3.clone()]);
        let (ok1, why) = run_child(exe, &a, one_limit);
        let done: Vec<Case> = std::fs::read_to_string(&f2).unwrap_or_default().lines().filter_map(case_of_json).collect();
        let c = if ok1 && done.len() == 1 {
            done.into_iter().next().unwrap() // did not reproduce alone (e.g. the chunk ran out of time on a loaded machine)
        } else {
            match std::fs::read_to_string(&f3).ok().and_then(|t| case_of_json(&t)) {
                Some(mut c) => { c.tags.push(format!("died:{}", why)); c.descr = format!("{} [{}]", c.descr, if why == "timeout" { "no result within the per-child wall-clock limit" } else { "process aborted (stack overflow / abort signal)" }); c }
                None => Case { coq: "KC (KHist LE [] (Some 7%nat) [])".into(), descr: format!("history {}: the process died ({}) before its first operation", next, why),
                               tags: vec!["res:process-died".into(), format!("died:{}", why)], nontrivial: false, key: format!("died{}", next) },
            }
        };
        let _ = std::fs::remove_file(&f2);
        let _ = std::fs::remove_file(&f3);
        cases.push(c);
        next += 1;
    }
    cases
}

fn main() {
    quiet_panics();
    let args = parse_args();
    if args.extra.contains_key("child") { child_main(&args); return; }
    std::fs::create_dir_all(&args.out).unwrap();
    let exe = std::env::current_exe().unwrap();
    let secs = |k: &str, d: u64| std::time::Duration::from_secs(args.extra.get(k).and_then(|v| v.parse().ok()).unwrap_or(d));
    let (chunk_limit, one_limit) = (secs("chunk-timeout", 120), secs("history-timeout", 20));
    let (lo, hi) = match args.only { Some(i) => (i, i + 1), None => (0, args.n) };
    // chunks of <= 125 histories, 16 children at a time
    let mut chunks: Vec<(u64, u64)> = vec![];
    let mut x = lo;
    while x < hi { let y = std::cmp::min(hi, x + 125); chunks.push((x, y)); x = y; }
    let slots: Vec<Option<Vec<Case>>> = (0..chunks.len()).map(|_| None).collect();
    let queue = std::sync::Mutex::new((0usize, slots));
    std::thread::scope(|sc| {
        for _ in 0..16 {
            sc.spawn(|| loop {
                let k = { let mut q = queue.lock().unwrap(); let k = q.0; q.0 += 1; k };
                if k >= chunks.len() { break; }
                let r = run_range(&args, &exe, chunks[k].0, chunks[k].1, chunk_limit, one_limit);
                queue.lock().unwrap().1[k] = Some(r);
            });
        }
    });
    let cases: Vec<Case> = queue.into_inner().unwrap().1.into_iter().flat_map(|c| c.unwrap()).collect();
    let nt = cases.iter().filter(|c| c.nontrivial).count();
    let died = cases.iter().filter(|c| c.tags.iter().any(|t| t == "res:process-died")).count();
    write_cases(&args, "C08",
        "From Coq Require Import ZArith List NArith.\nFrom Falcon Require Import Base.Res IL.Const IL.Expr Mem.PagedTypes Mem.Paged Mem.C08Check Mem.C08CheckE.\nImport ListNotations.\nLocal Open Scope Z_scope.",
        "cke", &cases, std::cmp::max(16, (cases.len() + 249) / 250), serde_json::json!({"nontrivial_histories": nt, "histories_that_killed_the_process": died}));
}
