//! Shared by the C12 and C14 harnesses (owned by the c12/c14 agent): random IL functions biased towards
//! the data-flow shapes the two properties quantify over, initial states, printers of location maps.
#![allow(dead_code)]
use falcon::analysis::LocationSet;
use falcon::il::{self, Expression, Function, Intrinsic, Operation};
use fvh::ilgen::*;
use fvh::*;
use std::collections::{BTreeSet, HashMap};

pub const ARENA_LO: u64 = 0x1000;
pub const ARENA_LEN: u64 = 48;

pub struct FlowCase {
    pub function: Function,
    pub pool: Vec<(String, usize)>,
    pub tags: BTreeSet<String>,
}

fn sc(s: &(String, usize)) -> il::Scalar {
    il::scalar(s.0.clone(), s.1)
}
fn ex(s: &(String, usize)) -> Expression {
    il::expr_scalar(s.0.clone(), s.1)
}

/// intrinsic shapes: declared / undeclared reads and writes in every combination, several scalars
fn gen_intrinsic(r: &mut Rng, pool: &[(String, usize)], tags: &mut BTreeSet<String>) -> Intrinsic {
    let pickv = |r: &mut Rng, n: u64| -> Vec<Expression> { (0..n).map(|_| ex(&pool[r.below(pool.len() as u64) as usize])).collect() };
    let (wr, rd, name) = match r.below(7) {
        0 => (None, None, "syscall"),
        1 => (Some(vec![]), Some(vec![]), "break"),
        2 => { let n = r.range(1, 2); (Some(pickv(r, n)), None, "wr_only") }
        3 => { let n = r.range(1, 2); (None, Some(pickv(r, n)), "rd_only") }
        4 => { let (n, m) = (r.range(2, 3), r.range(1, 3)); (Some(pickv(r, n)), Some(pickv(r, m)), "multi") }
        _ => { let m = r.range(0, 2); (Some(pickv(r, 1)), Some(pickv(r, m)), "declared") }
    };
    tags.insert(format!("intrinsic:{}", name));
    Intrinsic::new(name, "intrinsic", vec![], wr, rd, vec![0x0f, 0x05])
}

pub struct FlowOpts {
    pub intrinsics_pct: u64, // share of FUNCTIONS that contain intrinsics at all
    pub branches_pct: u64,
    pub unreachable_pct: u64,
    pub mixed_width_pct: u64, // share of functions whose pool holds one NAME at two widths (a:32 and a:8)
}

/// Random function: `gen_function` plus injected self-updating assignments (`x = x - 4`), assignments
/// reading two scalars (`z = x + y`), guards over freshly defined scalars, richer intrinsics.
pub fn gen_flow_function(r: &mut Rng, fo: &FlowOpts) -> FlowCase {
    let mut tags = BTreeSet::new();
    let mut o = GenOpts::default();
    o.scalars = match r.below(3) {
        0 => vec![("a".into(), 32), ("b".into(), 32), ("c".into(), 32), ("f".into(), 1)],
        1 => vec![("a".into(), 32), ("b".into(), 32), ("x".into(), 8), ("y".into(), 8), ("f".into(), 1)],
        _ => vec![("a".into(), 32), ("b".into(), 32), ("c".into(), 32), ("x".into(), 8), ("f".into(), 1), ("q".into(), 64)],
    };
    if r.below(100) < fo.mixed_width_pct {
        o.scalars = vec![("a".into(), 32), ("a".into(), 8), ("b".into(), 32), ("b".into(), 8), ("f".into(), 1)];
        tags.insert("mixed-width-names".into());
    }
    o.max_blocks = 6;
    o.max_instrs = 4;
    o.expr_depth = 2;
    o.loops = r.chance(2, 3);
    o.intrinsics = false;
    o.branches = false;
    o.unreachable = r.below(100) < fo.unreachable_pct;
    o.div = false;
    o.addresses = false;
    let with_intr = r.below(100) < fo.intrinsics_pct;
    let with_branch = r.below(100) < fo.branches_pct;
    let mut f = gen_function(r, &o, 0x1000);
    let pool = o.scalars.clone();
    let bidx: Vec<usize> = f.blocks().iter().map(|b| b.index()).collect();
    let nb = bidx.len();
    for (pos, bi) in bidx.iter().enumerate() {
        let b = f.block_mut(*bi).unwrap();
        let n = b.instructions().len();
        for (k, ins) in b.instructions_mut().iter_mut().enumerate() {
            let p = r.below(100);
            let s = pool[r.below(pool.len() as u64) as usize].clone();
            let same: Vec<&(String, usize)> = pool.iter().filter(|t| t.1 == s.1).collect();
            if p < 8 {
                // x = x - 4
                *ins.operation_mut() = Operation::assign(sc(&s), Expression::sub(ex(&s), il::expr_const(4, s.1)).unwrap());
                tags.insert("self-update".into());
            } else if p < 16 && same.len() >= 2 {
                // z = x + y   (two different scalars read; sometimes one of them is z)
                let x = (*r.pick(&same)).clone();
                let mut y = (*r.pick(&same)).clone();
                if y.0 == x.0 { y = same.iter().find(|t| t.0 != x.0).map(|t| (*t).clone()).unwrap_or(y); }
                *ins.operation_mut() = Operation::assign(sc(&s), Expression::add(ex(&x), ex(&y)).unwrap());
                tags.insert("two-reads".into());
            } else if p < 19 {
                // the same scalar read twice
                *ins.operation_mut() = Operation::assign(sc(&s), Expression::xor(ex(&s), ex(&s)).unwrap());
                tags.insert("read-twice".into());
            } else if with_intr && p < 27 {
                *ins.operation_mut() = Operation::intrinsic(gen_intrinsic(r, &pool, &mut tags));
            } else if with_branch && p < 33 && k + 1 == n && (pos + 1 == nb || r.chance(1, 3)) {
                *ins.operation_mut() = Operation::branch(gen_expr(r, &o, o.addr_bits, 1));
                tags.insert("branch".into());
            }
        }
    }
    // definitions whose only reader is a guard: make the last instruction of some blocks with guarded
    // out-edges assign a scalar that the guard reads
    let guarded: Vec<(usize, il::Scalar)> = f
        .edges()
        .iter()
        .filter_map(|e| e.condition().and_then(|c| c.scalars().first().map(|s| (e.head(), (*s).clone()))))
        .collect();
    for (h, s) in guarded {
        if !r.chance(1, 3) { continue; }
        let src = gen_expr(r, &o, s.bits(), 1);
        let b = f.block_mut(h).unwrap();
        if let Some(last) = b.instructions_mut().last_mut() {
            if !matches!(last.operation(), Operation::Branch { .. } | Operation::Intrinsic { .. }) {
                *last.operation_mut() = Operation::assign(s.clone(), src);
                tags.insert("def-for-guard".into());
            }
        }
    }
    // minimisation protocol (`--keep p0,p1,..`, notes/minimisation.md): the function was generated exactly as usual;
    // instructions whose running position is not kept become `nop` (indices, edges, pool unchanged)
    nop_dropped(&mut f, 0);
    // feature tags
    let g = f.control_flow_graph();
    if g.edges().iter().any(|e| e.head() >= e.tail()) { tags.insert("loop".into()); }
    if g.edges().iter().any(|e| e.condition().is_some()) { tags.insert("guarded-edge".into()); }
    if f.blocks().iter().any(|b| b.is_empty()) { tags.insert("empty-block".into()); }
    if o.unreachable { tags.insert("maybe-unreachable".into()); }
    for b in f.blocks() {
        for i in b.instructions() {
            match i.operation() {
                Operation::Load { .. } => { tags.insert("load".into()); }
                Operation::Store { .. } => { tags.insert("store".into()); }
                Operation::Assign { dst, src } => {
                    let rs = src.scalars();
                    if rs.len() >= 2 { tags.insert("multi-read".into()); }
                    if rs.iter().any(|s| *s == dst) { tags.insert("reads-own-dst".into()); }
                }
                _ => {}
            }
        }
    }
    FlowCase { function: f, pool, tags }
}

/// blocks reachable from the entry (over the static edges)
pub fn reachable_blocks(f: &Function) -> BTreeSet<usize> {
    let g = f.control_flow_graph();
    let mut seen = BTreeSet::new();
    let mut work = vec![g.entry().unwrap()];
    while let Some(b) = work.pop() {
        if !seen.insert(b) { continue; }
        for e in g.edges() { if e.head() == b { work.push(e.tail()); } }
    }
    seen
}

/// scalar pool as Gallina `list (N * Z)` and one random value vector over it (every pool scalar defined)
pub fn coq_pool(pool: &[(String, usize)], it: &mut Interner) -> String {
    coq_list(pool.iter().map(|s| format!("({}, {})", n_lit(it.id(&s.0)), s.1)).collect::<Vec<_>>())
}
pub fn gen_vals(r: &mut Rng, pool: &[(String, usize)]) -> String {
    coq_list(pool.iter().map(|s| {
        let v = match r.below(6) { 0 => 0u64, 1 => 1, 2 => 2, 3 => 3, 4 => u64::MAX, _ => r.next() };
        let v = if s.1 >= 64 { v } else { v & ((1u64 << s.1) - 1) };
        format!("{}", v)
    }).collect::<Vec<_>>())
}

/// result map in the compact encoding of Flow/C12Check.v: masks over Function::locations, -1 = absent.
/// A key or element that is not a location of the function makes the encoding impossible: `None`.
pub fn coq_locmap(f: &Function, m: &HashMap<il::ProgramLocation, LocationSet>) -> String {
    let locs: Vec<il::FunctionLocation> = f.locations().into_iter().map(|l| l.into()).collect();
    let idx = |l: &il::FunctionLocation| locs.iter().position(|x| x == l);
    let mut out: Vec<String> = vec![];
    let mut seen = 0;
    for l in &locs {
        let key = m.iter().find(|(k, _)| k.function_location() == l);
        match key {
            None => out.push("-1".into()),
            Some((_, s)) => {
                seen += 1;
                let mut mask = num_bigint::BigUint::from(0u32);
                for d in s.locations() {
                    match idx(d.function_location()) {
                        Some(j) => mask |= num_bigint::BigUint::from(1u32) << j,
                        None => mask |= num_bigint::BigUint::from(1u32) << (locs.len() + 1), // rejected by decode
                    }
                }
                out.push(format!("{}", mask));
            }
        }
    }
    if seen != m.len() { out.push("0".into()); } // a key outside the function: length mismatch, rejected by decode
    coq_list(out)
}

pub fn describe(f: &Function) -> String {
    let mut s = String::new();
    for b in f.blocks() {
        s.push_str(&format!("B{}[", b.index()));
        s.push_str(&b.instructions().iter().map(|i| format!("{}", i.operation())).collect::<Vec<_>>().join("; "));
        s.push_str("] ");
    }
    for e in f.edges() {
        match e.condition() {
            Some(c) => s.push_str(&format!("{}->{} if {}; ", e.head(), e.tail(), c)),
            None => s.push_str(&format!("{}->{}; ", e.head(), e.tail())),
        }
    }
    s.push_str(&format!("entry={:?}", f.control_flow_graph().entry()));
    s
}
