//! C07 harness: random IL programs run through executor::Driver::step, complete per-step observation
//! (new location, every scalar that changed, every byte of the observed window that changed), how the
//! run ended.  The Coq side (Exec/C07Check.v) replays the model (tie) and checks every transition
//! against Exec/Sem.v (oracle).
use falcon::architecture::{Endian, Mips};
use falcon::executor::{Driver, Memory, State};
use falcon::il::{self, Constant, Expression, Function, Operation, ProgramLocation, RefProgramLocation};
use falcon::RC;
use fvh::ilgen::*;
use fvh::*;
use std::collections::BTreeMap;

const MAX_STEPS: usize = 200;
const ARENA_LO: u64 = 0x0FF8;
const ARENA_HI: u64 = 0x1040;

fn pool() -> Vec<(String, usize)> {
    vec![("a".into(), 32), ("b".into(), 32), ("c".into(), 32), ("x".into(), 8), ("f".into(), 1), ("q".into(), 64), ("h".into(), 16)]
}

#[derive(Clone, Copy, PartialEq, Debug)]
enum Class {
    Valid,
    Undef,        // undefined scalars (in operations and in guards)
    Unmapped,     // loads of bytes nobody stored
    Div,          // zero divisors
    Intrinsic,
    MissingGuard, // a fan whose guards are not exhaustive
    Overlap,      // several guards hold (tie only)
    Unguarded,    // an unguarded edge among several (tie only)
    SingleFalse,  // one successor with a false guard: taken without a look (tie only)
    StoreTop,     // stores ending at / reaching beyond 2^64, loads over the top (oracle silent only when the range wraps)
    AddrBits,     // index wider than 64 bits with a value >= 2^64
    IllTyped,     // a scalar holding a constant of another width (tie only)
    BitWidth,     // load / store of a width that is not a multiple of 8
    Relift,       // indirect branch outside the program (tie only)
    BothFail,     // store whose src divides by zero AND whose index reads an undefined scalar (order of evaluation)
    GuardErrFirst, // first guard of a fan reads an undefined scalar, a later guard holds
}

/// pool + the scalar `u`, which no generated operation assigns and no initial state defines
fn names_all() -> Vec<(String, usize)> {
    let mut v = pool();
    v.push(("u".into(), 32));
    v
}

fn rand_const(r: &mut Rng, bits: usize) -> Constant {
    match r.below(6) {
        0 => il::const_(0, bits),
        1 => il::const_(1, bits),
        2 => il::const_(u64::MAX, bits),
        3 => il::const_(r.below(8), bits),
        _ => Constant::new_big(r.big(bits), bits),
    }
}

/// all instruction addresses of the program
fn all_addresses(fs: &[Function]) -> Vec<u64> {
    let mut v = vec![];
    for f in fs {
        for b in f.blocks() {
            for i in b.instructions() {
                if let Some(a) = i.address() {
                    v.push(a);
                }
            }
        }
    }
    v
}

/// replace the operation of a random instruction chosen by `pick_last` (last of a block) or anywhere
fn mutate_op(r: &mut Rng, f: &mut Function, last_only: bool, op: Operation) -> bool {
    let mut slots: Vec<(usize, usize)> = vec![];
    for b in f.blocks() {
        let n = b.instructions().len();
        for (k, i) in b.instructions().iter().enumerate() {
            if !last_only || k + 1 == n {
                slots.push((b.index(), i.index()));
            }
        }
    }
    if slots.is_empty() {
        return false;
    }
    let (bi, ii) = *r.pick(&slots);
    let b = f.block_mut(bi).unwrap();
    *b.instruction_mut(ii).unwrap().operation_mut() = op;
    true
}

/// blocks with exactly / at least `n` out-edges
fn fans(f: &Function, min: usize, max: usize) -> Vec<usize> {
    f.blocks()
        .iter()
        .map(|b| b.index())
        .filter(|i| {
            let n = f.control_flow_graph().edges_out(*i).map(|e| e.len()).unwrap_or(0);
            n >= min && n <= max
        })
        .collect()
}

struct Built {
    program: il::Program,
    tags: Vec<String>,
    addr_bits: usize,
}

fn build_program(r: &mut Rng, class: Class) -> Built {
    let mut o = GenOpts::default();
    o.scalars = pool();
    o.addr_bits = if class == Class::StoreTop || r.chance(1, 4) { 64 } else { 32 };
    o.max_blocks = 6;
    o.max_instrs = 4;
    o.div = class == Class::Div || r.chance(1, 10);
    o.intrinsics = class == Class::Intrinsic;
    o.branches = false;
    o.gaps = true; // removed instructions: instruction index != position (caught two seeded regressions)
    o.expr_depth = 1 + r.below(3) as u32;
    let mut tags = vec![format!("addr_bits:{}", o.addr_bits)];
    let nf = if r.chance(1, 3) { 2 } else { 1 };
    let mut fs: Vec<Function> = (0..nf).map(|k| gen_function(r, &o, 0x400000 + 0x1000 * k as u64)).collect();

    // indirect branches: only to addresses of existing instructions
    let addrs = all_addresses(&fs);
    if !addrs.is_empty() && (class == Class::Valid || class == Class::Undef) && r.chance(2, 5) {
        let n = 1 + r.below(2);
        for _ in 0..n {
            let k = r.below(fs.len() as u64) as usize;
            let a1 = il::expr_const(*r.pick(&addrs), o.addr_bits);
            let a2 = il::expr_const(*r.pick(&addrs), o.addr_bits);
            let target = match r.below(3) {
                0 => a1,
                1 => Expression::ite(il::expr_scalar("f", 1), a1, a2).unwrap(),
                _ => Expression::add(Expression::sub(a1.clone(), a2.clone()).unwrap(), a2).unwrap(),
            };
            let last = r.chance(3, 4);
            if mutate_op(r, &mut fs[k], last, Operation::branch(target)) {
                tags.push("has:branch".into());
            }
        }
    }

    let f0 = &mut fs[0];
    match class {
        Class::MissingGuard | Class::Overlap => {
            let cands = fans(f0, 2, 9);
            if let Some(h) = cands.first().copied() {
                let tails: Vec<usize> = f0.control_flow_graph().edges_out(h).unwrap().iter().map(|e| e.tail()).collect();
                let t = *r.pick(&tails);
                let v = if class == Class::Overlap { 1 } else { 0 };
                let e = f0.control_flow_graph_mut().edge_mut(h, t).unwrap();
                if let Some(c) = e.condition_mut() {
                    *c = il::expr_const(v, 1);
                }
            }
        }
        Class::Unguarded => {
            let cands = fans(f0, 2, 9);
            if let Some(h) = cands.first().copied() {
                let tails: Vec<usize> = f0.control_flow_graph().edges_out(h).unwrap().iter().map(|e| e.tail()).collect();
                let all: Vec<usize> = f0.blocks().iter().map(|b| b.index()).filter(|t| !tails.contains(t)).collect();
                if !all.is_empty() {
                    let t = *r.pick(&all);
                    let _ = f0.control_flow_graph_mut().unconditional_edge(h, t);
                }
            }
        }
        Class::SingleFalse => {
            // a block without successors gets ONE guarded edge whose guard is false (or reads f)
            let cands = fans(f0, 0, 0);
            if let Some(h) = cands.first().copied() {
                let t = r.below(f0.blocks().len() as u64) as usize;
                let c = if r.chance(1, 2) { il::expr_const(0, 1) } else { il::expr_scalar("f", 1) };
                let _ = f0.control_flow_graph_mut().conditional_edge(h, t, c);
            }
        }
        Class::StoreTop => {
            let w = *r.pick(&[16usize, 32, 64]);
            let back = r.range(1, (w / 8) as u64 + 1); // a + bytes in [2^64 - 1 .. 2^64 + ..]
            let a = u64::MAX - back + 1;
            let v = r.next();
            mutate_op(r, f0, false, Operation::store(il::expr_const(a, 64), il::expr_const(v, w)));
            if r.chance(1, 2) {
                // a load over the same top bytes: exact range, shorter, or wrapping
                let d = *r.pick(&[("a", 32usize), ("x", 8), ("q", 64), ("h", 16)]);
                let la = u64::MAX - r.range(0, 8);
                mutate_op(r, f0, false, Operation::load(il::scalar(d.0, d.1), il::expr_const(la, 64)));
            }
        }
        Class::AddrBits => {
            let idx = Expression::shl(
                Expression::zext(128, il::expr_scalar("q", 64)).unwrap(),
                Expression::constant(Constant::new(if r.chance(1, 3) { 0 } else { 64 }, 128)),
            )
            .unwrap();
            let op = if r.chance(1, 2) { Operation::load(il::scalar("a", 32), idx) } else { Operation::store(idx, il::expr_scalar("a", 32)) };
            mutate_op(r, f0, false, op);
        }
        Class::BitWidth => {
            let a = il::expr_const(0x1004, o.addr_bits);
            let op = match r.below(3) {
                0 => Operation::load(il::scalar("f", 1), a),
                1 => Operation::store(a, il::expr_scalar("f", 1)),
                _ => Operation::store(a, Expression::trun(12, il::expr_scalar("h", 16)).unwrap()),
            };
            mutate_op(r, f0, false, op);
        }
        Class::Relift => {
            let t = 0x7000_0000 + 4 * r.below(4);
            mutate_op(r, f0, false, Operation::branch(il::expr_const(t, o.addr_bits)));
        }
        Class::BothFail => {
            let src = Expression::divu(il::expr_scalar("a", 32), il::expr_const(0, 32)).unwrap();
            let idx = match o.addr_bits {
                32 => Expression::add(il::expr_const(0x1000, 32), Expression::and(il::expr_scalar("u", 32), il::expr_const(7, 32)).unwrap()).unwrap(),
                _ => Expression::add(il::expr_const(0x1000, 64), Expression::zext(64, il::expr_scalar("u", 32)).unwrap()).unwrap(),
            };
            mutate_op(r, f0, false, Operation::store(idx, src));
        }
        Class::GuardErrFirst => {
            let cands = fans(f0, 2, 2);
            if let Some(h) = cands.first().copied() {
                let tails: Vec<usize> = f0.control_flow_graph().edges_out(h).unwrap().iter().map(|e| e.tail()).collect();
                let bad = Expression::cmpeq(il::expr_scalar("u", 32), il::expr_const(r.below(3), 32)).unwrap();
                if let Some(c) = f0.control_flow_graph_mut().edge_mut(h, tails[0]).unwrap().condition_mut() {
                    *c = bad;
                }
                if let Some(c) = f0.control_flow_graph_mut().edge_mut(h, tails[1]).unwrap().condition_mut() {
                    *c = il::expr_const(1, 1);
                }
            }
        }
        Class::Unmapped => {
            let a = il::expr_const(0x3000 + r.below(4), o.addr_bits);
            let d = *r.pick(&[("a", 32usize), ("x", 8), ("q", 64), ("h", 16)]);
            mutate_op(r, f0, false, Operation::load(il::scalar(d.0, d.1), a));
        }
        _ => {}
    }
    // minimisation protocol (`--keep p0,p1,..`): elements = the instructions of all functions of the program, in order;
    // dropped ones become `nop` (indices, edges, addresses unchanged; initial state and step budget stay)
    let mut base = 0;
    for f in fs.iter_mut() { base += nop_dropped(f, base); }
    Built { program: program_of(fs), tags, addr_bits: o.addr_bits }
}

fn initial_state(r: &mut Rng, class: Class, names: &[(String, usize)]) -> (State, bool) {
    let big = r.chance(1, 2);
    let mut mem = Memory::new(if big { Endian::Big } else { Endian::Little });
    // initial memory: stores through the public API
    let fill = match class {
        Class::Unmapped => r.below(3) == 0,
        _ => r.chance(5, 6),
    };
    if fill {
        let mut a = 0x1000u64;
        while a < 0x1030 {
            let w = *r.pick(&[8usize, 16, 32, 64]);
            let _ = mem.store(a, Constant::new_big(r.big(w), w));
            a += (w / 8) as u64;
        }
    }
    for _ in 0..r.below(4) {
        let w = *r.pick(&[8usize, 16, 32, 64]);
        let _ = mem.store(0x1000 + r.below(0x28), Constant::new_big(r.big(w), w));
    }
    let mut st = State::new(mem);
    for (n, w) in names {
        if n == "u" {
            continue;
        }
        let skip = match class {
            Class::Undef => r.chance(1, 3),
            _ => r.chance(1, 80),
        };
        if skip {
            continue;
        }
        let w2 = if class == Class::IllTyped && r.chance(1, 3) { *r.pick(&[1usize, 8, 16, 32, 64]) } else { *w };
        st.set_scalar(n.clone(), rand_const(r, w2));
    }
    (st, big)
}

fn dump_scalars(st: &State, names: &[(String, usize)]) -> Vec<Option<Constant>> {
    names.iter().map(|(n, _)| st.get_scalar(n).cloned()).collect()
}
fn dump_bytes(st: &State, windows: &[(u64, u64)]) -> BTreeMap<u64, u8> {
    let mut m = BTreeMap::new();
    for (lo, hi) in windows {
        let mut a = *lo;
        loop {
            if a > *hi {
                break;
            }
            if let Ok(Some(c)) = st.memory().load(a, 8) {
                m.insert(a, c.value_u64().unwrap_or(0) as u8);
            }
            if a == u64::MAX {
                break;
            }
            a += 1;
        }
    }
    m
}

/// the window around the address a store at the current location is about to write
fn store_window(d: &Driver) -> Option<(u64, u64)> {
    let loc = d.location().apply(d.program()).ok()?;
    let ins = loc.instruction()?;
    if let Operation::Store { index, .. } = ins.operation() {
        let a = observe_plain(|| d.state().symbolize_and_eval(index).ok().and_then(|c| c.value_u64()))??;
        return Some((a.saturating_sub(8), a.saturating_add(24)));
    }
    None
}

fn op_tag(d: &Driver) -> Option<String> {
    let loc = d.location().apply(d.program()).ok()?;
    let ins = loc.instruction()?;
    Some(match ins.operation() {
        Operation::Store { src, .. } => format!("exec:store{}", src.bits()),
        Operation::Load { dst, .. } => format!("exec:load{}", dst.bits()),
        Operation::Branch { .. } => "exec:branch".into(),
        Operation::Intrinsic { .. } => "exec:intrinsic".into(),
        Operation::Assign { .. } => "exec:assign".into(),
        Operation::Nop { .. } => "exec:nop".into(),
    })
}
fn fan_tag(d: &Driver) -> Option<String> {
    let loc = d.location().apply(d.program()).ok()?;
    let n = loc.forward().ok()?.len();
    if n >= 2 { Some(format!("fan:{}", n)) } else { None }
}

fn gen_case(seed: u64, index: u64) -> Case {
    let mut r = Rng::for_case(seed, index);
    let class = match r.below(100) {
        0..=60 => Class::Valid,
        61 => Class::GuardErrFirst,
        62..=66 => Class::Undef,
        67..=70 => Class::Unmapped,
        71..=74 => Class::Div,
        75..=77 => Class::Intrinsic,
        78..=80 => Class::MissingGuard,
        81..=83 => Class::Overlap,
        84..=85 => Class::Unguarded,
        86..=87 => Class::SingleFalse,
        88..=89 => Class::StoreTop,
        90..=91 => Class::AddrBits,
        92..=93 => Class::IllTyped,
        94..=95 => Class::BitWidth,
        96..=97 => Class::BothFail,
        98 => Class::GuardErrFirst,
        _ => Class::Relift,
    };
    let built = build_program(&mut r, class);
    let names = names_all();
    let (state, big) = initial_state(&mut r, class, &names);
    let program = built.program;
    let mut tags = built.tags;
    tags.push(format!("class:{:?}", class));
    tags.push(format!("endian:{}", if big { "big" } else { "little" }));

    let mut it = Interner::new();
    // types table first: fixes the interning of the pool names
    let types = coq_list(names.iter().map(|(n, w)| format!("({}, {})", n_lit(it.id(n)), w)).collect::<Vec<_>>());
    let prog_coq = coq_program(&program, &mut it);

    let f0 = program.function(0).unwrap();
    let start: ProgramLocation = RefProgramLocation::from_function(f0).unwrap().unwrap().into();
    let start_coq = coq_ploc(&start);

    let scal0 = dump_scalars(&state, &names);
    let scal0_coq = coq_list(
        names.iter().zip(scal0.iter()).filter_map(|((n, _), v)| v.as_ref().map(|c| format!("({}, {})", n_lit(it.id(n)), coq_const(c)))).collect::<Vec<_>>(),
    );
    let bytes0 = dump_bytes(&state, &[(ARENA_LO, ARENA_HI)]);
    let bytes0_coq = coq_list(bytes0.iter().map(|(a, b)| format!("({}, {})", a, b)).collect::<Vec<_>>());

    let mut driver = Driver::new(RC::new(program.clone()), start, state, RC::new(Mips::new()));
    let mut steps: Vec<String> = vec![];
    let mut fin = "FSteps".to_string();
    let mut end_kind = "steps".to_string();
    let mut exec_tags: std::collections::BTreeSet<String> = Default::default();
    // long runs are expensive to type-check as Gallina literals: one case in four gets the full budget
    let max_steps = if r.chance(1, 4) { MAX_STEPS } else { 48 };
    for _ in 0..max_steps {
        let mut windows = vec![(ARENA_LO, ARENA_HI)];
        if let Some(w) = store_window(&driver) {
            windows.push(w);
        }
        let pre_s = dump_scalars(driver.state(), &names);
        let pre_b = dump_bytes(driver.state(), &windows);
        if let Some(t) = op_tag(&driver) { exec_tags.insert(t); }
        if let Some(t) = fan_tag(&driver) { exec_tags.insert(t); }
        let pre = driver.clone();
        match observe(move || pre.step()) {
            Obs::Ok(next) => {
                let post_s = dump_scalars(next.state(), &names);
                let post_b = dump_bytes(next.state(), &windows);
                let ds: Vec<String> = names
                    .iter()
                    .zip(pre_s.iter().zip(post_s.iter()))
                    .filter(|(_, (a, b))| a != b)
                    .map(|((n, _), (_, b))| match b {
                        Some(c) => format!("({}, {})", n_lit(it.id(n)), coq_const(c)),
                        None => format!("({}, (mkc (-1) (-1)))", n_lit(it.id(n))), // a scalar vanished: never equal to a model value
                    })
                    .collect();
                let mut db: Vec<String> = vec![];
                for (a, b) in post_b.iter() {
                    if pre_b.get(a) != Some(b) {
                        db.push(format!("({}, {})", a, b));
                    }
                }
                for (a, _) in pre_b.iter() {
                    if !post_b.contains_key(a) {
                        db.push(format!("({}, (-1))", a)); // a byte vanished
                    }
                }
                steps.push(format!("(mkos {} {} {})", coq_ploc(next.location()), coq_list(ds), coq_list(db)));
                driver = next;
            }
            Obs::Err(k) => {
                fin = format!("(FErr {})", k);
                end_kind = k.to_string();
                break;
            }
            Obs::Panic => {
                fin = "FPanic".to_string();
                end_kind = "panic".to_string();
                break;
            }
        }
    }
    tags.push(format!("end:{}", end_kind));
    tags.push(format!("steps:{}", match steps.len() { 0 => "0", 1..=4 => "1-4", 5..=19 => "5-19", 20..=47 => "20-47", 48 => "48", 49..=199 => "49-199", _ => "200" }));
    for t in exec_tags.iter() { tags.push(t.clone()); }
    let nblocks: usize = program.functions().iter().map(|f| f.blocks().len()).sum();
    tags.push(format!("blocks:{}", nblocks));
    let interesting_end = ["EExecScalar", "EInvalidAddress", "EDivZero", "EIntrinsic", "ENoLocation"].contains(&end_kind.as_str());
    let nontrivial = (steps.len() >= 3 && exec_tags.iter().any(|t| t.starts_with("exec:store") || t.starts_with("exec:load") || t.starts_with("fan:") || t == "exec:branch")) || (interesting_end && steps.len() >= 1);
    let coq = format!(
        "(KRun {} {} {} {} {} {} {} {})",
        prog_coq, types, start_coq, scal0_coq, coq_bool(big), bytes0_coq, coq_list(steps.clone()), fin
    );
    let mut listing = String::new();
    for f in program.functions() {
        listing.push_str(&format!("{}", f.control_flow_graph()).replace('\n', " | "));
    }
    listing.truncate(700);
    let nelems: usize = program.functions().iter().map(|f| instr_count(f)).sum();
    let descr = format!(
        "{}case {} class={:?} addr_bits={} endian={} functions={} blocks={} steps={} end={} :: {}",
        keep_prefix("instructions", nelems), index, class, built.addr_bits, if big { "big" } else { "little" }, program.functions().len(), nblocks, steps.len(), end_kind, listing
    );
    let key = format!("{:x}", {
        // cheap stable hash of the case text
        let mut h: u64 = 0xcbf29ce484222325;
        for b in coq.bytes() { h ^= b as u64; h = h.wrapping_mul(0x100000001b3); }
        h
    });
    Case { coq, descr, tags, nontrivial, key }.with_elements(nelems)
}

fn main() {
    quiet_panics();
    let args = parse_args();
    let idxs: Vec<u64> = match args.only { Some(i) => vec![i], None => (0..args.n).collect() };
    let cases: Vec<Case> = idxs.iter().map(|i| gen_case(args.seed, *i)).collect();
    write_cases(
        &args,
        "C07",
        "From Coq Require Import ZArith List NArith.\nFrom Falcon Require Import Base.Res IL.Const IL.Expr IL.Func IL.Loc Exec.Sem Exec.C07Check.\nImport ListNotations.\nLocal Open Scope Z_scope.",
        "ck",
        &cases,
        16,
        serde_json::json!({"max_steps": MAX_STEPS}),
    );
}
