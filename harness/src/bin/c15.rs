//! C15 harness: random histories of ControlFlowGraph / Block editing operations over 1-3 graphs.
//! After every operation: the operation's result and the full structure of the graph it touched.
use falcon::il::{self, Block, ControlFlowGraph, Expression, Operation};
use falcon::translator::BlockTranslationResult;
use fvh::ilgen::*;
use fvh::*;

fn xs() -> il::Scalar {
    il::scalar("x", 16)
}
fn guard(k: u64) -> Expression {
    Expression::cmpeq(Expression::scalar(xs()), il::expr_const(k, 16)).unwrap()
}
/// compact printers matching `ia` / `gd` / `opk` of Cfg/C15Check.v
fn coq_op(o: &Operation, it: &mut Interner) -> String {
    if let Operation::Assign { dst, src } = o {
        if dst.name() == "x" && dst.bits() == 16 && dst.ssa().is_none() {
            if let Expression::Constant(c) = src {
                if c.bits() == 16 {
                    return format!("(opk {})", c.value_u64().unwrap());
                }
            }
        }
    }
    coq_operation(o, it)
}
fn coq_instr(i: &il::Instruction, it: &mut Interner) -> String {
    let o = coq_op(i.operation(), it);
    if let Some(k) = o.strip_prefix("(opk ").and_then(|s| s.strip_suffix(")")) {
        format!("(ia {} {} {})", i.index(), k, coq_optz(i.address()))
    } else {
        format!("(mkinstr {} {} {})", i.index(), o, coq_optz(i.address()))
    }
}
fn coq_guard(e: &Expression, it: &mut Interner) -> String {
    if let Expression::Cmpeq(l, r) = e {
        if let (Expression::Scalar(s), Expression::Constant(c)) = (&**l, &**r) {
            if s.name() == "x" && s.bits() == 16 && s.ssa().is_none() && c.bits() == 16 {
                return format!("(gd {})", c.value_u64().unwrap());
            }
        }
    }
    coq_expr(e, it)
}
/// Block::next_instruction_index is private; Block is Serialize
fn next_instruction_index(b: &Block) -> u64 {
    serde_json::to_value(b).ok().and_then(|v| v.get("next_instruction_index").and_then(|x| x.as_u64())).expect("Block serialises with next_instruction_index")
}
/// ControlFlowGraph::next_index is private: the index a new block would get on a clone
fn next_index(g: &ControlFlowGraph) -> u64 {
    let mut c = g.clone();
    // a failing new_block on the clone (impossible on a consistent graph) is reported as 0, which the
    // invariant (block index < next_index) then rejects
    observe_plain(|| c.new_block().map(|b| b.index() as u64).unwrap_or(0)).unwrap_or(0)
}
fn obs_lz(o: &Obs<Vec<usize>>) -> String {
    o.coq(|v| coq_list(v.iter().map(|x| format!("{}", x)).collect::<Vec<_>>()))
}
fn dump(g: &ControlFlowGraph, it: &mut Interner) -> String {
    let blocks: Vec<String> = g
        .blocks()
        .iter()
        .map(|b| {
            format!(
                "(mkblock {} {} {} [])",
                b.index(),
                next_instruction_index(b),
                coq_list(b.instructions().iter().map(|i| coq_instr(i, it)).collect::<Vec<_>>())
            )
        })
        .collect();
    let edges: Vec<String> = g
        .edges()
        .iter()
        .map(|e| format!("(mkedge {} {} {})", e.head(), e.tail(), coq_opt(e.condition().map(|c| coq_guard(c, it)))))
        .collect();
    let adj: Vec<String> = g
        .blocks()
        .iter()
        .map(|b| {
            let i = b.index();
            format!("({}, {}, {})", i, obs_lz(&observe(|| g.successor_indices(i))), obs_lz(&observe(|| g.predecessor_indices(i))))
        })
        .collect();
    format!(
        "(mkobs (mkcfg {} {} {} {} {}) {})",
        coq_list(blocks),
        coq_list(edges),
        next_index(g),
        coq_optz(g.entry().map(|v| v as u64)),
        coq_optz(g.exit().map(|v| v as u64)),
        coq_list(adj)
    )
}

fn some_index(r: &mut Rng, g: &ControlFlowGraph) -> usize {
    let idx: Vec<usize> = g.blocks().iter().map(|b| b.index()).collect();
    if idx.is_empty() || r.chance(1, 12) {
        r.below(next_index(g) + 2) as usize // possibly a removed or never-created index
    } else {
        *r.pick(&idx)
    }
}

fn gen_case(seed: u64, idx: u64) -> Case {
    let mut rng = Rng::for_case(seed, idx);
    let r = &mut rng;
    let ng = r.range(1, 3) as usize;
    let nops = r.range(1, 50);
    let mut gs: Vec<ControlFlowGraph> = (0..ng).map(|_| ControlFlowGraph::new()).collect();
    let mut it = Interner::new();
    let mut steps = vec![];
    let mut tags: Vec<String> = vec![];
    let mut descr = vec![];
    let mut counter = 0u64; // distinct operation payloads
    let mut last_dump: Vec<String> = (0..ng).map(|_| String::new()).collect();
    let (mut merges_eff, mut appends_ok, mut fails) = (0, 0, 0);
    // bias: a building phase profile per case
    let selfloops = r.chance(1, 2);
    // 2/3 of the cases start with a well-formed construction prelude per graph (blocks, pushes, a chain
    // or a diamond of edges, entry, exit) so that merges are effective and appends succeed
    let mut prelude: Vec<(usize, u64, usize, usize)> = vec![]; // (graph, pick, a, b)
    if r.chance(2, 3) {
        for t in 0..ng {
            let nb = r.range(1, 4) as usize;
            for _ in 0..nb { prelude.push((t, 0, 0, 0)); }
            for b in 0..nb { for _ in 0..r.below(3) { prelude.push((t, 50, b, 0)); } }
            for b in 0..nb.saturating_sub(1) {
                if r.chance(3, 4) { prelude.push((t, 20, b, b + 1)); }
            }
            if nb > 2 && r.chance(1, 2) { prelude.push((t, 27, 0, nb - 1)); }
            prelude.push((t, 35, 0, 0));
            prelude.push((t, 45, nb - 1, 0));
        }
        prelude.reverse();
    }
    let nops = nops + prelude.len() as u64;
    let mut recs: Vec<(usize, Rec)> = vec![]; // the concrete operations, for the minimisation protocol (replay_kept)
    for _ in 0..nops {
        let scripted = prelude.pop();
        let t = match scripted { Some(p) => p.0, None => r.below(ng as u64) as usize };
        let before_blocks = gs[t].blocks().len();
        let pick = match scripted { Some(p) => p.1, None => r.below(100) };
        let fixed_idx = scripted.map(|p| (p.2, p.3));
        // bound graph growth: repeated self-appends double the graph (800+ blocks, 1 MB case terms and a
        // language check beyond the oracle's search budget); past MAX_BLOCKS a growing operation becomes a merge
        const MAX_BLOCKS: usize = 48;
        let biggest = gs.iter().map(|g| g.blocks().len()).max().unwrap_or(0);
        let grows_too_much = (pick >= 85 && pick < 98 && gs[t].blocks().len() + biggest > MAX_BLOCKS)
            || (pick >= 98 && 3 * biggest + 1 > MAX_BLOCKS);
        let pick = if grows_too_much { tags.push("cap:growth->merge".into()); 80 } else { pick };
        let (opc, opd, res): (String, String, Obs<Vec<usize>>);
        if pick < 16 {
            let o = observe(|| gs[t].new_block().map(|b| vec![b.index()]));
            opc = "CNewBlock".into();
            opd = "new_block".into();
            res = o;
            recs.push((t, Rec::NewBlock));
        } else if pick < 34 {
            let (mut h, mut tl) = (some_index(r, &gs[t]), some_index(r, &gs[t]));
            if selfloops && r.chance(1, 5) {
                tl = h;
            }
            if let Some((a, b)) = fixed_idx { h = a; tl = b; }
            if (fixed_idx.is_some() && pick == 20) || (fixed_idx.is_none() && r.chance(3, 5)) {
                res = observe(|| gs[t].unconditional_edge(h, tl).map(|_| vec![]));
                recs.push((t, Rec::Uncond(h, tl)));
                opc = format!("CUncond {} {}", h, tl);
                opd = format!("unconditional_edge({},{})", h, tl);
            } else {
                let k = r.below(3);
                res = observe(|| gs[t].conditional_edge(h, tl, guard(k)).map(|_| vec![]));
                recs.push((t, Rec::Cond(h, tl, k)));
                opc = format!("CCond {} {} (gd {})", h, tl, k);
                opd = format!("conditional_edge({},{},x=={})", h, tl, k);
            }
        } else if pick < 41 {
            let i = match fixed_idx { Some((a, _)) => a, None => some_index(r, &gs[t]) };
            res = observe(|| gs[t].set_entry(i).map(|_| vec![]));
            recs.push((t, Rec::SetEntry(i)));
            opc = format!("CSetEntry {}", i);
            opd = format!("set_entry({})", i);
        } else if pick < 48 {
            let i = match fixed_idx { Some((a, _)) => a, None => some_index(r, &gs[t]) };
            res = observe(|| gs[t].set_exit(i).map(|_| vec![]));
            recs.push((t, Rec::SetExit(i)));
            opc = format!("CSetExit {}", i);
            opd = format!("set_exit({})", i);
        } else if pick < 66 {
            let b = match fixed_idx { Some((a, _)) => a, None => some_index(r, &gs[t]) };
            counter += 1;
            let k = counter;
            let nop = r.chance(1, 6);
            res = observe(|| {
                let blk = gs[t].block_mut(b)?;
                if nop {
                    blk.nop()
                } else {
                    blk.assign(xs(), il::expr_const(k, 16))
                }
                Ok(vec![])
            });
            recs.push((t, Rec::Push(b, if nop { None } else { Some(k) })));
            opc = format!("CPush {} {}", b, if nop { "(ONop None)".to_string() } else { format!("(opk {})", k) });
            opd = format!("block_mut({}).{}", b, if nop { "nop()".to_string() } else { format!("assign(x,{})", k) });
        } else if pick < 72 {
            let b = some_index(r, &gs[t]);
            let ii = match gs[t].block(b) {
                Ok(blk) if !blk.instructions().is_empty() && r.chance(5, 6) => r.pick(blk.instructions()).index(),
                _ => r.below(4) as usize,
            };
            res = observe(|| gs[t].block_mut(b)?.remove_instruction(ii).map(|_| vec![]));
            recs.push((t, Rec::RemoveInstr(b, ii)));
            opc = format!("CRemoveInstr {} {}", b, ii);
            opd = format!("block_mut({}).remove_instruction({})", b, ii);
        } else if pick < 75 {
            let a = if r.chance(1, 4) { None } else { Some(0x1000 + r.below(64)) };
            gs[t].set_address(a);
            res = Obs::Ok(vec![]);
            recs.push((t, Rec::SetAddress(a)));
            opc = format!("CSetAddress {}", coq_optz(a));
            opd = format!("set_address({:?})", a);
        } else if pick < 85 {
            res = observe(|| gs[t].merge().map(|_| vec![]));
            recs.push((t, Rec::Merge));
            opc = "CMerge".into();
            opd = "merge()".into();
            if gs[t].blocks().len() < before_blocks {
                merges_eff += 1;
            }
        } else if pick < 93 {
            let s = r.below(ng as u64) as usize;
            let other = gs[s].clone();
            res = observe(|| gs[t].append(&other).map(|_| vec![]));
            recs.push((t, Rec::Append(s)));
            opc = format!("CAppend {}", s);
            opd = format!("append(g{})", s);
            if matches!(res, Obs::Ok(_)) {
                appends_ok += 1;
                if s != t {
                    tags.push("cross-graph-append".into());
                }
            }
        } else if pick < 98 {
            let s = r.below(ng as u64) as usize;
            let other = gs[s].clone();
            res = observe(|| gs[t].insert(&other).map(|(a, b)| vec![a, b]));
            recs.push((t, Rec::Insert(s)));
            opc = format!("CInsert {}", s);
            opd = format!("insert(g{})", s);
        } else {
            let n = r.range(0, 3);
            let srcs: Vec<usize> = (0..n).map(|_| r.below(ng as u64) as usize).collect();
            let instrs: Vec<(u64, ControlFlowGraph)> = srcs.iter().enumerate().map(|(k, s)| (0x2000 + k as u64, gs[*s].clone())).collect();
            let o = observe(|| BlockTranslationResult::new(instrs, 0x2000, 4, vec![]).blockify());
            res = match o {
                Obs::Ok(g) => {
                    gs[t] = g;
                    Obs::Ok(vec![])
                }
                Obs::Err(k) => Obs::Err(k),
                Obs::Panic => Obs::Panic,
            };
            recs.push((t, Rec::Blockify(srcs.clone())));
            opc = format!("CBlockify {}", coq_list(srcs.iter().map(|s| format!("{}%nat", s)).collect::<Vec<_>>()));
            opd = format!("blockify({:?})", srcs);
        }
        if !matches!(res, Obs::Ok(_)) {
            fails += 1;
        }
        let opname = opc.split(' ').next().unwrap().to_string();
        tags.push(format!("op:{}:{}", opname, res.kind()));
        descr.push(format!("g{}.{}={}", t, opd, res.kind()));
        let d = dump(&gs[t], &mut it);
        let after = if d == last_dump[t] { "None".to_string() } else { format!("(Some {})", d) };
        last_dump[t] = d;
        steps.push(format!("mkstep {} ({}) {} {}", t, opc, obs_lz(&res), after));
    }
    if keep().is_some() {
        return replay_kept(seed, idx, ng, recs);
    }
    tags.sort();
    tags.dedup();
    if merges_eff > 0 {
        tags.push("merge:effective".into());
    }
    tags.push(format!("ops:{}", (nops / 10) * 10));
    if appends_ok > 0 { tags.push("append:ok".into()); }
    let coq = format!("KHist {} {}", ng, coq_list(steps));
    let key = format!("{:x}", fxhash(&coq));
    Case {
        descr: format!("{} graph(s); {}; regenerate with --seed {} --only {}", ng, descr.join("; "), seed, idx),
        coq,
        tags,
        nontrivial: nops >= 5 && (merges_eff > 0 || appends_ok > 0) && fails < nops,
        key,
    }
    .with_elements(nops as usize)
}

/// minimisation protocol (`--keep p0,p1,..`).  Generation of a history looks at the graphs built so far (block
/// indices, instruction indices, the growth cap), so `gen_case` first runs the whole history exactly as usual and
/// records the concrete operations; the kept ones are then run again here, on fresh graphs, and observed the same
/// way.  `--keep all` must reproduce the case of the normal run.
#[derive(Clone)]
enum Rec {
    NewBlock,
    Uncond(usize, usize),
    Cond(usize, usize, u64),
    SetEntry(usize),
    SetExit(usize),
    Push(usize, Option<u64>),
    RemoveInstr(usize, usize),
    SetAddress(Option<u64>),
    Merge,
    Append(usize),
    Insert(usize),
    Blockify(Vec<usize>),
}
fn replay_kept(seed: u64, idx: u64, ng: usize, recs: Vec<(usize, Rec)>) -> Case {
    let nelems = recs.len();
    let mut gs: Vec<ControlFlowGraph> = (0..ng).map(|_| ControlFlowGraph::new()).collect();
    let mut it = Interner::new();
    let (mut steps, mut tags, mut descr): (Vec<String>, Vec<String>, Vec<String>) = (vec![], vec![], vec![]);
    let mut last_dump: Vec<String> = (0..ng).map(|_| String::new()).collect();
    let (mut merges_eff, mut appends_ok, mut fails, mut nrun) = (0, 0, 0u64, 0u64);
    for (t, rec) in recs.into_iter().enumerate().filter(|(i, _)| kept(*i)).map(|(_, x)| x) {
        nrun += 1;
        let before_blocks = gs[t].blocks().len();
        let (opc, opd, res): (String, String, Obs<Vec<usize>>);
        match rec {
            Rec::NewBlock => {
                res = observe(|| gs[t].new_block().map(|b| vec![b.index()]));
                opc = "CNewBlock".into();
                opd = "new_block".into();
            }
            Rec::Uncond(h, tl) => {
                res = observe(|| gs[t].unconditional_edge(h, tl).map(|_| vec![]));
                opc = format!("CUncond {} {}", h, tl);
                opd = format!("unconditional_edge({},{})", h, tl);
            }
            Rec::Cond(h, tl, k) => {
                res = observe(|| gs[t].conditional_edge(h, tl, guard(k)).map(|_| vec![]));
                opc = format!("CCond {} {} (gd {})", h, tl, k);
                opd = format!("conditional_edge({},{},x=={})", h, tl, k);
            }
            Rec::SetEntry(i) => {
                res = observe(|| gs[t].set_entry(i).map(|_| vec![]));
                opc = format!("CSetEntry {}", i);
                opd = format!("set_entry({})", i);
            }
            Rec::SetExit(i) => {
                res = observe(|| gs[t].set_exit(i).map(|_| vec![]));
                opc = format!("CSetExit {}", i);
                opd = format!("set_exit({})", i);
            }
            Rec::Push(b, k) => {
                res = observe(|| {
                    let blk = gs[t].block_mut(b)?;
                    match k {
                        None => blk.nop(),
                        Some(k) => blk.assign(xs(), il::expr_const(k, 16)),
                    }
                    Ok(vec![])
                });
                opc = format!("CPush {} {}", b, match k { None => "(ONop None)".to_string(), Some(k) => format!("(opk {})", k) });
                opd = format!("block_mut({}).{}", b, match k { None => "nop()".to_string(), Some(k) => format!("assign(x,{})", k) });
            }
            Rec::RemoveInstr(b, ii) => {
                res = observe(|| gs[t].block_mut(b)?.remove_instruction(ii).map(|_| vec![]));
                opc = format!("CRemoveInstr {} {}", b, ii);
                opd = format!("block_mut({}).remove_instruction({})", b, ii);
            }
            Rec::SetAddress(a) => {
                gs[t].set_address(a);
                res = Obs::Ok(vec![]);
                opc = format!("CSetAddress {}", coq_optz(a));
                opd = format!("set_address({:?})", a);
            }
            Rec::Merge => {
                res = observe(|| gs[t].merge().map(|_| vec![]));
                opc = "CMerge".into();
                opd = "merge()".into();
                if gs[t].blocks().len() < before_blocks {
                    merges_eff += 1;
                }
            }
            Rec::Append(s) => {
                let other = gs[s].clone();
                res = observe(|| gs[t].append(&other).map(|_| vec![]));
                opc = format!("CAppend {}", s);
                opd = format!("append(g{})", s);
                if matches!(res, Obs::Ok(_)) {
                    appends_ok += 1;
                    if s != t {
                        tags.push("cross-graph-append".into());
                    }
                }
            }
            Rec::Insert(s) => {
                let other = gs[s].clone();
                res = observe(|| gs[t].insert(&other).map(|(a, b)| vec![a, b]));
                opc = format!("CInsert {}", s);
                opd = format!("insert(g{})", s);
            }
            Rec::Blockify(srcs) => {
                let instrs: Vec<(u64, ControlFlowGraph)> = srcs.iter().enumerate().map(|(k, s)| (0x2000 + k as u64, gs[*s].clone())).collect();
                let o = observe(|| BlockTranslationResult::new(instrs, 0x2000, 4, vec![]).blockify());
                res = match o {
                    Obs::Ok(g) => {
                        gs[t] = g;
                        Obs::Ok(vec![])
                    }
                    Obs::Err(k) => Obs::Err(k),
                    Obs::Panic => Obs::Panic,
                };
                opc = format!("CBlockify {}", coq_list(srcs.iter().map(|s| format!("{}%nat", s)).collect::<Vec<_>>()));
                opd = format!("blockify({:?})", srcs);
            }
        }
        if !matches!(res, Obs::Ok(_)) {
            fails += 1;
        }
        let opname = opc.split(' ').next().unwrap().to_string();
        tags.push(format!("op:{}:{}", opname, res.kind()));
        descr.push(format!("g{}.{}={}", t, opd, res.kind()));
        let d = dump(&gs[t], &mut it);
        let after = if d == last_dump[t] { "None".to_string() } else { format!("(Some {})", d) };
        last_dump[t] = d;
        steps.push(format!("mkstep {} ({}) {} {}", t, opc, obs_lz(&res), after));
    }
    tags.sort();
    tags.dedup();
    if merges_eff > 0 {
        tags.push("merge:effective".into());
    }
    tags.push(format!("ops:{}", (nrun / 10) * 10));
    if appends_ok > 0 { tags.push("append:ok".into()); }
    let coq = format!("KHist {} {}", ng, coq_list(steps));
    let key = format!("{:x}", fxhash(&coq));
    Case {
        descr: format!("[operations kept: {} of {}] {} graph(s); {}; regenerate with --seed {} --only {} --keep {}", keep_arg().unwrap_or_default(), nelems, ng, descr.join("; "), seed, idx, keep_arg().unwrap_or_default()),
        coq,
        tags,
        nontrivial: nrun >= 5 && (merges_eff > 0 || appends_ok > 0) && fails < nrun,
        key,
    }
    .with_elements(nelems)
}

fn fxhash(s: &str) -> u64 {
    let mut h: u64 = 0xcbf29ce484222325;
    for b in s.bytes() {
        h ^= b as u64;
        h = h.wrapping_mul(0x100000001b3);
    }
    h
}

fn main() {
    quiet_panics();
    let args = parse_args();
    let idxs: Vec<u64> = match args.only {
        Some(i) => vec![i],
        None => (0..args.n).collect(),
    };
    let cases: Vec<Case> = idxs.iter().map(|i| gen_case(args.seed, *i)).collect();
    write_cases(
        &args,
        "C15",
        "From Coq Require Import ZArith List NArith.\nFrom Falcon Require Import Base.Res IL.Const IL.Expr IL.Func Cfg.CfgOps Cfg.C15Check.\nImport ListNotations.\nLocal Open Scope Z_scope.",
        "ck",
        &cases,
        16,
        serde_json::json!({}),
    );
}
