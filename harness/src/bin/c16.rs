//! C16 harness: histories of backing::Memory::set_memory / set32 (overlapping, nested, adjacent, empty
//! regions; a 256-byte arena at 0, at 0x100000 or just below 2^64), then sections() and sweeps of
//! get8 / permissions / get32 / get over the hull of the history.  Both endiannesses.
use falcon::architecture::Endian;
use falcon::memory::backing::Memory;
use falcon::memory::MemoryPermissions;
use fvh::*;

#[derive(Clone)]
enum Op {
    Write(u64, Vec<u8>, u32),
    Set32(u64, u32),
}

/// fixed-width tokens (see Mem/C16Check.v `tok`): hex value | U.. (None) | P.. (panic)
fn tok_u64(w: usize, o: Option<Option<u64>>) -> String {
    match o {
        Some(Some(v)) => format!("{:0w$x}", v, w = w),
        Some(None) => "U".repeat(w),
        None => "P".repeat(w),
    }
}
fn tok_const(bits: u64, o: Option<Option<falcon::il::Constant>>) -> String {
    let w = ((bits / 4) as usize).max(1);
    match o {
        Some(Some(c)) => {
            let h = c.value().to_str_radix(16);
            if c.bits() as u64 != bits || bits % 4 != 0 || bits == 0 || h.len() > w { "X".repeat(w) } else { format!("{}{}", "0".repeat(w - h.len()), h) }
        }
        Some(None) => "U".repeat(w),
        None => "P".repeat(w),
    }
}
fn hex(d: &[u8]) -> String { d.iter().map(|b| format!("{:02x}", b)).collect() }

/// how the region [a, a+n) lies relative to an earlier region [b, b+m)
fn shape(a: u128, n: u128, b: u128, m: u128) -> &'static str {
    let (ae, be) = (a + n, b + m);
    if n == 0 || m == 0 {
        if n == 0 && a > b && a < be { "empty-inside" } else if n == 0 && a == b { "empty-at-start" } else { "empty-other" }
    } else if ae < b || be < a { "disjoint" }
    else if ae == b || be == a { "adjacent" }
    else if a == b && ae == be { "equal" }
    else if a <= b && ae >= be { "covering" }
    else if a >= b && ae <= be { "inside" }
    else if a < b { "left-overlap" }
    else { "right-overlap" }
}

fn gen_case(seed: u64, idx: u64) -> Case {
    let mut r = Rng::for_case(seed, idx);
    let r = &mut r;
    let big = r.chance(1, 2);
    let arena_kind = r.below(10);
    let (base, arena): (u64, &str) = match arena_kind {
        0..=5 => (0, "low"),
        6..=7 => (0x10_0000, "mid"),
        _ => (0u64.wrapping_sub(256), "top"),
    };
    let focus = r.below(200);
    let nops = match r.below(10) { 0 => 1, 1..=3 => r.range(2, 4), 4..=7 => r.range(4, 8), _ => r.range(8, 12) } as usize;
    let mut ops: Vec<Op> = vec![];
    let mut regions: Vec<(u64, u64)> = vec![]; // (start, len) of earlier writes
    let mut tags: Vec<String> = vec![format!("arena:{}", arena), format!("endian:{}", if big { "big" } else { "little" })];
    let mut overlapping = false;
    for _ in 0..nops {
        let write = regions.is_empty() || r.chance(4, 5);
        if write {
            let n: u64 = match r.below(12) { 0 => 0, 1 => 1, 2 => 2, 3 => 4, 4 => 40, 5..=8 => r.range(1, 12), _ => r.range(0, 40) };
            let a: u64 = if !regions.is_empty() && r.chance(1, 2) {
                // aligned with an earlier region: same start, its end, ending at its start / end, nested
                let (b, m) = *r.pick(&regions);
                match r.below(6) {
                    0 => b,
                    1 => b.wrapping_add(m),
                    2 => b.wrapping_sub(n),
                    3 => b.wrapping_add(m).wrapping_sub(n),
                    4 => b.wrapping_add(r.below(m + 1)),
                    _ => b.wrapping_add(1),
                }
            } else {
                base.wrapping_add(focus).wrapping_add(r.below(56))
            };
            // keep the low arena away from negative addresses (u64 wrap to the top is a different arena)
            let a = if arena != "top" && a > base.wrapping_add(0x1000) { base } else { a };
            // top arena: an address that wrapped past 2^64 becomes a region ending at 2^64 - 0/+1/+2
            let a = if arena == "top" && a < 0x8000_0000_0000_0000 { 0u64.wrapping_sub(n.max(3)).wrapping_add(r.below(3)) } else { a };
            // top arena: a quarter of the writes end exactly at 2^64 (the last byte of the address space), or 1-2 beyond
            let a = if arena == "top" && n > 0 && r.chance(1, 4) { 0u64.wrapping_sub(n.max(3)).wrapping_add(*r.pick(&[0u64, 0, 0, 0, 1, 2])) } else { a };
            for (b, m) in &regions {
                let s = shape(a as u128, n as u128, *b as u128, *m as u128);
                if s != "disjoint" && s != "empty-other" { overlapping = true; }
                tags.push(format!("shape:{}", s));
            }
            let data: Vec<u8> = (0..n).map(|_| r.below(256) as u8).collect();
            let p = r.below(8) as u32;
            regions.push((a, n));
            ops.push(Op::Write(a, data, p));
        } else {
            let (b, m) = *r.pick(&regions);
            let a = match r.below(10) {
                0 => base.wrapping_add(focus).wrapping_add(r.below(64)),
                1 => b.wrapping_add(m).wrapping_sub(r.below(5)),
                _ => b.wrapping_add(r.below(m.max(1))),
            };
            ops.push(Op::Set32(a, match r.below(4) { 0 => 0xffff_ffff, 1 => 0x8000_0001, _ => r.next() as u32 }));
        }
    }
    tags.sort();
    tags.dedup();
    // minimisation protocol (`--keep p0,p1,..`): the history was generated exactly as usual; operations whose
    // position is not kept are dropped before the implementation runs (sweeps follow the hull of what is left)
    let nelems = ops.len();
    let ops: Vec<Op> = ops.into_iter().enumerate().filter(|(i, _)| kept(*i)).map(|(_, o)| o).collect();

    // ---- run the implementation
    let mut mem = Memory::new(if big { Endian::Big } else { Endian::Little });
    let mut ores = String::new();
    let mut done: Vec<Op> = vec![];
    let mut panicked = false;
    for op in &ops {
        done.push(op.clone());
        let res = match op {
            Op::Write(a, d, p) => {
                let (a, d, p) = (*a, d.clone(), MemoryPermissions::from_bits_truncate(*p));
                observe(|| { mem.set_memory(a, d, p); Ok(()) })
            }
            Op::Set32(a, v) => { let (a, v) = (*a, *v); observe(|| mem.set32(a, v)) }
        };
        match res {
            Obs::Ok(()) => ores.push('k'),
            Obs::Err(_) => ores.push('e'),
            Obs::Panic => { ores.push('p'); panicked = true; break; }
        }
    }
    let ops = done;
    let wraps = ops.iter().any(|o| matches!(o, Op::Write(a, d, _) if (*a as u128) + (d.len() as u128) > (1u128 << 64)));
    if wraps { tags.push("silent:region-wraps".into()); }
    if ops.iter().any(|o| matches!(o, Op::Write(a, d, _) if !d.is_empty() && (*a as u128) + (d.len() as u128) == (1u128 << 64))) { tags.push("has:region-ends-at-2^64".into()); }
    tags.push(format!("history:{}", if panicked { "panicked" } else { "completed" }));
    tags.push(format!("ops:{}", match ops.len() { 1 => "1", 2..=4 => "2-4", 5..=8 => "5-8", _ => "9+" }));
    if ops.iter().any(|o| matches!(o, Op::Set32(..))) { tags.push("has:set32".into()); }
    if ores.contains('e') { tags.push("set32:refused".into()); }
    if ops.iter().any(|o| matches!(o, Op::Write(_, d, _) if d.is_empty())) { tags.push("has:empty-write".into()); }

    // ---- sweeps
    let gbits: u64 = *r.pick(&[8u64, 16, 16, 16, 24, 32, 32, 40, 64, 128]);
    let (mut layout, mut lo, mut lo2) = ("None".to_string(), 0u64, 0u64);
    let (mut g8, mut pm, mut g32, mut gs) = (String::new(), String::new(), String::new(), String::new());
    let mut gx: Vec<String> = vec![];
    let mut nsec = 0;
    let mut read_panic = false;
    if !panicked {
        let secs: Vec<String> = mem.sections().iter().map(|(a, s)| format!("({}, \"{}\", {})", a, hex(s.data()), s.permissions().bits())).collect();
        nsec = secs.len();
        layout = format!("(Some {})", coq_list(secs));
        // hull of the history, +- 6, clipped to the u64 range and to 130 addresses
        let mut lo128: u128 = u128::MAX;
        let mut hi128: u128 = 0;
        for o in &ops {
            let (a, n) = match o { Op::Write(a, d, _) => (*a as u128, d.len() as u128), Op::Set32(a, _) => (*a as u128, 4) };
            lo128 = lo128.min(a);
            hi128 = hi128.max((a + n).min(1u128 << 64));
        }
        let lo_w = lo128.saturating_sub(6);
        let hi_w = (hi128 + 6).min(1u128 << 64).min(lo_w + 130);
        lo = lo_w as u64;
        let cnt = (hi_w - lo_w) as u64;
        for i in 0..cnt {
            let x = lo + i;
            g8.push_str(&tok_u64(2, observe_plain(|| mem.get8(x).map(|b| b as u64))));
            pm.push_str(&tok_u64(1, observe_plain(|| mem.permissions(x).map(|p| p.bits() as u64))));
        }
        // get32 / get(_, gbits) over a sub-window of at most 56 addresses
        let cnt2 = cnt.min(56);
        lo2 = lo + r.below(cnt - cnt2 + 1);
        for i in 0..cnt2 {
            let x = lo2 + i;
            g32.push_str(&tok_u64(8, observe_plain(|| mem.get32(x).map(|v| v as u64))));
            gs.push_str(&tok_const(gbits, observe_plain(|| mem.get(x, gbits as usize))));
        }
        for _ in 0..8 {
            let x = lo + r.below(cnt.max(1));
            let bits = *r.pick(&[0u64, 4, 12, 8, 16, 24, 32, 48, 64, 72, 96, 128, 256, 320]);
            gx.push(format!("({}, {}, \"{}\")", x, bits, tok_const(bits, observe_plain(|| mem.get(x, bits as usize)))));
        }
        read_panic = g8.contains('P') || pm.contains('P') || g32.contains('P') || gs.contains('P') || gx.iter().any(|s| s.contains('P'));
    }
    tags.push(format!("sections:{}", match nsec { 0 => "0", 1 => "1", 2..=3 => "2-3", 4..=6 => "4-6", _ => "7+" }));
    if read_panic { tags.push("read:panicked".into()); }

    let op_coq = |o: &Op| match o {
        Op::Write(a, d, p) => format!("XW {} \"{}\" {}", a, hex(d), p),
        Op::Set32(a, v) => format!("XS {} {}", a, v),
    };
    let op_txt = |o: &Op| match o {
        Op::Write(a, d, p) => format!("set_memory(0x{:x}, {:?}, perm {})", a, d, p),
        Op::Set32(a, v) => format!("set32(0x{:x}, 0x{:x})", a, v),
    };
    let ops_coq = coq_list(ops.iter().map(op_coq));
    let coq = format!(
        "K {} {} \"{}\" {} {} \"{}\" \"{}\" {} \"{}\" {} \"{}\" {}",
        coq_bool(big), ops_coq, ores, layout, lo, g8, pm, lo2, g32, gbits, gs, coq_list(gx.clone())
    );
    let secs_txt: Vec<String> = if panicked { vec!["<history panicked>".into()] } else {
        mem.sections().iter().map(|(a, s)| format!("0x{:x}+{}:p{}", a, s.len(), s.permissions().bits())).collect()
    };
    let descr = format!(
        "{} endian; {} => results {}; sections [{}]; get8 from 0x{:x}: {} | get(_,{}) from 0x{:x}: {} | probes {}",
        if big { "big" } else { "little" },
        ops.iter().map(op_txt).collect::<Vec<_>>().join("; "),
        ores, secs_txt.join(" "), lo, g8, gbits, lo2, gs, gx.join(",")
    );
    let nwrites = ops.iter().filter(|o| matches!(o, Op::Write(..))).count();
    let descr = match keep_arg() { Some(k) => format!("[operations kept: {} of {}] {}", k, nelems, descr), None => descr };
    Case { coq, descr, tags, nontrivial: nwrites >= 2 && overlapping, key: format!("{}{}", big, ops_coq) }.with_elements(nelems)
}

fn main() {
    quiet_panics();
    let args = parse_args();
    let idxs: Vec<u64> = match args.only { Some(i) => vec![i], None => (0..args.n).collect() };
    let cases: Vec<Case> = idxs.iter().map(|i| gen_case(args.seed, *i)).collect();
    // vcheck gives every shard 900 s of coqc: keep a shard at <= 1500 cases (about 1-2 min CPU)
    let shards = std::cmp::max(16, (cases.len() + 1499) / 1500);
    write_cases(
        &args, "C16",
        "From Coq Require Import ZArith NArith String List.\nFrom Falcon Require Import Base.Res IL.Const Mem.Backing Mem.C16Check.\nImport ListNotations.\nLocal Open Scope string_scope.\nLocal Open Scope Z_scope.\nLocal Open Scope list_scope.",
        "ck", &cases, shards, serde_json::json!({}),
    );
}
