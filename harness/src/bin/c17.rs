//! C17 harness: stack_pointer_offsets on random IL functions using each architecture's stack pointer.
//! The observed map (or error kind) is embedded in the case; Coq compares it with the model
//! (Flow/SPO.v) and judges it against executions of Exec/Sem.v from random initial stack pointers.
use falcon::analysis::stack_pointer_offsets::{stack_pointer_offsets, StackPointerOffset};
use falcon::architecture::{AArch64, AArch64Eb, Amd64, Architecture, Mips, Mipsel, Ppc, X86};
use falcon::il::{self, ControlFlowGraph, Expression, Function, Intrinsic, Operation, Scalar};
use fvh::ilgen::*;
use fvh::*;
use std::collections::{BTreeSet, HashMap};

fn arch(i: u64) -> (Box<dyn Architecture>, &'static str) {
    match i {
        0 => (Box::new(X86::new()), "x86"),
        1 => (Box::new(Amd64::new()), "amd64"),
        2 => (Box::new(Mips::new()), "mips"),
        3 => (Box::new(Mipsel::new()), "mipsel"),
        4 => (Box::new(Ppc::new()), "ppc"),
        5 => (Box::new(AArch64::new()), "aarch64"),
        _ => (Box::new(AArch64Eb::new()), "aarch64eb"),
    }
}

struct G {
    sp: Scalar,
    w: usize,
    fp: Scalar,
    r0: Scalar,
    tmp: Scalar,
    flag: Scalar,
    tags: BTreeSet<String>,
}

fn ex(s: &Scalar) -> Expression {
    Expression::scalar(s.clone())
}
fn k(v: u64, w: usize) -> Expression {
    il::expr_const(v, w)
}

impl G {
    fn tag(&mut self, t: &str) {
        self.tags.insert(t.to_string());
    }
    fn slot(&mut self, r: &mut Rng) -> u64 {
        *r.pick(&[4u64, 8, 16, 12, 32, 0])
    }
    /// an address near the stack pointer
    fn sp_addr(&mut self, r: &mut Rng) -> Expression {
        let off = 8 * r.below(4);
        match r.below(3) {
            0 => ex(&self.sp),
            1 => Expression::add(ex(&self.sp), k(off, self.w)).unwrap(),
            _ => Expression::sub(ex(&self.sp), k(off, self.w)).unwrap(),
        }
    }
    /// one operation; `net` accumulates the block's affine stack movement when it stays affine
    fn op(&mut self, r: &mut Rng, clean: bool) -> Operation {
        let w = self.w;
        let sp = self.sp.clone();
        let p = r.below(100);
        let c = self.slot(r);
        if p < 18 {
            self.tag("push");
            Operation::assign(sp.clone(), Expression::sub(ex(&sp), k(c, w)).unwrap())
        } else if p < 34 {
            self.tag("pop");
            if r.chance(1, 4) {
                Operation::assign(sp.clone(), Expression::add(k(c, w), ex(&sp)).unwrap())
            } else {
                Operation::assign(sp.clone(), Expression::add(ex(&sp), k(c, w)).unwrap())
            }
        } else if p < 44 {
            self.tag("store-sp-rel");
            let a = self.sp_addr(r);
            let v = if r.chance(1, 2) { ex(&self.r0) } else { ex(&self.fp) };
            Operation::store(a, v)
        } else if p < 52 {
            self.tag("load-sp-rel");
            let a = self.sp_addr(r);
            let d = if r.chance(1, 2) { self.r0.clone() } else { self.fp.clone() };
            Operation::load(d, a)
        } else if p < 58 {
            Operation::assign(self.fp.clone(), ex(&sp))
        } else if p < 64 {
            let r0 = self.r0.clone();
            Operation::assign(r0.clone(), Expression::add(ex(&r0), k(1, w)).unwrap())
        } else if p < 68 {
            Operation::nop()
        } else if clean {
            // keep the function inside the class where every path is balanced bookkeeping
            Operation::assign(self.tmp.clone(), Expression::sub(ex(&sp), k(c, w)).unwrap())
        } else if p < 72 {
            self.tag("nested-affine");
            let e = Expression::sub(Expression::add(ex(&sp), k(c, w)).unwrap(), k(4, w)).unwrap();
            Operation::assign(sp.clone(), e)
        } else if p < 76 {
            self.tag("sp-from-other");
            match r.below(3) {
                0 => Operation::assign(sp.clone(), ex(&self.fp)),
                1 => Operation::assign(sp.clone(), ex(&self.tmp)),
                _ => Operation::assign(sp.clone(), Expression::add(ex(&sp), ex(&self.r0)).unwrap()),
            }
        } else if p < 80 {
            self.tag("load-into-sp");
            let a = if r.chance(1, 2) { ex(&sp) } else { ex(&self.fp) };
            Operation::load(sp.clone(), a)
        } else if p < 85 {
            self.tag("and-mask");
            let mask = if w == 64 { 0xffff_ffff_ffff_fff0u64 } else { 0xffff_fff0u64 };
            Operation::assign(sp.clone(), Expression::and(ex(&sp), k(mask, w)).unwrap())
        } else if p < 88 {
            self.tag("sp-const");
            Operation::assign(sp.clone(), k(0x7000 + 16 * r.below(4), w))
        } else if p < 92 {
            self.tag("sp-non-affine-misc");
            match r.below(5) {
                0 => Operation::assign(sp.clone(), Expression::add(ex(&sp), ex(&sp)).unwrap()),
                1 => Operation::assign(sp.clone(), Expression::sub(k(c, w), ex(&sp)).unwrap()),
                2 => Operation::assign(sp.clone(), Expression::mul(ex(&sp), k(1, w)).unwrap()),
                3 => Operation::assign(sp.clone(), Expression::or(ex(&sp), k(c, w)).unwrap()),
                _ => Operation::assign(sp.clone(), Expression::sub(Expression::sub(ex(&sp), k(c, w)).unwrap(), ex(&sp)).unwrap()),
            }
        } else if p < 95 {
            self.tag("via-temp");
            Operation::assign(self.tmp.clone(), Expression::sub(ex(&sp), k(c, w)).unwrap())
        } else if p < 97 {
            self.tag("intrinsic");
            Operation::intrinsic(Intrinsic::new("syscall", "syscall", vec![], None, None, vec![0x0f, 0x05]))
        } else {
            Operation::assign(self.flag.clone(), Expression::cmpeq(ex(&self.r0), k(0, w)).unwrap())
        }
    }
}

struct Gen {
    f: Function,
    sp: Scalar,
    pool: Vec<Scalar>,
    tags: BTreeSet<String>,
    arch: &'static str,
}

fn gen(r: &mut Rng) -> Gen {
    let (a, aname) = arch(r.below(7));
    let sp = a.stack_pointer();
    let w = sp.bits();
    let mut g = G {
        sp: sp.clone(),
        w,
        fp: il::scalar("fp_reg", w),
        r0: il::scalar("r0_reg", w),
        tmp: il::scalar("temp_0", w),
        flag: il::scalar("zf", 1),
        tags: BTreeSet::new(),
    };
    g.tag(&format!("arch:{}", aname));
    g.tag(&format!("width:{}", w));
    // a third of the functions contain only affine stack bookkeeping
    let clean = r.chance(1, 3);
    if clean {
        g.tag("clean");
    }
    let nb = r.range(1, 6) as usize;
    let mut cfg = ControlFlowGraph::new();
    for _ in 0..nb {
        let n = if r.chance(1, 8) { 0 } else { r.range(1, 4) };
        let ops: Vec<Operation> = (0..n).map(|_| g.op(r, clean)).collect();
        let b = cfg.new_block().unwrap();
        for o in ops {
            match o {
                Operation::Assign { dst, src } => b.assign(dst, src),
                Operation::Store { index, src } => b.store(index, src),
                Operation::Load { dst, index } => b.load(dst, index),
                Operation::Intrinsic { intrinsic } => b.intrinsic(intrinsic),
                Operation::Branch { target } => b.branch(target),
                Operation::Nop { .. } => b.nop(),
            }
        }
    }
    // edges: forward chains, diamonds (unbalanced arms arise from the random bodies), back edges
    let entry_loop = r.chance(1, 12);
    for h in 0..nb {
        let fwd = |r: &mut Rng| -> Option<usize> { if h + 1 < nb { Some(r.range(h as u64 + 1, nb as u64 - 1) as usize) } else { None } };
        let back = |r: &mut Rng| -> usize {
            let lo = if entry_loop { 0 } else { 1 };
            if h >= lo { r.range(lo as u64, h as u64) as usize } else { h }
        };
        let t1 = fwd(r);
        let shape = r.below(10);
        let cond = Expression::cmpeq(ex(&g.r0), k(r.below(3), w)).unwrap();
        let ncond = Expression::cmpeq(cond.clone(), k(0, 1)).unwrap();
        match t1 {
            None => {
                if shape < 3 && nb > 1 && (entry_loop || h >= 1) {
                    // loop back from the last block, with an exit by falling out (no successor when the guard fails is a stuck run)
                    let t = back(r);
                    cfg.conditional_edge(h, t, cond).unwrap();
                    g.tag("loop");
                }
            }
            Some(t1) => {
                if shape < 4 {
                    cfg.unconditional_edge(h, t1).unwrap();
                } else if shape < 8 {
                    let t2 = fwd(r).unwrap();
                    if t2 == t1 {
                        cfg.unconditional_edge(h, t1).unwrap();
                    } else {
                        cfg.conditional_edge(h, t1, cond).unwrap();
                        cfg.conditional_edge(h, t2, ncond).unwrap();
                        g.tag("diamond");
                    }
                } else if entry_loop || h >= 1 {
                    let t2 = back(r);
                    if t2 == t1 {
                        cfg.unconditional_edge(h, t1).unwrap();
                    } else {
                        cfg.conditional_edge(h, t1, ncond).unwrap();
                        cfg.conditional_edge(h, t2, cond).unwrap();
                        g.tag("loop");
                    }
                } else {
                    cfg.unconditional_edge(h, t1).unwrap();
                }
            }
        }
    }
    cfg.set_entry(0).unwrap();
    cfg.set_exit(nb - 1).unwrap();
    if cfg.edges().iter().any(|e| e.tail() == 0) {
        g.tag("entry-has-incoming-edge");
    }
    let pool = vec![g.sp.clone(), g.fp.clone(), g.r0.clone(), g.tmp.clone(), g.flag.clone()];
    Gen { f: Function::new(0x1000, cfg), sp, pool, tags: g.tags, arch: aname }
}

fn coq_spo(m: &HashMap<il::ProgramLocation, StackPointerOffset>) -> String {
    let mut v: Vec<(il::FunctionLocation, String)> = m
        .iter()
        .map(|(l, s)| {
            let t = match s {
                StackPointerOffset::Top => "STop".to_string(),
                StackPointerOffset::Bottom => "SBot".to_string(),
                StackPointerOffset::Value(k) => format!("(SVal {})", z_i128(*k as i128)),
            };
            (l.function_location().clone(), t)
        })
        .collect();
    v.sort();
    coq_list(v.iter().map(|(l, t)| format!("({}, {})", coq_floc(l), t)).collect::<Vec<_>>())
}

fn describe(f: &Function) -> String {
    let mut s = String::new();
    for b in f.blocks() {
        s.push_str(&format!("B{}[", b.index()));
        s.push_str(&b.instructions().iter().map(|i| format!("{}", i.operation())).collect::<Vec<_>>().join("; "));
        s.push_str("] ");
    }
    for e in f.edges() {
        match e.condition() {
            Some(c) => s.push_str(&format!("{}->{} if {}; ", e.head(), e.tail(), c)),
            None => s.push_str(&format!("{}->{}; ", e.head(), e.tail())),
        }
    }
    s
}

/// one initial state: every pool scalar defined, the stack pointer inside (or at the edge of) the
/// address space, and a byte arena around it so that sp-relative loads succeed
fn gen_run(r: &mut Rng, g: &Gen, it: &mut Interner) -> String {
    let w = g.sp.bits();
    let mask = if w >= 64 { u64::MAX } else { (1u64 << w) - 1 };
    let sp0: u64 = match r.below(8) {
        0 => 4,                       // wraps below zero after a push
        1 => mask - 7,                // wraps above after a pop
        2 => 0x7ffc & mask,           // not 16-aligned
        3 => (r.next() & mask) & !0xf,
        _ => (0x7000_0000u64 + 4 * r.below(1024)) & mask,
    };
    let fpv = if r.chance(1, 2) { sp0 } else { (sp0.wrapping_add(16)) & mask };
    let env = coq_list(
        g.pool
            .iter()
            .map(|s| {
                let v = if *s == g.sp {
                    sp0
                } else if s.name() == "fp_reg" {
                    fpv
                } else if s.bits() == 1 {
                    r.below(2)
                } else {
                    match r.below(4) { 0 => 0, 1 => 1, 2 => 2, _ => r.next() & mask }
                };
                format!("(({}, None), mkc {} {})", n_lit(it.id(s.name())), s.bits(), v)
            })
            .collect::<Vec<_>>(),
    );
    // arena: 64 bytes below and above sp0, sent as (base, bytes); Coq wraps the addresses mod 2^w
    let base = sp0.wrapping_sub(64) & mask;
    let mut bytes = vec![];
    for d in 0..128u64 {
        let v = if d % 8 < (w as u64 / 8) && r.chance(1, 2) { (sp0 >> (8 * (d % 8))) & 0xff } else { r.below(256) };
        bytes.push(format!("{}", v));
    }
    format!("({}, ({}, {}))", env, base, coq_list(bytes))
}


// ---------------------------------------------------------------- lifted prologue / epilogue family
/// real machine code lifted by the real translators: (non-terminal encodings, terminal encoding)
fn encodings(arch: &str) -> (Vec<(&'static str, Vec<u8>)>, Vec<u8>) {
    let be = |w: u32| w.to_be_bytes().to_vec();
    let le = |w: u32| w.to_le_bytes().to_vec();
    match arch {
        "x86" => (vec![
            ("push ebp", vec![0x55]), ("mov ebp,esp", vec![0x89, 0xE5]), ("sub esp,0x10", vec![0x83, 0xEC, 0x10]),
            ("add esp,0x10", vec![0x83, 0xC4, 0x10]), ("and esp,-16", vec![0x83, 0xE4, 0xF0]), ("push eax", vec![0x50]),
            ("pop eax", vec![0x58]), ("pop ebp", vec![0x5D]), ("leave", vec![0xC9]), ("mov esp,ebp", vec![0x89, 0xEC]),
            ("lea esp,[ebp-8]", vec![0x8D, 0x65, 0xF8]), ("push 0x10", vec![0x6A, 0x10]),
        ], vec![0xC3]),
        "amd64" => (vec![
            ("push rbp", vec![0x55]), ("mov rbp,rsp", vec![0x48, 0x89, 0xE5]), ("sub rsp,0x20", vec![0x48, 0x83, 0xEC, 0x20]),
            ("add rsp,0x20", vec![0x48, 0x83, 0xC4, 0x20]), ("and rsp,-16", vec![0x48, 0x83, 0xE4, 0xF0]), ("push rax", vec![0x50]),
            ("pop rax", vec![0x58]), ("pop rbp", vec![0x5D]), ("leave", vec![0xC9]), ("mov rsp,rbp", vec![0x48, 0x89, 0xEC]),
        ], vec![0xC3]),
        "mips" | "mipsel" => {
            let e = |w: u32| if arch == "mips" { be(w) } else { le(w) };
            let mut term = e(0x03E00008);
            term.extend(e(0));
            (vec![
                ("addiu sp,sp,-32", e(0x27BDFFE0)), ("sw ra,28(sp)", e(0xAFBF001C)), ("lw ra,28(sp)", e(0x8FBF001C)),
                ("addiu sp,sp,32", e(0x27BD0020)), ("move fp,sp", e(0x03A0F021)), ("move sp,fp", e(0x03C0E821)),
                ("sw fp,24(sp)", e(0xAFBE0018)), ("lw fp,24(sp)", e(0x8FBE0018)), ("addiu sp,sp,-8", e(0x27BDFFF8)),
            ], term)
        }
        "ppc" => (vec![
            ("stwu r1,-32(r1)", be(0x9421FFE0)), ("mflr r0", be(0x7C0802A6)), ("stw r0,36(r1)", be(0x90010024)),
            ("lwz r0,36(r1)", be(0x80010024)), ("mtlr r0", be(0x7C0803A6)), ("addi r1,r1,32", be(0x38210020)),
            ("addi r1,r1,-16", be(0x3821FFF0)), ("mr r31,r1", be(0x7C3F0B78)), ("mr r1,r31", be(0x7FE1FB78)),
        ], be(0x4E800020)),
        _ => (vec![
            ("stp x29,x30,[sp,#-16]!", le(0xA9BF7BFD)), ("mov x29,sp", le(0x910003FD)), ("sub sp,sp,#0x20", le(0xD10083FF)),
            ("add sp,sp,#0x20", le(0x910083FF)), ("ldp x29,x30,[sp],#16", le(0xA8C17BFD)), ("mov sp,x29", le(0x910003BF)),
            ("str x0,[sp,#8]", le(0xF90007E0)), ("ldr x0,[sp,#8]", le(0xF94007E0)),
        ], le(0xD65F03C0)),
    }
}

fn gen_lifted(r: &mut Rng) -> Option<Gen> {
    use falcon::memory::backing::Memory;
    use falcon::memory::MemoryPermissions;
    use falcon::translator::{self, Translator};
    let aname = *r.pick(&["x86", "amd64", "mips", "mipsel", "ppc", "aarch64", "aarch64eb"]);
    if aname == "aarch64eb" {
        return None; // instruction fetch is little-endian on both; the table is for the LE memory image
    }
    let (body, term) = encodings(aname);
    let n = r.range(1, 6);
    let mut bytes: Vec<u8> = vec![];
    let mut text: Vec<&str> = vec![];
    for _ in 0..n {
        let (t, b) = r.pick(&body);
        text.push(*t);
        bytes.extend(b.iter());
    }
    bytes.extend(term.iter());
    let (idx, endian) = match aname {
        "x86" => (0, falcon::architecture::Endian::Little),
        "amd64" => (1, falcon::architecture::Endian::Little),
        "mips" => (2, falcon::architecture::Endian::Big),
        "mipsel" => (3, falcon::architecture::Endian::Little),
        "ppc" => (4, falcon::architecture::Endian::Big),
        _ => (5, falcon::architecture::Endian::Little),
    };
    let mut mem = Memory::new(endian);
    mem.set_memory(0x1000, bytes, MemoryPermissions::READ | MemoryPermissions::EXECUTE);
    let tr: Box<dyn Translator> = match aname {
        "x86" => Box::new(translator::x86::X86::new()),
        "amd64" => Box::new(translator::x86::Amd64::new()),
        "mips" => Box::new(translator::mips::Mips::new()),
        "mipsel" => Box::new(translator::mips::Mipsel::new()),
        "ppc" => Box::new(translator::ppc::Ppc::new()),
        _ => Box::new(translator::aarch64::AArch64::new()),
    };
    let f = match observe(|| tr.translate_function(&mem, 0x1000)) {
        Obs::Ok(f) => f,
        _ => return None,
    };
    let (a, _) = arch(idx);
    let sp = a.stack_pointer();
    // every scalar of the lifted function gets an initial value
    let mut pool: Vec<Scalar> = vec![sp.clone()];
    let mut add = |s: &Scalar, pool: &mut Vec<Scalar>| {
        if !pool.iter().any(|t| t.name() == s.name()) {
            pool.push(il::scalar(s.name().to_string(), s.bits()));
        }
    };
    for b in f.blocks() {
        for i in b.instructions() {
            for s in i.scalars_read().unwrap_or_default() { add(s, &mut pool); }
            for s in i.scalars_written().unwrap_or_default() { add(s, &mut pool); }
        }
    }
    for e in f.edges() {
        if let Some(c) = e.condition() { for s in c.scalars() { add(s, &mut pool); } }
    }
    let mut tags = BTreeSet::new();
    tags.insert(format!("arch:{}", aname));
    tags.insert(format!("width:{}", sp.bits()));
    tags.insert("lifted".to_string());
    tags.insert(format!("lifted:{}", aname));
    for t in &text {
        if t.starts_with("push") || t.contains("sp,-") || t.starts_with("sub") || t.starts_with("stwu") || t.starts_with("stp") { tags.insert("push".to_string()); }
        if t.starts_with("pop") || t.starts_with("add") || t.starts_with("ldp") { tags.insert("pop".to_string()); }
        if t.starts_with("and") { tags.insert("and-mask".to_string()); }
        if t.starts_with("leave") { tags.insert("leave".to_string()); }
    }
    let _ = text;
    Some(Gen { f, sp, pool, tags, arch: match aname { "x86" => "x86", "amd64" => "amd64", "mips" => "mips", "mipsel" => "mipsel", "ppc" => "ppc", _ => "aarch64" } })
}

fn gen_case(seed: u64, i: u64) -> Case {
    let mut r = Rng::for_case(seed, i);
    let lifted = if r.chance(1, 5) { gen_lifted(&mut r) } else { None };
    let mut g = match lifted { Some(g) => g, None => gen(&mut r) };
    // minimisation protocol (`--keep p0,p1,..`): dropped instructions become `nop` (indices, edges, pool unchanged)
    let nelems = nop_dropped(&mut g.f, 0);
    let (a, _) = arch(match g.arch { "x86" => 0, "amd64" => 1, "mips" => 2, "mipsel" => 3, "ppc" => 4, "aarch64" => 5, _ => 6 });
    let mut it = Interner::new();
    let fcoq = coq_function(&g.f, &mut it);
    let spc = coq_scalar(&g.sp, &mut it);
    let big = matches!(g.arch, "mips" | "ppc" | "aarch64eb");
    let runs = coq_list((0..3).map(|_| gen_run(&mut r, &g, &mut it)).collect::<Vec<_>>());
    let obs = observe(|| stack_pointer_offsets(&g.f, a.as_ref()));
    let coq = format!("(K {} {} {} {} {})", fcoq, spc, coq_bool(big), runs, obs.coq(coq_spo));
    let mut tags: Vec<String> = g.tags.iter().cloned().collect();
    tags.push(format!("result:{}", obs.kind()));
    if let Obs::Ok(m) = &obs {
        if m.values().any(|s| s.is_value() && s.value() != Some(0)) {
            tags.push("reports-nonzero-offset".into());
        }
        if m.values().any(|s| s.is_top()) {
            tags.push("reports-top".into());
        }
    }
    let descr = format!("{}{} sp={} :: {}", keep_prefix("instructions", nelems), g.arch, g.sp, describe(&g.f));
    let moves = g.tags.contains("push") || g.tags.contains("pop");
    Case { coq, nontrivial: moves && g.f.locations().len() >= 3, key: descr.clone(), descr, tags }.with_elements(nelems)
}

fn main() {
    quiet_panics();
    let args = parse_args();
    let cases: Vec<Case> = match args.only {
        Some(i) => vec![gen_case(args.seed, i)],
        None => (0..args.n).map(|i| gen_case(args.seed, i)).collect(),
    };
    let header = "From Coq Require Import ZArith List Bool NArith.\nFrom Falcon Require Import Base.Res IL.Const IL.Expr IL.Func IL.Loc Exec.Sem Flow.SPO Flow.C17Check.\nImport ListNotations.\nLocal Open Scope Z_scope.";
    write_cases(&args, "C17", header, "ck", &cases, 16, serde_json::json!({}));
}
