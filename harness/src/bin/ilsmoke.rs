//! smoke test of the Gallina printers: prints random functions as Coq definitions
use fvh::ilgen::*;
use fvh::*;
fn main() {
    let args = parse_args();
    let mut out = String::from("From Coq Require Import ZArith List NArith.\nFrom Falcon Require Import Base.Res IL.Const IL.Expr IL.Func IL.Loc.\nImport ListNotations.\nLocal Open Scope Z_scope.\n");
    for i in 0..args.n {
        let mut r = Rng::for_case(args.seed, i);
        let mut o = GenOpts::default();
        o.intrinsics = true; o.branches = true; o.unreachable = true; o.div = true;
        let f = gen_function(&mut r, &o, 0x1000);
        let mut it = Interner::new();
        out.push_str(&format!("Definition f{} : func := {}.\n", i, coq_function(&f, &mut it)));
        out.push_str(&format!("Eval vm_compute in (cfg_inv (f_cfg f{}), length (locations f{}), forallb (fun l => match forward f{} l with Ok _ => true | _ => false end) (locations f{})).\n", i, i, i, i));
    }
    std::fs::create_dir_all(&args.out).unwrap();
    std::fs::write(format!("{}/smoke.v", args.out), out).unwrap();
}
