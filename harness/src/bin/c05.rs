//! C05 harness: "lifting any bytes is total and yields well-formed, deterministic IL".
//!
//! Every input (translator, policy, address, bytes) is lifted TWICE, in separate translator instances,
//! under `catch_unwind`, inside a CHILD process (`--child 1`): a C-level abort or a hang then kills /
//! stalls the child, not the check; the parent notices (EOF / wall-clock timeout), attributes the event
//! to the in-flight input (the child announces every input before lifting it) and restarts behind it.
//! The dumped `BlockTranslationResult`s are deduplicated by SHAPE (names, addresses and constants wider
//! than one bit renamed by first occurrence) and one case per distinct (config, shape) is given to Coq:
//! `KLift bits relift_equal obs`; the checker of Lift/C05Check.v evaluates `wf_result`, `guards_det_check`.
//!
//! Inputs are a pure function of (seed, n, index):
//!   * fixed-width ISAs: structured sweep (every major opcode x function field x boundary register and
//!     immediate fields), then random word strings;
//!   * x86 / amd64: every one-byte and 0F-two-byte opcode x ModRM/SIB patterns x prefixes x truncations
//!     to 1..15 bytes, then random strings;
//!   * a corpus of regression inputs (known defects of the pristine tree).
//! `--n` = number of random inputs per configuration (7 translators x 2 policies); n >= 20000 selects the
//! full structured sweeps (thorough tier), smaller n the reduced ones (quick tier).
use falcon::translator::{self, BlockTranslationResult, OptionsBuilder, Translator};
use fvh::ilgen::*;
use fvh::*;
use std::collections::{BTreeMap, HashMap};
use std::io::{BufRead, BufReader, Write};
use std::panic::{catch_unwind, AssertUnwindSafe};
use std::process::{Command, Stdio};
use std::sync::mpsc;
use std::time::Duration;

const TR: [(&str, usize); 7] =
    [("x86", 32), ("amd64", 64), ("mips", 32), ("mipsel", 32), ("ppc", 32), ("aarch64", 64), ("aarch64eb", 64)];

fn lift(tr: usize, bytes: &[u8], addr: u64, intr: bool) -> Result<BlockTranslationResult, falcon::Error> {
    let o = OptionsBuilder::new().unsupported_are_intrinsics(intr).build();
    // a fresh translator instance per call
    match tr {
        0 => translator::x86::X86::new().translate_block(bytes, addr, &o),
        1 => translator::x86::Amd64::new().translate_block(bytes, addr, &o),
        2 => translator::mips::Mips::new().translate_block(bytes, addr, &o),
        3 => translator::mips::Mipsel::new().translate_block(bytes, addr, &o),
        4 => translator::ppc::Ppc::new().translate_block(bytes, addr, &o),
        5 => translator::aarch64::AArch64::new().translate_block(bytes, addr, &o),
        _ => translator::aarch64::AArch64Eb::new().translate_block(bytes, addr, &o),
    }
}

// ---------------------------------------------------------------- inputs
#[derive(Clone, Debug)]
struct Input {
    tr: usize,
    intr: bool,
    addr: u64,
    bytes: Vec<u8>,
    class: &'static str,
}
impl Input {
    fn hex(&self) -> String {
        self.bytes.iter().map(|b| format!("{:02x}", b)).collect::<Vec<_>>().join("")
    }
    fn descr(&self) -> String {
        format!(
            "{} unsupported_are_intrinsics={} addr={:#x} bytes={} [{}]",
            TR[self.tr].0, self.intr, self.addr, self.hex(), self.class
        )
    }
    fn spec(&self) -> String {
        format!("{} {} {} {} {}", self.tr, self.intr as u8, self.addr, self.hex(), self.class)
    }
}
fn mix(k: u64) -> u64 {
    let mut z = k.wrapping_add(0x9E3779B97F4A7C15);
    z = (z ^ (z >> 30)).wrapping_mul(0xBF58476D1CE4E5B9);
    z = (z ^ (z >> 27)).wrapping_mul(0x94D049BB133111EB);
    z ^ (z >> 31)
}
/// load address of input k: mostly ordinary, sometimes 0, 2^32-4, 2^64-16
fn addr_of(k: u64) -> u64 {
    match mix(k) % 16 {
        0 => 0,
        1 => 0xffff_fffc,
        2 => 0xffff_ffff_ffff_fff0,
        3 => 0x7fff_fff8,
        _ => 0x1000 + 4 * (mix(k ^ 0x55) % 64),
    }
}
fn word_bytes(tr: usize, w: u32) -> [u8; 4] {
    // big-endian encodings: mips (2), ppc (4); aarch64eb fetches little-endian like aarch64 (the code
    // ignores its endianness argument), the harness feeds both byte orders over the sweeps anyway
    if tr == 2 || tr == 4 { w.to_be_bytes() } else { w.to_le_bytes() }
}

// --- MIPS structured words
const MIPS_REGS_Q: [(u32, u32); 6] = [(0, 0), (1, 2), (31, 31), (4, 0), (0, 5), (3, 3)];
const MIPS_REGS_F: [(u32, u32); 12] =
    [(0, 0), (1, 2), (31, 31), (4, 0), (0, 5), (3, 3), (31, 0), (0, 31), (29, 29), (1, 31), (31, 1), (25, 28)];
const IMM16: [u32; 8] = [0, 1, 4, 0x7fff, 0x8000, 0xffff, 0xfffe, 0x0100];
fn low16_struct(j: u32) -> u32 {
    // funct 0..63 x (rd, shamt) in {(0,0),(1,0),(31,31),(2,1)}
    let f = j % 64;
    let (rd, sh) = [(0, 0), (1, 0), (31, 31), (2, 1)][(j / 64) as usize % 4];
    (rd << 11) | (sh << 6) | f
}
fn mips_special(op: u32) -> bool {
    matches!(op, 0 | 0x1c | 0x1f | 0x10 | 0x11 | 0x12 | 0x13)
}
fn mips_words(full: bool) -> Vec<u32> {
    let regs: &[(u32, u32)] = if full { &MIPS_REGS_F } else { &MIPS_REGS_Q };
    let mut v = vec![];
    for op in 0..64u32 {
        if op == 1 {
            for rt in 0..32u32 {
                for rs in [0u32, 1, 31] {
                    for imm in IMM16 {
                        v.push((op << 26) | (rs << 21) | (rt << 16) | imm);
                    }
                }
            }
            continue;
        }
        for (rs, rt) in regs {
            if mips_special(op) {
                for j in 0..256 {
                    v.push((op << 26) | (rs << 21) | (rt << 16) | low16_struct(j));
                }
                // COPz: rs is the sub-opcode
                if op >= 0x10 {
                    for sub in 0..32u32 {
                        v.push((op << 26) | (sub << 21) | (rt << 16) | low16_struct(sub * 7));
                    }
                }
            }
            for imm in IMM16 {
                v.push((op << 26) | (rs << 21) | (rt << 16) | imm);
            }
        }
    }
    // SPECIAL / SPECIAL2 / SPECIAL3: the shamt field selects the operation in some function codes (BSHFL: seb,
    // seh, wsbh; srl/rotr, ...): every shamt x every function code
    for op in [0u32, 0x1c, 0x1f] {
        for (rs, rt) in [(1u32, 2u32), (0, 0)] {
            for sh in 0..32u32 {
                for f in 0..64u32 {
                    v.push((op << 26) | (rs << 21) | (rt << 16) | (1 << 11) | (sh << 6) | f);
                }
            }
        }
    }
    v.sort_unstable();
    v.dedup();
    v
}
/// MIPS control transfers (branches, jumps): opcodes 1..7, SPECIAL jr / jalr
fn mips_is_control(w: u32) -> bool {
    let op = w >> 26;
    (1..=7).contains(&op) || (op == 0 && matches!(w & 0x3f, 8 | 9))
}
/// control transfers placed in the delay slot of another one: EVERY control-transfer mnemonic the lifter knows
/// (b bal beq beqz bne bnez blez bgtz bltz bgez bltzal bgezal j jal jr jalr) and the branch-likely variants
const MIPS_CTL_SLOTS: [u32; 24] = [
    0x10000004, 0x04110001, 0x10220004, 0x10800004, 0x14220004, 0x14800004, 0x18800008, 0x1c800008, // b bal beq beqz bne bnez blez bgtz
    0x04800004, 0x04810004, 0x04900004, 0x04910004, 0x08000400, 0x0c000400, 0x03e00008, 0x0320f809, // bltz bgez bltzal bgezal j jal jr jalr
    0x50220004, 0x54220004, 0x58800004, 0x5c800004, 0x04820004, 0x04830004, 0x04920004, 0x04930004, // beql bnel blezl bgtzl bltzl bgezl bltzall bgezall
];
fn ppc_words(full: bool) -> Vec<u32> {
    // rD also carries the CR field of the compares: 28 = cr7 (L = 0), 4 = cr1
    const PPC_REGS_Q: [(u32, u32); 5] = [(0, 0), (1, 2), (31, 31), (28, 3), (4, 0)];
    const PPC_REGS_F: [(u32, u32); 12] =
        [(0, 0), (1, 2), (31, 31), (28, 3), (4, 0), (3, 3), (31, 0), (0, 31), (12, 9), (1, 31), (8, 1), (24, 28)];
    let regs: &[(u32, u32)] = if full { &PPC_REGS_F } else { &PPC_REGS_Q };
    let rbs: &[u32] = if full { &[0, 3, 31] } else { &[3] };
    let mut v = vec![];
    for op in 0..64u32 {
        for (rd, ra) in regs {
            if matches!(op, 4 | 19 | 30 | 31 | 58 | 59 | 62 | 63) {
                for xo in 0..1024u32 {
                    for rb in rbs {
                        for rc in 0..2u32 {
                            v.push((op << 26) | (rd << 21) | (ra << 16) | (rb << 11) | (xo << 1) | rc);
                        }
                    }
                }
            }
            for imm in IMM16 {
                v.push((op << 26) | (rd << 21) | (ra << 16) | imm);
            }
        }
    }
    // conditional branches: every BO x BI, displacement / AA / LK boundary values
    for op in [16u32, 18] {
        for bo in 0..32u32 {
            for bi in 0..32u32 {
                for low in [4u32, 0, 8, 0xfffc, 5, 6, 7, 0x7ffc, 0x8000] {
                    v.push((op << 26) | (bo << 21) | (bi << 16) | low);
                }
            }
        }
    }
    // bclr / bcctr with every BO x BI
    for xo in [16u32, 528] {
        for bo in 0..32u32 {
            for bi in 0..32u32 {
                for lk in 0..2u32 {
                    v.push((19 << 26) | (bo << 21) | (bi << 16) | (xo << 1) | lk);
                }
            }
        }
    }
    v
}
/// A64: fields that select an operand KIND or width are enumerated, register / immediate VALUE fields take
/// boundary values:
///  (1) every value of bits 31..21 (sf, op, S, class, opc, size, shift, N, ...) x boundary Rm / bits 15..10 / Rn / Rd;
///  (2) every value of bits 31..21 x EVERY value of bits 15..10 (option + imm3 of the extended-register forms, opcode
///      of the 1/2/3-source and conditional classes, index mode / option / S of the loads and stores, SIMD opcodes)
///      x two register patterns;
///  (3) add/sub (extended register): sf x op x S x opt x all 8 options x all 8 imm3 x all 12 register patterns;
///  (4) add/sub and logical (shifted register): every bits 31..21 of the class x imm6 in {0,1,31,32,63} x 12 patterns.
fn a64_words(full: bool) -> Vec<u32> {
    let rms: &[u32] = if full { &[0, 2, 31, 1, 30] } else { &[0, 2, 31] };
    let mids: &[u32] = if full { &[0, 3, 0x3f, 8, 0x10, 0x20, 1, 2, 0x1f, 0x30] } else { &[0, 3, 0x3f, 8, 0x10] };
    let rns: &[u32] = if full { &[0, 31, 1] } else { &[0, 31] };
    let rds: &[u32] = if full { &[1, 31, 0] } else { &[1, 31] };
    let mut v = vec![];
    let w = |top: u32, rm: u32, mid: u32, rn: u32, rd: u32| (top << 21) | (rm << 16) | (mid << 10) | (rn << 5) | rd;
    for top in 0..2048u32 {
        for rm in rms {
            for mid in mids {
                for rn in rns {
                    for rd in rds {
                        v.push(w(top, *rm, *mid, *rn, *rd));
                    }
                }
            }
        }
        let pats: &[(u32, u32, u32)] = if full { &[(2, 0, 1), (31, 31, 31), (0, 1, 0), (1, 31, 2)] } else { &[(2, 0, 1), (31, 31, 31)] };
        for mid in 0..64u32 {
            for (rm, rn, rd) in pats {
                v.push(w(top, *rm, mid, *rn, *rd));
            }
        }
        let class = (top >> 3) & 0x1f; // bits 28..24
        let ext = class == 0b01011 && top & 1 == 1;
        let shifted = (class == 0b01011 || class == 0b01010) && !ext;
        if ext || shifted {
            let imm6: &[u32] = &[0, 1, 31, 32, 63];
            let all: Vec<u32> = (0..64).collect();
            for mid in if ext { &all[..] } else { imm6 } {
                for rm in [0u32, 2, 31] {
                    for rn in [0u32, 31] {
                        for rd in [1u32, 31] {
                            v.push(w(top, rm, *mid, rn, rd));
                        }
                    }
                }
            }
        }
    }
    v.sort_unstable();
    v.dedup();
    v
}

// --- x86 structured strings
const X86_SUFFIX: [&[u8]; 28] = [
    &[0xc0], &[0xc1], &[0xd8], &[0xff], &[0x00], &[0x05, 0x10, 0x20, 0x30, 0x40], &[0x04, 0x24], &[0x44, 0x24, 0x08],
    &[0x84, 0x88, 0x00, 0x01, 0x00, 0x00], &[0x45, 0xfc], &[0x0c, 0x25, 0x00, 0x10, 0x00, 0x00], &[0x04, 0xcd, 0, 0, 0, 0],
    // /r sweeps for the group opcodes: register and memory forms
    &[0x08], &[0x10], &[0x18], &[0x20], &[0x28], &[0x30], &[0x38], &[0xc8], &[0xd0], &[0xe0], &[0xe8], &[0xf0], &[0xf8],
    &[0x01, 0x00, 0x00, 0x00], &[0xfe, 0xff, 0xff, 0xff], &[0x80, 0x00, 0x00, 0x80],
];
const X86_PREFIX: [&[u8]; 14] = [
    &[], &[0x67], &[0x66], &[0xf3], &[0xf2], &[0x48], &[0xf0], &[0x2e], &[0x66, 0x48], &[0x41], &[0x4c], &[0xf3, 0x48],
    &[0x67, 0x48], &[0x67, 0x66],
];
/// forms whose destination width / address width interplay matters: lea, mov, add, movzx/movsx/movsxd, xchg, cmp
const X86_ADDR_OPS: [u32; 14] = [0x8d, 0x8b, 0x89, 0x03, 0x01, 0x8a, 0x88, 0x63, 0x87, 0x3b, 0x1b6, 0x1b7, 0x1be, 0x1bf];
const X86_ADDR_PFX: [&[u8]; 6] = [&[0x67], &[0x67, 0x66], &[0x67, 0x48], &[0x67, 0x4c], &[0x66, 0x67], &[0x67, 0x66, 0x48]];
fn x86_string(op: u32, sfx: usize, pfx: usize, pad: u8, len: usize) -> Vec<u8> {
    let mut b: Vec<u8> = X86_PREFIX[pfx].to_vec();
    if op >= 256 {
        b.push(0x0f);
    }
    b.push((op & 0xff) as u8);
    b.extend_from_slice(X86_SUFFIX[sfx]);
    while b.len() < 15 {
        b.push(pad);
    }
    b.truncate(len);
    b
}
/// quick: per (opcode, suffix) the empty prefix and one rotating prefix, the full string and one rotating
/// truncation; full: everything
/// quick: per (opcode, suffix) no prefix, the address-size prefix and one rotating other prefix, each as the full
/// string and one rotating truncation; full: every prefix x every truncation.  Then (both tiers) the
/// address-size-prefixed lea / mov / add / movzx / ... forms with 16/32/64-bit destinations x every suffix.
fn x86_count(full: bool) -> u64 {
    (if full { 512 * 28 * 14 * 15 } else { 512 * 28 * 3 * 2 }) + (X86_ADDR_OPS.len() * X86_ADDR_PFX.len() * 28) as u64
}
fn x86_at(full: bool, k: u64) -> Vec<u8> {
    let main = if full { 512 * 28 * 14 * 15 } else { 512 * 28 * 3 * 2 };
    if k >= main {
        let k = (k - main) as usize;
        let sfx = k % 28;
        let pfx = k / 28 % X86_ADDR_PFX.len();
        let op = X86_ADDR_OPS[k / 28 / X86_ADDR_PFX.len()];
        let mut b: Vec<u8> = X86_ADDR_PFX[pfx].to_vec();
        if op >= 256 {
            b.push(0x0f);
        }
        b.push((op & 0xff) as u8);
        b.extend_from_slice(X86_SUFFIX[sfx]);
        while b.len() < 15 {
            b.push(0x90);
        }
        return b;
    }
    if full {
        let len = (k % 15) as usize + 1;
        let pfx = (k / 15 % 14) as usize;
        let sfx = (k / 210 % 28) as usize;
        let op = (k / 5880) as u32;
        x86_string(op, sfx, pfx, if mix(k) % 4 == 0 { 0x00 } else { 0x90 }, len)
    } else {
        let t = k % 2;
        let p = k / 2 % 3;
        let sfx = (k / 6 % 28) as usize;
        let op = (k / 168) as u32;
        let rot = (op as u64 + sfx as u64 * 5) as u64;
        let pfx = match p { 0 => 0, 1 => 1, _ => 2 + (rot % 12) as usize };
        let len = if t == 0 { 15 } else { 1 + ((rot * 7 + p * 3) % 14) as usize };
        x86_string(op, sfx, pfx, 0x90, len)
    }
}

/// regression corpus: (translator, address, bytes)
fn corpus() -> Vec<(usize, u64, Vec<u8>, &'static str)> {
    let le = |w: u32| w.to_le_bytes().to_vec();
    let be = |w: u32| w.to_be_bytes().to_vec();
    let mut v: Vec<(usize, u64, Vec<u8>, &'static str)> = vec![
        (5, 0x1000, le(0x58000040), "corpus:a64-ldr-literal"),
        (6, 0x1000, le(0x58000040), "corpus:a64-ldr-literal"),
        (5, 0x1000, le(0x18000041), "corpus:a64-ldr-literal-w"),
        (5, 0x1000, le(0x98000041), "corpus:a64-ldrsw-literal"),
        (5, 0x1000, le(0xd8000041), "corpus:a64-prfm-literal"),
        (5, 0x1000, le(0x1c000041), "corpus:a64-ldr-literal-simd"),
        (5, 0x1000, le(0x54000040), "corpus:a64-b.eq"),
        (5, 0x1000, le(0x54000020), "corpus:a64-b.eq-to-fallthrough"),
        (5, 0x1000, le(0xb4000020), "corpus:a64-cbz-to-fallthrough"),
        (5, 0x1000, le(0x36000020), "corpus:a64-tbz-to-fallthrough"),
        (4, 0x1000, be(0x2c030005), "corpus:ppc-cmpwi"),
        (4, 0x1000, be(0x2f830005), "corpus:ppc-cmpwi-cr7"),
        (4, 0x1000, be(0x2b830005), "corpus:ppc-cmplwi-cr7"),
        (4, 0x1000, be(0x28030005), "corpus:ppc-cmplwi"),
        (4, 0x1000, be(0x7c632051), "corpus:ppc-subf."),
        (4, 0x1000, be(0x41820008), "corpus:ppc-beq"),
        (4, 0x1000, be(0x41820004), "corpus:ppc-beq-to-fallthrough"),
        (1, 0x1000, vec![0x67, 0x48, 0x8d, 0x04, 0x08], "corpus:amd64-lea-rax-addr32"),
        (0, 0x1000, vec![0x67, 0x8d, 0x00], "corpus:x86-lea-eax-addr16"),
        (1, 0x1000, vec![0x67, 0x8d, 0x04, 0x08], "corpus:amd64-lea-eax-addr32"),
        (1, 0x1000, vec![0x67, 0x66, 0x8d, 0x04, 0x08], "corpus:amd64-lea-ax-addr32"),
        (5, 0x1000, le(0x0b226020), "corpus:a64-add-w-uxtx"),
        (5, 0x1000, le(0x6b22e020), "corpus:a64-subs-w-sxtx"),
        (5, 0x1000, le(0x8b226020), "corpus:a64-add-x-uxtx"),
        (0, 0x1000, vec![0x74, 0x00], "corpus:x86-je+0"),
        (1, 0x1000, vec![0x74, 0x00], "corpus:x86-je+0"),
        (0, 0x1000, vec![0x0f, 0x84, 0, 0, 0, 0], "corpus:x86-je-rel32+0"),
        (0, 0x1000, vec![0xe2, 0x00], "corpus:x86-loop+0"),
        (0, 0x1000, vec![0xe3, 0x00], "corpus:x86-jecxz+0"),
        (0, 0x1000, vec![0x74, 0x10], "corpus:x86-je"),
        (0, 0x1000, vec![0xf3, 0xa4], "corpus:x86-rep-movsb"),
        (0, 0x1000, vec![0x0f, 0xbc, 0xc3], "corpus:x86-bsf"),
        (2, 0x1000, be(0x10000001), "corpus:mips-beq-to-fallthrough-noslot"),
        (2, 0x1000, [be(0x10000001), be(0)].concat(), "corpus:mips-beq-to-fallthrough"),
        (2, 0x1000, [be(0x10220004), be(0)].concat(), "corpus:mips-beq"),
        (2, 0x1000, be(0x10220004), "corpus:mips-beq-noslot"),
        (3, 0x1000, [le(0x10220004), le(0)].concat(), "corpus:mipsel-beq"),
        (2, 0x1000, [be(0x0320f809), be(0)].concat(), "corpus:mips-jalr"),
        (2, 0x2639e8, [be(0x180028b8), be(0x14567a3c), be(0x8000091a)].concat(), "corpus:mips-branch-in-delay-slot"),
        (2, 0x1000, [be(0x10850004), be(0x18800008), be(0)].concat(), "corpus:mips-blez-in-delay-slot"),
        (2, 0x242cc8, [be(0xba56405c), be(0x09e9042a), be(0x0f3d7fff), be(0xbcd51466)].concat(), "corpus:mips-jal-in-delay-slot-of-j"),
        (2, 0x1000, be(0x0062080b), "corpus:mips-movn"),
        (2, 0xffff_ffff_ffff_fff0, [be(0), be(0), be(0), be(0)].concat(), "corpus:mips-top-of-memory"),
        (5, 0xffff_ffff_ffff_fff0, [le(0xd503201f), le(0xd503201f), le(0xd503201f), le(0xd503201f)].concat(), "corpus:a64-top-of-memory"),
        (4, 0xffff_ffff_ffff_fff0, [be(0x60000000), be(0x60000000), be(0x60000000), be(0x60000000)].concat(), "corpus:ppc-top-of-memory"),
        (0, 0xffff_ffff_ffff_fff1, vec![0x90; 15], "corpus:x86-top-of-memory"),
        (5, 0x1000, vec![0x1f, 0x20, 0x03], "corpus:a64-short-read"),
        (0, 0x1000, vec![], "corpus:empty"),
        (2, 0x1000, vec![], "corpus:empty"),
        (4, 0x1000, vec![], "corpus:empty"),
        (5, 0x1000, vec![], "corpus:empty"),
    ];
    // every A64 load/store-class word of C03's tests with an immediate / label operand shape
    for w in [0x10000000u32, 0x90000000, 0xd65f03c0, 0xd61f0000, 0xd63f0000, 0x94000001, 0x14000000, 0x14000001] {
        v.push((5, 0x1000, le(w), "corpus:a64-misc"));
    }
    v
}

struct Plan {
    seed: u64,
    segs: Vec<(u64, u8)>, // (count, segment kind)
    mips: Vec<u32>,
    mips_ctl: Vec<u32>,
    ppc: Vec<u32>,
    a64: Vec<u32>,
    corpus: Vec<(usize, u64, Vec<u8>, &'static str)>,
    full: bool,
    nrand: u64,
}
impl Plan {
    fn new(seed: u64, n: u64) -> Plan {
        let full = n >= 20000;
        let mips = mips_words(full);
        let ppc = ppc_words(full);
        let a64 = a64_words(full);
        let corpus = corpus();
        let mips_ctl: Vec<u32> = mips.iter().copied().filter(|w| mips_is_control(*w)).collect();
        let segs = vec![
            (corpus.len() as u64 * 2, 0u8),
            (mips.len() as u64 * 2 * 2 * 2, 1), // x {mips, mipsel} x policy x {alone, + delay-slot nop}
            (mips_ctl.len() as u64 * MIPS_CTL_SLOTS.len() as u64 * 2 * 2, 6), // a control transfer in a delay slot
            (ppc.len() as u64 * 2, 2),
            (a64.len() as u64 * 2 * 2, 3),
            (x86_count(full) * 2 * 2, 4),
            (n * 14, 5),
        ];
        Plan { seed, segs, mips, mips_ctl, ppc, a64, corpus, full, nrand: n }
    }
    fn total(&self) -> u64 {
        self.segs.iter().map(|s| s.0).sum()
    }
    fn at(&self, idx: u64) -> Input {
        let mut k = idx;
        for (cnt, kind) in &self.segs {
            if k < *cnt {
                return self.seg(*kind, k, idx);
            }
            k -= cnt;
        }
        panic!("index out of range")
    }
    fn seg(&self, kind: u8, k: u64, idx: u64) -> Input {
        match kind {
            0 => {
                let (tr, addr, bytes, class) = self.corpus[(k / 2) as usize].clone();
                Input { tr, intr: k % 2 == 1, addr, bytes, class }
            }
            1 => {
                let intr = k % 2 == 1;
                let tr = 2 + (k / 2 % 2) as usize;
                let slot = k / 4 % 2 == 1;
                let w = self.mips[(k / 8) as usize];
                let mut bytes = word_bytes(tr, w).to_vec();
                if slot {
                    bytes.extend_from_slice(&[0, 0, 0, 0]);
                }
                Input { tr, intr, addr: addr_of(idx), bytes, class: if slot { "sweep:mips+slot" } else { "sweep:mips" } }
            }
            6 => {
                let intr = k % 2 == 1;
                let tr = 2 + (k / 2 % 2) as usize;
                let slot = MIPS_CTL_SLOTS[(k / 4) as usize % MIPS_CTL_SLOTS.len()];
                let w = self.mips_ctl[(k / 4) as usize / MIPS_CTL_SLOTS.len()];
                let bytes = [word_bytes(tr, w), word_bytes(tr, slot)].concat();
                Input { tr, intr, addr: addr_of(idx), bytes, class: "sweep:mips-branch-in-slot" }
            }
            2 => {
                let w = self.ppc[(k / 2) as usize];
                Input { tr: 4, intr: k % 2 == 1, addr: addr_of(idx), bytes: word_bytes(4, w).to_vec(), class: "sweep:ppc" }
            }
            3 => {
                let tr = 5 + (k / 2 % 2) as usize;
                let w = self.a64[(k / 4) as usize];
                Input { tr, intr: k % 2 == 1, addr: addr_of(idx), bytes: word_bytes(tr, w).to_vec(), class: "sweep:a64" }
            }
            4 => {
                let tr = (k / 2 % 2) as usize;
                Input { tr, intr: k % 2 == 1, addr: addr_of(idx), bytes: x86_at(self.full, k / 4), class: "sweep:x86" }
            }
            _ => {
                let cfg = (k % 14) as usize;
                let (tr, intr) = (cfg / 2, cfg % 2 == 1);
                let mut r = Rng::for_case(self.seed, idx);
                let bytes: Vec<u8> = if tr < 2 {
                    let len = r.range(1, 15) as usize;
                    (0..len).map(|_| r.next() as u8).collect()
                } else {
                    let words = r.range(1, 4) as usize;
                    let mut b = vec![];
                    for _ in 0..words {
                        // half of the words come from the structured tables (supported encodings are rare
                        // among uniformly random words), with a few random bits flipped
                        let w = if r.chance(1, 2) {
                            let t = match tr { 2 | 3 => &self.mips, 4 => &self.ppc, _ => &self.a64 };
                            let mut w = *r.pick(t);
                            if r.chance(1, 2) {
                                w ^= 1 << r.below(32);
                            }
                            w
                        } else {
                            r.next() as u32
                        };
                        b.extend_from_slice(&word_bytes(tr, w));
                    }
                    if r.chance(1, 16) {
                        let cut = r.range(1, 3) as usize;
                        b.truncate(b.len() - cut);
                    }
                    b
                };
                let addr = if r.chance(1, 3) { addr_of(r.next()) } else { 0x1000 + 4 * r.below(1 << 20) };
                Input { tr, intr, addr, bytes, class: "random" }
            }
        }
    }
}

// ---------------------------------------------------------------- dumping
fn dump(r: &BlockTranslationResult, it: &mut Interner) -> String {
    let instrs: Vec<String> =
        r.instructions().iter().map(|(a, g)| format!("({}, {})", a, coq_cfg(g, None, it))).collect();
    let succs: Vec<String> =
        r.successors().iter().map(|(a, c)| format!("({}, {})", a, coq_opt(c.as_ref().map(|e| coq_expr(e, it))))).collect();
    format!("(mkbr {} {} {} {})", coq_list(instrs), r.address(), r.length(), coq_list(succs))
}
/// canonical text -> the values of constants wider than one bit renamed by first occurrence
fn rename_consts(raw: &str) -> String {
    let mut out = String::with_capacity(raw.len());
    let mut cmap: HashMap<String, usize> = HashMap::new();
    let mut rest = raw;
    while let Some(p) = rest.find("(mkc ") {
        out.push_str(&rest[..p + 5]);
        let tail = &rest[p + 5..];
        let end = tail.find(')').unwrap();
        let mut parts = tail[..end].split(' ');
        let w = parts.next().unwrap();
        let v = parts.next().unwrap();
        if w == "1" {
            out.push_str(&tail[..end]);
        } else {
            let n = cmap.len();
            let id = *cmap.entry(format!("{}:{}", w, v)).or_insert(n);
            out.push_str(&format!("{} #{}", w, id));
        }
        rest = &tail[end..];
    }
    out.push_str(rest);
    out
}
/// shapes of a dump: one per instruction graph and one for the successor list.  Instruction addresses are
/// dropped; scalar / intrinsic names, successor addresses and the values of constants wider than one bit are
/// renamed by first occurrence (equalities between them are preserved).  The checker is a conjunction of
/// per-graph checks and a successor-list check, and looks at widths, graph structure, syntactic equality of
/// sub-terms and 1-bit constants only -- so two results with the same set of shapes get the same verdict.
fn graph_hashes(r: &BlockTranslationResult) -> Vec<u64> {
    r.instructions()
        .iter()
        .map(|(_, g)| {
            let mut g2 = g.clone();
            g2.set_address(None);
            fnv(&rename_consts(&coq_cfg(&g2, None, &mut Interner::new())))
        })
        .collect()
}
fn succ_hash(r: &BlockTranslationResult) -> u64 {
    let mut it = Interner::new();
    let mut amap: BTreeMap<u64, usize> = BTreeMap::new();
    let succs: Vec<String> = r
        .successors()
        .iter()
        .map(|(a, c)| {
            let n = amap.len();
            let id = *amap.entry(*a).or_insert(n);
            format!("({}, {})", id, coq_opt(c.as_ref().map(|e| coq_expr(e, &mut it))))
        })
        .collect();
    fnv(&format!("succs {}", rename_consts(&coq_list(succs))))
}
fn shapes(r: &BlockTranslationResult) -> Vec<u64> {
    let mut hs: Vec<u64> = vec![];
    for h in graph_hashes(r) {
        if !hs.contains(&h) {
            hs.push(h);
        }
    }
    hs.push(succ_hash(r));
    hs
}

// ---------------------------------------------------------------- compact Gallina printer (Lift/C05Check.v: sc es ek ins blk)
// instruction addresses, next-index counters and (absent) phi nodes are not printed: no clause of the property
// and no validator looks at them
use falcon::il;
fn c_scalar(s: &il::Scalar, it: &mut Interner) -> String {
    match s.ssa() {
        None => format!("(sc {} {})", it.id(s.name()), s.bits()),
        Some(_) => coq_scalar(s, it),
    }
}
fn c_expr(e: &il::Expression, it: &mut Interner) -> String {
    use il::Expression::*;
    let b = |o: &str, l: &il::Expression, r: &il::Expression, it: &mut Interner| format!("(EBin {} {} {})", o, c_expr(l, it), c_expr(r, it));
    match e {
        Scalar(s) => match s.ssa() {
            None => format!("(es {} {})", it.id(s.name()), s.bits()),
            Some(_) => format!("(EScalar {})", coq_scalar(s, it)),
        },
        Constant(c) => format!("(ek {} {})", c.bits(), z_big(c.value())),
        Add(l, r) => b("Add", l, r, it),
        Sub(l, r) => b("Sub", l, r, it),
        Mul(l, r) => b("Mul", l, r, it),
        Divu(l, r) => b("Divu", l, r, it),
        Modu(l, r) => b("Modu", l, r, it),
        Divs(l, r) => b("Divs", l, r, it),
        Mods(l, r) => b("Mods", l, r, it),
        And(l, r) => b("And", l, r, it),
        Or(l, r) => b("Or", l, r, it),
        Xor(l, r) => b("Xor", l, r, it),
        Shl(l, r) => b("Shl", l, r, it),
        Shr(l, r) => b("Shr", l, r, it),
        AShr(l, r) => b("AShr", l, r, it),
        Cmpeq(l, r) => b("Cmpeq", l, r, it),
        Cmpneq(l, r) => b("Cmpneq", l, r, it),
        Cmplts(l, r) => b("Cmplts", l, r, it),
        Cmpltu(l, r) => b("Cmpltu", l, r, it),
        Zext(n, x) => format!("(EExt Zext {} {})", n, c_expr(x, it)),
        Sext(n, x) => format!("(EExt Sext {} {})", n, c_expr(x, it)),
        Trun(n, x) => format!("(EExt Trun {} {})", n, c_expr(x, it)),
        Ite(c, t, f) => format!("(EIte {} {} {})", c_expr(c, it), c_expr(t, it), c_expr(f, it)),
    }
}
fn c_op(o: &il::Operation, it: &mut Interner) -> String {
    use il::Operation::*;
    match o {
        Assign { dst, src } => format!("(OAssign {} {})", c_scalar(dst, it), c_expr(src, it)),
        Store { index, src } => format!("(OStore {} {})", c_expr(index, it), c_expr(src, it)),
        Load { dst, index } => format!("(OLoad {} {})", c_scalar(dst, it), c_expr(index, it)),
        Branch { target } => format!("(OBranch {})", c_expr(target, it)),
        Intrinsic { intrinsic } => {
            let m = it.id(&format!("intrinsic:{}", intrinsic.mnemonic()));
            let l = |v: &[il::Expression], it: &mut Interner| coq_list(v.iter().map(|e| c_expr(e, it)).collect::<Vec<_>>());
            let args = l(intrinsic.arguments(), it);
            let wr = coq_opt(intrinsic.written_expressions().map(|v| l(v, it)));
            let rd = coq_opt(intrinsic.read_expressions().map(|v| l(v, it)));
            format!("(OIntrinsic (mkintr {}%N {} {} {}))", m, args, wr, rd)
        }
        Nop { placeholder } => format!("(ONop {})", coq_opt(placeholder.as_ref().map(|p| c_op(p, it)))),
    }
}
fn c_cfg(g: &il::ControlFlowGraph, it: &mut Interner) -> String {
    let idx: Vec<usize> = g.blocks().iter().map(|b| b.index()).collect();
    let blocks: Vec<String> = g
        .blocks()
        .iter()
        .map(|b| {
            if b.phi_nodes().is_empty() {
                let is: Vec<String> = b.instructions().iter().map(|i| format!("(ins {} {})", i.index(), c_op(i.operation(), it))).collect();
                format!("(blk {} {})", b.index(), coq_list(is))
            } else {
                coq_block(b, None, &idx, it)
            }
        })
        .collect();
    let edges: Vec<String> =
        g.edges().iter().map(|e| format!("(mkedge {} {} {})", e.head(), e.tail(), coq_opt(e.condition().map(|c| c_expr(c, it))))).collect();
    let nx = idx.iter().map(|i| i + 1).max().unwrap_or(0);
    format!("(mkcfg {} {} {} {} {})", coq_list(blocks), coq_list(edges), nx, coq_optz(g.entry().map(|v| v as u64)), coq_optz(g.exit().map(|v| v as u64)))
}
/// the part of a result that shows the given (not yet covered) shapes: those instruction graphs, and the
/// successor list iff its shape is among them (`all` = everything)
fn project(r: &BlockTranslationResult, fresh: &[u64], all: bool) -> (String, usize, usize) {
    let mut it = Interner::new();
    let gh = graph_hashes(r);
    let mut shown: Vec<u64> = vec![];
    let mut instrs: Vec<String> = vec![];
    for ((a, g), h) in r.instructions().iter().zip(gh.iter()) {
        if all || (fresh.contains(h) && !shown.contains(h)) {
            shown.push(*h);
            instrs.push(format!("({}, {})", a, c_cfg(g, &mut it)));
        }
    }
    let succs: Vec<String> = if all || fresh.contains(&succ_hash(r)) {
        r.successors().iter().map(|(a, c)| format!("({}, {})", a, coq_opt(c.as_ref().map(|e| c_expr(e, &mut it))))).collect()
    } else {
        vec![]
    };
    let n = instrs.len();
    (format!("(LOk (mkbr {} {} {} {}))", coq_list(instrs), r.address(), r.length(), coq_list(succs)), n, r.instructions().len())
}
fn fnv(s: &str) -> u64 {
    let mut h: u64 = 0xcbf29ce484222325;
    for b in s.bytes() {
        h ^= b as u64;
        h = h.wrapping_mul(0x100000001b3);
    }
    h
}

/// outcome of one input
struct Outcome {
    kind: &'static str,
    relift: bool,
    hashes: Vec<u64>,
    term: String,
    size: usize,
    kf: Vec<String>,
}
thread_local! { static PANIC_AT: std::cell::RefCell<String> = std::cell::RefCell::new(String::new()); }
fn panic_site() -> String {
    PANIC_AT.with(|p| p.borrow().clone())
}
fn run_input(i: &Input) -> Outcome {
    let once = || catch_unwind(AssertUnwindSafe(|| lift(i.tr, &i.bytes, i.addr, i.intr)));
    let (a, b) = (once(), once());
    match (a, b) {
        (Ok(Ok(ra)), Ok(Ok(rb))) => {
            let ta = dump(&ra, &mut Interner::new());
            let tb = dump(&rb, &mut Interner::new());
            let size = ra.instructions().iter().map(|(_, g)| g.blocks().iter().map(|b| b.instructions().len()).sum::<usize>()).sum();
            Outcome { kind: "ok", relift: ta == tb, hashes: shapes(&ra), term: String::new(), size, kf: kf_tags(i, Some(&ra)) }
        }
        (Ok(Err(ea)), Ok(Err(eb))) => {
            let same = format!("{:?}", ea) == format!("{:?}", eb);
            Outcome { kind: "err", relift: same, hashes: vec![1], term: "LErr".into(), size: 0, kf: vec![] }
        }
        (Err(_), Err(_)) => Outcome { kind: "panic", relift: true, hashes: vec![fnv(&panic_site())], term: format!("LPanic (* {} *)", panic_site()), size: 0, kf: kf_tags(i, None) },
        (Err(_), _) | (_, Err(_)) => Outcome { kind: "panic", relift: false, hashes: vec![fnv(&panic_site())], term: format!("LPanic (* {} *)", panic_site()), size: 0, kf: kf_tags(i, None) },
        _ => Outcome { kind: "mixed", relift: false, hashes: vec![4], term: "LErr".into(), size: 0, kf: vec![] },
    }
}
/// coverage keys of an outcome: (translator, shape hash, relift flag, known-finding tags)
fn cover_keys(i: &Input, kind: &str, relift: bool, hashes: &[u64], kf: &[String]) -> Vec<(usize, u64, bool, String)> {
    let kf = kf.join(",");
    let salt = fnv(kind);
    hashes.iter().map(|h| (i.tr, h ^ salt, relift, kf.clone())).collect()
}

// ---------------------------------------------------------------- child
fn child_main(args: &Args) {
    let plan = Plan::new(args.seed, args.n);
    let lo: u64 = args.extra["lo"].parse().unwrap();
    let hi: u64 = args.extra["hi"].parse().unwrap();
    let stdout = std::io::stdout();
    let mut out = std::io::BufWriter::with_capacity(1 << 16, stdout.lock());
    let mut seen: std::collections::HashSet<(usize, u64, bool, String)> = std::collections::HashSet::new();
    std::panic::set_hook(Box::new(|info| {
        let at = info.location().map(|l| format!("{}:{}", l.file(), l.line())).unwrap_or_default();
        PANIC_AT.with(|p| *p.borrow_mut() = at);
    }));
    for idx in lo..hi {
        let i = plan.at(idx);
        // announce, so that the parent can attribute a dead / stalled child to this input
        writeln!(out, "S {}", idx).unwrap();
        out.flush().unwrap();
        let o = run_input(&i);
        let mut new = false;
        for k in cover_keys(&i, o.kind, o.relift, &o.hashes, &o.kf) {
            new |= seen.insert(k);
        }
        let hs = o.hashes.iter().map(|h| format!("{:x}", h)).collect::<Vec<_>>().join(",");
        let _ = new;
        let kf = if o.kf.is_empty() { "-".to_string() } else { o.kf.join(",") };
        writeln!(out, "R {} {} {} {} {} {} {}", idx, o.kind, o.relift as u8, hs, o.size, kf, if o.term.is_empty() { "-" } else { &o.term }).unwrap();
    }
    out.flush().unwrap();
}

// ---------------------------------------------------------------- parent
struct Rec {
    idx: u64,
    kind: String,
    relift: bool,
    hashes: Vec<u64>,
    size: usize,
    kf: Vec<String>,
    term: Option<String>,
}
/// run inputs [lo, hi) in child processes; a dead or stalled child yields an `abort` / `timeout` record for
/// the in-flight input and a fresh child behind it
fn run_range(exe: &std::path::Path, args: &Args, lo: u64, hi: u64, stall: Duration) -> Vec<Rec> {
    let mut recs = vec![];
    let mut next = lo;
    while next < hi {
        let mut child = Command::new(exe)
            .args(["--child", "1", "--seed", &args.seed.to_string(), "--n", &args.n.to_string(), "--lo", &next.to_string(), "--hi", &hi.to_string()])
            .stdin(Stdio::null())
            .stdout(Stdio::piped())
            .stderr(Stdio::null())
            .spawn()
            .expect("spawn child");
        let so = child.stdout.take().unwrap();
        let (tx, rx) = mpsc::channel::<String>();
        let reader = std::thread::spawn(move || {
            for line in BufReader::with_capacity(1 << 16, so).lines() {
                match line {
                    Ok(l) => {
                        if tx.send(l).is_err() {
                            break;
                        }
                    }
                    Err(_) => break,
                }
            }
        });
        let mut inflight: Option<u64> = None;
        let mut verdict: Option<&'static str> = None;
        loop {
            match rx.recv_timeout(stall) {
                Ok(l) => {
                    let mut p = l.splitn(8, ' ');
                    match p.next() {
                        Some("S") => inflight = Some(p.next().unwrap().parse().unwrap()),
                        Some("R") => {
                            let idx: u64 = p.next().unwrap().parse().unwrap();
                            let kind = p.next().unwrap().to_string();
                            let relift = p.next().unwrap() == "1";
                            let hashes: Vec<u64> = p.next().unwrap().split(',').map(|h| u64::from_str_radix(h, 16).unwrap()).collect();
                            let size: usize = p.next().unwrap().parse().unwrap();
                            let kf: Vec<String> = match p.next().unwrap() { "-" => vec![], x => x.split(',').map(|y| y.to_string()).collect() };
                            let t = p.next().unwrap();
                            recs.push(Rec { idx, kind, relift, hashes, size, kf, term: if t == "-" { None } else { Some(t.to_string()) } });
                            inflight = None;
                            next = idx + 1;
                        }
                        _ => {}
                    }
                }
                Err(mpsc::RecvTimeoutError::Timeout) => {
                    verdict = Some("timeout");
                    break;
                }
                Err(mpsc::RecvTimeoutError::Disconnected) => break,
            }
        }
        if verdict == Some("timeout") {
            let _ = child.kill();
        }
        let status = child.wait().ok();
        let _ = reader.join();
        let clean = verdict.is_none() && status.map(|s| s.success()).unwrap_or(false);
        if clean && inflight.is_none() {
            if next < hi {
                // the child ended early without an in-flight input: treat the next input as the culprit
                recs.push(Rec { idx: next, kind: "abort".into(), relift: true, hashes: vec![5], size: 0, kf: vec![], term: Some("LAbort".into()) });
                next += 1;
            }
            continue;
        }
        let culprit = inflight.unwrap_or(next);
        let (kind, term, hash) = if verdict == Some("timeout") { ("timeout", "LTimeout", 6u64) } else { ("abort", "LAbort", 5u64) };
        // every abort / timeout is its own case: the hash is salted with the input index
        recs.push(Rec { idx: culprit, kind: kind.into(), relift: true, hashes: vec![hash ^ mix(culprit)], size: 0, kf: vec![], term: Some(term.into()) });
        next = culprit + 1;
    }
    recs
}

/// head of one x86 instruction at a known instruction start: legacy prefixes, REX (amd64), opcode, ModRM
struct X86Head {
    p66: bool,
    rex_w: bool,
    op: u16, // 0x0fxx for the two-byte map
    modrm: Option<u8>,
}
fn x86_head(b: &[u8], amd64: bool) -> Option<X86Head> {
    let mut k = 0;
    let mut p66 = false;
    let mut rex_w = false;
    // legacy prefixes in any order; in 64-bit mode a REX byte counts only when it immediately precedes the opcode
    while k < b.len() {
        if matches!(b[k], 0x66 | 0x67 | 0xf0 | 0xf2 | 0xf3 | 0x2e | 0x36 | 0x3e | 0x26 | 0x64 | 0x65) {
            p66 |= b[k] == 0x66;
            rex_w = false;
        } else if amd64 && (0x40..=0x4f).contains(&b[k]) {
            rex_w = b[k] & 8 != 0;
        } else {
            break;
        }
        k += 1;
    }
    let op = if *b.get(k)? == 0x0f {
        k += 1;
        0x0f00 | *b.get(k)? as u16
    } else {
        b[k] as u16
    };
    Some(X86Head { p66, rex_w, op, modrm: b.get(k + 1).copied() })
}
/// Known-finding classes: exact decode-level predicates on the input -- x86: evaluated at every INSTRUCTION START
/// of the block (the starts are the instruction addresses of the lifter's own result) on prefixes + opcode + ModRM
/// form (`x86_head`); fixed-width ISAs: exact bit pattern of an instruction word.  Each class names the single
/// clause it is known to violate (`tol_of`): the Coq tie of a tagged case demands that nothing else fails.
/// There is currently NO known-finding class: the four classes of the first rounds (x86 branch-target width,
/// mov Sreg width, amd64 bsf/bsr 66+REX.W, A64 SVE add/sub immediate) were fixed in falcon.
fn kf_tags(i: &Input, res: Option<&BlockTranslationResult>) -> Vec<String> {
    let t: Vec<String> = vec![];
    // keep the decoder exercised so that a future class is a three-line addition
    if i.tr <= 1 {
        if let Some(r) = res {
            for (a, _) in r.instructions() {
                let off = a.wrapping_sub(i.addr) as usize;
                if off < i.bytes.len() {
                    let _ = x86_head(&i.bytes[off..], i.tr == 1).map(|h| (h.p66, h.rex_w, h.op, h.modrm));
                }
            }
        }
    }
    t
}
fn tol_of(tag: &str) -> &'static str {
    match tag {
        // "kf:<class>" => "TAssignWidth" | "TBranchWidth" | "TIndexWidth" | "TPanic"
        _ => "TPanic",
    }
}
fn tols(kf: &[String]) -> String {
    let mut v: Vec<&str> = kf.iter().map(|t| tol_of(t)).collect();
    v.dedup();
    coq_list(v.into_iter().map(|x| x.to_string()))
}

fn main() {
    quiet_panics();
    let args = parse_args();
    if args.extra.contains_key("child") {
        child_main(&args);
        return;
    }
    let header = "From Coq Require Import ZArith List NArith.\nFrom Falcon Require Import Base.Res IL.Const IL.Expr IL.Func Lift.Wf Lift.GuardDecide Lift.C05Check.\nImport ListNotations.\nLocal Open Scope Z_scope.";
    let index_file = format!("{}/inputs_{}_{}.txt", args.out, args.seed, args.n);
    // ---- replay of one case: re-lift its representative input (recorded by the last full run)
    if let Some(only) = args.only {
        let plan_n = args.extra.get("plan-n").and_then(|s| s.parse().ok());
        let rep: Option<Input> = std::fs::read_dir(&args.out).ok().and_then(|d| {
            for e in d.flatten() {
                let n = e.file_name().to_string_lossy().to_string();
                if n.starts_with(&format!("inputs_{}_", args.seed)) && plan_n.map(|p: u64| n == format!("inputs_{}_{}.txt", args.seed, p)).unwrap_or(true) {
                    let txt = std::fs::read_to_string(e.path()).ok()?;
                    let line = txt.lines().nth(only as usize)?;
                    let mut p = line.split(' ');
                    let tr: usize = p.next()?.parse().ok()?;
                    let intr = p.next()? == "1";
                    let addr: u64 = p.next()?.parse().ok()?;
                    let hex = p.next()?;
                    let bytes = (0..hex.len() / 2).map(|j| u8::from_str_radix(&hex[2 * j..2 * j + 2], 16).unwrap()).collect();
                    return Some(Input { tr, intr, addr, bytes, class: "replay" });
                }
            }
            None
        });
        let i = rep.expect("no input index of a previous full run in the output directory: run the full check first");
        // in-process is enough for a replay of a panic / wf failure; an abort shows as a dead harness
        std::panic::set_hook(Box::new(|info| {
            let at = info.location().map(|l| format!("{}:{}", l.file(), l.line())).unwrap_or_default();
            PANIC_AT.with(|p| *p.borrow_mut() = at);
        }));
        let o = run_input(&i);
        let bits = TR[i.tr].1;
        let term = if o.kind == "ok" {
            match catch_unwind(AssertUnwindSafe(|| lift(i.tr, &i.bytes, i.addr, i.intr))) {
                Ok(Ok(res)) => project(&res, &[], true).0,
                _ => "LPanic".to_string(),
            }
        } else {
            o.term.clone()
        };
        let case = Case {
            coq: format!("(KLift {} {} {} {})", bits, coq_bool(o.relift), tols(&o.kf), term),
            descr: format!("{} -> {} {}", i.descr(), o.kind, if o.kind == "panic" { panic_site() } else { String::new() }),
            tags: [vec![TR[i.tr].0.to_string(), o.kind.to_string()], o.kf.clone()].concat(),
            nontrivial: o.size > 0,
            key: format!("{:?}", o.hashes),
        };
        write_cases(&args, "C05", header, "ck", &[case], 1, serde_json::json!({"replay_of": only}));
        return;
    }
    // ---- full run
    let plan = Plan::new(args.seed, args.n);
    let total = plan.total();
    let exe = std::env::current_exe().unwrap();
    let workers: u64 = args.extra.get("workers").and_then(|s| s.parse().ok()).unwrap_or(12);
    let stall = Duration::from_secs(args.extra.get("stall").and_then(|s| s.parse().ok()).unwrap_or(180));
    // contiguous chunks, a few per worker so that the slow segments are spread
    let chunk = ((total + workers * 6 - 1) / (workers * 6)).max(1);
    let chunks: Vec<(u64, u64)> = (0..total).step_by(chunk as usize).map(|lo| (lo, (lo + chunk).min(total))).collect();
    let queue = std::sync::Arc::new(std::sync::Mutex::new(chunks.into_iter().rev().collect::<Vec<_>>()));
    let results = std::sync::Arc::new(std::sync::Mutex::new(Vec::<Rec>::new()));
    let mut handles = vec![];
    for _ in 0..workers {
        let (queue, results, exe) = (queue.clone(), results.clone(), exe.clone());
        let a = Args { seed: args.seed, n: args.n, out: args.out.clone(), only: None, extra: BTreeMap::new() };
        handles.push(std::thread::spawn(move || loop {
            let job = queue.lock().unwrap().pop();
            match job {
                Some((lo, hi)) => {
                    let r = run_range(&exe, &a, lo, hi, stall);
                    results.lock().unwrap().extend(r);
                }
                None => break,
            }
        }));
    }
    for h in handles {
        h.join().unwrap();
    }
    let mut recs = std::mem::take(&mut *results.lock().unwrap());
    recs.sort_by_key(|r| r.idx);
    assert_eq!(recs.len() as u64, total, "every input accounted for");
    // ---- select: an input becomes a case iff it shows an instruction-graph shape, a successor-list shape, an
    // error / panic site or a known-finding class not covered by an earlier selected input (greedy, input order)
    struct Group {
        rep: Input,
        term: String,
        kind: String,
        relift: bool,
        new_shapes: usize,
        shown: String,
        size: usize,
        hashes: Vec<u64>,
        kf: Vec<String>,
    }
    let mut groups: Vec<Group> = vec![];
    let mut seen: std::collections::HashSet<(usize, u64, bool, String)> = std::collections::HashSet::new();
    let mut stats: BTreeMap<String, u64> = BTreeMap::new();
    let mut shape_inputs: HashMap<(usize, u64), u64> = HashMap::new();
    for r in &recs {
        let i = plan.at(r.idx);
        *stats.entry(format!("{}:{}:{}", TR[i.tr].0, if i.intr { "intrinsics" } else { "errors" }, r.kind)).or_insert(0) += 1;
        for h in &r.hashes {
            *shape_inputs.entry((i.tr, *h)).or_insert(0) += 1;
        }
        let mut fresh: Vec<u64> = vec![];
        for (k, h) in cover_keys(&i, &r.kind, r.relift, &r.hashes, &r.kf).into_iter().zip(r.hashes.iter()) {
            if seen.insert(k) {
                fresh.push(*h);
            }
        }
        if !fresh.is_empty() {
            // the Gallina term: for a result, the part of the block that shows the new shapes (re-lifted here: the
            // child survived this input, and a panic is caught)
            let (term, shown) = if r.kind == "ok" {
                match catch_unwind(AssertUnwindSafe(|| lift(i.tr, &i.bytes, i.addr, i.intr))) {
                    Ok(Ok(res)) => {
                        let (t, n, m) = project(&res, &fresh, !r.relift);
                        (t, format!("{} of its {} instruction graphs shown", n, m))
                    }
                    _ => ("LPanic (* third lift of the input disagrees with the first two *)".to_string(), String::new()),
                }
            } else {
                (r.term.clone().unwrap_or_else(|| "LErr".into()), String::new())
            };
            let kf = r.kf.clone();
            groups.push(Group { rep: i, term, kind: r.kind.clone(), relift: r.relift, new_shapes: fresh.len(), size: r.size, hashes: r.hashes.clone(), kf, shown });
        }
    }
    let cases: Vec<Case> = groups
        .iter()
        .map(|g| {
            let bits = TR[g.rep.tr].1;
            let mut tags = vec![
                TR[g.rep.tr].0.to_string(),
                format!("policy:{}", if g.rep.intr { "intrinsics" } else { "errors" }),
                format!("result:{}", g.kind),
                g.rep.class.split(':').next().unwrap().to_string(),
            ];
            tags.extend(g.kf.iter().cloned());
            let covered: u64 = g.hashes.iter().map(|h| shape_inputs[&(g.rep.tr, *h)]).min().unwrap_or(1);
            Case {
                coq: format!("(KLift {} {} {} {})", bits, coq_bool(g.relift), tols(&g.kf), g.term),
                descr: format!(
                    "{} -> {}{} ({} IL instructions; {} shapes first seen here{}; rarest of its shapes occurs in {} inputs)",
                    g.rep.descr(), g.kind,
                    g.term.find("(*").map(|p| format!(" at {}", g.term[p + 2..].trim_end_matches("*)").trim())).unwrap_or_default(),
                    g.size, g.new_shapes, if g.shown.is_empty() { String::new() } else { format!(", {}", g.shown) }, covered
                ),
                tags,
                nontrivial: g.size > 0,
                key: format!("{}:{}", g.rep.tr, g.hashes.iter().map(|h| format!("{:x}", h)).collect::<Vec<_>>().join(",")),
            }
        })
        .collect();
    std::fs::create_dir_all(&args.out).unwrap();
    for e in std::fs::read_dir(&args.out).unwrap().flatten() {
        if e.file_name().to_string_lossy().starts_with("inputs_") {
            let _ = std::fs::remove_file(e.path());
        }
    }
    std::fs::write(&index_file, groups.iter().map(|g| g.rep.spec()).collect::<Vec<_>>().join("\n")).unwrap();
    let per_seg: Vec<u64> = plan.segs.iter().map(|s| s.0).collect();
    write_cases(
        &args,
        "C05",
        header,
        "ck",
        &cases,
        8,
        serde_json::json!({
            "inputs_lifted": total, "lifts": total * 2, "distinct_shapes": cases.len(),
            "segments": {"corpus": per_seg[0], "mips_sweep": per_seg[1], "ppc_sweep": per_seg[3], "a64_sweep": per_seg[4], "x86_sweep": per_seg[5], "random": per_seg[6], "mips_branch_in_slot": per_seg[2]},
            "structured_words": {"mips": plan.mips.len(), "ppc": plan.ppc.len(), "a64": plan.a64.len(), "x86_strings": x86_count(plan.full)},
            "full_sweeps": plan.full, "random_per_configuration": plan.nrand,
            "outcomes": stats,
        }),
    );
}
