//! C01 harness: x86 / amd64 lifter against the processor and the Coq ISA specification.
//!
//! One case = one instruction encoding (generated from opcode tables below), lifted with the REAL lifter
//! (`translator::x86::{X86, Amd64}::translate_block`), its IL dumped as Gallina, plus sampled machine states.
//! For 64-bit mode every (bytes, state) pair is executed natively by `native/x86run.c` and the processor's
//! result is embedded in the case.  Everything is compared inside Coq (`Isa/C01Check.v`).
use falcon::translator::x86::{Amd64, X86};
use falcon::translator::{Options, Translator};
use fvh::ilgen::{coq_cfg, coq_expr, Interner};
use fvh::*;
use std::collections::BTreeMap;
use std::io::Write;
use std::process::{Command, Stdio};

const LOW: u64 = 0x1000_0000;
const HIGH: u64 = 0x7654_3210_0000;
const RSZ: u64 = 0x10000;
const CODE_AT: u64 = 0x4000_1000;
const FLAG_MASK: u64 = 0xCD5;

#[derive(Clone, Copy, PartialEq, Eq, Debug)]
enum Mode {
    M32,
    M64,
}
impl Mode {
    fn word(self) -> u8 {
        if self == Mode::M64 { 64 } else { 32 }
    }
    fn coq(self) -> &'static str {
        if self == Mode::M64 { "M64" } else { "M32" }
    }
    fn nregs(self) -> u64 {
        if self == Mode::M64 { 16 } else { 8 }
    }
}

// ---------------------------------------------------------------- operands
#[derive(Clone, Debug, PartialEq)]
enum Op {
    Reg(u8),
    RegH(u8),
    Mem { base: Option<u8>, index: Option<(u8, u8)>, disp: i64, asz: u8, rip: bool },
    Imm(u64),
}
const R64: [&str; 16] = ["rax", "rcx", "rdx", "rbx", "rsp", "rbp", "rsi", "rdi", "r8", "r9", "r10", "r11", "r12", "r13", "r14", "r15"];
const R32: [&str; 16] = ["eax", "ecx", "edx", "ebx", "esp", "ebp", "esi", "edi", "r8d", "r9d", "r10d", "r11d", "r12d", "r13d", "r14d", "r15d"];
const R16: [&str; 16] = ["ax", "cx", "dx", "bx", "sp", "bp", "si", "di", "r8w", "r9w", "r10w", "r11w", "r12w", "r13w", "r14w", "r15w"];
const R8: [&str; 16] = ["al", "cl", "dl", "bl", "spl", "bpl", "sil", "dil", "r8b", "r9b", "r10b", "r11b", "r12b", "r13b", "r14b", "r15b"];
const R8H: [&str; 4] = ["ah", "ch", "dh", "bh"];
fn regname(r: u8, sz: u8) -> String {
    match sz {
        8 => R8[r as usize].into(),
        16 => R16[r as usize].into(),
        32 => R32[r as usize].into(),
        64 => R64[r as usize].into(),
        128 => format!("xmm{}", r),
        _ => format!("r{}?{}", r, sz),
    }
}
fn mask(bits: u8) -> u64 {
    if bits >= 64 { u64::MAX } else { (1u64 << bits) - 1 }
}
impl Op {
    fn text(&self, sz: u8) -> String {
        match self {
            Op::Reg(r) => regname(*r, sz),
            Op::RegH(r) => R8H[*r as usize].into(),
            Op::Imm(v) => format!("0x{:x}", v),
            Op::Mem { base, index, disp, asz, rip } => {
                let mut s = String::new();
                if *rip {
                    s = format!("rip:0x{:x}", disp);
                } else {
                    if let Some(b) = base { s += &regname(*b, *asz); }
                    if let Some((i, sc)) = index {
                        if !s.is_empty() { s += "+"; }
                        s += &format!("{}*{}", regname(*i, *asz), sc);
                    }
                    if *disp != 0 || s.is_empty() {
                        if *disp < 0 { s += &format!("-0x{:x}", -disp); } else { if !s.is_empty() { s += "+"; } s += &format!("0x{:x}", disp); }
                    }
                }
                format!("{}[{}]", match sz { 8 => "byte", 16 => "word", 32 => "dword", 64 => "qword", 128 => "xmmword", _ => "" }, s)
            }
        }
    }
    fn coq(&self) -> String {
        match self {
            Op::Reg(r) => format!("(OReg {})", r),
            Op::RegH(r) => format!("(ORegH {})", r),
            Op::Imm(v) => format!("(OImm {})", v),
            Op::Mem { base, index, disp, asz, rip: _ } => format!(
                "(OMem {} {} {} {})",
                coq_opt(base.map(|b| format!("{}", b))),
                coq_opt(index.map(|(i, s)| format!("({}, {})", i, s))),
                z_i128(*disp as i128),
                asz
            ),
        }
    }
    fn is_mem(&self) -> bool {
        matches!(self, Op::Mem { .. })
    }
    /// effective address under register file `g`
    fn ea(&self, g: &[u64; 16]) -> u64 {
        match self {
            Op::Mem { base, index, disp, asz, .. } => {
                let mut a = *disp as u64;
                if let Some(b) = base { a = a.wrapping_add(g[*b as usize]); }
                if let Some((i, s)) = index { a = a.wrapping_add(g[*i as usize].wrapping_mul(*s as u64)); }
                a & mask(*asz)
            }
            _ => 0,
        }
    }
}

// ---------------------------------------------------------------- encoder
#[derive(Clone, Copy)]
enum RegF {
    Digit(u8),
    R(u8, bool), // register number, is-byte-register
    H(u8),       // ah ch dh bh
}
struct Enc<'a> {
    mode: Mode,
    opsz: u8,   // 8/16/32/64 (128: no operand-size effect)
    def64: bool, // operand size defaults to 64 in long mode (push/pop/call/jmp)
    pre: &'a [u8],
    opc: &'a [u8],
    reg: Option<RegF>,
    rm: Option<(&'a Op, bool)>, // operand, is-byte when a register
    plusr: Option<(u8, bool)>,
    imm: Vec<u8>,
}
fn imm_bytes(v: u64, n: usize) -> Vec<u8> {
    v.to_le_bytes()[..n].to_vec()
}
fn enc(e: &Enc) -> Option<Vec<u8>> {
    let m64 = e.mode == Mode::M64;
    let mut rex: u8 = 0;
    let mut need_rex = false;
    let mut high = false;
    let mut chk = |n: u8, byte: bool| -> Option<()> {
        if !m64 && n >= 8 { return None; }
        if byte && (4..8).contains(&n) {
            if !m64 { return None; }
            need_rex = true;
        }
        Some(())
    };
    let mut out = vec![];
    if e.opsz == 16 { out.push(0x66); }
    if e.opsz == 64 {
        if !m64 { return None; }
        if !e.def64 { rex |= 8; }
    }
    if e.opsz == 32 && e.def64 && m64 { return None; }
    // address-size prefix
    if let Some((Op::Mem { asz, .. }, _)) = e.rm {
        if *asz != e.mode.word() {
            if (m64 && *asz == 32) || (!m64 && *asz == 16) { out.push(0x67); } else { return None; }
        }
    }
    out.extend_from_slice(e.pre);
    let mut modrm: Option<u8> = None;
    let mut tail: Vec<u8> = vec![];
    let mut rip_patch: Option<(usize, u64)> = None;
    let regbits = match e.reg {
        Some(RegF::Digit(d)) => Some(d),
        Some(RegF::R(n, b)) => { chk(n, b)?; if n >= 8 { rex |= 4; } Some(n & 7) }
        Some(RegF::H(n)) => { high = true; Some(4 + n) }
        None => None,
    };
    if let Some((rm, isbyte)) = e.rm {
        let rb = regbits.unwrap_or(0);
        match rm {
            Op::Reg(n) => { chk(*n, isbyte)?; if *n >= 8 { rex |= 1; } modrm = Some(0xC0 | (rb << 3) | (n & 7)); }
            Op::RegH(n) => { high = true; modrm = Some(0xC0 | (rb << 3) | (4 + n)); }
            Op::Imm(_) => return None,
            Op::Mem { base, index, disp, asz: 16, .. } => {
                // 16-bit addressing (32-bit mode with 0x67): bx/bp + si/di + disp
                let rmv: u8 = match (base, index) {
                    (Some(3), Some((6, 1))) => 0,
                    (Some(3), Some((7, 1))) => 1,
                    (Some(5), Some((6, 1))) => 2,
                    (Some(5), Some((7, 1))) => 3,
                    (Some(6), None) => 4,
                    (Some(7), None) => 5,
                    (Some(5), None) => 6,
                    (Some(3), None) => 7,
                    (None, None) => 6,
                    _ => return None,
                };
                if *disp < -32768 || *disp > 65535 { return None; }
                if base.is_none() {
                    modrm = Some((rb << 3) | 6);
                    tail.extend_from_slice(&imm_bytes(*disp as u64, 2));
                } else if *disp == 0 && rmv != 6 {
                    modrm = Some((rb << 3) | rmv);
                } else if *disp >= -128 && *disp <= 127 {
                    modrm = Some(0x40 | (rb << 3) | rmv);
                    tail.push(*disp as u8);
                } else {
                    modrm = Some(0x80 | (rb << 3) | rmv);
                    tail.extend_from_slice(&imm_bytes(*disp as u64, 2));
                }
            }
            Op::Mem { base, index, disp, rip, .. } => {
                if let Some(b) = base { chk(*b, false)?; }
                if let Some((i, _)) = index { chk(*i, false)?; if *i == 4 { return None; } }
                if *rip {
                    if !m64 { return None; }
                    modrm = Some((rb << 3) | 5);
                    rip_patch = Some((0, *disp as u64));
                    tail.extend_from_slice(&[0, 0, 0, 0]);
                } else {
                    match (base, index) {
                        (None, None) => {
                            if m64 { modrm = Some((rb << 3) | 4); tail.push(0x25); } else { modrm = Some((rb << 3) | 5); }
                            if *disp < i32::MIN as i64 || *disp > u32::MAX as i64 { return None; }
                            tail.extend_from_slice(&imm_bytes(*disp as u64, 4));
                        }
                        _ => {
                            let b = base.unwrap_or(5);
                            let nobase = base.is_none();
                            let md: u8 = if nobase { 0 } else if *disp == 0 && (b & 7) != 5 { 0 } else if *disp >= -128 && *disp <= 127 { 1 } else { 2 };
                            if *disp < i32::MIN as i64 || *disp > i32::MAX as i64 { return None; }
                            if b >= 8 && !nobase { rex |= 1; }
                            if index.is_some() || (b & 7) == 4 || nobase {
                                let (ib, sb) = match index {
                                    Some((i, s)) => { if *i >= 8 { rex |= 2; } (i & 7, match s { 1 => 0, 2 => 1, 4 => 2, 8 => 3, _ => return None }) }
                                    None => (4, 0),
                                };
                                modrm = Some((md << 6) | (rb << 3) | 4);
                                tail.push((sb << 6) | (ib << 3) | (b & 7));
                            } else {
                                modrm = Some((md << 6) | (rb << 3) | (b & 7));
                            }
                            if nobase || md == 2 { tail.extend_from_slice(&imm_bytes(*disp as u64, 4)); } else if md == 1 { tail.push(*disp as u8); }
                        }
                    }
                }
            }
        }
    } else if let Some(rb) = regbits {
        // no rm: only a digit/reg without modrm is not used
        let _ = rb;
    }
    let mut opc = e.opc.to_vec();
    if let Some((n, byte)) = e.plusr {
        chk(n, byte)?;
        if n >= 8 { rex |= 1; }
        let l = opc.len();
        opc[l - 1] += n & 7;
    }
    if rex != 0 || need_rex {
        if high || !m64 { return None; }
        out.push(0x40 | rex);
    }
    out.extend_from_slice(&opc);
    if let Some(mr) = modrm { out.push(mr); }
    let tail_at = out.len();
    out.extend_from_slice(&tail);
    out.extend_from_slice(&e.imm);
    if let Some((_, target)) = rip_patch {
        let next = CODE_AT + out.len() as u64;
        let rel = target.wrapping_sub(next) as i64;
        if rel < i32::MIN as i64 || rel > i32::MAX as i64 { return None; }
        out[tail_at..tail_at + 4].copy_from_slice(&imm_bytes(rel as u64, 4));
    }
    if out.len() > 15 { return None; }
    Some(out)
}

// ---------------------------------------------------------------- forms
#[derive(Clone)]
struct Form {
    mode: Mode,
    coq: String,      // Gallina `instr`
    text: String,     // human rendering
    bytes: Vec<u8>,
    class: &'static str, // sampler hint / coverage class
    mnem: String,
    sz: u8,
    ops: Vec<Op>,     // explicit operands (for addressing fix-up and windows)
    sse: bool,
    aux: i64,         // class-specific (rep kind, branch target, ...)
    alias: bool,      // generated by G::aliasing (operand aliasing forms: visited first, 1 in 4)
}

struct G {
    mode: Mode,
    forms: Vec<Form>,
    r: Rng,
    in_alias: bool,
}
const ALU_C: [&str; 8] = ["AAdd", "AOr", "AAdc", "ASbb", "AAnd", "ASub", "AXor", "ACmp"];
const ALU_M: [&str; 8] = ["add", "or", "adc", "sbb", "and", "sub", "xor", "cmp"];
const CC_C: [&str; 16] = ["CO", "CNO", "CB", "CAE", "CE", "CNE", "CBE", "CA", "CS", "CNS", "CP", "CNP", "CL", "CGE", "CLE", "CG"];
const CC_M: [&str; 16] = ["o", "no", "b", "ae", "e", "ne", "be", "a", "s", "ns", "p", "np", "l", "ge", "le", "g"];

impl G {
    fn sizes(&self) -> Vec<u8> {
        if self.mode == Mode::M64 { vec![8, 16, 32, 64] } else { vec![8, 16, 32] }
    }
    fn wsizes(&self) -> Vec<u8> {
        if self.mode == Mode::M64 { vec![16, 32, 64] } else { vec![16, 32] }
    }
    fn gp(&mut self) -> u8 {
        loop {
            let r = self.r.below(self.mode.nregs()) as u8;
            if r != 4 || self.r.chance(1, 8) { return r; }
        }
    }
    fn gp_nosp(&mut self) -> u8 {
        loop { let r = self.r.below(self.mode.nregs()) as u8; if r != 4 { return r; } }
    }
    /// register operand of size sz; `high`: prefer a legacy high-byte register for sz = 8
    fn rop(&mut self, sz: u8, high: bool) -> Op {
        if sz == 8 {
            if high { return Op::RegH(self.r.below(4) as u8); }
            if self.mode == Mode::M32 { return Op::Reg(self.r.below(4) as u8); }
        }
        Op::Reg(self.gp())
    }
    fn imm(&mut self, bits: u8) -> u64 {
        let v = match self.r.below(9) {
            0 => 0,
            1 => 1,
            2 => u64::MAX,
            3 => (1u64 << (bits - 1)) - 1,
            4 => 1u64 << (bits - 1),
            5 => 0x7f,
            6 => 0x80,
            _ => self.r.next(),
        };
        v & mask(bits)
    }
    fn mem(&mut self, k: u64) -> Op {
        let m64 = self.mode == Mode::M64;
        let w = self.mode.word();
        let d8 = (self.r.below(200) as i64) - 100;
        let d32 = (self.r.below(0x6000) as i64) - 0x3000;
        let sc = *self.r.pick(&[1u8, 2, 4, 8]);
        match k % 8 {
            0 => Op::Mem { base: Some(self.gp_nosp()), index: None, disp: 0, asz: w, rip: false },
            1 => Op::Mem { base: Some(self.gp_nosp()), index: None, disp: d8, asz: w, rip: false },
            2 => Op::Mem { base: Some(self.gp_nosp()), index: Some((self.gp_nosp(), sc)), disp: d32, asz: w, rip: false },
            3 => Op::Mem { base: None, index: None, disp: (LOW + 0x4000 + self.r.below(0x4000)) as i64, asz: w, rip: false },
            4 => {
                if m64 { Op::Mem { base: None, index: None, disp: (LOW + 0x4000 + self.r.below(0x4000)) as i64, asz: 64, rip: true } }
                else { Op::Mem { base: Some(self.gp_nosp()), index: Some((self.gp_nosp(), sc)), disp: d8, asz: w, rip: false } }
            }
            5 => Op::Mem { base: Some(4), index: None, disp: d8.abs() & !3, asz: w, rip: false },
            6 => {
                if m64 { Op::Mem { base: Some(self.gp_nosp()), index: None, disp: d8, asz: 32, rip: false } }
                else { Op::Mem { base: None, index: Some((self.gp_nosp(), sc)), disp: (LOW + 0x4000 + self.r.below(0x4000)) as i64, asz: w, rip: false } }
            }
            _ => {
                if m64 { Op::Mem { base: Some(*self.r.pick(&[12u8, 13])), index: None, disp: if self.r.chance(1, 2) { 0 } else { d8 }, asz: 64, rip: false } }
                else { Op::Mem { base: Some(5), index: None, disp: 0, asz: w, rip: false } }
            }
        }
    }
    #[allow(clippy::too_many_arguments)]
    fn add(&mut self, class: &'static str, mnem: &str, sz: u8, coq: String, text: String, ops: Vec<Op>, e: Enc, aux: i64) {
        if let Some(bytes) = enc(&e) {
            self.forms.push(Form { mode: self.mode, coq, text, bytes, class, mnem: mnem.into(), sz, ops, sse: false, aux, alias: self.in_alias });
        }
    }
    fn regf(o: &Op, sz: u8) -> RegF {
        match o {
            Op::Reg(n) => RegF::R(*n, sz == 8),
            Op::RegH(n) => RegF::H(*n),
            _ => RegF::Digit(0),
        }
    }
    /// (dst, src) register pairs exercising aliasing and the legacy high-byte registers
    fn reg_pairs(&mut self, sz: u8) -> Vec<(Op, Op)> {
        let mut v = vec![];
        let a = self.rop(sz, false);
        let b = self.rop(sz, false);
        v.push((a.clone(), b));
        v.push((a.clone(), a));
        if sz == 8 {
            let x = self.r.below(4) as u8;
            let y = self.r.below(4) as u8;
            v.push((Op::RegH(x), Op::Reg(y)));
            v.push((Op::Reg(y), Op::RegH(x)));
            v.push((Op::RegH(x), Op::RegH(y)));
            v.push((Op::RegH(x), Op::Reg(x)));
            v.push((Op::Reg(x), Op::RegH(x)));
            v.push((Op::RegH(x), Op::RegH(x)));
        }
        v
    }

    // ---- two-operand ALU group -------------------------------------------------------------
    fn alu(&mut self) {
        let m = self.mode;
        for op in 0..8u8 {
            for sz in self.sizes() {
                let w = if sz == 8 { 0 } else { 1 };
                let (c, mn) = (ALU_C[op as usize], ALU_M[op as usize]);
                let mk = |d: &Op, s: &Op| (format!("(IAlu {} {} {} {})", c, sz, d.coq(), s.coq()), format!("{} {}, {}", mn, d.text(sz), s.text(sz)));
                for (d, s) in self.reg_pairs(sz) {
                    let (cq, tx) = mk(&d, &s);
                    // r/m <- reg
                    self.add("alu", mn, sz, cq.clone(), tx.clone(), vec![d.clone(), s.clone()],
                        Enc { mode: m, opsz: sz, def64: false, pre: &[], opc: &[op * 8 + w], reg: Some(G::regf(&s, sz)), rm: Some((&d, sz == 8)), plusr: None, imm: vec![] }, 0);
                    // reg <- r/m
                    self.add("alu", mn, sz, cq, tx, vec![d.clone(), s.clone()],
                        Enc { mode: m, opsz: sz, def64: false, pre: &[], opc: &[op * 8 + 2 + w], reg: Some(G::regf(&d, sz)), rm: Some((&s, sz == 8)), plusr: None, imm: vec![] }, 0);
                }
                for k in 0..8 {
                    let mm = self.mem(k);
                    let r = self.rop(sz, sz == 8 && k % 3 == 0);
                    let (cq, tx) = mk(&mm, &r);
                    self.add("alu", mn, sz, cq, tx, vec![mm.clone(), r.clone()],
                        Enc { mode: m, opsz: sz, def64: false, pre: &[], opc: &[op * 8 + w], reg: Some(G::regf(&r, sz)), rm: Some((&mm, false)), plusr: None, imm: vec![] }, 0);
                    let (cq, tx) = mk(&r, &mm);
                    self.add("alu", mn, sz, cq, tx, vec![r.clone(), mm.clone()],
                        Enc { mode: m, opsz: sz, def64: false, pre: &[], opc: &[op * 8 + 2 + w], reg: Some(G::regf(&r, sz)), rm: Some((&mm, false)), plusr: None, imm: vec![] }, 0);
                }
                // immediates: 80/81 (full), 83 (sign-extended imm8), short accumulator forms
                let ib = if sz == 8 { 8 } else if sz == 16 { 16 } else { 32 };
                for k in 0..4 {
                    let d = if k < 2 { self.rop(sz, sz == 8 && k == 1) } else { self.memr() };
                    let raw = self.imm(ib);
                    let v = if sz == 64 { (raw as u32 as i32 as i64 as u64) & mask(64) } else { raw & mask(sz) };
                    let (cq, tx) = mk(&d, &Op::Imm(v));
                    self.add("alu", mn, sz, cq, tx, vec![d.clone(), Op::Imm(v)],
                        Enc { mode: m, opsz: sz, def64: false, pre: &[], opc: &[0x80 + w], reg: Some(RegF::Digit(op)), rm: Some((&d, sz == 8)), plusr: None, imm: imm_bytes(raw, (ib / 8) as usize) }, 0);
                    if sz > 8 {
                        let raw8 = self.imm(8);
                        let v = (raw8 as u8 as i8 as i64 as u64) & mask(sz);
                        let (cq, tx) = mk(&d, &Op::Imm(v));
                        self.add("alu", mn, sz, cq, tx, vec![d.clone(), Op::Imm(v)],
                            Enc { mode: m, opsz: sz, def64: false, pre: &[], opc: &[0x83], reg: Some(RegF::Digit(op)), rm: Some((&d, false)), plusr: None, imm: imm_bytes(raw8, 1) }, 0);
                    }
                }
                let raw = self.imm(ib);
                let v = if sz == 64 { raw as u32 as i32 as i64 as u64 } else { raw & mask(sz) };
                let (cq, tx) = mk(&Op::Reg(0), &Op::Imm(v));
                self.add("alu", mn, sz, cq, tx, vec![Op::Reg(0), Op::Imm(v)],
                    Enc { mode: m, opsz: sz, def64: false, pre: &[], opc: &[op * 8 + 4 + w], reg: None, rm: None, plusr: None, imm: imm_bytes(raw, (ib / 8) as usize) }, 0);
            }
        }
        // test
        for sz in self.sizes() {
            let w = if sz == 8 { 0 } else { 1 };
            for (d, s) in self.reg_pairs(sz) {
                self.add("alu", "test", sz, format!("(IAlu ATest {} {} {})", sz, d.coq(), s.coq()), format!("test {}, {}", d.text(sz), s.text(sz)), vec![d.clone(), s.clone()],
                    Enc { mode: m, opsz: sz, def64: false, pre: &[], opc: &[0x84 + w], reg: Some(G::regf(&s, sz)), rm: Some((&d, sz == 8)), plusr: None, imm: vec![] }, 0);
            }
            for k in 0..3 {
                let mm = self.mem(k * 3 + 1);
                let r = self.rop(sz, false);
                self.add("alu", "test", sz, format!("(IAlu ATest {} {} {})", sz, mm.coq(), r.coq()), format!("test {}, {}", mm.text(sz), r.text(sz)), vec![mm.clone(), r.clone()],
                    Enc { mode: m, opsz: sz, def64: false, pre: &[], opc: &[0x84 + w], reg: Some(G::regf(&r, sz)), rm: Some((&mm, false)), plusr: None, imm: vec![] }, 0);
                let ib = if sz == 8 { 8 } else if sz == 16 { 16 } else { 32 };
                let raw = self.imm(ib);
                let v = if sz == 64 { raw as u32 as i32 as i64 as u64 } else { raw & mask(sz) };
                let d = if k == 0 { self.rop(sz, sz == 8) } else { mm.clone() };
                self.add("alu", "test", sz, format!("(IAlu ATest {} {} (OImm {}))", sz, d.coq(), v), format!("test {}, 0x{:x}", d.text(sz), v), vec![d.clone()],
                    Enc { mode: m, opsz: sz, def64: false, pre: &[], opc: &[0xF6 + w], reg: Some(RegF::Digit(0)), rm: Some((&d, sz == 8)), plusr: None, imm: imm_bytes(raw, (ib / 8) as usize) }, 0);
            }
        }
    }

    // ---- not neg inc dec, mul imul div idiv (F6/F7, FE/FF groups) --------------------------------
    fn unary(&mut self) {
        let m = self.mode;
        for sz in self.sizes() {
            let w = if sz == 8 { 0 } else { 1 };
            let table: [(&str, &str, u8, u8, &'static str); 8] = [
                ("not", "IUn UNot", 0xF6, 2, "unary"), ("neg", "IUn UNeg", 0xF6, 3, "unary"),
                ("inc", "IUn UInc", 0xFE, 0, "unary"), ("dec", "IUn UDec", 0xFE, 1, "unary"),
                ("mul", "IMul", 0xF6, 4, "mul"), ("imul", "IImul1", 0xF6, 5, "mul"),
                ("div", "IDiv", 0xF6, 6, "div"), ("idiv", "IIdiv", 0xF6, 7, "div"),
            ];
            for (mn, c, opc, digit, class) in table {
                let mut dsts = vec![self.rop(sz, false), self.memr(), self.memr()];
                if sz == 8 { dsts.push(self.rop(8, true)); dsts.push(Op::Reg(0)); dsts.push(Op::RegH(0)); } else { dsts.push(Op::Reg(0)); dsts.push(Op::Reg(2)); }
                for d in dsts {
                    self.add(class, mn, sz, format!("({} {} {})", c, sz, d.coq()), format!("{} {}", mn, d.text(sz)), vec![d.clone()],
                        Enc { mode: m, opsz: sz, def64: false, pre: &[], opc: &[opc + w], reg: Some(RegF::Digit(digit)), rm: Some((&d, sz == 8)), plusr: None, imm: vec![] }, 0);
                }
            }
            if m == Mode::M32 && sz > 8 {
                for (mn, c, opc) in [("inc", "IUn UInc", 0x40u8), ("dec", "IUn UDec", 0x48u8)] {
                    let r = self.gp();
                    self.add("unary", mn, sz, format!("({} {} (OReg {}))", c, sz, r), format!("{} {}", mn, regname(r, sz)), vec![Op::Reg(r)],
                        Enc { mode: m, opsz: sz, def64: false, pre: &[], opc: &[opc], reg: None, rm: None, plusr: Some((r, false)), imm: vec![] }, 0);
                }
            }
        }
        // imul r, r/m ; imul r, r/m, imm
        for sz in self.wsizes() {
            for k in 0..4 {
                let d = self.gp();
                let s = if k < 2 { Op::Reg(if k == 0 { self.gp() } else { d }) } else { self.memr() };
                self.add("mul", "imul", sz, format!("(IImul2 {} {} {})", sz, d, s.coq()), format!("imul {}, {}", regname(d, sz), s.text(sz)), vec![Op::Reg(d), s.clone()],
                    Enc { mode: m, opsz: sz, def64: false, pre: &[], opc: &[0x0F, 0xAF], reg: Some(RegF::R(d, false)), rm: Some((&s, false)), plusr: None, imm: vec![] }, 0);
                let ib = if sz == 16 { 16 } else { 32 };
                let raw = self.imm(ib);
                let v = if sz == 64 { raw as u32 as i32 as i64 as u64 } else { raw & mask(sz) };
                self.add("mul", "imul", sz, format!("(IImul3 {} {} {} {})", sz, d, s.coq(), v), format!("imul {}, {}, 0x{:x}", regname(d, sz), s.text(sz), v), vec![Op::Reg(d), s.clone()],
                    Enc { mode: m, opsz: sz, def64: false, pre: &[], opc: &[0x69], reg: Some(RegF::R(d, false)), rm: Some((&s, false)), plusr: None, imm: imm_bytes(raw, (ib / 8) as usize) }, 0);
                let raw8 = self.imm(8);
                let v = (raw8 as u8 as i8 as i64 as u64) & mask(sz);
                self.add("mul", "imul", sz, format!("(IImul3 {} {} {} {})", sz, d, s.coq(), v), format!("imul {}, {}, 0x{:x}", regname(d, sz), s.text(sz), v), vec![Op::Reg(d), s.clone()],
                    Enc { mode: m, opsz: sz, def64: false, pre: &[], opc: &[0x6B], reg: Some(RegF::R(d, false)), rm: Some((&s, false)), plusr: None, imm: imm_bytes(raw8, 1) }, 0);
            }
        }
        // cbw/cwde/cdqe, cwd/cdq/cqo
        for sz in self.wsizes() {
            self.add("conv", ["cbw", "cwde", "cdqe"][(sz / 32) as usize], sz, format!("(ICbw {})", sz), ["cbw", "cwde", "cdqe"][(sz / 32) as usize].into(), vec![],
                Enc { mode: m, opsz: sz, def64: false, pre: &[], opc: &[0x98], reg: None, rm: None, plusr: None, imm: vec![] }, 0);
            self.add("conv", ["cwd", "cdq", "cqo"][(sz / 32) as usize], sz, format!("(ICwd {})", sz), ["cwd", "cdq", "cqo"][(sz / 32) as usize].into(), vec![],
                Enc { mode: m, opsz: sz, def64: false, pre: &[], opc: &[0x99], reg: None, rm: None, plusr: None, imm: vec![] }, 0);
        }
    }
}

impl G {
    /// memory operand whose base (k = 0) or base AND index (k = 1) is the given register
    fn mem_on(&mut self, r: u8, k: u64) -> Op {
        let w = self.mode.word();
        let d8 = ((self.r.below(100) as i64) - 50) & !3;
        if k == 0 || r == 4 { Op::Mem { base: Some(r), index: None, disp: d8, asz: w, rip: false } }
        else { Op::Mem { base: Some(r), index: Some((r, *self.r.pick(&[1u8, 2, 4, 8]))), disp: d8, asz: w, rip: false } }
    }
    /// aliasing forms: every two-operand register/memory class with the destination register used in the address
    fn aliasing(&mut self) {
        let m = self.mode;
        for sz in self.sizes() {
            let w = if sz == 8 { 0 } else { 1 };
            for k in 0..2u64 {
                // byte registers that can also be an address register: al/cl/dl/bl (and sil.. with REX in long mode)
                let r = if sz == 8 { self.r.below(4) as u8 } else { self.gp_nosp() };
                let mm = self.mem_on(r, k);
                let d = Op::Reg(r);
                // mov r, [r] ; mov [r], r
                self.add("mov", "mov", sz, format!("(IMov {} {} {})", sz, d.coq(), mm.coq()), format!("mov {}, {}", d.text(sz), mm.text(sz)), vec![d.clone(), mm.clone()],
                    Enc { mode: m, opsz: sz, def64: false, pre: &[], opc: &[0x8A + w], reg: Some(G::regf(&d, sz)), rm: Some((&mm, false)), plusr: None, imm: vec![] }, 0);
                self.add("mov", "mov", sz, format!("(IMov {} {} {})", sz, mm.coq(), d.coq()), format!("mov {}, {}", mm.text(sz), d.text(sz)), vec![mm.clone(), d.clone()],
                    Enc { mode: m, opsz: sz, def64: false, pre: &[], opc: &[0x88 + w], reg: Some(G::regf(&d, sz)), rm: Some((&mm, false)), plusr: None, imm: vec![] }, 0);
                // ALU group, both directions
                for op in [0u8, 2, 3, 5, 6, 7] {
                    let (c, mn) = (ALU_C[op as usize], ALU_M[op as usize]);
                    self.add("alu", mn, sz, format!("(IAlu {} {} {} {})", c, sz, d.coq(), mm.coq()), format!("{} {}, {}", mn, d.text(sz), mm.text(sz)), vec![d.clone(), mm.clone()],
                        Enc { mode: m, opsz: sz, def64: false, pre: &[], opc: &[op * 8 + 2 + w], reg: Some(G::regf(&d, sz)), rm: Some((&mm, false)), plusr: None, imm: vec![] }, 0);
                    self.add("alu", mn, sz, format!("(IAlu {} {} {} {})", c, sz, mm.coq(), d.coq()), format!("{} {}, {}", mn, mm.text(sz), d.text(sz)), vec![mm.clone(), d.clone()],
                        Enc { mode: m, opsz: sz, def64: false, pre: &[], opc: &[op * 8 + w], reg: Some(G::regf(&d, sz)), rm: Some((&mm, false)), plusr: None, imm: vec![] }, 0);
                }
                // xchg / xadd / cmpxchg [r], r
                self.add("xchg", "xchg", sz, format!("(IXchg {} {} {})", sz, mm.coq(), d.coq()), format!("xchg {}, {}", mm.text(sz), d.text(sz)), vec![mm.clone(), d.clone()],
                    Enc { mode: m, opsz: sz, def64: false, pre: &[], opc: &[0x86 + w], reg: Some(G::regf(&d, sz)), rm: Some((&mm, false)), plusr: None, imm: vec![] }, 0);
                self.add("xadd", "xadd", sz, format!("(IXadd {} {} {})", sz, mm.coq(), d.coq()), format!("xadd {}, {}", mm.text(sz), d.text(sz)), vec![mm.clone(), d.clone()],
                    Enc { mode: m, opsz: sz, def64: false, pre: &[], opc: &[0x0F, 0xC0 + w], reg: Some(G::regf(&d, sz)), rm: Some((&mm, false)), plusr: None, imm: vec![] }, 0);
                self.add("nospec-cmpxchg", "cmpxchg", sz, "(INoSpec 15)".into(), format!("cmpxchg {}, {}", mm.text(sz), d.text(sz)), vec![mm.clone(), d.clone()],
                    Enc { mode: m, opsz: sz, def64: false, pre: &[], opc: &[0x0F, 0xB0 + w], reg: Some(G::regf(&d, sz)), rm: Some((&mm, false)), plusr: None, imm: vec![] }, 0);
                if sz > 8 {
                    // lea r, [r + r*s + d] ; imul r, [r] ; cmov r, [r] ; movzx/movsx r, byte/word [r] ; bsf r, [r]
                    self.add("lea", "lea", sz, format!("(ILea {} {} {})", sz, r, mm.coq()), format!("lea {}, {}", regname(r, sz), mm.text(0)), vec![Op::Reg(r), mm.clone()],
                        Enc { mode: m, opsz: sz, def64: false, pre: &[], opc: &[0x8D], reg: Some(RegF::R(r, false)), rm: Some((&mm, false)), plusr: None, imm: vec![] }, 0);
                    self.add("mul", "imul", sz, format!("(IImul2 {} {} {})", sz, r, mm.coq()), format!("imul {}, {}", regname(r, sz), mm.text(sz)), vec![Op::Reg(r), mm.clone()],
                        Enc { mode: m, opsz: sz, def64: false, pre: &[], opc: &[0x0F, 0xAF], reg: Some(RegF::R(r, false)), rm: Some((&mm, false)), plusr: None, imm: vec![] }, 0);
                    let cc = self.r.below(16) as u8;
                    self.add("cmov", &format!("cmov{}", CC_M[cc as usize]), sz, format!("(ICmov {} {} {} {})", CC_C[cc as usize], sz, r, mm.coq()), format!("cmov{} {}, {}", CC_M[cc as usize], regname(r, sz), mm.text(sz)), vec![Op::Reg(r), mm.clone()],
                        Enc { mode: m, opsz: sz, def64: false, pre: &[], opc: &[0x0F, 0x40 + cc], reg: Some(RegF::R(r, false)), rm: Some((&mm, false)), plusr: None, imm: vec![] }, 0);
                    for ssz in [8u8, 16] {
                        if ssz >= sz { continue; }
                        for (sg, mn, opc) in [(false, "movzx", 0xB6u8), (true, "movsx", 0xBEu8)] {
                            self.add("movx", mn, sz, format!("(IMovx {} {} {} {} {})", coq_bool(sg), sz, ssz, r, mm.coq()), format!("{} {}, {}", mn, regname(r, sz), mm.text(ssz)), vec![Op::Reg(r), mm.clone()],
                                Enc { mode: m, opsz: sz, def64: false, pre: &[], opc: &[0x0F, opc + if ssz == 16 { 1 } else { 0 }], reg: Some(RegF::R(r, false)), rm: Some((&mm, false)), plusr: None, imm: vec![] }, ssz as i64);
                        }
                    }
                    self.add("bitscan", "bsf", sz, format!("(IBsf {} {} {})", sz, r, mm.coq()), format!("bsf {}, {}", regname(r, sz), mm.text(sz)), vec![Op::Reg(r), mm.clone()],
                        Enc { mode: m, opsz: sz, def64: false, pre: &[], opc: &[0x0F, 0xBC], reg: Some(RegF::R(r, false)), rm: Some((&mm, false)), plusr: None, imm: vec![] }, 0);
                }
            }
            // same-register pairs of the two-register forms that reg_pairs does not reach
            let r = if sz == 8 && m == Mode::M32 { self.r.below(4) as u8 } else { self.gp_nosp() };
            let d = Op::Reg(r);
            self.add("xadd", "xadd", sz, format!("(IXadd {} {} {})", sz, d.coq(), d.coq()), format!("xadd {}, {}", d.text(sz), d.text(sz)), vec![d.clone(), d.clone()],
                Enc { mode: m, opsz: sz, def64: false, pre: &[], opc: &[0x0F, 0xC0 + w], reg: Some(G::regf(&d, sz)), rm: Some((&d, sz == 8)), plusr: None, imm: vec![] }, 0);
            self.add("nospec-cmpxchg", "cmpxchg", sz, "(INoSpec 15)".into(), format!("cmpxchg {}, {}", d.text(sz), d.text(sz)), vec![d.clone(), d.clone()],
                Enc { mode: m, opsz: sz, def64: false, pre: &[], opc: &[0x0F, 0xB0 + w], reg: Some(G::regf(&d, sz)), rm: Some((&d, sz == 8)), plusr: None, imm: vec![] }, 0);
            // xadd / cmpxchg with the accumulator and with high/low halves of one register
            let acc = Op::Reg(0);
            self.add("nospec-cmpxchg", "cmpxchg", sz, "(INoSpec 15)".into(), format!("cmpxchg {}, {}", acc.text(sz), acc.text(sz)), vec![acc.clone(), acc.clone()],
                Enc { mode: m, opsz: sz, def64: false, pre: &[], opc: &[0x0F, 0xB0 + w], reg: Some(G::regf(&acc, sz)), rm: Some((&acc, sz == 8)), plusr: None, imm: vec![] }, 0);
            if sz == 8 {
                let x = self.r.below(4) as u8;
                for (a, b) in [(Op::RegH(x), Op::Reg(x)), (Op::Reg(x), Op::RegH(x)), (Op::RegH(x), Op::RegH(x))] {
                    self.add("xadd", "xadd", 8, format!("(IXadd 8 {} {})", a.coq(), b.coq()), format!("xadd {}, {}", a.text(8), b.text(8)), vec![a.clone(), b.clone()],
                        Enc { mode: m, opsz: 8, def64: false, pre: &[], opc: &[0x0F, 0xC0], reg: Some(G::regf(&b, 8)), rm: Some((&a, true)), plusr: None, imm: vec![] }, 0);
                }
            }
            if sz > 8 {
                // shld/shrd r, r (dst = src), bt* r, r (same), cmov r, r (same), imul r, r, imm (same), bsf/bsr r, r exist
                for (mn, left, opc_c, opc_i) in [("shld", "true", 0xA5u8, 0xA4u8), ("shrd", "false", 0xAD, 0xAC)] {
                    self.add("shxd", mn, sz, format!("(IShxd {} {} {} {} (OReg 1))", left, sz, d.coq(), r), format!("{} {}, {}, cl", mn, d.text(sz), regname(r, sz)), vec![d.clone(), d.clone()],
                        Enc { mode: m, opsz: sz, def64: false, pre: &[], opc: &[0x0F, opc_c], reg: Some(RegF::R(r, false)), rm: Some((&d, false)), plusr: None, imm: vec![] }, -1);
                    let cnt = *self.r.pick(&[1u64, 4, (sz - 1) as u64]);
                    self.add("shxd", mn, sz, format!("(IShxd {} {} {} {} (OImm {}))", left, sz, d.coq(), r, cnt), format!("{} {}, {}, 0x{:x}", mn, d.text(sz), regname(r, sz), cnt), vec![d.clone(), d.clone()],
                        Enc { mode: m, opsz: sz, def64: false, pre: &[], opc: &[0x0F, opc_i], reg: Some(RegF::R(r, false)), rm: Some((&d, false)), plusr: None, imm: imm_bytes(cnt, 1) }, cnt as i64);
                }
                for (c, mn, opc) in [("BtT", "bt", 0xA3u8), ("BtS", "bts", 0xAB), ("BtR", "btr", 0xB3), ("BtC", "btc", 0xBB)] {
                    self.add("bt", mn, sz, format!("(IBt {} {} {} (OReg {}))", c, sz, d.coq(), r), format!("{} {}, {}", mn, d.text(sz), regname(r, sz)), vec![d.clone(), d.clone()],
                        Enc { mode: m, opsz: sz, def64: false, pre: &[], opc: &[0x0F, opc], reg: Some(RegF::R(r, false)), rm: Some((&d, false)), plusr: None, imm: vec![] }, 0);
                }
                let cc = self.r.below(16) as u8;
                self.add("cmov", &format!("cmov{}", CC_M[cc as usize]), sz, format!("(ICmov {} {} {} {})", CC_C[cc as usize], sz, r, d.coq()), format!("cmov{} {}, {}", CC_M[cc as usize], regname(r, sz), d.text(sz)), vec![d.clone(), d.clone()],
                    Enc { mode: m, opsz: sz, def64: false, pre: &[], opc: &[0x0F, 0x40 + cc], reg: Some(RegF::R(r, false)), rm: Some((&d, false)), plusr: None, imm: vec![] }, 0);
                // movzx / movsx from a sub-register of the destination (movzx eax, al ; movsx eax, ah ; movzx eax, ax)
                let q = self.r.below(4) as u8;
                for (sg, mn, opc) in [(false, "movzx", 0xB6u8), (true, "movsx", 0xBEu8)] {
                    for src in [Op::Reg(q), Op::RegH(q)] {
                        self.add("movx", mn, sz, format!("(IMovx {} {} 8 {} {})", coq_bool(sg), sz, q, src.coq()), format!("{} {}, {}", mn, regname(q, sz), src.text(8)), vec![Op::Reg(q), src.clone()],
                            Enc { mode: m, opsz: sz, def64: false, pre: &[], opc: &[0x0F, opc], reg: Some(RegF::R(q, false)), rm: Some((&src, true)), plusr: None, imm: vec![] }, 8);
                    }
                    if sz > 16 {
                        self.add("movx", mn, sz, format!("(IMovx {} {} 16 {} (OReg {}))", coq_bool(sg), sz, r, r), format!("{} {}, {}", mn, regname(r, sz), regname(r, 16)), vec![d.clone(), d.clone()],
                            Enc { mode: m, opsz: sz, def64: false, pre: &[], opc: &[0x0F, opc + 1], reg: Some(RegF::R(r, false)), rm: Some((&d, false)), plusr: None, imm: vec![] }, 16);
                    }
                }
                if sz == 64 {
                    self.add("movx", "movsxd", 64, format!("(IMovx true 64 32 {} (OReg {}))", r, r), format!("movsxd {}, {}", regname(r, 64), regname(r, 32)), vec![d.clone(), d.clone()],
                        Enc { mode: m, opsz: 64, def64: false, pre: &[], opc: &[0x63], reg: Some(RegF::R(r, false)), rm: Some((&d, false)), plusr: None, imm: vec![] }, 32);
                }
                let raw8 = self.imm(8);
                let v = (raw8 as u8 as i8 as i64 as u64) & mask(sz);
                self.add("mul", "imul", sz, format!("(IImul3 {} {} {} {})", sz, r, d.coq(), v), format!("imul {}, {}, 0x{:x}", regname(r, sz), d.text(sz), v), vec![d.clone(), d.clone()],
                    Enc { mode: m, opsz: sz, def64: false, pre: &[], opc: &[0x6B], reg: Some(RegF::R(r, false)), rm: Some((&d, false)), plusr: None, imm: imm_bytes(raw8, 1) }, 0);
            }
        }
    }
    /// address-size prefixed memory operands (amd64: 32-bit addressing; x86: 16-bit addressing) with base, index and
    /// displacement, for lea and for loads/stores; visited with priority like the aliasing forms
    fn addr_size(&mut self) {
        let m = self.mode;
        let mut shapes: Vec<Op> = vec![];
        if m == Mode::M64 {
            for _ in 0..3 {
                let (b, i) = (self.gp_nosp(), self.gp_nosp());
                let sc = *self.r.pick(&[1u8, 2, 4, 8]);
                let d32 = (self.r.below(0x6000) as i64) - 0x3000;
                shapes.push(Op::Mem { base: Some(b), index: Some((i, sc)), disp: d32, asz: 32, rip: false });
                shapes.push(Op::Mem { base: Some(b), index: Some((i, 1)), disp: 0, asz: 32, rip: false });
                shapes.push(Op::Mem { base: Some(b), index: None, disp: (self.r.below(200) as i64) - 100, asz: 32, rip: false });
                shapes.push(Op::Mem { base: Some(b), index: Some((b, sc)), disp: d32, asz: 32, rip: false });
            }
        } else {
            for (b, i) in [(Some(3u8), Some((6u8, 1u8))), (Some(3), Some((7, 1))), (Some(5), Some((6, 1))), (Some(5), Some((7, 1))), (Some(6), None), (Some(7), None), (Some(5), None), (Some(3), None)] {
                for d in [0i64, (self.r.below(200) as i64) - 100, (self.r.below(0x7e00) as i64) + 0x100, -0x1234 - (self.r.below(0x4000) as i64)] {
                    shapes.push(Op::Mem { base: b, index: i, disp: d, asz: 16, rip: false });
                }
            }
        }
        for mm in shapes {
            for sz in self.wsizes() {
                let d = self.gp();
                self.add("lea", "lea", sz, format!("(ILea {} {} {})", sz, d, mm.coq()), format!("lea {}, {}", regname(d, sz), mm.text(0)), vec![Op::Reg(d), mm.clone()],
                    Enc { mode: m, opsz: sz, def64: false, pre: &[], opc: &[0x8D], reg: Some(RegF::R(d, false)), rm: Some((&mm, false)), plusr: None, imm: vec![] }, 0);
            }
            {
                // bit strings through the prefixed operand: the element address EA + (offset >>s log2 size) * size/8
                // wraps at the address width as a whole (round 5: the lifter added the displacement at 64 bits)
                let nth = self.r.below(4) as usize;
                let (c, mn, opc) = [("BtT", "bt", 0xA3u8), ("BtS", "bts", 0xAB), ("BtR", "btr", 0xB3), ("BtC", "btc", 0xBB)][nth];
                let sz = if m == Mode::M64 { if self.r.chance(3, 4) { 64 } else { 32 } } else { *self.r.pick(&[16u8, 32]) };
                let s = self.gp_nosp();
                self.add("bt-mem-reg", mn, sz, format!("(IBt {} {} {} (OReg {}))", c, sz, mm.coq(), s), format!("{} {}, {}", mn, mm.text(sz), regname(s, sz)), vec![mm.clone(), Op::Reg(s)],
                    Enc { mode: m, opsz: sz, def64: false, pre: &[], opc: &[0x0F, opc], reg: Some(RegF::R(s, false)), rm: Some((&mm, false)), plusr: None, imm: vec![] }, 0);
            }
            {
                // loads and stores through the prefixed operand (32-bit mode: one of the three, the bytes are made
                // part of the image by the sampler)
                let sz = if m == Mode::M64 { *self.r.pick(&[8u8, 16, 32, 64]) } else { *self.r.pick(&[8u8, 16, 32]) };
                let w = if sz == 8 { 0 } else { 1 };
                let r = self.rop(sz, false);
                let which = if m == Mode::M64 { 3 } else { self.r.below(3) as usize };
                if which == 3 || which == 0 {
                self.add("mov", "mov", sz, format!("(IMov {} {} {})", sz, r.coq(), mm.coq()), format!("mov {}, {}", r.text(sz), mm.text(sz)), vec![r.clone(), mm.clone()],
                    Enc { mode: m, opsz: sz, def64: false, pre: &[], opc: &[0x8A + w], reg: Some(G::regf(&r, sz)), rm: Some((&mm, false)), plusr: None, imm: vec![] }, 0);
                }
                if which == 3 || which == 1 {
                self.add("mov", "mov", sz, format!("(IMov {} {} {})", sz, mm.coq(), r.coq()), format!("mov {}, {}", mm.text(sz), r.text(sz)), vec![mm.clone(), r.clone()],
                    Enc { mode: m, opsz: sz, def64: false, pre: &[], opc: &[0x88 + w], reg: Some(G::regf(&r, sz)), rm: Some((&mm, false)), plusr: None, imm: vec![] }, 0);
                }
                if which == 3 || which == 2 {
                self.add("alu", "add", sz, format!("(IAlu AAdd {} {} {})", sz, mm.coq(), r.coq()), format!("add {}, {}", mm.text(sz), r.text(sz)), vec![mm.clone(), r.clone()],
                    Enc { mode: m, opsz: sz, def64: false, pre: &[], opc: &[w], reg: Some(G::regf(&r, sz)), rm: Some((&mm, false)), plusr: None, imm: vec![] }, 0);
                }
            }
        }
    }
    /// round 6: every instruction with an imm8 count or selector gets the boundary immediates
    /// {0, 1, size-1, size, size+1, 15, 16, 17, 31, 32, 33, 63, 64, 65, 0x7f, 0x80, 0xff} as priority forms
    fn imm_boundary(&mut self) {
        let m = self.mode;
        const GLOBAL: [u64; 14] = [0, 1, 15, 16, 17, 31, 32, 33, 63, 64, 65, 0x7f, 0x80, 0xff];
        // 32-bit mode runs the same builders and has no processor oracle: a reduced list there
        const SHORT: [u64; 8] = [0, 1, 31, 32, 33, 0x7f, 0x80, 0xff];
        let lists = |sizes: &[u8]| -> Vec<(u8, u64)> {
            let mut l: Vec<(u8, u64)> = vec![];
            if m == Mode::M64 {
                for &sz in sizes { for v in [sz as u64 - 1, sz as u64, sz as u64 + 1] { l.push((sz, v)); } }
                for (i, v) in GLOBAL.iter().enumerate() { l.push((sizes[i % sizes.len()], *v)); }
            } else {
                for (i, v) in SHORT.iter().enumerate() { l.push((sizes[i % sizes.len()], *v)); }
            }
            l
        };
        let sizes = self.sizes();
        let wsizes = self.wsizes();
        for (c, mn, digit) in [("SRol", "rol", 0u8), ("SRor", "ror", 1), ("SShl", "shl", 4), ("SShr", "shr", 5), ("SSar", "sar", 7)] {
            for (sz, cnt) in lists(&sizes) {
                let w = if sz == 8 { 0 } else { 1 };
                let d = if self.r.chance(1, 3) { self.memr() } else { self.rop(sz, false) };
                self.add("shift-imm", mn, sz, format!("(IShift {} {} {} (OImm {}))", c, sz, d.coq(), cnt), format!("{} {}, 0x{:x}", mn, d.text(sz), cnt), vec![d.clone()],
                    Enc { mode: m, opsz: sz, def64: false, pre: &[], opc: &[0xC0 + w], reg: Some(RegF::Digit(digit)), rm: Some((&d, sz == 8)), plusr: None, imm: imm_bytes(cnt, 1) }, cnt as i64);
            }
        }
        for (mn, left, opc_i) in [("shld", "true", 0xA4u8), ("shrd", "false", 0xAC)] {
            for (sz, cnt) in lists(&wsizes) {
                let d = if self.r.chance(1, 3) { self.memr() } else { Op::Reg(self.gp()) };
                let s = self.gp_nosp();
                self.add("shxd", mn, sz, format!("(IShxd {} {} {} {} (OImm {}))", left, sz, d.coq(), s, cnt), format!("{} {}, {}, 0x{:x}", mn, d.text(sz), regname(s, sz), cnt), vec![d.clone(), Op::Reg(s)],
                    Enc { mode: m, opsz: sz, def64: false, pre: &[], opc: &[0x0F, opc_i], reg: Some(RegF::R(s, false)), rm: Some((&d, false)), plusr: None, imm: imm_bytes(cnt, 1) }, cnt as i64);
            }
        }
        for (c, mn, digit) in [("BtT", "bt", 4u8), ("BtS", "bts", 5), ("BtR", "btr", 6), ("BtC", "btc", 7)] {
            for (sz, cnt) in lists(&wsizes) {
                let d = if self.r.chance(1, 3) { self.memr() } else { Op::Reg(self.gp()) };
                self.add("bt", mn, sz, format!("(IBt {} {} {} (OImm {}))", c, sz, d.coq(), cnt), format!("{} {}, 0x{:x}", mn, d.text(sz), cnt), vec![d.clone()],
                    Enc { mode: m, opsz: sz, def64: false, pre: &[], opc: &[0x0F, 0xBA], reg: Some(RegF::Digit(digit)), rm: Some((&d, false)), plusr: None, imm: imm_bytes(cnt, 1) }, cnt as i64);
            }
        }
        let w = m.word();
        // round 7: count-register branches in every flavour and both modes (jrcxz / jecxz with 0x67 in long mode, jecxz / jcxz
        // with 0x67 in 32-bit mode), loop*, and ret / ret imm16 in both modes, as priority forms
        for rel in [0x10i64, -0x20] {
            let t2 = (CODE_AT as i64 + 2 + rel) as u64;
            let t3 = (CODE_AT as i64 + 3 + rel) as u64;
            self.add("loop", if w == 64 { "jrcxz" } else { "jecxz" }, w, format!("(IJcxz {} {})", w, t2), format!("j{}cxz 0x{:x}", if w == 64 { "r" } else { "e" }, t2), vec![],
                Enc { opc: &[0xE3], imm: imm_bytes(rel as u64, 1), ..none_enc(m) }, t2 as i64);
            let (csz, mn) = if w == 64 { (32, "jecxz") } else { (16, "jcxz") };
            self.add("loop", mn, w, format!("(IJcxz {} {})", csz, t3), format!("{} 0x{:x}", mn, t3), vec![],
                Enc { pre: &[0x67], opc: &[0xE3], imm: imm_bytes(rel as u64, 1), ..none_enc(m) }, t3 as i64);
            for (k, mn, opc) in [(0, "loop", 0xE2u8), (1, "loope", 0xE1), (2, "loopne", 0xE0)] {
                self.add("loop", mn, w, format!("(ILoop {} {})", k, t2), format!("{} 0x{:x}", mn, t2), vec![], Enc { opc: &[opc], imm: imm_bytes(rel as u64, 1), ..none_enc(m) }, t2 as i64);
            }
        }
        // round 8: the stack pointer as indirect target (call reads it BEFORE the push); the processor faults fetching from the
        // stack, so these are compared with the specification only
        self.add("ctl-sp", "call", w, "(ICallInd (OReg 4))".into(), format!("call {}", regname(4, w)), vec![Op::Reg(4)],
            Enc { mode: m, opsz: w, def64: true, pre: &[], opc: &[0xFF], reg: Some(RegF::Digit(2)), rm: Some((&Op::Reg(4), false)), plusr: None, imm: vec![] }, 0);
        self.add("ctl-sp", "jmp", w, "(IJmpInd (OReg 4))".into(), format!("jmp {}", regname(4, w)), vec![Op::Reg(4)],
            Enc { mode: m, opsz: w, def64: true, pre: &[], opc: &[0xFF], reg: Some(RegF::Digit(4)), rm: Some((&Op::Reg(4), false)), plusr: None, imm: vec![] }, 0);
        self.add("ret", "ret", w, "IRet0".into(), "ret".into(), vec![], Enc { opc: &[0xC3], ..none_enc(m) }, 0);
        for v in [8u64, 0x10, 0x7ff8] {
            self.add("ret", "ret", w, format!("(IRet {})", v), format!("ret 0x{:x}", v), vec![], Enc { opc: &[0xC2], imm: imm_bytes(v, 2), ..none_enc(m) }, v as i64);
        }
        for v in if m == Mode::M64 { vec![1u64, 2, 0x7f, 0x80, 0xff, 0x100, 0x8000, 0xfff8] } else { vec![] } {
            self.add("ret", "ret", w, format!("(IRet {})", v), format!("ret 0x{:x}", v), vec![], Enc { opc: &[0xC2], imm: imm_bytes(v, 2), ..none_enc(m) }, v as i64);
        }
        if m == Mode::M64 {
            // SSE byte shifts (the count is in BYTES: anything above 15 clears the register) and the pshufd selector
            for sh in [0u64, 1, 7, 8, 9, 15, 16, 17, 31, 32, 33, 63, 64, 65, 0x7f, 0x80, 0xff, 0x20, 0x41, 0xe3] {
                let x = self.r.below(16) as u8;
                self.forms_sse("nospec-sse", "pslldq", format!("pslldq xmm{}, {}", x, sh), vec![Op::Reg(x)],
                    Enc { mode: m, opsz: 128, def64: false, pre: &[0x66], opc: &[0x0F, 0x73], reg: Some(RegF::Digit(7)), rm: Some((&Op::Reg(x), false)), plusr: None, imm: imm_bytes(sh, 1) }, 128);
                let x = self.r.below(16) as u8;
                self.forms_sse("nospec-sse", "psrldq", format!("psrldq xmm{}, {}", x, sh), vec![Op::Reg(x)],
                    Enc { mode: m, opsz: 128, def64: false, pre: &[0x66], opc: &[0x0F, 0x73], reg: Some(RegF::Digit(3)), rm: Some((&Op::Reg(x), false)), plusr: None, imm: imm_bytes(sh, 1) }, 128);
            }
            for imm in [0u64, 1, 15, 16, 17, 31, 32, 33, 63, 64, 65, 0x7f, 0x80, 0xff, 0x1b, 0xe4, 0x4e, 0xb1, 0x55, 0xaa] {
                let x = self.r.below(16) as u8;
                let s = if self.r.chance(1, 3) { self.memr() } else { Op::Reg(self.r.below(16) as u8) };
                self.forms_sse("nospec-sse", "pshufd", format!("pshufd xmm{}, {}, 0x{:x}", x, s.text(128), imm), vec![Op::Reg(x), s.clone()],
                    Enc { mode: m, opsz: 128, def64: false, pre: &[0x66], opc: &[0x0F, 0x70], reg: Some(RegF::R(x, false)), rm: Some((&s, false)), plusr: None, imm: imm_bytes(imm, 1) }, 128);
            }
        }
    }
    fn memr(&mut self) -> Op {
        let k = self.r.below(8);
        self.mem(k)
    }
    // ---- mov movzx movsx movsxd lea xchg ---------------------------------------------------------
    fn movs_(&mut self) {
        let m = self.mode;
        for sz in self.sizes() {
            let w = if sz == 8 { 0 } else { 1 };
            let mk = |d: &Op, s: &Op| (format!("(IMov {} {} {})", sz, d.coq(), s.coq()), format!("mov {}, {}", d.text(sz), s.text(sz)));
            for (d, s) in self.reg_pairs(sz) {
                let (cq, tx) = mk(&d, &s);
                self.add("mov", "mov", sz, cq.clone(), tx.clone(), vec![d.clone(), s.clone()],
                    Enc { mode: m, opsz: sz, def64: false, pre: &[], opc: &[0x88 + w], reg: Some(G::regf(&s, sz)), rm: Some((&d, sz == 8)), plusr: None, imm: vec![] }, 0);
                self.add("mov", "mov", sz, cq, tx, vec![d.clone(), s.clone()],
                    Enc { mode: m, opsz: sz, def64: false, pre: &[], opc: &[0x8A + w], reg: Some(G::regf(&d, sz)), rm: Some((&s, sz == 8)), plusr: None, imm: vec![] }, 0);
            }
            for k in 0..8 {
                let mm = self.mem(k);
                let r = self.rop(sz, sz == 8 && k % 2 == 0);
                let (cq, tx) = mk(&mm, &r);
                self.add("mov", "mov", sz, cq, tx, vec![mm.clone(), r.clone()],
                    Enc { mode: m, opsz: sz, def64: false, pre: &[], opc: &[0x88 + w], reg: Some(G::regf(&r, sz)), rm: Some((&mm, false)), plusr: None, imm: vec![] }, 0);
                let (cq, tx) = mk(&r, &mm);
                self.add("mov", "mov", sz, cq, tx, vec![r.clone(), mm.clone()],
                    Enc { mode: m, opsz: sz, def64: false, pre: &[], opc: &[0x8A + w], reg: Some(G::regf(&r, sz)), rm: Some((&mm, false)), plusr: None, imm: vec![] }, 0);
            }
            // mov r, imm (B0+r / B8+r, imm64 with REX.W) and mov r/m, imm (C6/C7)
            for k in 0..3 {
                let d = self.rop(sz, sz == 8 && k == 1);
                let v = self.imm(sz);
                if let Op::Reg(n) = d {
                    self.add("mov", "mov", sz, format!("(IMov {} (OReg {}) (OImm {}))", sz, n, v), format!("mov {}, 0x{:x}", regname(n, sz), v), vec![d.clone()],
                        Enc { mode: m, opsz: sz, def64: false, pre: &[], opc: &[if sz == 8 { 0xB0 } else { 0xB8 }], reg: None, rm: None, plusr: Some((n, sz == 8)), imm: imm_bytes(v, (sz / 8) as usize) }, 0);
                }
                if let Op::RegH(n) = d {
                    self.add("mov", "mov", sz, format!("(IMov 8 (ORegH {}) (OImm {}))", n, v), format!("mov {}, 0x{:x}", R8H[n as usize], v), vec![d.clone()],
                        Enc { mode: m, opsz: sz, def64: false, pre: &[], opc: &[0xB4], reg: None, rm: None, plusr: Some((n, false)), imm: imm_bytes(v, 1) }, 0);
                }
                let ib = if sz == 8 { 8 } else if sz == 16 { 16 } else { 32 };
                let raw = self.imm(ib);
                let v = if sz == 64 { raw as u32 as i32 as i64 as u64 } else { raw & mask(sz) };
                let d = if k == 0 { d } else { self.memr() };
                self.add("mov", "mov", sz, format!("(IMov {} {} (OImm {}))", sz, d.coq(), v), format!("mov {}, 0x{:x}", d.text(sz), v), vec![d.clone()],
                    Enc { mode: m, opsz: sz, def64: false, pre: &[], opc: &[0xC6 + w], reg: Some(RegF::Digit(0)), rm: Some((&d, sz == 8)), plusr: None, imm: imm_bytes(raw, (ib / 8) as usize) }, 0);
            }
        }
        // movzx / movsx / movsxd
        for dsz in self.wsizes() {
            for ssz in [8u8, 16] {
                if ssz >= dsz { continue; }
                for (sg, mn, opc) in [(false, "movzx", 0xB6u8), (true, "movsx", 0xBEu8)] {
                    let mut srcs = vec![self.rop(ssz, false), self.memr(), self.memr()];
                    if ssz == 8 { srcs.push(self.rop(8, true)); }
                    for s in srcs {
                        let d = self.gp();
                        self.add("movx", mn, dsz, format!("(IMovx {} {} {} {} {})", coq_bool(sg), dsz, ssz, d, s.coq()), format!("{} {}, {}", mn, regname(d, dsz), s.text(ssz)), vec![Op::Reg(d), s.clone()],
                            Enc { mode: m, opsz: dsz, def64: false, pre: &[], opc: &[0x0F, opc + if ssz == 16 { 1 } else { 0 }], reg: Some(RegF::R(d, false)), rm: Some((&s, ssz == 8)), plusr: None, imm: vec![] }, ssz as i64);
                    }
                }
            }
        }
        if m == Mode::M64 {
            for k in 0..3 {
                let d = self.gp();
                let s = if k == 0 { Op::Reg(self.gp()) } else { self.memr() };
                self.add("movx", "movsxd", 64, format!("(IMovx true 64 32 {} {})", d, s.coq()), format!("movsxd {}, {}", regname(d, 64), s.text(32)), vec![Op::Reg(d), s.clone()],
                    Enc { mode: m, opsz: 64, def64: false, pre: &[], opc: &[0x63], reg: Some(RegF::R(d, false)), rm: Some((&s, false)), plusr: None, imm: vec![] }, 32);
            }
        }
        // lea
        for sz in self.wsizes() {
            for k in 0..8 {
                let mm = self.mem(k);
                let d = self.gp();
                self.add("lea", "lea", sz, format!("(ILea {} {} {})", sz, d, mm.coq()), format!("lea {}, {}", regname(d, sz), mm.text(0)), vec![Op::Reg(d), mm.clone()],
                    Enc { mode: m, opsz: sz, def64: false, pre: &[], opc: &[0x8D], reg: Some(RegF::R(d, false)), rm: Some((&mm, false)), plusr: None, imm: vec![] }, 0);
            }
        }
        // xchg
        for sz in self.sizes() {
            let w = if sz == 8 { 0 } else { 1 };
            for (a, b) in self.reg_pairs(sz) {
                self.add("xchg", "xchg", sz, format!("(IXchg {} {} {})", sz, a.coq(), b.coq()), format!("xchg {}, {}", a.text(sz), b.text(sz)), vec![a.clone(), b.clone()],
                    Enc { mode: m, opsz: sz, def64: false, pre: &[], opc: &[0x86 + w], reg: Some(G::regf(&b, sz)), rm: Some((&a, sz == 8)), plusr: None, imm: vec![] }, 0);
            }
            for _ in 0..2 {
                let mm = self.memr();
                let r = self.rop(sz, false);
                self.add("xchg", "xchg", sz, format!("(IXchg {} {} {})", sz, mm.coq(), r.coq()), format!("xchg {}, {}", mm.text(sz), r.text(sz)), vec![mm.clone(), r.clone()],
                    Enc { mode: m, opsz: sz, def64: false, pre: &[], opc: &[0x86 + w], reg: Some(G::regf(&r, sz)), rm: Some((&mm, false)), plusr: None, imm: vec![] }, 0);
            }
            if sz > 8 {
                let r = 1 + self.r.below(self.mode.nregs() - 1) as u8;
                // capstone's operand order for 90+r is (r, accumulator); the lifter follows it
                self.add("xchg", "xchg", sz, format!("(IXchg {} (OReg {}) (OReg 0))", sz, r), format!("xchg {}, {}", regname(r, sz), regname(0, sz)), vec![Op::Reg(r), Op::Reg(0)],
                    Enc { mode: m, opsz: sz, def64: false, pre: &[], opc: &[0x90], reg: None, rm: None, plusr: Some((r, false)), imm: vec![] }, 0);
            }
        }
    }

    // ---- push pop call ret leave jmp jcc setcc cmovcc loop jcxz ----------------------------------
    fn stack_ctl(&mut self) {
        let m = self.mode;
        let w = m.word();
        for sz in [16u8, w] {
            for k in 0..4 {
                let r = if k == 3 { 4 } else { self.gp() };
                self.add("stack", "push", sz, format!("(IPush {} (OReg {}))", sz, r), format!("push {}", regname(r, sz)), vec![Op::Reg(r)],
                    Enc { mode: m, opsz: sz, def64: true, pre: &[], opc: &[0x50], reg: None, rm: None, plusr: Some((r, false)), imm: vec![] }, 0);
                self.add("stack", "pop", sz, format!("(IPop {} (OReg {}))", sz, r), format!("pop {}", regname(r, sz)), vec![Op::Reg(r)],
                    Enc { mode: m, opsz: sz, def64: true, pre: &[], opc: &[0x58], reg: None, rm: None, plusr: Some((r, false)), imm: vec![] }, 0);
                let mm = self.mem(k * 2 + 1);
                self.add("stack", "push", sz, format!("(IPush {} {})", sz, mm.coq()), format!("push {}", mm.text(sz)), vec![mm.clone()],
                    Enc { mode: m, opsz: sz, def64: true, pre: &[], opc: &[0xFF], reg: Some(RegF::Digit(6)), rm: Some((&mm, false)), plusr: None, imm: vec![] }, 0);
                self.add("stack", "pop", sz, format!("(IPop {} {})", sz, mm.coq()), format!("pop {}", mm.text(sz)), vec![mm.clone()],
                    Enc { mode: m, opsz: sz, def64: true, pre: &[], opc: &[0x8F], reg: Some(RegF::Digit(0)), rm: Some((&mm, false)), plusr: None, imm: vec![] }, 0);
            }
            for _ in 0..2 {
                let raw8 = self.imm(8);
                let v = (raw8 as u8 as i8 as i64 as u64) & mask(sz);
                self.add("stack", "push", sz, format!("(IPush {} (OImm {}))", sz, v), format!("push 0x{:x}", v), vec![],
                    Enc { mode: m, opsz: sz, def64: true, pre: &[], opc: &[0x6A], reg: None, rm: None, plusr: None, imm: imm_bytes(raw8, 1) }, 0);
                let ib = if sz == 16 { 16 } else { 32 };
                let raw = self.imm(ib);
                let v = if sz == 64 { raw as u32 as i32 as i64 as u64 } else { raw & mask(sz) };
                self.add("stack", "push", sz, format!("(IPush {} (OImm {}))", sz, v), format!("push 0x{:x}", v), vec![],
                    Enc { mode: m, opsz: sz, def64: true, pre: &[], opc: &[0x68], reg: None, rm: None, plusr: None, imm: imm_bytes(raw, (ib / 8) as usize) }, 0);
            }
        }
        let none = Enc { mode: m, opsz: 32, def64: false, pre: &[], opc: &[], reg: None, rm: None, plusr: None, imm: vec![] };
        // relative targets: inside the int3-filled code region, never inside the instruction itself
        let rels: Vec<i64> = vec![0, 5, 0x40, -0x30, 0x7f, -0x80];
        for (i, rel) in rels.iter().enumerate() {
            let t5 = (CODE_AT as i64 + 5 + rel * if i % 2 == 0 { 1 } else { 3 }) as u64; // rel32 forms (length 5)
            let rel32 = t5.wrapping_sub(CODE_AT + 5);
            self.add("ctl", "call", w, format!("(ICallRel {})", t5), format!("call 0x{:x}", t5), vec![],
                Enc { opc: &[0xE8], imm: imm_bytes(rel32, 4), ..Enc { ..none_enc(m) } }, t5 as i64);
            self.add("ctl", "jmp", w, format!("(IJmpRel {})", t5), format!("jmp 0x{:x}", t5), vec![],
                Enc { opc: &[0xE9], imm: imm_bytes(rel32, 4), ..none_enc(m) }, t5 as i64);
            if *rel != -0x80 || true {
                let t2 = (CODE_AT as i64 + 2 + rel) as u64;
                if !(t2 >= CODE_AT && t2 < CODE_AT + 2) || *rel == 0 {
                    self.add("ctl", "jmp", w, format!("(IJmpRel {})", t2), format!("jmp short 0x{:x}", t2), vec![],
                        Enc { opc: &[0xEB], imm: imm_bytes(*rel as u64, 1), ..none_enc(m) }, t2 as i64);
                }
            }
        }
        let _ = none;
        for k in 0..4 {
            let r = self.gp_nosp();
            let mm = self.mem(k * 2 + 1);
            self.add("ctl-ind", "call", w, format!("(ICallInd (OReg {}))", r), format!("call {}", regname(r, w)), vec![Op::Reg(r)],
                Enc { mode: m, opsz: w, def64: true, pre: &[], opc: &[0xFF], reg: Some(RegF::Digit(2)), rm: Some((&Op::Reg(r), false)), plusr: None, imm: vec![] }, 0);
            self.add("ctl-ind", "jmp", w, format!("(IJmpInd (OReg {}))", r), format!("jmp {}", regname(r, w)), vec![Op::Reg(r)],
                Enc { mode: m, opsz: w, def64: true, pre: &[], opc: &[0xFF], reg: Some(RegF::Digit(4)), rm: Some((&Op::Reg(r), false)), plusr: None, imm: vec![] }, 0);
            self.add("ctl-ind", "call", w, format!("(ICallInd {})", mm.coq()), format!("call {}", mm.text(w)), vec![mm.clone()],
                Enc { mode: m, opsz: w, def64: true, pre: &[], opc: &[0xFF], reg: Some(RegF::Digit(2)), rm: Some((&mm, false)), plusr: None, imm: vec![] }, 0);
            self.add("ctl-ind", "jmp", w, format!("(IJmpInd {})", mm.coq()), format!("jmp {}", mm.text(w)), vec![mm.clone()],
                Enc { mode: m, opsz: w, def64: true, pre: &[], opc: &[0xFF], reg: Some(RegF::Digit(4)), rm: Some((&mm, false)), plusr: None, imm: vec![] }, 0);
        }
        self.add("ret", "ret", w, "IRet0".into(), "ret".into(), vec![], Enc { opc: &[0xC3], ..none_enc(m) }, 0);
        for v in [0u64, 8, 0x10, 0x1234] {
            self.add("ret", "ret", w, format!("(IRet {})", v), format!("ret 0x{:x}", v), vec![], Enc { opc: &[0xC2], imm: imm_bytes(v, 2), ..none_enc(m) }, v as i64);
        }
        self.add("leave", "leave", w, "ILeave".into(), "leave".into(), vec![], Enc { opc: &[0xC9], ..none_enc(m) }, 0);
        for cc in 0..16u8 {
            for (i, rel) in [0i64, 0x20, -0x40].iter().enumerate() {
                let t2 = (CODE_AT as i64 + 2 + rel) as u64;
                self.add("jcc", &format!("j{}", CC_M[cc as usize]), w, format!("(IJcc {} {})", CC_C[cc as usize], t2), format!("j{} 0x{:x}", CC_M[cc as usize], t2), vec![],
                    Enc { opc: &[0x70 + cc], imm: imm_bytes(*rel as u64, 1), ..none_enc(m) }, t2 as i64);
                if i > 0 {
                    let t6 = (CODE_AT as i64 + 6 + rel * 8) as u64;
                    self.add("jcc", &format!("j{}", CC_M[cc as usize]), w, format!("(IJcc {} {})", CC_C[cc as usize], t6), format!("j{} near 0x{:x}", CC_M[cc as usize], t6), vec![],
                        Enc { opc: &[0x0F, 0x80 + cc], imm: imm_bytes((rel * 8) as u64, 4), ..none_enc(m) }, t6 as i64);
                }
            }
            let mut ds = vec![self.rop(8, false), self.rop(8, true), self.memr()];
            ds.push(Op::Reg(0));
            for d in ds {
                self.add("setcc", &format!("set{}", CC_M[cc as usize]), 8, format!("(ISetcc {} {})", CC_C[cc as usize], d.coq()), format!("set{} {}", CC_M[cc as usize], d.text(8)), vec![d.clone()],
                    Enc { mode: m, opsz: 8, def64: false, pre: &[], opc: &[0x0F, 0x90 + cc], reg: Some(RegF::Digit(0)), rm: Some((&d, true)), plusr: None, imm: vec![] }, 0);
            }
            for sz in self.wsizes() {
                let d = self.gp();
                let srcs = vec![Op::Reg(self.gp()), self.memr()];
                for s in srcs {
                    self.add("cmov", &format!("cmov{}", CC_M[cc as usize]), sz, format!("(ICmov {} {} {} {})", CC_C[cc as usize], sz, d, s.coq()), format!("cmov{} {}, {}", CC_M[cc as usize], regname(d, sz), s.text(sz)), vec![Op::Reg(d), s.clone()],
                        Enc { mode: m, opsz: sz, def64: false, pre: &[], opc: &[0x0F, 0x40 + cc], reg: Some(RegF::R(d, false)), rm: Some((&s, false)), plusr: None, imm: vec![] }, 0);
                }
            }
        }
        for (k, mn, opc) in [(0, "loop", 0xE2u8), (1, "loope", 0xE1), (2, "loopne", 0xE0)] {
            for rel in [0i64, 0x10, -0x20] {
                let t2 = (CODE_AT as i64 + 2 + rel) as u64;
                self.add("loop", mn, w, format!("(ILoop {} {})", k, t2), format!("{} 0x{:x}", mn, t2), vec![], Enc { opc: &[opc], imm: imm_bytes(rel as u64, 1), ..none_enc(m) }, t2 as i64);
            }
        }
        for rel in [0i64, 0x10, -0x20] {
            let t2 = (CODE_AT as i64 + 2 + rel) as u64;
            self.add("loop", if w == 64 { "jrcxz" } else { "jecxz" }, w, format!("(IJcxz {} {})", w, t2), format!("j{}cxz 0x{:x}", if w == 64 { "r" } else { "e" }, t2), vec![],
                Enc { opc: &[0xE3], imm: imm_bytes(rel as u64, 1), ..none_enc(m) }, t2 as i64);
            if w == 64 {
                let t3 = (CODE_AT as i64 + 3 + rel) as u64;
                self.add("loop", "jecxz", w, format!("(IJcxz 32 {})", t3), format!("jecxz 0x{:x}", t3), vec![],
                    Enc { pre: &[0x67], opc: &[0xE3], imm: imm_bytes(rel as u64, 1), ..none_enc(m) }, t3 as i64);
            }
        }
        // flags, nop
        for (k, mn, opc) in [(0, "clc", 0xF8u8), (1, "stc", 0xF9), (2, "cmc", 0xF5), (3, "cld", 0xFC), (4, "std", 0xFD)] {
            self.add("flag", mn, 0, format!("(IFlag {})", k), mn.into(), vec![], Enc { opc: &[opc], ..none_enc(m) }, 0);
        }
        self.add("nop", "nop", 0, "INop".into(), "nop".into(), vec![], Enc { opc: &[0x90], ..none_enc(m) }, 0);
    }
}
fn none_enc(m: Mode) -> Enc<'static> {
    Enc { mode: m, opsz: 32, def64: false, pre: &[], opc: &[], reg: None, rm: None, plusr: None, imm: vec![] }
}

impl G {
    // ---- shifts / rotates, bit tests, bit scans, strings ----------------------------------------
    fn shifts_bits_strings(&mut self) {
        let m = self.mode;
        for (c, mn, digit) in [("SRol", "rol", 0u8), ("SRor", "ror", 1), ("SShl", "shl", 4), ("SShr", "shr", 5), ("SSar", "sar", 7)] {
            for sz in self.sizes() {
                let w = if sz == 8 { 0 } else { 1 };
                let mut dsts = vec![self.rop(sz, false), self.memr()];
                if sz == 8 { dsts.push(self.rop(8, true)); }
                dsts.push(Op::Reg(1)); // the count register itself
                for d in dsts {
                    for cnt in [0u64, 1, (sz - 1) as u64, sz as u64, (sz + 1) as u64, 33, 64, 0xff, self.r.below(256)] {
                        self.add("shift-imm", mn, sz, format!("(IShift {} {} {} (OImm {}))", c, sz, d.coq(), cnt), format!("{} {}, 0x{:x}", mn, d.text(sz), cnt), vec![d.clone()],
                            Enc { mode: m, opsz: sz, def64: false, pre: &[], opc: &[0xC0 + w], reg: Some(RegF::Digit(digit)), rm: Some((&d, sz == 8)), plusr: None, imm: imm_bytes(cnt, 1) }, cnt as i64);
                    }
                    self.add("shift-imm", mn, sz, format!("(IShift1 {} {} {})", c, sz, d.coq()), format!("{} {}, 1", mn, d.text(sz)), vec![d.clone()],
                        Enc { mode: m, opsz: sz, def64: false, pre: &[], opc: &[0xD0 + w], reg: Some(RegF::Digit(digit)), rm: Some((&d, sz == 8)), plusr: None, imm: vec![] }, 1);
                    self.add("shift-cl", mn, sz, format!("(IShift {} {} {} (OReg 1))", c, sz, d.coq()), format!("{} {}, cl", mn, d.text(sz)), vec![d.clone()],
                        Enc { mode: m, opsz: sz, def64: false, pre: &[], opc: &[0xD2 + w], reg: Some(RegF::Digit(digit)), rm: Some((&d, sz == 8)), plusr: None, imm: vec![] }, -1);
                }
            }
        }
        for (c, mn, opc, digit) in [("BtT", "bt", 0xA3u8, 4u8), ("BtS", "bts", 0xAB, 5), ("BtR", "btr", 0xB3, 6), ("BtC", "btc", 0xBB, 7)] {
            for sz in self.wsizes() {
                for k in 0..3 {
                    let d = if k == 0 { Op::Reg(self.gp()) } else { self.memr() };
                    let s = self.gp_nosp();
                    self.add(if d.is_mem() { "bt-mem-reg" } else { "bt" }, mn, sz, format!("(IBt {} {} {} (OReg {}))", c, sz, d.coq(), s), format!("{} {}, {}", mn, d.text(sz), regname(s, sz)), vec![d.clone(), Op::Reg(s)],
                        Enc { mode: m, opsz: sz, def64: false, pre: &[], opc: &[0x0F, opc], reg: Some(RegF::R(s, false)), rm: Some((&d, false)), plusr: None, imm: vec![] }, 0);
                    for cnt in [0u64, (sz - 1) as u64, sz as u64, 0xff, self.r.below(256)] {
                        self.add("bt", mn, sz, format!("(IBt {} {} {} (OImm {}))", c, sz, d.coq(), cnt), format!("{} {}, 0x{:x}", mn, d.text(sz), cnt), vec![d.clone()],
                            Enc { mode: m, opsz: sz, def64: false, pre: &[], opc: &[0x0F, 0xBA], reg: Some(RegF::Digit(digit)), rm: Some((&d, false)), plusr: None, imm: imm_bytes(cnt, 1) }, cnt as i64);
                    }
                }
            }
        }
        for (c, mn, opc) in [("IBsf", "bsf", 0xBCu8), ("IBsr", "bsr", 0xBD)] {
            for sz in self.wsizes() {
                for k in 0..3 {
                    let d = self.gp();
                    let s = if k == 0 { Op::Reg(self.gp()) } else if k == 1 { Op::Reg(d) } else { self.memr() };
                    self.add("bitscan", mn, sz, format!("({} {} {} {})", c, sz, d, s.coq()), format!("{} {}, {}", mn, regname(d, sz), s.text(sz)), vec![Op::Reg(d), s.clone()],
                        Enc { mode: m, opsz: sz, def64: false, pre: &[], opc: &[0x0F, opc], reg: Some(RegF::R(d, false)), rm: Some((&s, false)), plusr: None, imm: vec![] }, 0);
                }
            }
        }
        for (c, mn, opc) in [("StMovs", "movs", 0xA4u8), ("StCmps", "cmps", 0xA6), ("StStos", "stos", 0xAA), ("StLods", "lods", 0xAC), ("StScas", "scas", 0xAE)] {
            for sz in self.sizes() {
                let w = if sz == 8 { 0 } else { 1 };
                let sfx = match sz { 8 => "b", 16 => "w", 32 => "d", _ => "q" };
                for (rc, rn, pre) in [("RNone", "", vec![]), ("RRep", "rep ", vec![0xF3u8]), ("RRepne", "repne ", vec![0xF2u8])] {
                    // F2 on movs/stos/lods is a reserved encoding (the SDM defines repne for cmps/scas only)
                    if rc == "RRepne" && !(mn == "cmps" || mn == "scas") { continue; }
                    self.add(if pre.is_empty() { "string" } else { "string-rep" }, &format!("{}{}{}", rn, mn, sfx), sz, format!("(IStr {} {} {})", c, sz, rc), format!("{}{}{}", rn, mn, sfx), vec![],
                        Enc { mode: m, opsz: sz, def64: false, pre: &pre, opc: &[opc + w], reg: None, rm: None, plusr: None, imm: vec![] }, 0);
                }
            }
        }
    }

    // ---- forms without a Coq specification: processor comparison only (64-bit mode) ------------
    fn nospec(&mut self) {
        let m = self.mode;
        // flag mask bits: 1 CF, 2 ZF, 4 SF, 8 OF
        // shld / shrd (specified in Isa/X86.v; counts above the operand size -- 16-bit operands only -- are
        // architecturally undefined: X86.step = XUnspec and the oracle is silent there)
        for (mn, left, opc_i, opc_c) in [("shld", "true", 0xA4u8, 0xA5u8), ("shrd", "false", 0xAC, 0xAD)] {
            for sz in self.wsizes() {
                for k in 0..2 {
                    let d = if k == 0 { Op::Reg(self.gp()) } else { self.memr() };
                    let s = self.gp_nosp();
                    for cnt in [0u64, 1, 5, (sz - 1) as u64, sz as u64, 17, 31, 33, 0xff] {
                        self.add("shxd", mn, sz, format!("(IShxd {} {} {} {} (OImm {}))", left, sz, d.coq(), s, cnt), format!("{} {}, {}, 0x{:x}", mn, d.text(sz), regname(s, sz), cnt), vec![d.clone(), Op::Reg(s)],
                            Enc { mode: m, opsz: sz, def64: false, pre: &[], opc: &[0x0F, opc_i], reg: Some(RegF::R(s, false)), rm: Some((&d, false)), plusr: None, imm: imm_bytes(cnt, 1) }, cnt as i64);
                    }
                    self.add("shxd", mn, sz, format!("(IShxd {} {} {} {} (OReg 1))", left, sz, d.coq(), s), format!("{} {}, {}, cl", mn, d.text(sz), regname(s, sz)), vec![d.clone(), Op::Reg(s)],
                        Enc { mode: m, opsz: sz, def64: false, pre: &[], opc: &[0x0F, opc_c], reg: Some(RegF::R(s, false)), rm: Some((&d, false)), plusr: None, imm: vec![] }, -1);
                }
            }
        }
        for sz in self.sizes() {
            let w = if sz == 8 { 0 } else { 1 };
            for k in 0..2 {
                let d = if k == 0 { self.rop(sz, false) } else { self.memr() };
                let s = self.rop(sz, false);
                self.add("nospec-cmpxchg", "cmpxchg", sz, "(INoSpec 15)".into(), format!("cmpxchg {}, {}", d.text(sz), s.text(sz)), vec![d.clone(), s.clone()],
                    Enc { mode: m, opsz: sz, def64: false, pre: &[], opc: &[0x0F, 0xB0 + w], reg: Some(G::regf(&s, sz)), rm: Some((&d, sz == 8)), plusr: None, imm: vec![] }, 0);
                self.add("xadd", "xadd", sz, format!("(IXadd {} {} {})", sz, d.coq(), s.coq()), format!("xadd {}, {}", d.text(sz), s.text(sz)), vec![d.clone(), s.clone()],
                    Enc { mode: m, opsz: sz, def64: false, pre: &[], opc: &[0x0F, 0xC0 + w], reg: Some(G::regf(&s, sz)), rm: Some((&d, sz == 8)), plusr: None, imm: vec![] }, 0);
            }
        }
        for sz in [32u8, 64] {
            let r = self.gp();
            self.add("nospec-bswap", "bswap", sz, "(INoSpec 15)".into(), format!("bswap {}", regname(r, sz)), vec![Op::Reg(r)],
                Enc { mode: m, opsz: sz, def64: false, pre: &[], opc: &[0x0F, 0xC8], reg: None, rm: None, plusr: Some((r, false)), imm: vec![] }, 0);
        }
        self.add("nospec-sahf", "sahf", 8, "(INoSpec 7)".into(), "sahf".into(), vec![], Enc { opc: &[0x9E], ..none_enc(m) }, 0);
        if m != Mode::M64 { return; }
        // SSE subset: (mnemonic, mandatory prefix, opcode, store-form opcode or 0, memory operand bits)
        let two: [(&str, &[u8], u8, u8, u8); 22] = [
            ("movaps", &[], 0x28, 0x29, 128), ("movups", &[], 0x10, 0x11, 128), ("movapd", &[0x66], 0x28, 0x29, 128),
            ("movdqa", &[0x66], 0x6F, 0x7F, 128), ("movdqu", &[0xF3], 0x6F, 0x7F, 128),
            ("pxor", &[0x66], 0xEF, 0, 128), ("por", &[0x66], 0xEB, 0, 128), ("paddq", &[0x66], 0xD4, 0, 128),
            ("psubq", &[0x66], 0xFB, 0, 128), ("psubb", &[0x66], 0xF8, 0, 128), ("pcmpeqb", &[0x66], 0x74, 0, 128),
            ("pcmpeqd", &[0x66], 0x76, 0, 128), ("pminub", &[0x66], 0xDA, 0, 128), ("punpcklbw", &[0x66], 0x60, 0, 128),
            ("punpcklwd", &[0x66], 0x61, 0, 128), ("movq", &[0xF3], 0x7E, 0, 64), ("movq", &[0x66], 0xD6, 0xD6, 64),
            ("movhpd", &[0x66], 0x16, 0x17, 64), ("movlpd", &[0x66], 0x12, 0x13, 64),
            ("paddq", &[], 0xD4, 0, 64), ("psubq", &[], 0xFB, 0, 64), ("pxor", &[], 0xEF, 0, 64),
        ];
        for (mn, pre, opc, st, mbits) in two {
            let mmx = pre.is_empty() && !mn.starts_with("mov");
            for k in 0..3 {
                let x = self.r.below(if mmx { 8 } else { 16 }) as u8;
                let s = if k == 0 { Op::Reg(self.r.below(if mmx { 8 } else { 16 }) as u8) } else if k == 1 { Op::Reg(x) } else { self.memr() };
                if (mn == "movhpd" || mn == "movlpd") && !s.is_mem() { continue; }
                let cls: &'static str = if mmx { "nospec-mmx" } else { "nospec-sse" };
                if opc != 0xD6 {
                    self.forms_sse(cls, mn, format!("{} xmm{}, {}", mn, x, s.text(if s.is_mem() { mbits } else { 128 })), vec![Op::Reg(x), s.clone()],
                        Enc { mode: m, opsz: 128, def64: false, pre, opc: &[0x0F, opc], reg: Some(RegF::R(x, false)), rm: Some((&s, false)), plusr: None, imm: vec![] }, mbits);
                }
                if st != 0 {
                    self.forms_sse(cls, mn, format!("{} {}, xmm{}", mn, s.text(if s.is_mem() { mbits } else { 128 }), x), vec![s.clone(), Op::Reg(x)],
                        Enc { mode: m, opsz: 128, def64: false, pre, opc: &[0x0F, st], reg: Some(RegF::R(x, false)), rm: Some((&s, false)), plusr: None, imm: vec![] }, mbits);
                }
            }
        }
        for k in 0..3 {
            let x = self.r.below(16) as u8;
            let y = self.r.below(16) as u8;
            let g = self.gp_nosp();
            let imm = self.imm(8);
            let s = if k == 2 { self.memr() } else { Op::Reg(y) };
            self.forms_sse("nospec-sse", "pshufd", format!("pshufd xmm{}, {}, 0x{:x}", x, s.text(128), imm), vec![Op::Reg(x), s.clone()],
                Enc { mode: m, opsz: 128, def64: false, pre: &[0x66], opc: &[0x0F, 0x70], reg: Some(RegF::R(x, false)), rm: Some((&s, false)), plusr: None, imm: imm_bytes(imm, 1) }, 128);
            let sh = [0u64, 1, 8, 15, 16, 200][self.r.below(6) as usize];
            self.forms_sse("nospec-sse", "pslldq", format!("pslldq xmm{}, {}", x, sh), vec![Op::Reg(x)],
                Enc { mode: m, opsz: 128, def64: false, pre: &[0x66], opc: &[0x0F, 0x73], reg: Some(RegF::Digit(7)), rm: Some((&Op::Reg(x), false)), plusr: None, imm: imm_bytes(sh, 1) }, 128);
            self.forms_sse("nospec-sse", "psrldq", format!("psrldq xmm{}, {}", x, sh), vec![Op::Reg(x)],
                Enc { mode: m, opsz: 128, def64: false, pre: &[0x66], opc: &[0x0F, 0x73], reg: Some(RegF::Digit(3)), rm: Some((&Op::Reg(x), false)), plusr: None, imm: imm_bytes(sh, 1) }, 128);
            self.forms_sse("nospec-sse", "pmovmskb", format!("pmovmskb {}, xmm{}", regname(g, 32), y), vec![],
                Enc { mode: m, opsz: 128, def64: false, pre: &[0x66], opc: &[0x0F, 0xD7], reg: Some(RegF::R(g, false)), rm: Some((&Op::Reg(y), false)), plusr: None, imm: vec![] }, 128);
            // movd / movq between GPR (or memory) and XMM
            let gm = if k == 2 { self.memr() } else { Op::Reg(g) };
            for (wbit, nm, bits) in [(32u8, "movd", 32u8), (64, "movq", 64)] {
                self.forms_sse("nospec-sse", nm, format!("{} xmm{}, {}", nm, x, gm.text(bits)), vec![gm.clone()],
                    Enc { mode: m, opsz: wbit, def64: false, pre: &[0x66], opc: &[0x0F, 0x6E], reg: Some(RegF::R(x, false)), rm: Some((&gm, false)), plusr: None, imm: vec![] }, bits);
                self.forms_sse("nospec-sse", nm, format!("{} {}, xmm{}", nm, gm.text(bits), x), vec![gm.clone()],
                    Enc { mode: m, opsz: wbit, def64: false, pre: &[0x66], opc: &[0x0F, 0x7E], reg: Some(RegF::R(x, false)), rm: Some((&gm, false)), plusr: None, imm: vec![] }, bits);
            }
        }
    }
    fn forms_sse(&mut self, class: &'static str, mnem: &str, text: String, ops: Vec<Op>, e: Enc, mbits: u8) {
        // SSE encodings: the 0x66 operand-size prefix is part of `pre`; opsz only selects REX.W
        let e2 = Enc { opsz: if e.opsz == 64 { 64 } else { 32 }, ..e };
        if let Some(bytes) = enc(&e2) {
            self.forms.push(Form { mode: self.mode, coq: "(INoSpec 15)".into(), text, bytes, class, mnem: mnem.into(), sz: mbits, ops, sse: true, aux: 0, alias: self.in_alias });
        }
    }
}

fn all_forms(mode: Mode, seed: u64) -> Vec<Form> {
    let mut g = G { mode, forms: vec![], r: Rng::for_case(seed, 0x7000_0000 + mode.word() as u64), in_alias: false };
    g.alu();
    g.unary();
    g.movs_();
    g.stack_ctl();
    g.shifts_bits_strings();
    g.nospec();
    g.in_alias = true;
    g.aliasing();
    g.addr_size();
    g.imm_boundary();
    g.forms
}

// ---------------------------------------------------------------- samples
fn pat(seed: u64, a: u64) -> u8 {
    let x = (a & 0xFFFF) * 40503 + (seed & 0xFFFF) * 12345;
    ((x >> 8) & 0xFF) as u8
}
#[derive(Clone)]
struct Sample {
    g: [u64; 16],
    x: [u128; 16],
    rfl: u64,
    seed: u64,
    over: Vec<(u64, u8)>,
    ranges: Vec<(u64, u64)>,
}
impl Sample {
    fn byte(&self, a: u64) -> u8 {
        for (k, v) in self.over.iter().rev() { if *k == a { return *v; } }
        pat(self.seed, a)
    }
    fn set_bytes(&mut self, a: u64, v: u128, n: usize) {
        for i in 0..n {
            let addr = a.wrapping_add(i as u64);
            self.over.retain(|(k, _)| *k != addr);
            self.over.push((addr, (v >> (8 * i)) as u8));
        }
    }
    fn read(&self, a: u64, n: usize) -> u128 {
        (0..n).fold(0u128, |acc, i| acc | ((self.byte(a.wrapping_add(i as u64)) as u128) << (8 * i)))
    }
}
fn bval(r: &mut Rng) -> u64 {
    match r.below(24) {
        0 => 0,
        1 => 1,
        2 => u64::MAX,
        3 => 0x7f,
        4 => 0x80,
        5 => 0xff,
        6 => 0x7fff,
        7 => 0x8000,
        8 => 0xffff,
        9 => 0x7fff_ffff,
        10 => 0x8000_0000,
        11 => 0xffff_ffff,
        12 => 0x7fff_ffff_ffff_ffff,
        13 => 0x8000_0000_0000_0000,
        14 => 0x1_0000_0000,
        15 => r.below(256),
        16 => r.next() & 0xffff_ffff,
        17 => 1u64 << r.below(64),
        _ => r.next(),
    }
}
fn code_target(r: &mut Rng) -> u64 {
    match r.below(4) {
        0 => CODE_AT + 0x100 + r.below(0x700),
        1 => CODE_AT - 0x800 + r.below(0x700),
        2 => LOW + 0x2000 + r.below(0x1000), // not executable: fetch fault reports the target
        _ => CODE_AT + 0x40 + r.below(0x40),
    }
}
fn sample(f: &Form, r: &mut Rng, k: usize) -> Sample {
    let m64 = f.mode == Mode::M64;
    let wmask = mask(f.mode.word());
    let mut s = Sample { g: [0; 16], x: [0; 16], rfl: 0, seed: r.below(0x10000), over: vec![], ranges: vec![] };
    for i in 0..16 { s.g[i] = bval(r); }
    if f.sse {
        for i in 0..16 {
            s.x[i] = match r.below(6) { 0 => 0, 1 => u128::MAX, 2 => (bval(r) as u128) << 64 | bval(r) as u128, _ => (r.next() as u128) << 64 | r.next() as u128 };
        }
    }
    let stack_region = if m64 && r.chance(1, 4) { HIGH } else { LOW };
    s.g[4] = stack_region + 0x8000 + r.below(0x100) * 8 + if r.chance(1, 4) { r.below(8) } else { 0 };
    s.rfl = r.next() & FLAG_MASK & !0x400;
    let df_p = if f.class.starts_with("string") { 2 } else { 6 };
    if r.chance(1, df_p) { s.rfl |= 0x400; }
    let sz = f.sz;
    // ---- class hints (registers)
    match f.class {
        "shift-cl" | "shxd" => {
            let rnd = r.below(256);
            let c = *r.pick(&[0u64, 1, 2, (sz as u64).wrapping_sub(1), sz as u64, sz as u64 + 1, 15, 16, 17, 31, 32, 33, 63, 64, 65, 0x7f, 0x80, 0xff, rnd]) & 0xff;
            s.g[1] = (s.g[1] & !0xff) | c;
        }
        "string" | "string-rep" => {
            let reg = if m64 && r.chance(1, 4) { HIGH } else { LOW };
            s.g[6] = reg + 0x1000 + r.below(0x60) * 0x100 + r.below(16);
            s.g[7] = reg + 0x9000 + r.below(0x60) * 0x100 + r.below(16);
            if r.chance(1, 8) { s.g[7] = s.g[6] + (sz as u64 / 8) * r.below(3); } // overlapping
            if f.class == "string-rep" { s.g[1] = *r.pick(&[0u64, 1, 2, 3, 4, 5]); }
        }
        // count register: the first two states of every encoding have (r/e)cx = 0 and = 1, the others come from the pool
        // (incl. values that are zero only at a narrower count width)
        "loop" => { let rnd = r.next(); let p = *r.pick(&[0u64, 1, 2, 0x1_0000, 0xffff_0000, 0x1_0000_0000, 0x1_0000_0001, 0xffff_ffff_0000_0000, rnd]);
                    s.g[1] = match k { 0 => 0, 1 => 1, _ => p }; }
        "leave" => { s.g[5] = stack_region + 0x8000 + 0x1000 + r.below(0x100) * 8; }
        "bt-mem-reg" => {
            if let Some(Op::Reg(o)) = f.ops.get(1) {
                if r.chance(3, 4) { s.g[*o as usize] = (r.below(129) as i64 - 64) as u64; }
                // narrow addressing: a bit offset whose byte displacement is a small amount plus a multiple of
                // 2^asz, so that the element is mapped exactly when the whole address wraps at the address width
                if let Some(Op::Mem { asz, .. }) = f.ops.first() {
                    if (*asz as u32) + 3 < sz as u32 && k % 3 != 0 {
                        let small = (r.below(129) as i64 - 64) as u64;
                        let j = (r.next() | 1) & mask(sz - asz - 3);
                        s.g[*o as usize] = small.wrapping_add(j << (*asz as u32 + 3)) & mask(sz) | if sz < 64 { r.next() << sz } else { 0 };
                    }
                }
            }
        }
        "ctl-ind" => {
            if let Some(Op::Reg(t)) = f.ops.first() { s.g[*t as usize] = code_target(r); }
        }
        _ => {}
    }
    if !m64 { for i in 0..16 { s.g[i] = if i < 8 { s.g[i] & wmask } else { 0 }; } }
    // ---- addressing fix-up.  Scenario by sample number k:
    //   k % 3 == 0  plain: small index, base solved so that the address lands in a scratch region
    //   k % 3 == 1  WRAP: the index (or, without index, nothing) gets bit (asz-1) set / is near the maximum, the base is
    //               solved modulo 2^asz, so base + index*scale + disp exceeds 2^asz and wraps into the scratch region
    //   k % 3 == 2  as 1 with boundary-pool index values; with an address-size prefix both registers also carry garbage
    //               above the address width
    //   lea (no memory access): the SUM is chosen instead: k % 6 = 1 wraps by a small amount, 2 lands on 2^asz - 1,
    //               3 on 2^(asz-1), 4 plain, 0/5 whatever the random registers give
    let narrow_garbage = |v: u64, asz: u8, r: &mut Rng| -> u64 { if m64 && asz == 32 && r.chance(2, 3) { (v & mask(32)) | (r.next() << 32) } else { v } };
    let mut eas: Vec<(u64, u8)> = vec![];
    for o in &f.ops {
        if let Op::Mem { base, index, disp, asz, rip } = o {
            let am = mask(*asz);
            let is_lea = f.class == "lea";
            let region = if m64 && *asz == 64 && !*rip && base.is_some() && r.chance(1, 3) { HIGH } else { LOW };
            let mut target = region + 0x1000 + r.below(0xE000);
            if f.sse && f.sz == 128 && !r.chance(1, 8) { target &= !15; }
            let mut solve = true;
            if is_lea {
                match k % 6 {
                    1 => target = r.below(0x1000),
                    2 => target = am,
                    3 => target = (am >> 1) + 1,
                    4 => {}
                    _ => solve = false,
                }
                target &= am;
            }
            let scen = k % 3;
            if solve {
                match (base, index) {
                    (Some(b), idx) if *b != 4 => {
                        match idx {
                            Some((i, sc)) if i == b => {
                                // reg * (1 + scale) + disp = target (+ m * 2^asz when wrapping)
                                let f1 = 1 + *sc as u128;
                                let mut want = (target.wrapping_sub(*disp as u64) & am) as u128;
                                if scen != 0 { want += (1u128 << *asz) * (1 + r.below(*sc as u64) as u128); }
                                let kq = (want / f1) as u64;
                                s.g[*b as usize] = narrow_garbage(kq & am, *asz, r);
                            }
                            _ => {
                                let mut iv = 0u64;
                                if let Some((i, sc)) = idx {
                                    if *i != 4 {
                                        let v = match scen {
                                            0 => r.below(9),
                                            1 => if r.chance(1, 2) { (1u64 << (*asz - 1)) | r.below(1 << 16) } else { am - r.below(64) },
                                            _ => bval(r),
                                        };
                                        let v = if scen == 0 { v } else { narrow_garbage(v, *asz, r) };
                                        s.g[*i as usize] = if m64 { v } else { v & wmask };
                                    }
                                    iv = s.g[*i as usize].wrapping_mul(*sc as u64);
                                }
                                let bv = target.wrapping_sub(*disp as u64).wrapping_sub(iv) & am;
                                s.g[*b as usize] = narrow_garbage(bv, *asz, r);
                            }
                        }
                    }
                    (None, Some((i, _))) => { s.g[*i as usize] = r.below(9); }
                    _ => {}
                }
            }
            if !m64 { for q in 0..16 { s.g[q] = if q < 8 { s.g[q] & wmask } else { 0 }; } }
            eas.push((o.ea(&s.g), if is_lea { 0 } else { 1 }));
        }
    }
    // ---- memory overrides and remaining hints that need the effective address
    let word_bytes = (f.mode.word() / 8) as usize;
    match f.class {
        "ret" => { let t = code_target(r); let sp = s.g[4]; s.set_bytes(sp, t as u128, word_bytes); }
        "ctl-ind" => {
            if let Some(o @ Op::Mem { .. }) = f.ops.first() { let t = code_target(r); let a = o.ea(&s.g); s.set_bytes(a, t as u128, word_bytes); }
        }
        "div" => {
            // make the quotient fit most of the time
            let n = (sz / 8) as usize;
            let mut dv = bval(r) & mask(sz);
            if dv == 0 && !r.chance(1, 8) { dv = 1 + r.below(200); }
            match f.ops.first() {
                Some(Op::Reg(d)) => { let d = *d as usize; s.g[d] = (s.g[d] & !mask(sz)) | dv; }
                Some(Op::RegH(d)) => { let d = *d as usize; s.g[d] = (s.g[d] & !0xff00) | ((dv & 0xff) << 8); }
                Some(o @ Op::Mem { .. }) => { let a = o.ea(&s.g); s.set_bytes(a, dv as u128, n); }
                _ => {}
            }
            let addr_uses_ad = f.ops.iter().any(|o| matches!(o, Op::Mem { base, index, .. }
                if matches!(base, Some(0) | Some(2)) || matches!(index, Some((0, _)) | Some((2, _)))));
            if !addr_uses_ad && !r.chance(1, 6) {
                let signed = f.mnem == "idiv";
                if sz == 8 {
                    let lo = s.g[0] & 0xff;
                    let hi = if signed { if lo & 0x80 != 0 { 0xff } else { 0 } } else if dv > 1 { r.below(dv.min(255)) } else { 0 };
                    s.g[0] = (s.g[0] & !0xffff) | (hi << 8) | lo;
                } else {
                    let lo = s.g[0] & mask(sz);
                    let hi = if signed { if (lo >> (sz - 1)) & 1 == 1 { mask(sz) } else { 0 } } else if dv > 1 { r.next() % dv } else { 0 };
                    s.g[2] = (s.g[2] & !mask(sz)) | hi;
                    if sz == 32 && m64 { s.g[2] &= mask(32); }
                }
            }
        }
        "string" | "string-rep" => {
            let n = (sz / 8) as u64;
            let cnt = if f.class == "string-rep" { s.g[1].min(6) } else { 1 };
            let df = s.rfl & 0x400 != 0;
            if f.mnem.contains("cmps") && r.chance(2, 3) {
                // equal prefixes so that repe runs on
                let eq = r.below(cnt + 1);
                for k in 0..eq * n {
                    let (a, b) = if df { (s.g[6].wrapping_add(n - 1).wrapping_sub(k), s.g[7].wrapping_add(n - 1).wrapping_sub(k)) } else { (s.g[6] + k, s.g[7] + k) };
                    let v = s.byte(a);
                    s.set_bytes(b, v as u128, 1);
                }
            }
            if f.mnem.contains("scas") && r.chance(2, 3) {
                let at = r.below(cnt + 1);
                let a = if df { s.g[7].wrapping_sub(at * n) } else { s.g[7] + at * n };
                let v = s.read(a, n as usize) as u64;
                s.g[0] = (s.g[0] & !mask(sz)) | v;
            }
        }
        _ => {}
    }
    if !m64 { for i in 0..16 { s.g[i] = if i < 8 { s.g[i] & wmask } else { 0 }; } }
    // ---- windows of initial memory handed to the IL run
    for (a, used) in &eas {
        if *used == 1 {
            s.ranges.push((a.wrapping_sub(8), 40));
            if f.class == "bt-mem-reg" {
                // the element of the bit string the processor addresses: EA + floor(signed offset / size) * size/8
                if let (Some(Op::Reg(o)), Some(Op::Mem { asz, .. })) = (f.ops.get(1), f.ops.first()) {
                    let raw = s.g[*o as usize] & mask(f.sz);
                    let sv: i64 = if f.sz == 64 { raw as i64 } else if raw >> (f.sz - 1) & 1 == 1 { (raw as i64) - (1i64 << f.sz) } else { raw as i64 };
                    let idx = sv.div_euclid(f.sz as i64);
                    let el = a.wrapping_add((idx.wrapping_mul(f.sz as i64 / 8)) as u64) & mask(*asz);
                    s.ranges.push((el.wrapping_sub(8), 24));
                }
            }
        }
    }
    // 32-bit mode, 16-bit addressing: the addresses lie below 64 KiB, outside the regions of the image; the bytes
    // the instruction may touch are made part of the image as explicit bytes (there is no processor run in this
    // mode, the specification and the IL both start from the image)
    if !m64 && f.ops.iter().any(|o| matches!(o, Op::Mem { asz: 16, .. })) {
        for (a, n) in s.ranges.clone() {
            for i in 0..n {
                let addr = a.wrapping_add(i);
                if addr < 0x10000 { let b = s.byte(addr); s.set_bytes(addr, b as u128, 1); }
            }
        }
    }
    match f.class {
        "stack" | "ctl" | "ctl-ind" | "ctl-sp" | "ret" | "leave" => {
            s.ranges.push((s.g[4].wrapping_sub(24), 56));
            if f.class == "leave" { s.ranges.push((s.g[5].wrapping_sub(8), 32)); }
            if f.class == "ret" { s.ranges.push((s.g[4].wrapping_add(f.aux as u64).wrapping_sub(8), 24)); }
        }
        "string" | "string-rep" => {
            s.ranges.push((s.g[6].wrapping_sub(56), 120));
            s.ranges.push((s.g[7].wrapping_sub(56), 120));
        }
        _ => {}
    }
    s
}

// ---------------------------------------------------------------- lifting and dumping
fn seed_names(it: &mut Interner) {
    for n in R64 { it.id(n); }
    for i in 0..16 { it.id(&format!("xmm{}", i)); }
    for n in ["CF", "PF", "ZF", "SF", "OF", "DF"] { it.id(n); }
    for n in &R32[..8] { it.id(n); }
    for n in ["es_base", "cs_base", "ss_base", "ds_base", "fs_base", "gs_base"] { it.id(n); }
    // temporaries of the instruction at CODE_AT: temp_0x<addr> = 52, temp_0x<addr>_<k> = 53 + k
    it.id(&format!("temp_0x{:X}", CODE_AT));
    for k in 0..4 { it.id(&format!("temp_0x{:X}_{}", CODE_AT, k)); }
}
enum Lifted {
    Ok(String, String), // cfg, successors
    Err(&'static str),
    Panic,
    Mismatch(String),
}
fn lift(f: &Form) -> Lifted {
    let opts = Options::new();
    let bytes = f.bytes.clone();
    let mode = f.mode;
    let o = observe(move || match mode {
        Mode::M64 => Amd64::new().translate_block(&bytes, CODE_AT, &opts),
        Mode::M32 => X86::new().translate_block(&bytes, CODE_AT, &opts),
    });
    match o {
        Obs::Ok(btr) => {
            if btr.instructions().len() != 1 || btr.length() != f.bytes.len() {
                return Lifted::Mismatch(format!("{} instructions, length {}", btr.instructions().len(), btr.length()));
            }
            let mut it = Interner::new();
            seed_names(&mut it);
            let g = coq_cfg(&btr.instructions()[0].1, None, &mut it);
            let succ = coq_list(btr.successors().iter().map(|(a, c)| format!("({}, {})", a, coq_opt(c.as_ref().map(|e| coq_expr(e, &mut it))))));
            Lifted::Ok(g, succ)
        }
        Obs::Err(k) => Lifted::Err(k),
        Obs::Panic => Lifted::Panic,
    }
}

// ---------------------------------------------------------------- native runs
#[derive(Clone)]
enum Cpu {
    Ok { next: u64, rfl: u64, g: [u64; 16], x: [u128; 16], diffs: Vec<(u64, u8)> },
    Sig(i64),
    None,
}
fn hexs(b: &[u8]) -> String {
    b.iter().map(|x| format!("{:02x}", x)).collect()
}
fn native_line(id: usize, bytes: &[u8], s: &Sample) -> String {
    let mut l = format!("T {} {} {:x} {:x}", id, hexs(bytes), s.seed, s.rfl);
    for v in s.g { l += &format!(" {:x}", v); }
    for v in s.x { l += &format!(" {:x} {:x}", v as u64, (v >> 64) as u64); }
    l += &format!(" {:x}", s.over.len());
    for (a, v) in &s.over { l += &format!(" {:x} {:x}", a, v); }
    l
}
fn run_native(exe: &str, lines: &[String]) -> Vec<Cpu> {
    let mut res = vec![Cpu::None; lines.len()];
    if lines.is_empty() { return res; }
    let mut child = Command::new(exe).stdin(Stdio::piped()).stdout(Stdio::piped()).spawn().expect("x86run starts");
    {
        let mut stdin = child.stdin.take().unwrap();
        let data = lines.join("\n") + "\n";
        std::thread::spawn(move || { let _ = stdin.write_all(data.as_bytes()); });
    }
    let out = child.wait_with_output().expect("x86run output");
    for line in String::from_utf8_lossy(&out.stdout).lines() {
        let t: Vec<&str> = line.split_whitespace().collect();
        if t.len() < 3 || t[0] != "R" { continue; }
        let id: usize = t[1].parse().unwrap();
        let h = |s: &str| u64::from_str_radix(s, 16).unwrap();
        match t[2] {
            "OK" => {
                let next = h(t[3]);
                let rfl = h(t[4]);
                let mut g = [0u64; 16];
                for i in 0..16 { g[i] = h(t[5 + i]); }
                let mut x = [0u128; 16];
                for i in 0..16 { x[i] = h(t[21 + 2 * i]) as u128 | (h(t[22 + 2 * i]) as u128) << 64; }
                let nd: i64 = t[53].parse().unwrap();
                if nd < 0 { res[id] = Cpu::Sig(-1); continue; }
                let mut diffs = vec![];
                for k in 0..nd as usize { diffs.push((h(t[54 + 2 * k]), h(t[55 + 2 * k]) as u8)); }
                res[id] = Cpu::Ok { next, rfl, g, x, diffs };
            }
            "SIG" => res[id] = Cpu::Sig(t[3].parse().unwrap()),
            _ => res[id] = Cpu::None, // worker crashed (e.g. the input state has a non-canonical rsp): no processor result
        }
    }
    res
}

// ---------------------------------------------------------------- known-finding classes (predicates on the input)
fn kf_tags(f: &Form, s: &Sample) -> Vec<String> {
    let t: Vec<String> = vec![];
    // (no known-finding classes at present: the two classes found in this round -- bt/bts/btr/btc m, r bit-string
    //  addressing and shld/shrd count masking -- have been repaired by `fix:` commits)
    let _ = (f, s);
    t
}

fn zlist<I: IntoIterator<Item = String>>(it: I) -> String {
    coq_list(it)
}
fn sample_coq(f: &Form, s: &Sample, c: &Cpu) -> String {
    let n = f.mode.nregs() as usize;
    let g = zlist(s.g[..n].iter().map(|v| format!("{}", v)));
    let x = if f.sse { zlist(s.x.iter().map(|v| format!("{}", v))) } else { "[]".into() };
    let over = zlist(s.over.iter().map(|(a, v)| format!("({}, {})", a, v)));
    let ranges = zlist(s.ranges.iter().map(|(a, l)| format!("({}, {})", a, l)));
    let cpu = match c {
        Cpu::None => "CpuNone".to_string(),
        Cpu::Sig(n) => format!("(CpuSig {})", z_i128(*n as i128)),
        Cpu::Ok { next, rfl, g: g2, x: x2, diffs } => {
            let gd = zlist((0..16).filter(|i| g2[*i] != s.g[*i]).map(|i| format!("({}, {})", i, g2[i])));
            // XMM: diffs against the input; for non-SSE forms the input is not transmitted, any change is reported
            let xd = zlist((0..16).filter(|i| x2[*i] != s.x[*i]).map(|i| format!("({}, {})", i, x2[i])));
            let md = zlist(diffs.iter().map(|(a, v)| format!("({}, {})", a, v)));
            format!("(CpuOk {} {} {} {} {})", next, rfl, gd, xd, md)
        }
    };
    format!("(mksample {} {} {} {} {} {} {})", g, x, s.rfl, s.seed, over, ranges, cpu)
}

fn main() {
    quiet_panics();
    let args = parse_args();
    std::fs::create_dir_all(&args.out).unwrap();
    let nsamples: usize = args.extra.get("samples").and_then(|s| s.parse().ok()).unwrap_or(6);
    // native runner
    let exe = format!("{}/x86run", args.out);
    let src = "/verif/native/x86run.c";
    let st = Command::new("gcc").args(["-O1", "-o", &exe, src]).status();
    let have_native = matches!(st, Ok(s) if s.success());
    // forms of both modes, in a seed-dependent order
    let mut forms = all_forms(Mode::M64, args.seed);
    forms.extend(all_forms(Mode::M32, args.seed));
    let nforms = forms.len();
    let mut perm: Vec<usize> = (0..nforms).collect();
    let mut pr = Rng::for_case(args.seed, 0x7fff_fff0);
    for i in (1..nforms).rev() { let j = pr.below(i as u64 + 1) as usize; perm.swap(i, j); }
    // priority forms (operand aliasing, address-size prefixes, boundary immediates) are visited first, interleaved 1 : 1 with
    // the rest, so that the quick tier (2 000 encodings) reaches all of them
    {
        let (al, rest): (Vec<usize>, Vec<usize>) = perm.iter().partition(|k| forms[**k].alias);
        let (mut ia, mut ir) = (0, 0);
        let mut out = Vec::with_capacity(nforms);
        while ia < al.len() || ir < rest.len() {
            if ia < al.len() { out.push(al[ia]); ia += 1; }
            if ir < rest.len() { out.push(rest[ir]); ir += 1; }
        }
        perm = out;
    }
    let idxs: Vec<u64> = match args.only { Some(i) => vec![i], None => (0..args.n).collect() };

    struct Item { f: Form, samples: Vec<Sample>, tags: Vec<String>, lifted: Lifted, first_line: usize }
    let mut items: Vec<Item> = vec![];
    let mut lines: Vec<String> = vec![];
    for i in &idxs {
        let f = forms[perm[(*i as usize) % nforms]].clone();
        let mut r = Rng::for_case(args.seed, *i);
        let mut samples: Vec<Sample> = vec![];
        let mut tags: Vec<String> = vec![];
        for k in 0..nsamples * 2 {
            let s = sample(&f, &mut r, k);
            let t = kf_tags(&f, &s);
            if k == 0 { tags = t.clone(); }
            if t == tags && samples.len() < nsamples { samples.push(s); }
        }
        let lifted = lift(&f);
        let first_line = lines.len();
        if f.mode == Mode::M64 && have_native {
            for s in &samples { lines.push(native_line(lines.len(), &f.bytes, s)); }
        }
        items.push(Item { f, samples, tags, lifted, first_line });
    }
    let cpu = run_native(&exe, &lines);

    let mut cases: Vec<Case> = vec![];
    let mut stats: BTreeMap<String, u64> = BTreeMap::new();
    let mut bump = |k: &str, n: u64| { *stats.entry(k.to_string()).or_insert(0) += n; };
    for it in &items {
        let f = &it.f;
        let mut ncpu_ok = 0;
        let mut ncpu_sig = 0;
        let samples_coq: Vec<String> = it.samples.iter().enumerate().map(|(k, s)| {
            let c = if f.mode == Mode::M64 && have_native { cpu[it.first_line + k].clone() } else { Cpu::None };
            match c { Cpu::Ok { .. } => ncpu_ok += 1, Cpu::Sig(_) => ncpu_sig += 1, _ => {} }
            sample_coq(f, s, &c)
        }).collect();
        let (lcoq, lkind) = match &it.lifted {
            Lifted::Ok(g, s) => (format!("(LOk {} {})", g, s), "accepted".to_string()),
            Lifted::Err(k) => (format!("(LErr {})", k), format!("rejected:{}", k)),
            Lifted::Panic => ("LPanic".to_string(), "rejected:panic".to_string()),
            Lifted::Mismatch(_) => ("(LErr ECustom)".to_string(), "rejected:decode-mismatch".to_string()),
        };
        let spec = !f.coq.starts_with("(INoSpec");
        bump("encodings", 1);
        bump(&format!("encodings:{}", lkind), 1);
        if lkind == "accepted" {
            bump("samples", it.samples.len() as u64);
            bump("samples:cpu-result", ncpu_ok);
            bump("samples:cpu-fault-skipped", ncpu_sig);
            if spec { bump("samples:spec-vs-cpu", ncpu_ok); bump("encodings:with-spec", 1); } else { bump("encodings:cpu-only", 1); }
            // same predicate as Isa/X86Mirror.mirror_instr: forms with a Gallina mirror whose output is tied syntactically
            let memok = |o: &Op| matches!(o, Op::Mem { base, index, rip, .. } if !*rip && (base.is_some() || index.is_some()));
            let regop = |o: &Op| matches!(o, Op::Reg(_) | Op::RegH(_));
            let o0 = f.ops.first();
            let o1 = f.ops.get(1);
            let src_regimm = o1.map_or(true, |o| regop(o) || matches!(o, Op::Imm(_)));
            let two_op_shape = match o0 {
                Some(d) if regop(d) => src_regimm || o1.map_or(false, |o| memok(o)),
                Some(d) if memok(d) => src_regimm,
                _ => false,
            };
            let alu6 = ["add", "sub", "cmp", "and", "or", "xor", "adc", "sbb"].contains(&f.mnem.as_str());
            let mirrored = (f.class == "mov" && two_op_shape)
                || (f.class == "alu" && alu6 && two_op_shape)
                || (f.class == "alu" && f.mnem == "test" && o0.map_or(false, |d| regop(d) || memok(d)) && src_regimm)
                || ((f.class == "xchg" || f.class == "xadd") && o0.map_or(false, |d| regop(d) || memok(d)) && o1.map_or(false, |d| regop(d)))
                || (f.class == "mul" && f.mnem == "imul" && (f.coq.starts_with("(IImul2") || f.coq.starts_with("(IImul3")) && o1.map_or(false, |d| regop(d) || memok(d)))
                || ((f.class == "shift-imm" || f.class == "shift-cl") && ["shl", "shr", "sar", "rol", "ror"].contains(&f.mnem.as_str()) && o0.map_or(false, |d| regop(d) || memok(d)))
                || f.coq.starts_with("(IJmpRel") || f.coq.starts_with("(IRet ") || f.coq == "IRet0" || f.coq.starts_with("(ILoop") || f.coq.starts_with("(IJcxz") || f.coq.starts_with("(IJcc")
                || (f.class == "bt" && f.coq.starts_with("(IBt") && o0.map_or(false, |d| regop(d) || (memok(d) && o1.is_none())))
                || (f.class == "cmov" && o1.map_or(false, |d| regop(d) || memok(d)))
                || f.coq.starts_with("(ICallRel") || (f.coq.starts_with("(ICallInd") && o0.map_or(false, |d| regop(d) || memok(d)))
                || (f.coq.starts_with("(IJmpInd") && o0.map_or(false, |d| regop(d) || memok(d)))
                || (f.class == "unary" && ["inc", "dec", "neg", "not"].contains(&f.mnem.as_str()) && o0.map_or(false, |d| regop(d) || memok(d)))
                || (f.class == "setcc" && o0.map_or(false, |d| regop(d)))
                || (f.class == "movx" && o1.map_or(false, |o| regop(o) || memok(o)))
                || (f.class == "lea" && o1.map_or(false, |o| memok(o)))
                || (f.class == "stack" && (o0.map_or(true, |d| regop(d) || memok(d))) && (f.mnem == "push" || !f.ops.is_empty()));
            if mirrored { bump("encodings:mirror-syntactic-tie", 1); }
            // ... of which also covered by a sim theorem (Props/C01.v); memory forms: under the no-wrap state condition
            let mem_dst = o0.map_or(false, |d| memok(d));
            let _ = mem_dst;
            let excluded = (f.mnem == "xor" && f.ops.len() == 2 && f.ops[0] == f.ops[1]) || f.mnem == "setp" || f.mnem == "setnp" || f.mnem == "jp" || f.mnem == "jnp" || f.coq == "(ICallInd (OReg 4))" || (f.class == "cmov" && (f.mnem == "cmovp" || f.mnem == "cmovnp" || o1.map_or(false, |d| memok(d))));
            if mirrored && !excluded { bump("encodings:sim-theorem-and-tie", 1); }
            // per mnemonic class: theorem+tie / tie only / processor+specification on sampled states / processor only
            let kind = if mirrored && !excluded { "theorem+tie" } else if mirrored { "tie-only" } else if spec { "sampled:cpu+spec" } else { "sampled:cpu-only" };
            bump(&format!("byclass:{}:{}", f.class, kind), 1);
        }
        let mname = if f.mode == Mode::M64 { "amd64" } else { "x86" };
        let mut tags = vec![format!("mode:{}", mname), format!("class:{}", f.class), format!("lift:{}", lkind), format!("mnem:{}", f.mnem.split(' ').last().unwrap_or("")), format!("sz:{}", f.sz)];
        if f.ops.iter().any(|o| matches!(o, Op::RegH(_))) { tags.push("operand:high-byte".into()); }
        if f.ops.iter().any(|o| o.is_mem()) { tags.push("operand:mem".into()); }
        if f.alias { tags.push("operand:aliasing-form".into()); }
        tags.extend(it.tags.iter().cloned());
        let descr = format!("{} [{}] {} -- {} samples ({} with processor result); lift: {}{}", mname, hexs(&f.bytes), f.text, it.samples.len(), ncpu_ok, lkind,
            if let Lifted::Mismatch(m) = &it.lifted { format!(" ({})", m) } else { String::new() });
        cases.push(Case {
            coq: format!("(mkcase {} {} {} {} {} (mirror_instr {} {} {} {}) {})", f.mode.coq(), CODE_AT, f.bytes.len(), f.coq, lcoq, f.mode.coq(), CODE_AT, f.bytes.len(), f.coq, coq_list(samples_coq)),
            descr,
            tags,
            nontrivial: lkind == "accepted" && !it.samples.is_empty(),
            key: format!("{}:{}", mname, hexs(&f.bytes)),
        });
    }
    let header = "From Coq Require Import ZArith List NArith.\nFrom Falcon Require Import Base.Res IL.Const IL.Expr IL.Func Isa.X86 Isa.X86Run Isa.X86Mirror Isa.C01Check.\nImport ListNotations.\nLocal Open Scope Z_scope.";
    let ck = if args.extra.contains_key("diag") { "(fun c => (diag c, ck c))" } else { "ck" };
    if args.extra.contains_key("diag") {
        // development aid: print the per-sample codes instead of the verdicts
        let mut s = String::new();
        s += header;
        s += "\n";
        for (i, c) in cases.iter().enumerate() {
            s += &format!("Definition d{} := Eval vm_compute in (diag {}).\nPrint d{}.\n", i, c.coq, i);
        }
        std::fs::write(format!("{}/diag.v", args.out), s).unwrap();
        let d: Vec<String> = cases.iter().map(|c| c.descr.clone()).collect();
        std::fs::write(format!("{}/diag.txt", args.out), d.join("\n")).unwrap();
        let _ = ck;
        return;
    }
    let extra = serde_json::json!({
        "forms_in_tables": nforms, "aliasing_forms_in_tables": forms.iter().filter(|f| f.alias).count(), "native_oracle": have_native, "samples_per_encoding": nsamples,
        "note": "samples:spec-vs-cpu = (encoding, state) pairs on which X86.step was compared with the processor inside Coq (testing of the trusted specification); a disagreement is an oracle failure",
        "stats": stats,
    });
    write_cases(&args, "C01", header, "ck", &cases, 16, extra);
}
