//! C10 harness: random IL functions -> falcon::transformation::ssa_transformation under catch_unwind.
//! The case carries the input function, the observed output (as Gallina terms sharing one name table)
//! and a few initial states; the kernel runs the verified validator `ssa_check` on the pair and, as a
//! search aid, the reference semantics on both forms side by side.
use falcon::il::{self, ControlFlowGraph, Expression, Function, Intrinsic};
use fvh::ilgen::*;
use fvh::*;
use std::collections::{BTreeMap, BTreeSet, VecDeque};
use std::fmt::Write as _;

/// scalar pools of one case
struct Pools {
    all: Vec<(String, usize)>,   // every scalar (name, bits): assignable, in initial states
    read: GenOpts,               // GenOpts whose pool is what instruction expressions may read
    guard: GenOpts,              // GenOpts whose pool is what edge guards may read
    guard_only: Option<(String, usize)>,
}

fn pools(r: &mut Rng, guard_only: bool, intrinsics: bool) -> Pools {
    let base: Vec<(String, usize)> = match r.below(3) {
        0 => vec![("a".into(), 32), ("b".into(), 32), ("x".into(), 8), ("f".into(), 1)],
        1 => vec![("a".into(), 32), ("b".into(), 32), ("c".into(), 32), ("x".into(), 8), ("f".into(), 1), ("q".into(), 64)],
        _ => vec![("a".into(), 32), ("x".into(), 8), ("h".into(), 16)],
    };
    let mut o = GenOpts::default();
    o.scalars = base.clone();
    o.expr_depth = 2;
    o.intrinsics = intrinsics;
    o.max_instrs = 3;
    let mut all = base.clone();
    let mut guard = o.clone();
    let mut go = None;
    if guard_only {
        let g = ("g".to_string(), *r.pick(&[32usize, 8, 1]));
        all.push(g.clone());
        // guards read only g (so that nothing but edge guards reads it)
        guard.scalars = vec![g.clone()];
        go = Some(g);
    }
    Pools { all, read: o, guard, guard_only: go }
}

fn push_instr(r: &mut Rng, p: &Pools, b: &mut il::Block) {
    let o = &p.read;
    let pick = r.below(100);
    let dst = p.all[r.below(p.all.len() as u64) as usize].clone();
    if pick < 10 {
        let w = *r.pick(&[8usize, 16, 32]);
        let src = if o.scalars.iter().any(|x| x.1 == w) { gen_expr(r, o, w, 1) } else { small_const(r, w) };
        b.store(gen_addr(r, o), src);
    } else if pick < 20 {
        let ms: Vec<&(String, usize)> = p.all.iter().filter(|x| x.1 % 8 == 0).collect();
        let d = r.pick(&ms);
        b.load(il::scalar(d.0.clone(), d.1), gen_addr(r, o));
    } else if o.intrinsics && pick < 36 {
        let declared = r.chance(2, 3);
        let rd = o.scalars[r.below(o.scalars.len() as u64) as usize].clone();
        let intr = Intrinsic::new(
            if declared { "declared" } else { "syscall" },
            "intrinsic",
            vec![il::expr_scalar(rd.0.clone(), rd.1)],
            // declared effects: one or two written expressions (sometimes the same scalar twice: two versions in
            // one operation), one or two read expressions
            if declared {
                let mut w = vec![il::expr_scalar(dst.0.clone(), dst.1)];
                if r.chance(1, 3) {
                    let d2 = if r.chance(1, 3) { dst.clone() } else { p.all[r.below(p.all.len() as u64) as usize].clone() };
                    w.push(il::expr_scalar(d2.0, d2.1));
                }
                Some(w)
            } else { None },
            if declared {
                let mut v = vec![gen_expr(r, o, rd.1, 1)];
                if r.chance(1, 3) { v.push(gen_expr(r, o, dst.1, 1)); }
                Some(v)
            } else { None },
            vec![0x0f, 0x05],
        );
        b.intrinsic(intr);
    } else if pick < 40 {
        b.nop();
    } else {
        b.assign(il::scalar(dst.0.clone(), dst.1), gen_expr(r, o, dst.1, o.expr_depth));
    }
}

/// guard on the guard pool: 1-bit expression
fn guard_cond(r: &mut Rng, p: &Pools) -> Expression {
    if let Some(g) = &p.guard_only {
        let x = il::expr_scalar(g.0.clone(), g.1);
        if g.1 == 1 {
            return x;
        }
        let k = il::expr_const(r.range(1, 3), g.1);
        return match r.below(3) {
            0 => Expression::cmpeq(x, k).unwrap(),
            1 => Expression::cmpltu(x, k).unwrap(),
            _ => Expression::cmpneq(x, k).unwrap(),
        };
    }
    gen_cond(r, &p.guard)
}

/// out-target lists per block
fn skeleton(r: &mut Rng, shape: u64) -> (Vec<Vec<usize>>, &'static str) {
    match shape {
        0 => (vec![vec![1, 2], vec![3], vec![3], vec![4, 5], vec![], vec![]], "diamond+guards"),
        1 => (vec![vec![1, 2], vec![3, 4], vec![6], vec![5], vec![5], vec![6], vec![7, 0], vec![]], "nested-diamond"),
        2 => (vec![vec![1, 2], vec![3], vec![3], vec![0, 4], vec![]], "entry-loop"),
        3 => (vec![vec![1], vec![1, 2], vec![2, 3], vec![]], "self-loops"),
        4 => (vec![vec![1, 2, 3], vec![4], vec![4], vec![4], vec![0, 5, 4], vec![]], "fan"),
        _ => {
            let nb = r.range(1, 8) as usize;
            let unreach = nb > 2 && r.chance(1, 3);
            let reach_n = if unreach { nb - 1 - r.below(2.min(nb as u64 - 2)) as usize } else { nb };
            let mut out = vec![];
            for h in 0..nb {
                let hi = if h < reach_n { reach_n } else { nb };
                let mut ts: Vec<usize> = vec![];
                let k = match r.below(10) { 0 => 0, 1..=4 => 1, 5..=8 => 2, _ => 3 };
                for _ in 0..k {
                    let t = if r.chance(1, 4) || h + 1 >= hi {
                        if r.chance(1, 3) && h >= reach_n { r.below(nb as u64) as usize } else { r.below(hi as u64) as usize }
                    } else {
                        r.range(h as u64 + 1, hi as u64 - 1) as usize
                    };
                    if !ts.contains(&t) {
                        ts.push(t);
                    }
                }
                out.push(ts);
            }
            (out, "random")
        }
    }
}

fn build(r: &mut Rng, p: &Pools, sk: &[Vec<usize>], addr0: u64, gaps: bool) -> Function {
    let mut cfg = ControlFlowGraph::new();
    let mut addr = addr0;
    for h in 0..sk.len() {
        let b = cfg.new_block().unwrap();
        let n = if r.chance(1, 6) { 0 } else { r.range(1, p.read.max_instrs) };
        for _ in 0..n {
            push_instr(r, p, b);
        }
        if let Some(g) = &p.guard_only {
            // the guard-only scalar is assigned in most blocks with exactly one predecessor-ish role (arms)
            if r.chance(1, 2) || (sk.len() == 6 && (h == 1 || h == 2)) {
                let k = il::expr_const(r.below(4), g.1);
                b.assign(il::scalar(g.0.clone(), g.1), k);
            }
        }
        // instruction-index gaps: the block lost an instruction through remove_instruction
        if gaps && b.instructions().len() >= 2 && r.chance(1, 2) {
            let k = r.below(b.instructions().len() as u64) as usize;
            let idx = b.instructions()[k].index();
            b.remove_instruction(idx).unwrap();
        }
        for i in b.instructions_mut() {
            i.set_address(Some(addr));
            addr += 4;
        }
    }
    for (h, ts) in sk.iter().enumerate() {
        match ts.len() {
            0 => {}
            1 => cfg.unconditional_edge(h, ts[0]).unwrap(),
            2 => {
                let c = guard_cond(r, p);
                let nc = Expression::cmpeq(c.clone(), il::expr_const(0, 1)).unwrap();
                cfg.conditional_edge(h, ts[0], c).unwrap();
                cfg.conditional_edge(h, ts[1], nc).unwrap();
            }
            _ => {
                let pool = &p.guard.scalars;
                let cands: Vec<&(String, usize)> = pool.iter().filter(|s| s.1 >= 2).collect();
                if cands.is_empty() {
                    let c = guard_cond(r, p);
                    let nc = Expression::cmpeq(c.clone(), il::expr_const(0, 1)).unwrap();
                    cfg.conditional_edge(h, ts[0], c).unwrap();
                    cfg.conditional_edge(h, ts[1], nc).unwrap();
                    continue;
                }
                let s = (*r.pick(&cands)).clone();
                let (x, w) = (il::expr_scalar(s.0.clone(), s.1), s.1);
                let lt1 = Expression::cmpltu(x.clone(), il::expr_const(1, w)).unwrap();
                let lt2 = Expression::cmpltu(x.clone(), il::expr_const(3, w)).unwrap();
                let not = |e: Expression| Expression::cmpeq(e, il::expr_const(0, 1)).unwrap();
                cfg.conditional_edge(h, ts[0], lt1.clone()).unwrap();
                cfg.conditional_edge(h, ts[1], Expression::and(not(lt1), lt2.clone()).unwrap()).unwrap();
                cfg.conditional_edge(h, ts[2], not(lt2)).unwrap();
            }
        }
    }
    cfg.set_entry(0).unwrap();
    Function::new(addr0, cfg)
}


// ---------------------------------------------------------------- search aid: a small interpreter
// (NOT part of the check: the kernel runs Exec/Sem and SSA/SemSSA; this only makes replays readable
// by naming the initial state and the step at which the two forms part)
type Key = (String, Option<usize>);
#[derive(Clone)]
struct St {
    env: BTreeMap<Key, il::Constant>,
    mem: BTreeMap<u64, u8>,
    big: bool,
}
fn ev(e: &Expression, st: &St) -> Result<il::Constant, String> {
    let mut e2 = e.clone();
    for s in e.scalars() {
        match st.env.get(&(s.name().to_string(), s.ssa())) {
            Some(c) if c.bits() == s.bits() => {
                e2 = e2.replace_scalar(s, &Expression::constant(c.clone())).map_err(|_| "sort".to_string())?
            }
            Some(_) => return Err("sort".into()),
            None => return Err(format!("undefined {}", s)),
        }
    }
    falcon::executor::eval(&e2).map_err(|e| err_kind(&e).to_string())
}
fn phis(b: &il::Block, from: Option<usize>, st: &mut St) -> Result<(), String> {
    let mut ws = vec![];
    for p in b.phi_nodes() {
        let src = match from { Some(h) => p.incoming_scalar(h), None => p.entry_scalar() };
        let src = src.ok_or_else(|| "phi without slot".to_string())?;
        ws.push(((p.out().name().to_string(), p.out().ssa()), st.env.get(&(src.name().to_string(), src.ssa())).cloned()));
    }
    for (k, v) in ws.into_iter().rev() {
        match v { Some(c) => { st.env.insert(k, c); } None => { st.env.remove(&k); } }
    }
    Ok(())
}
/// trace of observable events with SSA versions stripped
fn run(f: &Function, st0: &St, fuel: usize) -> Vec<String> {
    let g = f.control_flow_graph();
    let mut st = st0.clone();
    let mut tr = vec![];
    let mut bi = match g.entry() { Some(e) => e, None => return vec!["no entry".into()] };
    if let Ok(b) = g.block(bi) {
        if let Err(e) = phis(b, None, &mut st) { tr.push(format!("stuck({})", e)); return tr; }
    }
    let mut steps = 0;
    loop {
        let b = match g.block(bi) { Ok(b) => b, Err(_) => { tr.push("stuck(no block)".into()); return tr; } };
        for i in b.instructions() {
            steps += 1;
            if steps > fuel { return tr; }
            let r: Result<Option<String>, String> = (|| match i.operation() {
                il::Operation::Assign { dst, src } => {
                    let v = ev(src, &st)?;
                    st.env.insert((dst.name().to_string(), dst.ssa()), v.clone());
                    Ok(Some(format!("{}={}", dst.name(), v)))
                }
                il::Operation::Store { index, src } => {
                    let v = ev(src, &st)?;
                    let a = ev(index, &st)?.value_u64().ok_or("address bits")?;
                    if v.bits() == 0 || v.bits() % 8 != 0 { return Err("sort".into()); }
                    let n = v.bits() / 8;
                    let bytes = v.value().to_bytes_le();
                    for k in 0..n {
                        let byte = *bytes.get(k).unwrap_or(&0);
                        let off = if st.big { n - 1 - k } else { k };
                        st.mem.insert(a.wrapping_add(off as u64), byte);
                    }
                    Ok(Some(format!("[{:#x}]={}", a, v)))
                }
                il::Operation::Load { dst, index } => {
                    let a = ev(index, &st)?.value_u64().ok_or("address bits")?;
                    if dst.bits() == 0 || dst.bits() % 8 != 0 { return Err("sort".into()); }
                    let n = dst.bits() / 8;
                    let mut le = vec![0u8; n];
                    for k in 0..n {
                        let off = if st.big { n - 1 - k } else { k };
                        le[k] = *st.mem.get(&a.wrapping_add(off as u64)).ok_or("unmapped")?;
                    }
                    let v = il::Constant::new_big(num_bigint::BigUint::from_bytes_le(&le), dst.bits());
                    st.env.insert((dst.name().to_string(), dst.ssa()), v.clone());
                    Ok(Some(format!("{}=[{:#x}]={}", dst.name(), a, v)))
                }
                il::Operation::Branch { target } => Err(format!("goto {}", ev(target, &st)?)),
                il::Operation::Intrinsic { .. } => Err("intrinsic".into()),
                il::Operation::Nop { .. } => Ok(None),
            })();
            match r {
                Ok(Some(e)) => tr.push(format!("B{}.{} {}", bi, i.index(), e)),
                Ok(None) => {}
                Err(e) => { tr.push(format!("B{}.{} stuck({})", bi, i.index(), e)); return tr; }
            }
        }
        steps += 1;
        if steps > fuel { return tr; }
        let outs = g.edges_out(bi).unwrap_or_default();
        if outs.is_empty() { tr.push(format!("B{} exit", bi)); return tr; }
        let mut en = vec![];
        for e in &outs {
            match e.condition() {
                None => en.push(e.tail()),
                Some(c) => match ev(c, &st) {
                    Ok(v) if v.bits() == 1 => { if v.is_one() { en.push(e.tail()) } }
                    Ok(_) => { tr.push(format!("B{} stuck(guard sort)", bi)); return tr; }
                    Err(x) => { tr.push(format!("B{} stuck(guard {})", bi, x)); return tr; }
                },
            }
        }
        if en.len() != 1 { tr.push(format!("B{} stuck({} guards enabled)", bi, en.len())); return tr; }
        let t = en[0];
        tr.push(format!("{}->{}", bi, t));
        if let Ok(tb) = g.block(t) {
            if let Err(e) = phis(tb, Some(bi), &mut st) { tr.push(format!("stuck({})", e)); return tr; }
        }
        bi = t;
    }
}
/// "stuck(undefined x.3:8)" and "stuck(undefined x:8)" are the same event
fn strip(t: &str) -> String {
    match t.find("stuck(") { Some(i) => t[..i + 5].to_string(), None => t.to_string() }
}
fn first_divergence(a: &[String], b: &[String]) -> Option<usize> {
    let n = a.len().max(b.len());
    (0..n).find(|k| a.get(*k).map(|x| strip(x)) != b.get(*k).map(|x| strip(x)))
}

fn render(f: &Function) -> String {
    let mut s = String::new();
    let g = f.control_flow_graph();
    for b in g.blocks() {
        write!(s, "B{}{{", b.index()).unwrap();
        let mut parts: Vec<String> = b.phi_nodes().iter().map(|p| format!("{}", p)).collect();
        parts.extend(b.instructions().iter().map(|i| format!("{}", i.operation())));
        write!(s, "{}}} ", parts.join("; ")).unwrap();
    }
    for e in g.edges() {
        match e.condition() {
            Some(c) => write!(s, "{}->{}[{}] ", e.head(), e.tail(), c).unwrap(),
            None => write!(s, "{}->{} ", e.head(), e.tail()).unwrap(),
        }
    }
    s.trim_end().to_string()
}

fn reachable(sk: &[Vec<usize>]) -> BTreeSet<usize> {
    let mut seen = BTreeSet::new();
    let mut q = VecDeque::new();
    seen.insert(0);
    q.push_back(0);
    while let Some(h) = q.pop_front() {
        for t in &sk[h] {
            if seen.insert(*t) {
                q.push_back(*t);
            }
        }
    }
    seen
}


// ---------------------------------------------------------------- fixed shapes, present at every seed
// (the shapes of regressions that were seeded into the SSA code and must stay caught: entry block in its own
// dominance frontier, scope restoration of ScalarVersioning across dominator-tree siblings, a scalar read and
// written by the same instruction as the only reader, deep dominator computations with path compression)
const NFIXED: u64 = 8;
fn fixed_case(idx: u64) -> Option<(Pools, Vec<Vec<usize>>, &'static str, Function)> {
    if idx >= NFIXED {
        return None;
    }
    let all: Vec<(String, usize)> = vec![("a".into(), 32), ("b".into(), 32), ("f".into(), 1)];
    let mut o = GenOpts::default();
    o.scalars = all.clone();
    let p = Pools { all, read: o.clone(), guard: o, guard_only: None };
    let a = || il::expr_scalar("a", 32);
    let b = || il::expr_scalar("b", 32);
    let k = |v: u64| il::expr_const(v, 32);
    let sa = || il::scalar("a", 32);
    let sb = || il::scalar("b", 32);
    let add = |x: Expression, y: Expression| Expression::add(x, y).unwrap();
    type Fill = Box<dyn Fn(&mut il::Block)>;
    let nopb: fn() -> Fill = || Box::new(|_b: &mut il::Block| {});
    let (name, fills, sk): (&'static str, Vec<Fill>, Vec<Vec<usize>>) = match idx {
        0 => ("fixed:entry-self-loop", vec![
                Box::new(move |bl| bl.assign(sa(), add(a(), k(1)))),
                Box::new(move |bl| bl.assign(sb(), a()))],
              vec![vec![0, 1], vec![]]),
        1 => ("fixed:entry-self-loop-only", vec![Box::new(move |bl| bl.assign(sa(), add(a(), k(1))))], vec![vec![0]]),
        2 => ("fixed:scope-siblings", vec![
                Box::new(move |bl| { bl.assign(sa(), k(1)); bl.assign(sb(), k(2)); }),
                Box::new(move |bl| { bl.assign(sa(), add(a(), k(1))); bl.assign(sa(), add(a(), k(2))); bl.assign(sb(), a()); }),
                Box::new(move |bl| bl.assign(sb(), a())),
                Box::new(move |bl| bl.assign(sb(), add(a(), b()))),
                Box::new(move |bl| bl.assign(sa(), b())),
                Box::new(move |bl| bl.assign(sb(), add(a(), b())))],
              vec![vec![1, 2], vec![3], vec![4], vec![5], vec![5], vec![]]),
        3 => ("fixed:scope-deep", vec![
                Box::new(move |bl| bl.assign(sa(), k(0))),
                Box::new(move |bl| bl.assign(sa(), add(a(), k(1)))),
                Box::new(move |bl| bl.assign(sa(), add(a(), k(1)))),
                Box::new(move |bl| bl.assign(sa(), add(a(), k(1)))),
                Box::new(move |bl| bl.assign(sb(), a())),
                Box::new(move |bl| bl.assign(sb(), a())),
                Box::new(move |bl| bl.assign(sb(), a()))],
              vec![vec![1, 4], vec![2, 5], vec![3, 6], vec![], vec![], vec![], vec![]]),
        4 => ("fixed:self-read-write", vec![
                nopb(),
                Box::new(move |bl| bl.assign(sa(), add(a(), k(1)))),
                Box::new(move |bl| bl.assign(sb(), a()))],
              vec![vec![1], vec![1, 2], vec![]]),
        5 => ("fixed:self-read-write-load", vec![
                Box::new(move |bl| bl.assign(sa(), k(0x1000))),
                Box::new(move |bl| { bl.load(sa(), a()); bl.store(k(0x1004), a()); }),
                nopb()],
              vec![vec![1], vec![1, 2], vec![]]),
        6 => {
            // the flow graph of Lengauer & Tarjan's paper: R=0 A=1 B=2 C=3 D=4 E=5 F=6 G=7 H=8 I=9 J=10 K=11 L=12
            let sk = vec![vec![1, 2, 3], vec![4], vec![1, 4, 5], vec![6, 7], vec![12], vec![8], vec![9], vec![9, 10],
                          vec![5, 11], vec![11], vec![9], vec![9, 0], vec![8]];
            let mut fills: Vec<Fill> = vec![];
            for i in 0..13u64 {
                fills.push(match i % 4 {
                    0 => Box::new(move |bl| bl.assign(sa(), add(a(), k(i)))),
                    1 => Box::new(move |bl| bl.assign(sb(), add(a(), b()))),
                    2 => Box::new(move |bl| { bl.assign(sb(), k(i)); bl.assign(sa(), b()); }),
                    _ => nopb(),
                });
            }
            ("fixed:lengauer-tarjan", fills, sk)
        }
        _ => {
            // a ladder: long dominator chains, back edges two levels up, cross edges (path compression in `compress`)
            let n = 12usize;
            let mut sk = vec![];
            for h in 0..n {
                let mut ts = vec![];
                if h + 1 < n { ts.push(h + 1); }
                if h % 3 == 2 && h >= 2 { ts.push(h - 2); }
                if h % 4 == 1 && h + 3 < n { ts.push(h + 3); }
                sk.push(ts);
            }
            let mut fills: Vec<Fill> = vec![];
            for i in 0..n as u64 {
                fills.push(if i % 3 == 0 { Box::new(move |bl| bl.assign(sa(), add(a(), k(i)))) }
                           else if i % 3 == 1 { Box::new(move |bl| bl.assign(sb(), add(b(), a()))) }
                           else { nopb() });
            }
            ("fixed:ladder", fills, sk)
        }
    };
    let mut cfg = ControlFlowGraph::new();
    let mut addr = 0x40;
    for fill in &fills {
        let bl = cfg.new_block().unwrap();
        fill(bl);
        for i in bl.instructions_mut() {
            i.set_address(Some(addr));
            addr += 4;
        }
    }
    let f1 = il::expr_scalar("f", 1);
    let not = |e: Expression| Expression::cmpeq(e, il::expr_const(0, 1)).unwrap();
    for (h, ts) in sk.iter().enumerate() {
        match ts.len() {
            0 => {}
            1 => cfg.unconditional_edge(h, ts[0]).unwrap(),
            2 => {
                cfg.conditional_edge(h, ts[0], f1.clone()).unwrap();
                cfg.conditional_edge(h, ts[1], not(f1.clone())).unwrap();
            }
            _ => {
                let lt1 = Expression::cmpltu(b(), k(1)).unwrap();
                let lt2 = Expression::cmpltu(b(), k(3)).unwrap();
                cfg.conditional_edge(h, ts[0], lt1.clone()).unwrap();
                cfg.conditional_edge(h, ts[1], Expression::and(not(lt1), lt2.clone()).unwrap()).unwrap();
                cfg.conditional_edge(h, ts[2], not(lt2)).unwrap();
            }
        }
    }
    cfg.set_entry(0).unwrap();
    Some((p, sk, name, Function::new(0x40, cfg)))
}

fn gen_case(seed: u64, idx: u64) -> Case {
    let mut rng = Rng::for_case(seed, idx);
    let r = &mut rng;
    let guard_only = r.chance(1, 4);
    let intrinsics = r.chance(1, 3);
    let gaps = r.chance(1, 3);
    let shape = if guard_only && r.chance(1, 2) { 0 } else { r.below(12) };
    let p = pools(r, guard_only, intrinsics);
    let (sk, shape_name) = skeleton(r, shape);
    let mut f = build(r, &p, &sk, 0x100 * (1 + idx % 7), gaps);
    // the first NFIXED cases of every seed are the fixed shapes (initial states still come from the seed)
    let (p, sk, shape_name, guard_only, intrinsics) = match fixed_case(idx) {
        Some((p2, sk2, name2, f2)) => {
            f = f2;
            (p2, sk2, name2, false, false)
        }
        None => (p, sk, shape_name, guard_only, intrinsics),
    };
    // minimisation protocol (`--keep p0,p1,..`): dropped instructions become `nop` (indices, edges, pool unchanged)
    let nelems = nop_dropped(&mut f, 0);
    let f = f;
    let obs = observe(|| falcon::transformation::ssa_transformation(&f));

    let mut it = Interner::new();
    // fixed ids for the pool, so that initial states and both functions agree
    for s in &p.all {
        it.id(&s.0);
    }
    let f_coq = coq_function(&f, &mut it);
    let obs_coq = match &obs {
        Obs::Ok(g) => format!("(Ok {})", coq_function(g, &mut it)),
        Obs::Err(k) => format!("(Err {})", k),
        Obs::Panic => "Panic".to_string(),
    };

    // initial states: values around the constants guards compare with; sometimes a scalar is undefined
    let n_init = 3;
    let mut inits = vec![];
    let mut init_descr = vec![];
    let mut rstates: Vec<St> = vec![];
    for k in 0..n_init {
        let mut env = vec![];
        let mut d = vec![];
        let mut rst = St { env: BTreeMap::new(), mem: BTreeMap::new(), big: false };
        for s in &p.all {
            if r.chance(1, 12) {
                continue;
            }
            let v: u64 = match (k + r.below(3)) % 4 { 0 => 0, 1 => r.below(4), 2 => r.below(8), _ => r.next() };
            let v = if s.1 >= 64 { v } else { v & ((1u64 << s.1) - 1) };
            env.push(format!("(({}, None), mkc {} {})", n_lit(it.id(&s.0)), s.1, v));
            rst.env.insert((s.0.clone(), None), il::Constant::new(v, s.1));
            d.push(format!("{}={}", s.0, v));
        }
        let big = r.chance(1, 2);
        // 24..40 defined bytes from 0x1000, sent as ONE numeral (little-endian digits base 256)
        let nbytes = r.range(24, 40);
        let mut hexs = String::new();
        let mut bytes = vec![];
        for _ in 0..nbytes {
            bytes.push(r.below(256) as u8);
        }
        // the numeral's lowest digit is the byte at the lowest address
        for (k, b) in bytes.iter().enumerate() {
            rst.mem.insert(0x1000 + k as u64, *b);
        }
        for b in bytes.iter().rev() {
            write!(hexs, "{:02x}", b).unwrap();
        }
        rst.big = big;
        rstates.push(rst);
        inits.push(format!("(mkst {} (init_mem {} 4096 {} 0x{}))", coq_list(env), coq_bool(big), nbytes, hexs));
        init_descr.push(d.join(","));
    }
    let fuel = 40;
    let coq = format!("(KSsa {} {} {} {})", f_coq, obs_coq, coq_list(inits), fuel);

    // tags come from the edges actually built (a fan over a 1-bit scalar degrades to two edges)
    let sk: Vec<Vec<usize>> = {
        let g = f.control_flow_graph();
        (0..sk.len()).map(|h| g.edges_out(h).map(|es| es.iter().map(|e| e.tail()).collect()).unwrap_or_default()).collect()
    };
    let reach = reachable(&sk);
    let mut preds: BTreeMap<usize, usize> = BTreeMap::new();
    for ts in &sk {
        for t in ts {
            *preds.entry(*t).or_insert(0) += 1;
        }
    }
    let joins = preds.values().filter(|c| **c >= 2).count();
    let mut tags = vec![format!("shape:{}", shape_name), format!("obs:{}", obs.kind())];
    if reach.len() < sk.len() { tags.push("unreachable-block".into()); }
    if guard_only { tags.push("guard-only-scalar".into()); }
    if intrinsics { tags.push("intrinsics".into()); }
    {
        let g = f.control_flow_graph();
        if g.blocks().iter().any(|b| b.instructions().iter().enumerate().any(|(k, i)| i.index() != k)) {
            tags.push("index-gap".into());
        }
        let declared = g.blocks().iter().flat_map(|b| b.instructions().iter()).any(|i| match i.operation() {
            il::Operation::Intrinsic { intrinsic } => intrinsic.written_expressions().is_some(),
            _ => false,
        });
        if declared { tags.push("declared-intrinsic".into()); }
    }
    if sk.iter().enumerate().any(|(h, ts)| ts.contains(&h)) { tags.push("self-loop".into()); }
    if sk.iter().any(|ts| ts.contains(&0)) { tags.push("loop-through-entry".into()); }
    if joins > 0 { tags.push("join".into()); }
    let phis = match &obs {
        Obs::Ok(g) => g.control_flow_graph().blocks().iter().map(|b| b.phi_nodes().len()).sum::<usize>(),
        _ => 0,
    };
    if phis > 0 { tags.push("phi".into()); }
    let out_descr = match &obs {
        Obs::Ok(g) => render(g),
        Obs::Err(k) => format!("Err {}", k),
        Obs::Panic => "PANIC".into(),
    };
    let mut div = String::new();
    if let Obs::Ok(g) = &obs {
        for (k, st) in rstates.iter().enumerate() {
            // the interpreter calls falcon's expression evaluator: keep its panics out of the harness
            let ta = observe_plain(|| run(&f, st, fuel)).unwrap_or_else(|| vec!["interpreter panicked".into()]);
            let tb = observe_plain(|| run(g, st, fuel)).unwrap_or_else(|| vec!["interpreter panicked".into()]);
            if let Some(i) = first_divergence(&ta, &tb) {
                let lo = i.saturating_sub(2);
                div = format!(" || DIVERGES from init #{} ({}) at event {}: original ..{} | ssa ..{}", k, init_descr[k], i,
                              ta[lo..ta.len().min(i + 2)].join(", "), tb[lo..tb.len().min(i + 2)].join(", "));
                tags.push("interp:diverges".into());
                break;
            }
        }
    }
    let descr = format!("{}f: {} ==> ssa: {} || inits: {}{}", keep_prefix("instructions", nelems), render(&f), out_descr, init_descr.join(" / "), div);
    Case { key: format!("{:x}", hash(&coq)), coq, descr, tags, nontrivial: joins > 0 }.with_elements(nelems)
}

fn hash(s: &str) -> u64 {
    let mut h: u64 = 0xcbf29ce484222325;
    for b in s.bytes() {
        h ^= b as u64;
        h = h.wrapping_mul(0x100000001b3);
    }
    h
}

fn main() {
    quiet_panics();
    let args = parse_args();
    let idxs: Vec<u64> = match args.only { Some(i) => vec![i], None => (0..args.n).collect() };
    let cases: Vec<Case> = idxs.iter().map(|i| gen_case(args.seed, *i)).collect();
    let header = "From Coq Require Import ZArith List NArith.\nFrom Falcon Require Import Base.Res IL.Const IL.Expr IL.Func IL.Loc Exec.Sem SSA.C10Check.\nImport ListNotations.\nLocal Open Scope Z_scope.";
    write_cases(&args, "C10", header, "ck", &cases, 16, serde_json::json!({}));
}
