//! C12 harness: reaching_definitions / use_def / def_use on random IL functions; the observed maps are
//! embedded in the case and judged in Coq against executions of Exec/Sem.v.
#[path = "flow_common/mod.rs"]
mod flow_common;
use falcon::analysis::{def_use, reaching_definitions, use_def};
use flow_common::*;
use fvh::ilgen::*;
use fvh::*;

fn gen_case(seed: u64, i: u64) -> Case {
    let mut r = Rng::for_case(seed, i);
    let fc = gen_flow_function(&mut r, &FlowOpts { intrinsics_pct: 30, branches_pct: 15, unreachable_pct: 20, mixed_width_pct: 20 });
    let f = &fc.function;
    let mut it = Interner::new();
    let fcoq = coq_function(f, &mut it);
    let big = r.chance(1, 2);
    let aseed = r.below(1 << 20);
    let pool = coq_pool(&fc.pool, &mut it);
    let vals = coq_list((0..3).map(|_| gen_vals(&mut r, &fc.pool)).collect::<Vec<_>>());
    let rd = observe(|| reaching_definitions(f));
    let ud = observe(|| use_def(f));
    let du = observe(|| def_use(f));
    let lm = |m: &std::collections::HashMap<falcon::il::ProgramLocation, falcon::analysis::LocationSet>| coq_locmap(f, m);
    let coq = format!("(K {} {} {} {} {} {} {} {})", fcoq, coq_bool(big), aseed, pool, vals, rd.coq(lm), ud.coq(lm), du.coq(lm));
    let mut tags: Vec<String> = fc.tags.iter().cloned().collect();
    tags.push(format!("rd:{}", rd.kind()));
    tags.push(format!("ud:{}", ud.kind()));
    let nloc = f.locations().len();
    let descr = describe(f);
    let nelems = instr_count(f);
    let descr = format!("{}{}", keep_prefix("instructions", nelems), descr);
    Case { coq, nontrivial: nloc >= 4 && (fc.tags.contains("multi-read") || fc.tags.contains("loop") || fc.tags.contains("guarded-edge") || fc.tags.contains("reads-own-dst")), key: descr.clone(), descr, tags }.with_elements(nelems)
}

fn main() {
    quiet_panics();
    let args = parse_args();
    let cases: Vec<Case> = match args.only {
        Some(i) => vec![gen_case(args.seed, i)],
        None => (0..args.n).map(|i| gen_case(args.seed, i)).collect(),
    };
    let header = "From Coq Require Import ZArith List Bool NArith.\nFrom Falcon Require Import Base.Res IL.Const IL.Expr IL.Func IL.Loc Exec.Sem Flow.C12Check.\nImport ListNotations.\nLocal Open Scope Z_scope.";
    write_cases(&args, "C12", header, "ck", &cases, 16, serde_json::json!({}));
}
