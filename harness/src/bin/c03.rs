//! c03 probe (temporary)
use falcon::translator::aarch64::AArch64;
use falcon::translator::{Options, Translator};
use fvh::*;

fn main() {
    quiet_panics();
    let v: Vec<String> = std::env::args().collect();
    for w in &v[1..] {
        let word = u32::from_str_radix(w.trim_start_matches("0x"), 16).unwrap();
        let bytes = word.to_le_bytes().to_vec();
        let r = observe(|| AArch64::new().translate_block(&bytes, 0x1000, &Options::new()));
        match r {
            Obs::Ok(b) => {
                println!("{:08x}: ok len={} succ={:?}", word, b.length(), b.successors().iter().map(|(a, c)| format!("{:#x}:{}", a, c.as_ref().map(|e| format!("{}", e)).unwrap_or("-".into()))).collect::<Vec<_>>());
                for (a, g) in b.instructions() {
                    println!("  @{:#x} entry={:?} exit={:?}", a, g.entry(), g.exit());
                    for bl in g.blocks() {
                        for i in bl.instructions() {
                            println!("    {} {}", i.index(), i.operation());
                        }
                    }
                }
            }
            Obs::Err(k) => println!("{:08x}: Err {}", word, k),
            Obs::Panic => println!("{:08x}: PANIC", word),
        }
    }
}
