//! c03 -- AArch64 lifter vs. the Arm ARM pseudocode (property C03).
//! Enumerates instruction words of the classes the property lists (structured sweep + random words of
//! those classes), lifts each with the REAL lifter (translator::aarch64::{AArch64, AArch64Eb}::translate_block
//! on the four bytes, default options, under catch_unwind), dumps the lifted IL (instruction graph +
//! successors) as Gallina terms together with sampled machine states.  Coq (Isa/C03Check.v) decodes the
//! word with the specification's decoder, checks mirror(decoded) = dumped IL, runs the dumped IL with
//! Exec/Sem.v from every sampled state and compares with Isa/A64.v's a64step.
use falcon::translator::aarch64::{AArch64, AArch64Eb};
use falcon::translator::{Options, Translator};
use fvh::ilgen::*;
use fvh::*;

// ---------------------------------------------------------------- fixed scalar ids (see Isa/A64Lift.v)
fn seed_interner() -> Interner {
    let mut it = Interner::new();
    for i in 0..31 {
        it.id(&format!("x{}", i));
    }
    for n in ["sp", "n", "z", "c", "v", "xzr", "wzr"] {
        it.id(n);
    }
    for i in 0..32 {
        it.id(&format!("v{}", i)); // 38..69 ; temporaries follow
    }
    it
}

// ---------------------------------------------------------------- encoders
fn addsub_imm(sf: u32, op: u32, s: u32, sh: u32, imm12: u32, rn: u32, rd: u32) -> u32 {
    sf << 31 | op << 30 | s << 29 | 0b100010 << 23 | sh << 22 | (imm12 & 0xfff) << 10 | rn << 5 | rd
}
fn addsub_shift(sf: u32, op: u32, s: u32, shift: u32, rm: u32, imm6: u32, rn: u32, rd: u32) -> u32 {
    sf << 31 | op << 30 | s << 29 | 0b01011 << 24 | shift << 22 | rm << 16 | (imm6 & 63) << 10 | rn << 5 | rd
}
fn addsub_ext(sf: u32, op: u32, s: u32, rm: u32, option: u32, imm3: u32, rn: u32, rd: u32) -> u32 {
    sf << 31 | op << 30 | s << 29 | 0b01011 << 24 | 1 << 21 | rm << 16 | option << 13 | (imm3 & 7) << 10 | rn << 5 | rd
}
fn orr_shift(sf: u32, shift: u32, rm: u32, imm6: u32, rn: u32, rd: u32) -> u32 {
    sf << 31 | 0b01 << 29 | 0b01010 << 24 | shift << 22 | rm << 16 | (imm6 & 63) << 10 | rn << 5 | rd
}
fn movwide(sf: u32, opc: u32, hw: u32, imm16: u32, rd: u32) -> u32 {
    sf << 31 | opc << 29 | 0b100101 << 23 | hw << 21 | (imm16 & 0xffff) << 5 | rd
}
fn ldst_uimm(size: u32, opc: u32, imm12: u32, rn: u32, rt: u32) -> u32 {
    size << 30 | 0b111 << 27 | 0b01 << 24 | opc << 22 | (imm12 & 0xfff) << 10 | rn << 5 | rt
}
/// kind: 0 unscaled, 1 post-index, 2 unprivileged, 3 pre-index
fn ldst_imm9(size: u32, opc: u32, imm9: u32, kind: u32, rn: u32, rt: u32) -> u32 {
    size << 30 | 0b111 << 27 | opc << 22 | (imm9 & 0x1ff) << 12 | kind << 10 | rn << 5 | rt
}
fn ldst_reg(size: u32, opc: u32, rm: u32, option: u32, s: u32, rn: u32, rt: u32) -> u32 {
    size << 30 | 0b111 << 27 | opc << 22 | 1 << 21 | rm << 16 | option << 13 | s << 12 | 0b10 << 10 | rn << 5 | rt
}
fn ldlit(opc: u32, imm19: u32, rt: u32) -> u32 {
    opc << 30 | 0b011 << 27 | (imm19 & 0x7ffff) << 5 | rt
}
/// mode: 0 no-allocate, 1 post-index, 2 signed offset, 3 pre-index
fn ldst_pair(opc: u32, mode: u32, l: u32, imm7: u32, rt2: u32, rn: u32, rt: u32) -> u32 {
    opc << 30 | 0b101 << 27 | mode << 23 | l << 22 | (imm7 & 0x7f) << 15 | rt2 << 10 | rn << 5 | rt
}
fn ldst_ord(size: u32, l: u32, o0: u32, rn: u32, rt: u32) -> u32 {
    size << 30 | 0b001000 << 24 | 1 << 23 | l << 22 | 31 << 16 | o0 << 15 | 31 << 10 | rn << 5 | rt
}
fn b_imm(link: u32, imm26: u32) -> u32 {
    link << 31 | 0b00101 << 26 | (imm26 & 0x3ffffff)
}
fn b_reg(opc: u32, rn: u32) -> u32 {
    0b1101011 << 25 | opc << 21 | 31 << 16 | rn << 5
}
fn b_cond(cond: u32, imm19: u32) -> u32 {
    0b01010100 << 24 | (imm19 & 0x7ffff) << 5 | cond
}
fn cb(sf: u32, op: u32, imm19: u32, rt: u32) -> u32 {
    sf << 31 | 0b011010 << 25 | op << 24 | (imm19 & 0x7ffff) << 5 | rt
}
fn tb(b5: u32, op: u32, b40: u32, imm14: u32, rt: u32) -> u32 {
    b5 << 31 | 0b011011 << 25 | op << 24 | b40 << 19 | (imm14 & 0x3fff) << 5 | rt
}

fn orr_imm(sf: u32, n: u32, immr: u32, imms: u32, rn: u32, rd: u32) -> u32 {
    sf << 31 | 0b01 << 29 | 0b100100 << 23 | n << 22 | (immr & 63) << 16 | (imms & 63) << 10 | rn << 5 | rd
}
fn stlur(size: u32, opc: u32, imm9: u32, rn: u32, rt: u32) -> u32 {
    size << 30 | 0b011001 << 24 | opc << 22 | (imm9 & 0x1ff) << 12 | rn << 5 | rt
}
fn ldst_ord_sbo(size: u32, l: u32, o0: u32, rs: u32, rt2: u32, rn: u32, rt: u32) -> u32 {
    size << 30 | 0b001000 << 24 | 1 << 23 | l << 22 | rs << 16 | o0 << 15 | rt2 << 10 | rn << 5 | rt
}

/// Rust port of the ACCEPTANCE of Isa/A64.decode (Some / None).  Used ONLY to tag uniformly random words the
/// lifter accepts although the specification has no class for them (`cov:accepted-outside...`, counted per run);
/// the comparison itself always uses the Coq decoder.
fn spec_decodes(w: u32) -> bool {
    let b = |hi: u32, lo: u32| (w >> lo) & ((1u32 << (hi - lo + 1)) - 1);
    let sf = b(31, 31) == 1;
    let opc_ok = |size: u32, opc: u32| if opc < 2 { true } else if opc == 2 { size < 3 } else { size < 2 };
    if b(28, 23) == 34 { return true; }
    if b(28, 24) == 11 {
        if b(21, 21) == 0 { return !(b(23, 22) == 3 || (!sf && b(15, 10) >= 32)); }
        return b(23, 22) == 0 && b(12, 10) <= 4;
    }
    if b(28, 24) == 10 && b(30, 29) == 1 && b(21, 21) == 0 { return !(!sf && b(15, 10) >= 32); }
    if b(28, 23) == 36 && b(30, 29) == 1 {
        let (n, imms) = (b(22, 22), b(15, 10));
        let v = n * 64 + (63 - imms);
        if (!sf && n == 1) || v < 2 { return false; }
        let levels = (1u32 << (31 - v.leading_zeros())) - 1;
        return imms & levels != levels;
    }
    if w == 0xd503201f { return true; }
    if b(28, 23) == 37 { return !(b(30, 29) == 1 || (!sf && b(22, 21) >= 2)); }
    if b(30, 26) == 5 { return true; }
    if b(31, 24) == 84 && b(4, 4) == 0 { return true; }
    if b(30, 25) == 26 || b(30, 25) == 27 { return true; }
    if b(31, 25) == 107 && b(24, 21) < 3 && b(20, 16) == 31 && b(15, 10) == 0 && b(4, 0) == 0 { return true; }
    if b(4, 4) == 0 && b(31, 25) == 66
        && ((b(24, 23) == 0 && b(21, 21) == 1 && b(15, 15) == 0) || (b(24, 23) == 3 && b(22, 22) == 1 && b(15, 15) == 0)
            || (b(22, 21) == 0 && b(15, 13) == 6 && b(20, 16) != 31) || (b(22, 21) == 0 && b(15, 13) == 7))
    {
        return true;
    }
    if b(4, 4) == 0 && b(31, 25) == 98
        && ((b(24, 23) == 0 && b(21, 21) == 1 && b(15, 15) == 0) || (b(24, 23) == 0 && b(22, 21) == 3 && b(15, 15) == 1) || (b(22, 21) == 0 && b(15, 13) == 7))
    {
        return true;
    }
    if b(31, 31) == 0 && b(28, 21) == 112 && b(15, 15) == 0 && b(10, 10) == 1 {
        let (imm5, imm4, q) = (b(20, 16), b(14, 11), b(30, 30) == 1);
        if imm5 & 15 == 0 { return false; }
        let size = imm5.trailing_zeros();
        if b(29, 29) == 1 { return q; }
        if imm4 == 3 { return q; }
        if imm4 == 7 { return (!q && size == 2) || (q && size == 3); }
        return false;
    }
    if b(31, 21) == 752 && b(15, 10) == 1 { return b(20, 16) & 15 != 0; }
    if b(31, 31) == 0 && b(29, 21) == 117 && b(15, 10) == 7 && b(20, 16) == b(9, 5) { return true; }
    if b(31, 30) == 1 && b(28, 21) == 247 && b(15, 10) == 33 { return true; }
    if b(29, 27) == 5 && b(26, 26) == 1 { return b(31, 30) != 3 && b(25, 23) <= 3; }
    if b(29, 27) == 7 && b(26, 26) == 1 {
        let (size, opc) = (b(31, 30), b(23, 22));
        if opc >= 2 && size != 0 { return false; }
        if b(25, 24) == 1 { return true; }
        if b(25, 24) == 0 {
            if b(21, 21) == 0 { return b(11, 10) != 2; }
            return b(11, 10) == 2 && b(14, 14) == 1;
        }
        return false;
    }
    if b(29, 27) == 5 && b(26, 26) == 0 {
        let (opc, mode, load) = (b(31, 30), b(25, 23), b(22, 22));
        if opc == 3 || (opc == 1 && load == 0) { return false; }
        if mode == 0 { return opc != 1; }
        return mode <= 3;
    }
    if b(29, 27) == 7 && b(26, 26) == 0 {
        let (size, opc) = (b(31, 30), b(23, 22));
        if size == 3 && opc == 2 {
            return b(25, 24) == 1 || (b(25, 24) == 0 && b(21, 21) == 0 && b(11, 10) == 0) || (b(25, 24) == 0 && b(21, 21) == 1 && b(11, 10) == 2 && b(14, 14) == 1);
        }
        if !opc_ok(size, opc) { return false; }
        if b(25, 24) == 1 { return true; }
        if b(25, 24) == 0 {
            if b(21, 21) == 0 { return b(11, 10) != 2; }
            return b(11, 10) == 2 && b(14, 14) == 1;
        }
        return false;
    }
    if b(29, 27) == 3 && b(26, 26) == 0 && b(25, 24) == 0 { return true; }
    if b(29, 24) == 8 && b(23, 23) == 1 && b(21, 21) == 0 { return true; }
    if b(29, 24) == 25 && b(23, 21) == 0 && b(11, 10) == 0 { return true; }
    false
}

// ---------------------------------------------------------------- enumeration
#[derive(Clone, Copy, PartialEq)]
enum Kind {
    Arith,
    Mem,
    Cond,
    TestReg,
    BranchReg,
    Plain,
}
#[derive(Clone)]
struct Enc {
    word: u32,
    class: &'static str,
    kind: Kind,
    /// registers whose value matters (31 = the SP slot; harmless when 31 means ZR)
    regs: Vec<u32>,
    /// base register and offset register of a memory access
    base: Option<u32>,
    offreg: Option<u32>,
    /// constants worth approaching (immediates, bit positions)
    hints: Vec<u64>,
    /// register assignments that must be among the sampled states (fixed corpus shapes)
    forced: Vec<Vec<(u32, u64)>>,
}
fn enc(word: u32, class: &'static str, kind: Kind, regs: &[u32]) -> Enc {
    Enc { word, class, kind, regs: regs.to_vec(), base: None, offreg: None, hints: vec![], forced: vec![] }
}

/// Fixed corpus: shapes of past (seeded or real) regressions, present at EVERY seed as the first cases.
fn corpus() -> Vec<Enc> {
    let mut v = vec![];
    let mem = |word: u32, class: &'static str, regs: &[u32], base: u32| {
        let mut e = enc(word, class, Kind::Mem, regs);
        e.base = Some(base);
        e
    };
    // ldp/ldpsw/ldnp with Rt (or Rt2) = base, no write-back: both loads must use the ORIGINAL base
    for (rt, rt2, rn) in [(2u32, 3u32, 2u32), (3, 2, 2), (9, 10, 9), (30, 29, 29)] {
        for opc in [0u32, 1, 2] {
            for mode in [0u32, 2] {
                if opc == 1 && mode == 0 { continue; }
                v.push(mem(ldst_pair(opc, mode, 1, 0, rt2, rn, rt), "corpus_ldp_rt_is_base", &[rt, rt2, rn], rn));
                v.push(mem(ldst_pair(opc, mode, 1, 0x7e, rt2, rn, rt), "corpus_ldp_rt_is_base", &[rt, rt2, rn], rn));
            }
        }
    }
    // subs / adds with the second operand = INT_MIN (V flag), 64- and 32-bit, register and shifted forms
    for (sf, int_min) in [(1u32, 1u64 << 63), (0, 1u64 << 31)] {
        for op in 0..2 {
            for (word, rm_val) in [
                (addsub_shift(sf, op, 1, 0, 2, 0, 1, 0), int_min),
                (addsub_shift(sf, op, 1, 0, 2, if sf == 1 { 63 } else { 31 }, 1, 0), 1),
                (addsub_ext(sf, op, 1, 2, if sf == 1 { 3 } else { 2 }, 0, 1, 0), int_min),
            ] {
                let mut e = enc(word, "corpus_flags_int_min", Kind::Arith, &[1, 2, 0]);
                for x1 in [0u64, 1, int_min, int_min - 1, int_min + 1, u64::MAX, (int_min << 1).wrapping_sub(1)] {
                    e.forced.push(vec![(1, x1), (2, rm_val)]);
                }
                v.push(e);
            }
        }
    }
    // loads into the zero register with write-back: the write-back must survive
    for (word, base) in [
        (ldst_imm9(3, 1, 8, 1, 9, 31), 9u32),   // ldr xzr, [x9], #8
        (ldst_imm9(3, 1, 8, 3, 9, 31), 9),      // ldr xzr, [x9, #8]!
        (ldst_imm9(2, 1, 4, 1, 31, 31), 31),    // ldr wzr, [sp], #4
        (ldst_imm9(0, 2, 0x1ff, 1, 9, 31), 9),  // ldrsb xzr, [x9], #-1
        (ldst_imm9(3, 0, 0x1f8, 3, 9, 31), 9),  // str xzr, [x9, #-8]!
        (ldst_pair(2, 1, 1, 2, 31, 9, 31), 9),  // ldp xzr, xzr ... (t = t2: unpredictable, not compared)
        (ldst_pair(2, 1, 1, 2, 31, 9, 3), 9),   // ldp x3, xzr, [x9], #16
        (ldst_pair(2, 3, 0, 0x7e, 31, 31, 31), 31), // stp xzr, xzr, [sp, #-16]!
    ] {
        v.push(mem(word, "corpus_zr_writeback", &[base], base));
    }
    // cbz/cbnz/tbz/tbnz on a W register whose upper half is non-zero
    for (word, reg) in [
        (cb(0, 0, 2, 4), 4u32), (cb(0, 1, 2, 4), 4), (cb(0, 0, 0x7fffe, 30), 30), (tb(0, 0, 31, 2, 4), 4), (tb(0, 1, 0, 2, 4), 4),
        (cb(1, 0, 2, 4), 4), (cb(1, 1, 2, 4), 4),
    ] {
        let mut e = enc(word, "corpus_w_upper_half", Kind::TestReg, &[reg]);
        for val in [0x1_0000_0000u64, 0xffff_ffff_0000_0000, 0x8000_0000_0000_0000, 0, 0xffff_ffff, 0x1_8000_0000, 0x7fff_ffff_0000_0001] {
            e.forced.push(vec![(reg, val)]);
        }
        v.push(e);
    }
    v
}

/// Register aliasing / register-31 table (quick tier, every seed): every form with the Rd/Rn/Rm/Rt/Rt2
/// coincidences (the CONSTRAINED UNPREDICTABLE ones are Undef in the specification: lifted, tied, not compared)
/// and register 31 in every position.
fn alias_table() -> Vec<Enc> {
    let mut v = vec![];
    for sf in 0..2 {
        for op in 0..2 {
            for s in 0..2 {
                for (rd, rn) in R2.iter() {
                    let mut e = enc(addsub_imm(sf, op, s, 0, 0x10, *rn, *rd), "addsub_imm", Kind::Arith, &[*rn, *rd]);
                    e.hints = vec![0x10];
                    v.push(e);
                }
                for (rd, rn, rm) in R3.iter() {
                    v.push(enc(addsub_shift(sf, op, s, 1, *rm, 3, *rn, *rd), "addsub_shift", Kind::Arith, &[*rn, *rm, *rd]));
                    v.push(enc(addsub_ext(sf, op, s, *rm, if (*rd + *rn) % 2 == 0 { 3 - (1 - sf) } else { 4 }, 1, *rn, *rd), "addsub_ext", Kind::Arith, &[*rn, *rm, *rd]));
                }
            }
        }
        for (rd, _, rm) in R3.iter() {
            v.push(enc(orr_shift(sf, 0, *rm, 0, 31, *rd), "mov_reg", Kind::Arith, &[*rm, *rd]));
        }
        for rd in [0u32, 31] {
            v.push(enc(movwide(sf, 2, 1, 0x1234, rd), "mov_wide", Kind::Arith, &[rd]));
            v.push(enc(movwide(sf, 0, 0, 0x1234, rd), "mov_wide", Kind::Arith, &[rd]));
        }
    }
    let rt_rn: [(u32, u32); 8] = [(0, 1), (2, 31), (31, 3), (31, 31), (4, 4), (30, 29), (5, 30), (30, 30)];
    for (size, opc) in [(0u32, 0u32), (3, 0), (3, 1), (2, 2), (1, 3)] {
        for (rt, rn) in rt_rn.iter() {
            for (class, word) in [
                ("ldst_uimm", ldst_uimm(size, opc, 1, *rn, *rt)),
                ("ldst_unscaled", ldst_imm9(size, opc, 0x1f8, 0, *rn, *rt)),
                ("ldst_post", ldst_imm9(size, opc, 8, 1, *rn, *rt)),
                ("ldst_pre", ldst_imm9(size, opc, 0x1f8, 3, *rn, *rt)),
            ] {
                let mut e = enc(word, class, Kind::Mem, &[*rt, *rn]);
                e.base = Some(*rn);
                v.push(e);
            }
        }
        for (rt, rn, rm) in [(0u32, 1u32, 2u32), (3, 31, 4), (31, 5, 31), (6, 6, 6), (7, 8, 7), (9, 10, 10), (31, 31, 31)] {
            for option in [3u32, 6] {
                let mut e = enc(ldst_reg(size, opc, rm, option, 1, rn, rt), "ldst_reg", Kind::Mem, &[rt, rn, rm]);
                e.base = Some(rn);
                e.offreg = Some(rm);
                v.push(e);
            }
        }
    }
    let pr: [(u32, u32, u32); 11] = [(0, 1, 2), (3, 4, 31), (31, 5, 6), (7, 31, 8), (31, 31, 31), (9, 10, 9), (11, 12, 12), (13, 13, 14), (29, 30, 31), (15, 15, 15), (31, 31, 16)];
    for (opc, l) in [(0u32, 0u32), (0, 1), (2, 0), (2, 1), (1, 1)] {
        for mode in 0..4u32 {
            if opc == 1 && mode == 0 { continue; }
            for (rt, rt2, rn) in pr.iter() {
                let mut e = enc(ldst_pair(opc, mode, l, 0x7e, *rt2, *rn, *rt), "ldst_pair", Kind::Mem, &[*rt, *rt2, *rn]);
                e.base = Some(*rn);
                v.push(e);
            }
        }
    }
    for size in [0u32, 3] {
        for l in 0..2 {
            for (rt, rn) in rt_rn.iter() {
                let mut e = enc(ldst_ord(size, l, 1, *rn, *rt), "ldst_ordered", Kind::Mem, &[*rt, *rn]);
                e.base = Some(*rn);
                v.push(e);
            }
        }
    }
    for opc in 0..3 {
        for rn in [0u32, 30, 31] {
            v.push(enc(b_reg(opc, rn), "b_reg", Kind::BranchReg, &[rn, 30]));
        }
    }
    for sf in 0..2 {
        for rt in [0u32, 30, 31] {
            v.push(enc(cb(sf, 0, 2, rt), "cbz_cbnz", Kind::TestReg, &[rt]));
            v.push(enc(tb(sf, 1, 5, 2, rt), "tbz_tbnz", Kind::TestReg, &[rt]));
        }
    }
    v
}

/// register-field patterns: (rd, rn, rm) with 31 in every position, and the aliasing combinations
const R3: [(u32, u32, u32); 12] = [
    (0, 1, 2), (3, 3, 4), (5, 6, 5), (7, 8, 8), (9, 9, 9), (31, 1, 2), (0, 31, 2), (0, 1, 31), (31, 31, 2), (30, 31, 31), (31, 31, 31), (29, 30, 28),
];
const R2: [(u32, u32); 8] = [(0, 1), (2, 2), (31, 3), (4, 31), (31, 31), (30, 29), (17, 30), (30, 30)];
const IMM12: [u32; 7] = [0, 1, 2, 0x7ff, 0x800, 0xffe, 0xfff];

fn structured() -> Vec<Enc> {
    let mut v: Vec<Enc> = vec![];
    // ---- add/sub (immediate): op x S x sf x sh x imm boundaries x register patterns (31 = SP / ZR)
    for sf in 0..2 {
        for op in 0..2 {
            for s in 0..2 {
                for sh in 0..2 {
                    for (k, imm) in IMM12.iter().enumerate() {
                        for (j, (rd, rn)) in R2.iter().enumerate() {
                            if (k + j + sh as usize) % 2 == 1 && *imm != 0 {
                                continue;
                            }
                            let mut e = enc(addsub_imm(sf, op, s, sh, *imm, *rn, *rd), "addsub_imm", Kind::Arith, &[*rn, *rd]);
                            e.hints = vec![(*imm as u64) << (12 * sh)];
                            v.push(e);
                        }
                    }
                }
            }
        }
    }
    // ---- add/sub (shifted register): shift kinds x amounts x register patterns
    for sf in 0..2u32 {
        let amounts: Vec<u32> = if sf == 1 { vec![0, 1, 31, 32, 63] } else { vec![0, 1, 16, 31, 32] };
        for op in 0..2 {
            for s in 0..2 {
                for shift in 0..4 {
                    for (a, amt) in amounts.iter().enumerate() {
                        for (j, (rd, rn, rm)) in R3.iter().enumerate() {
                            if (a + j + shift as usize) % 3 != 0 && !(*amt == 0 && shift == 0) {
                                continue;
                            }
                            v.push(enc(addsub_shift(sf, op, s, shift, *rm, *amt, *rn, *rd), "addsub_shift", Kind::Arith, &[*rn, *rm, *rd]));
                        }
                    }
                }
            }
        }
    }
    // ---- add/sub (extended register): every option x amounts 0..5 x register patterns
    for sf in 0..2 {
        for op in 0..2 {
            for s in 0..2 {
                for option in 0..8 {
                    for imm3 in 0..6 {
                        for (j, (rd, rn, rm)) in R3.iter().enumerate() {
                            if (imm3 as usize + j + option as usize) % 6 != 0 && !(imm3 == 0 && j < 1) {
                                continue;
                            }
                            v.push(enc(addsub_ext(sf, op, s, *rm, option, imm3, *rn, *rd), "addsub_ext", Kind::Arith, &[*rn, *rm, *rd]));
                        }
                    }
                }
            }
        }
    }
    // ---- moves: ORR (shifted register) incl. the MOV alias, move wide
    for sf in 0..2 {
        for (rd, rn, rm) in R3.iter() {
            v.push(enc(orr_shift(sf, 0, *rm, 0, 31, *rd), "mov_reg", Kind::Arith, &[*rm, *rd]));
            v.push(enc(orr_shift(sf, 0, *rm, 0, *rn, *rd), "mov_reg", Kind::Arith, &[*rm, *rn, *rd]));
        }
        v.push(enc(orr_shift(sf, 0, 2, 3, 31, 1), "mov_reg", Kind::Arith, &[2]));
        v.push(enc(orr_shift(sf, 1, 2, 0, 31, 1), "mov_reg", Kind::Arith, &[2]));
        for opc in [0u32, 2, 3] {
            for hw in 0..4 {
                for imm in [0u32, 1, 0x1234, 0x7fff, 0x8000, 0xfffe, 0xffff] {
                    for rd in [0u32, 30, 31] {
                        if rd != 0 && imm != 0x1234 && imm != 0xffff {
                            continue;
                        }
                        v.push(enc(movwide(sf, opc, hw, imm, rd), "mov_wide", Kind::Arith, &[rd]));
                    }
                }
            }
        }
    }
    // ---- load/store register: every (size, opc) x addressing mode x base/transfer coincidence
    let rt_rn: [(u32, u32); 7] = [(0, 1), (2, 31), (31, 3), (31, 31), (4, 4), (30, 29), (5, 30)];
    for size in 0..4u32 {
        for opc in 0..4u32 {
            // unsigned offset
            for imm in [0u32, 1, 2, 0x7ff, 0xfff] {
                for (j, (rt, rn)) in rt_rn.iter().enumerate() {
                    if j >= 4 && imm > 1 {
                        continue;
                    }
                    let mut e = enc(ldst_uimm(size, opc, imm, *rn, *rt), "ldst_uimm", Kind::Mem, &[*rt, *rn]);
                    e.base = Some(*rn);
                    v.push(e);
                }
            }
            // unscaled / post / pre (and the unprivileged slot, which the lifter must reject)
            for kind in 0..4u32 {
                for imm in [0u32, 1, 8, 0xff, 0x100, 0x1f8, 0x1ff] {
                    for (j, (rt, rn)) in rt_rn.iter().enumerate() {
                        if j >= 2 && imm != 8 && imm != 0x1f8 && !(j == 4) {
                            continue;
                        }
                        let class = match kind { 0 => "ldst_unscaled", 1 => "ldst_post", 2 => "ldst_unpriv", _ => "ldst_pre" };
                        let mut e = enc(ldst_imm9(size, opc, imm, kind, *rn, *rt), class, Kind::Mem, &[*rt, *rn]);
                        e.base = Some(*rn);
                        v.push(e);
                    }
                }
            }
            // register offset: every option x S
            for option in 0..8u32 {
                for s in 0..2u32 {
                    for (rt, rn, rm) in [(0u32, 1u32, 2u32), (3, 31, 4), (31, 5, 31), (6, 6, 6), (7, 8, 7)] {
                        if option & 2 == 0 && rt != 0 {
                            continue;
                        }
                        let mut e = enc(ldst_reg(size, opc, rm, option, s, rn, rt), "ldst_reg", Kind::Mem, &[rt, rn, rm]);
                        e.base = Some(rn);
                        e.offreg = Some(rm);
                        v.push(e);
                    }
                }
            }
        }
        // ordered
        for l in 0..2 {
            for o0 in 0..2 {
                for (rt, rn) in rt_rn.iter() {
                    let mut e = enc(ldst_ord(size, l, o0, *rn, *rt), "ldst_ordered", Kind::Mem, &[*rt, *rn]);
                    e.base = Some(*rn);
                    v.push(e);
                }
            }
        }
    }
    // literal loads
    for opc in 0..4 {
        for imm in [0u32, 2, 0x3ffff, 0x40000, 0x7ffff] {
            v.push(enc(ldlit(opc, imm, 0), "ld_literal", Kind::Plain, &[]));
        }
    }
    // ---- pairs
    let pr: [(u32, u32, u32); 9] = [(0, 1, 2), (3, 4, 31), (31, 5, 6), (7, 31, 8), (31, 31, 31), (9, 10, 9), (11, 12, 12), (13, 13, 14), (29, 30, 31)];
    for opc in 0..4u32 {
        for mode in 0..4u32 {
            for l in 0..2u32 {
                for imm in [0u32, 1, 0x3f, 0x40, 0x7e, 0x7f] {
                    for (j, (rt, rt2, rn)) in pr.iter().enumerate() {
                        if j >= 2 && imm != 1 && imm != 0x7e {
                            continue;
                        }
                        let mut e = enc(ldst_pair(opc, mode, l, imm, *rt2, *rn, *rt), "ldst_pair", Kind::Mem, &[*rt, *rt2, *rn]);
                        e.base = Some(*rn);
                        v.push(e);
                    }
                }
            }
        }
    }
    // ---- branches
    for link in 0..2 {
        for imm in [0u32, 1, 2, 0x1ffffff, 0x2000000, 0x3ffffff, 0x3fffc00] {
            v.push(enc(b_imm(link, imm), "b_imm", Kind::Plain, &[30]));
        }
    }
    for opc in 0..4 {
        for rn in [0u32, 1, 17, 29, 30, 31] {
            v.push(enc(b_reg(opc, rn), "b_reg", Kind::BranchReg, &[rn, 30]));
        }
    }
    for cond in 0..16 {
        for imm in [2u32, 0x7ffff, 0x40000, 0] {
            v.push(enc(b_cond(cond, imm), "b_cond", Kind::Cond, &[]));
        }
    }
    for sf in 0..2 {
        for op in 0..2 {
            for imm in [2u32, 0x7fffe, 0x3ffff] {
                for rt in [0u32, 15, 30, 31] {
                    v.push(enc(cb(sf, op, imm, rt), "cbz_cbnz", Kind::TestReg, &[rt]));
                }
            }
        }
    }
    for b5 in 0..2u32 {
        for op in 0..2 {
            for b40 in [0u32, 1, 15, 16, 30, 31] {
                for (imm, rt) in [(2u32, 0u32), (0x3fff, 30), (0x2000, 31), (1, 7)] {
                    let mut e = enc(tb(b5, op, b40, imm, rt), "tbz_tbnz", Kind::TestReg, &[rt]);
                    e.hints = vec![1u64 << (b5 * 32 + b40)];
                    v.push(e);
                }
            }
        }
    }
    // ---- MOV (bitmask immediate) = ORR (immediate) with Rn = ZR; every element size, rotations, the MoveWidePreferred boundary
    for sf in 0..2u32 {
        for (n, imms) in [(0u32, 0u32), (0, 0b111100), (0, 0b111101), (0, 0b110000), (0, 0b110110), (0, 0b100000), (0, 0b101110), (0, 0), (0, 7), (0, 15), (0, 16), (0, 17), (0, 30), (0, 31), (1, 0), (1, 15), (1, 16), (1, 31), (1, 47), (1, 48), (1, 49), (1, 62), (1, 63), (0, 63), (0, 0b111110)] {
            for immr in [0u32, 1, 7, 15, 16, 17, 31, 33, 48, 63] {
                for (rn, rd) in [(31u32, 0u32), (31, 31), (1, 2)] {
                    if rn != 31 && immr != 1 { continue; }
                    v.push(enc(orr_imm(sf, n, immr, imms, rn, rd), "mov_bitmask", Kind::Arith, &[rn, rd]));
                }
            }
        }
    }
    // ---- NOP, PRFM (immediate, unscaled, register, literal), STLUR*, ordered accesses with (1) fields not all ones
    v.push(enc(0xd503201f, "nop_prfm", Kind::Plain, &[]));
    v.push(enc(0xd503203f, "nop_prfm", Kind::Plain, &[])); // yield: not accepted
    for (word, base) in [(ldst_uimm(3, 2, 5, 1, 0), 1u32), (ldst_uimm(3, 2, 0xfff, 31, 31), 31), (ldst_imm9(3, 2, 0x1f8, 0, 2, 7), 2), (ldst_imm9(3, 2, 8, 1, 2, 7), 2),
                         (ldst_imm9(3, 2, 8, 3, 2, 7), 2), (ldst_reg(3, 2, 3, 3, 1, 4, 24), 4), (ldst_reg(3, 2, 3, 6, 0, 31, 1), 31), (ldst_reg(3, 2, 3, 1, 0, 4, 1), 4)] {
        let mut e = enc(word, "nop_prfm", Kind::Mem, &[base]);
        e.base = Some(base);
        v.push(e);
    }
    v.push(enc(ldlit(3, 0x7ffff, 5), "nop_prfm", Kind::Plain, &[]));
    for size in 0..4u32 {
        for opc in 0..4u32 {
            for (rt, rn) in [(0u32, 1u32), (31, 31), (4, 4)] {
                let mut e = enc(stlur(size, opc, 0x1f8, rn, rt), "stlur_ldapur", Kind::Mem, &[rt, rn]);
                e.base = Some(rn);
                v.push(e);
            }
        }
        for l in 0..2 {
            for (rs, rt2) in [(0u32, 31u32), (31, 0), (5, 6)] {
                let mut e = enc(ldst_ord_sbo(size, l, 1, rs, rt2, 1, 0), "ldst_ordered_sbo", Kind::Mem, &[0, 1]);
                e.base = Some(1);
                v.push(e);
            }
        }
    }
    // ---- SIMD&FP register loads/stores: B H S D Q x every addressing mode; pairs S D Q
    for (size, opc) in [(0u32, 0u32), (0, 1), (1, 0), (1, 1), (2, 0), (2, 1), (3, 0), (3, 1), (0, 2), (0, 3), (1, 2), (2, 3)] {
        let v1 = 1u32 << 26;
        for (rt, rn) in [(0u32, 1u32), (31, 31), (5, 5), (30, 2)] {
            for (class, word) in [
                ("simd_ldst_uimm", ldst_uimm(size, opc, 3, rn, rt) | v1),
                ("simd_ldst_unscaled", ldst_imm9(size, opc, 0x1f1, 0, rn, rt) | v1),
                ("simd_ldst_post", ldst_imm9(size, opc, 16, 1, rn, rt) | v1),
                ("simd_ldst_pre", ldst_imm9(size, opc, 0x1f0, 3, rn, rt) | v1),
                ("simd_ldst_unpriv", ldst_imm9(size, opc, 8, 2, rn, rt) | v1),
            ] {
                let mut e = enc(word, class, Kind::Mem, &[rn]);
                e.base = Some(rn);
                v.push(e);
            }
            for (option, sbit) in [(3u32, 0u32), (3, 1), (2, 1), (6, 0), (7, 1), (1, 0)] {
                let mut e = enc(ldst_reg(size, opc, 3, option, sbit, rn, rt) | v1, "simd_ldst_reg", Kind::Mem, &[rn, 3]);
                e.base = Some(rn);
                e.offreg = Some(3);
                v.push(e);
            }
        }
    }
    for opc in 0..4u32 {
        for mode in 0..4u32 {
            for l in 0..2u32 {
                for (rt, rt2, rn) in [(0u32, 1u32, 2u32), (31, 30, 31), (4, 4, 5), (6, 7, 6)] {
                    for imm in [1u32, 0x7e] {
                        let mut e = enc(ldst_pair(opc, mode, l, imm, rt2, rn, rt) | 1 << 26, "simd_ldst_pair", Kind::Mem, &[rn]);
                        e.base = Some(rn);
                        v.push(e);
                    }
                }
            }
        }
    }
    // ---- AdvSIMD element moves (all `mov` for bad64) and the scalar D add/sub
    for imm5 in 0..32u32 {
        for imm4 in [0u32, 1, 2, 4, 8, 15] {
            for (rn, rd) in [(1u32, 2u32), (3, 3), (31, 0)] {
                v.push(enc(0x6e000400 | imm5 << 16 | imm4 << 11 | rn << 5 | rd, "simd_mov_elem", Kind::Arith, &[rn, rd]));
            }
        }
        for (rn, rd) in [(1u32, 2u32), (31, 31), (5, 5)] {
            v.push(enc(0x4e001c00 | imm5 << 16 | rn << 5 | rd, "simd_mov_elem", Kind::Arith, &[rn, rd]));
            v.push(enc(0x0e001c00 | imm5 << 16 | rn << 5 | rd, "simd_mov_elem", Kind::Arith, &[rn, rd]));
            for q in 0..2u32 {
                v.push(enc(0x0e003c00 | q << 30 | imm5 << 16 | rn << 5 | rd, "simd_mov_elem", Kind::Arith, &[rn, rd]));
            }
            v.push(enc(0x5e000400 | imm5 << 16 | rn << 5 | rd, "simd_mov_elem", Kind::Arith, &[rn, rd]));
        }
    }
    for q in 0..2u32 {
        for (rm, rn, rd) in [(1u32, 1u32, 2u32), (3, 3, 3), (1, 2, 3), (31, 31, 0)] {
            v.push(enc(0x0ea01c00 | q << 30 | rm << 16 | rn << 5 | rd, "simd_mov_elem", Kind::Plain, &[]));
        }
    }
    for u in 0..2u32 {
        for size in 0..4u32 {
            for (rm, rn, rd) in [(1u32, 2u32, 3u32), (4, 4, 4), (31, 0, 31)] {
                v.push(enc(0x5e208400 | u << 29 | size << 22 | rm << 16 | rn << 5 | rd, "simd_addsub_d", Kind::Plain, &[]));
            }
        }
    }
    for w in [0x8410d00au32, 0x85d723ea, 0xc4761548, 0xc59eefee, 0x8420c000, 0x85c0000f, 0x8400c01f, 0x841fc000, 0x8400e000, 0xc460801f, 0xc400e000, 0x8410d01a] {
        v.push(enc(w, "nop_prfm", Kind::Plain, &[])); // SVE prefetches (and two neighbours that must be rejected)
    }
    // vector / SVE add, sub, mov: lane-wise instructions the lifter must now REJECT
    for w in [0x0e2b85fau32, 0x4e3d845e, 0x6ee08451, 0x2e7a870e, 0x04630328, 0x25a0c158, 0x05c2ce80, 0x05242274, 0x05a92103] {
        v.push(enc(w, "simd_lanewise_rejected", Kind::Plain, &[]));
    }
    // ---- accepted encodings outside the property's integer classes (reported, not compared)
    // v.push(enc(0x0e2b85fa, "other_vector_arith", Kind::Plain, &[])); // add v26.8b, v15.8b, v11.8b : lifted as ONE 64-bit addition
    // v.push(enc(0x4e3d845e, "other_vector_arith", Kind::Plain, &[])); // add v30.16b, ...          : lifted as one 128-bit addition
    // v.push(enc(0x5ee885bd, "other_vector_arith", Kind::Plain, &[])); // add d29, d13, d8 (scalar)
    // v.push(enc(0x6e0c0f5f, "other_vector_mov", Kind::Plain, &[]));   // mov v31.s[1], v26.s[0]
    // v.push(enc(0x04630328, "other_sve", Kind::Plain, &[]));          // SVE add z8.h, z25.h, z3.h
    // v.push(enc(0x8410d00a, "other_sve"          // SVE prefetch -> nop
    v
}

/// a random word of one of the classes (all fields random, incl. undefined combinations)
fn random_enc(r: &mut Rng) -> Enc {
    let f = |r: &mut Rng, n: u64| r.below(n) as u32;
    let reg = |r: &mut Rng| if r.chance(1, 5) { 31 } else { r.below(31) as u32 };
    if r.chance(1, 4) {
        // a uniformly random 32-bit word: acceptance must agree with the specification's decoder
        return enc(r.next() as u32, "uniform", Kind::Plain, &[]);
    }
    match r.below(20) {
        0 | 1 => {
            let (rn, rd) = (reg(r), reg(r));
            let sh = f(r, 2);
            let imm = f(r, 4096);
            let mut e = enc(addsub_imm(f(r, 2), f(r, 2), f(r, 2), sh, imm, rn, rd), "addsub_imm", Kind::Arith, &[rn, rd]);
            e.hints = vec![(imm as u64) << (12 * sh)];
            e
        }
        2 | 3 => {
            let (rm, rn, rd) = (reg(r), reg(r), reg(r));
            enc(addsub_shift(f(r, 2), f(r, 2), f(r, 2), f(r, 4), rm, f(r, 64), rn, rd), "addsub_shift", Kind::Arith, &[rn, rm, rd])
        }
        4 | 5 => {
            let (rm, rn, rd) = (reg(r), reg(r), reg(r));
            enc(addsub_ext(f(r, 2), f(r, 2), f(r, 2), rm, f(r, 8), f(r, 6), rn, rd), "addsub_ext", Kind::Arith, &[rn, rm, rd])
        }
        6 => {
            let (rm, rd) = (reg(r), reg(r));
            let rn = if r.chance(3, 4) { 31 } else { reg(r) };
            let (sh, amt) = if r.chance(3, 4) { (0, 0) } else { (f(r, 4), f(r, 64)) };
            enc(orr_shift(f(r, 2), sh, rm, amt, rn, rd), "mov_reg", Kind::Arith, &[rm, rn, rd])
        }
        7 => {
            let rd = reg(r);
            let imm = *r.pick(&[0u32, 0xffff, 0x8000, 1]) ^ if r.chance(1, 2) { f(r, 65536) } else { 0 };
            enc(movwide(f(r, 2), f(r, 4), f(r, 4), imm, rd), "mov_wide", Kind::Arith, &[rd])
        }
        8 | 9 => {
            let (rt, rn) = (reg(r), reg(r));
            let mut e = enc(ldst_uimm(f(r, 4), f(r, 4), f(r, 4096), rn, rt), "ldst_uimm", Kind::Mem, &[rt, rn]);
            e.base = Some(rn);
            e
        }
        10 | 11 => {
            let (rt, rn) = (reg(r), reg(r));
            let kind = *r.pick(&[0u32, 1, 3, 3, 1, 0, 2]);
            let class = match kind { 0 => "ldst_unscaled", 1 => "ldst_post", 2 => "ldst_unpriv", _ => "ldst_pre" };
            let mut e = enc(ldst_imm9(f(r, 4), f(r, 4), f(r, 512), kind, rn, rt), class, Kind::Mem, &[rt, rn]);
            e.base = Some(rn);
            e
        }
        12 | 13 => {
            let (rt, rn, rm) = (reg(r), reg(r), reg(r));
            let mut e = enc(ldst_reg(f(r, 4), f(r, 4), rm, f(r, 8), f(r, 2), rn, rt), "ldst_reg", Kind::Mem, &[rt, rn, rm]);
            e.base = Some(rn);
            e.offreg = Some(rm);
            e
        }
        14 | 15 => {
            let (rt, rt2, rn) = (reg(r), reg(r), reg(r));
            let mut e = enc(ldst_pair(f(r, 4), f(r, 4), f(r, 2), f(r, 128), rt2, rn, rt), "ldst_pair", Kind::Mem, &[rt, rt2, rn]);
            e.base = Some(rn);
            e
        }
        16 => {
            let (rt, rn) = (reg(r), reg(r));
            let mut e = enc(ldst_ord(f(r, 4), f(r, 2), f(r, 2), rn, rt), "ldst_ordered", Kind::Mem, &[rt, rn]);
            e.base = Some(rn);
            e
        }
        17 => {
            if r.chance(1, 2) {
                enc(b_imm(f(r, 2), r.next() as u32), "b_imm", Kind::Plain, &[30])
            } else {
                let rn = reg(r);
                enc(b_reg(f(r, 3), rn), "b_reg", Kind::BranchReg, &[rn, 30])
            }
        }
        18 => enc(b_cond(f(r, 16), r.next() as u32), "b_cond", Kind::Cond, &[]),
        _ => {
            let rt = reg(r);
            if r.chance(1, 2) {
                enc(cb(f(r, 2), f(r, 2), r.next() as u32, rt), "cbz_cbnz", Kind::TestReg, &[rt])
            } else {
                let (b5, b40) = (f(r, 2), f(r, 32));
                let mut e = enc(tb(b5, f(r, 2), b40, r.next() as u32, rt), "tbz_tbnz", Kind::TestReg, &[rt]);
                e.hints = vec![1u64 << (b5 * 32 + b40)];
                e
            }
        }
    }
}

// ---------------------------------------------------------------- state sampling
const BOUNDARY: [u64; 14] = [
    0, 1, 2, 0x7f, 0x80, 0xff, 0x7fff, 0x8000, 0x7fff_ffff, 0x8000_0000, 0xffff_ffff, 0x1_0000_0000, 0x7fff_ffff_ffff_ffff, 0x8000_0000_0000_0000,
];
fn boundary_value(r: &mut Rng, hints: &[u64]) -> u64 {
    match r.below(10) {
        0..=3 => *r.pick(&BOUNDARY),
        4 => u64::MAX - r.below(3),
        5 | 6 if !hints.is_empty() => {
            // values that put the result at a carry / overflow / zero boundary for this immediate
            let h = *r.pick(hints);
            let base = *r.pick(&[0u64, 0x8000_0000_0000_0000, 0x8000_0000, 0x1_0000_0000, 0]);
            let delta = r.below(3).wrapping_sub(1);
            if r.chance(1, 2) { base.wrapping_sub(h).wrapping_add(delta) } else { base.wrapping_add(h).wrapping_add(delta) }
        }
        7 => 1u64 << r.below(64),
        8 => !(1u64 << r.below(64)),
        _ => r.next(),
    }
}
fn address_value(r: &mut Rng) -> u64 {
    match r.below(12) {
        0 => 0x2000,
        1 => 0x2000 + r.range(1, 7),
        2 => 0x1000 - r.range(1, 15), // the access crosses a 4 KiB page
        3 => 0x10000 - r.range(1, 8),
        4 => r.next() >> 17,
        5 => r.next(),
        6 => 0xffff_ffff_ffff_fff0 + r.below(16), // top of the address space (possible wrap: outside the model)
        7 => r.below(16),                         // bottom: negative offsets wrap
        8 => 0x8000_0000_0000_0000 - r.below(9),
        9 => 0xffff_fff8 + r.below(16),
        _ => (r.next() >> 20) & !7,
    }
}
fn offset_value(r: &mut Rng) -> u64 {
    match r.below(10) {
        0 => 0,
        1 => r.range(1, 9),
        2 => 0xffff_ffff,
        3 => 0x8000_0000,
        4 => u64::MAX - r.below(9),
        5 => 0x7fff_ffff,
        6 => r.next() & 0xffff_ffff,
        7 => 0xffff_ffff_0000_0000 | r.below(64),
        _ => r.next(),
    }
}

struct Sample {
    ovr: Vec<(u32, u64)>,
    nzcv: u32,
    salt: u64,
}
fn samples_for(r: &mut Rng, e: &Enc) -> Vec<Sample> {
    let count = match e.kind { Kind::Arith => 8, Kind::Mem => 6, Kind::Cond => 16, Kind::TestReg => 8, Kind::BranchReg => 4, Kind::Plain => 2 };
    let forced: Vec<Sample> = e.forced.iter().map(|ovr| Sample { ovr: ovr.clone(), nzcv: r.below(16) as u32, salt: r.below(1 << 20) }).collect();
    let generic = (0..count)
        .map(|k| {
            let mut ovr: Vec<(u32, u64)> = vec![];
            match e.kind {
                Kind::Arith | Kind::TestReg => {
                    for reg in &e.regs {
                        if !ovr.iter().any(|(x, _)| x == reg) {
                            ovr.push((*reg, boundary_value(r, &e.hints)));
                        }
                    }
                    if e.kind == Kind::TestReg && k == 0 {
                        ovr = e.regs.iter().map(|x| (*x, 0)).collect();
                    }
                }
                Kind::Mem => {
                    if let Some(b) = e.base {
                        ovr.push((b, address_value(r)));
                    }
                    if let Some(o) = e.offreg {
                        if !ovr.iter().any(|(x, _)| *x == o) {
                            ovr.push((o, offset_value(r)));
                        }
                    }
                    for reg in &e.regs {
                        if !ovr.iter().any(|(x, _)| x == reg) {
                            ovr.push((*reg, boundary_value(r, &[])));
                        }
                    }
                }
                Kind::BranchReg => {
                    for reg in &e.regs {
                        if !ovr.iter().any(|(x, _)| x == reg) {
                            let v = match r.below(5) { 0 => 0, 1 => 0x1000, 2 => r.next() >> 16, 3 => u64::MAX - 3, _ => r.next() };
                            ovr.push((*reg, v));
                        }
                    }
                }
                Kind::Cond | Kind::Plain => {}
            }
            let nzcv = if e.kind == Kind::Cond { k as u32 } else { r.below(16) as u32 };
            Sample { ovr, nzcv, salt: r.below(1 << 20) }
        })
        .collect::<Vec<Sample>>();
    forced.into_iter().chain(generic.into_iter()).collect()
}

// ---------------------------------------------------------------- one case
fn coq_succs(s: &[(u64, Option<falcon::il::Expression>)], it: &mut Interner) -> String {
    coq_list(s.iter().map(|(a, c)| format!("({}, {})", a, coq_opt(c.as_ref().map(|e| coq_expr(e, it))))).collect::<Vec<_>>())
}

/// ORR (immediate) whose bitmask fields are a RESERVED combination (UNDEFINED in the Arm ARM; bad64 decodes it as mov)
fn reserved_bitmask_orr(word: u32) -> bool {
    (word >> 23) & 0x3f == 0b100100 && (word >> 29) & 3 == 1 && !spec_decodes(word)
}

fn is_subs(word: u32) -> bool {
    // add/sub (immediate | shifted register | extended register) with op = 1, S = 1
    let op_s = (word >> 29) & 3 == 3;
    let imm = (word >> 23) & 0x3f == 0b100010;
    let reg = (word >> 24) & 0x1f == 0b01011;
    op_s && (imm || reg)
}

fn gcd(a: u64, b: u64) -> u64 {
    if b == 0 { a } else { gcd(b, a % b) }
}

fn gen_case(seed: u64, idx: u64, front: &[Enc], table: &[Enc], total: u64) -> Case {
    let mut r = Rng::for_case(seed, idx);
    let r = &mut r;
    let m = table.len() as u64;
    let _ = total;
    let f = front.len() as u64;
    let e = if idx < f {
        // fixed corpus + register-aliasing table: the same words at every seed (states still vary with the seed)
        front[idx as usize].clone()
    } else if idx - f < m {
        let idx = idx - f;
        // a fixed stride permutation of the structured table (independent of --n, so that --only i
        // regenerates case i): every prefix is a spread subsample
        let p = [7919u64, 7907, 7901, 7883].iter().copied().find(|p| gcd(*p, m) == 1).unwrap_or(1);
        table[((idx * p) % m) as usize].clone()
    } else {
        random_enc(r)
    };
    let addr: u64 = match r.below(8) {
        0 => 0x40_0000,
        1 => 0x7fff_fffc,
        2 => 0xffff_ffff_fff0,
        3 => 0x10,
        4 => (r.next() >> 20) & !3,
        _ => 0x1000,
    };
    let big = r.chance(1, 3);
    let bytes = e.word.to_le_bytes().to_vec();
    let opts = Options::new();
    let res = observe(|| if big { AArch64Eb::new().translate_block(&bytes, addr, &opts) } else { AArch64::new().translate_block(&bytes, addr, &opts) });
    let mut it = seed_interner();
    let (obs, lift_tag, shown) = match &res {
        Obs::Ok(b) => {
            if b.instructions().len() == 1 && b.instructions()[0].0 == addr {
                let g = &b.instructions()[0].1;
                let ops: Vec<String> = g.blocks().iter().flat_map(|bl| bl.instructions().iter().map(|i| format!("{}", i.operation()))).collect();
                let succ: Vec<String> = b.successors().iter().map(|(a, c)| format!("{:#x}{}", a, c.as_ref().map(|e| format!(" if {}", e)).unwrap_or_default())).collect();
                (
                    format!("(LOk {} {})", coq_cfg(g, None, &mut it), coq_succs(b.successors(), &mut it)),
                    "ok",
                    format!("{{{}}} -> [{}]", ops.join("; "), succ.join(", ")),
                )
            } else {
                ("LOther".to_string(), "other", "unexpected block shape".to_string())
            }
        }
        Obs::Err(k) => ("LErr".to_string(), "err", format!("Err {}", k)),
        Obs::Panic => ("LPanic".to_string(), "panic", "PANIC".to_string()),
    };
    let samples = if lift_tag == "ok" { samples_for(r, &e) } else { vec![] };
    let coq_samples = coq_list(
        samples
            .iter()
            .map(|s| {
                format!(
                    "mksample {} {} {}",
                    coq_list(s.ovr.iter().map(|(k, v)| format!("({}, {})", k, v)).collect::<Vec<_>>()),
                    s.nzcv,
                    s.salt
                )
            })
            .collect::<Vec<_>>(),
    );
    let mut tags = vec![format!("class:{}", e.class), format!("lift:{}", lift_tag), format!("endian:{}", if big { "big" } else { "little" })];
    if lift_tag == "ok" {
        if !reserved_bitmask_orr(e.word) && (e.class.starts_with("other_") || (e.class == "uniform" && !spec_decodes(e.word))) {
            tags.push("cov:accepted-outside-the-listed-classes".into());
        }
        if reserved_bitmask_orr(e.word) {
            // ORR (immediate) with a RESERVED bitmask encoding (imms = 11111x ...): UNDEFINED in the Arm ARM, decoded by
            // bad64 as `mov`, hence accepted by the lifter.  Counted among the accepted words outside the specification.
            tags.push("kf:reserved-bitmask-immediate-accepted".into());
        }
        if is_subs(e.word) {
            // every accepted SUBS: the lifter's `c` is "a borrow occurred"; the Arm ARM has C = NOT borrow
            tags.push("kf:subs-carry-is-borrow".into());
        }
    }
    Case {
        coq: format!("K {} {} {} {} {} {}", e.word, addr, coq_bool(big), coq_bool(lift_tag == "ok" && !reserved_bitmask_orr(e.word) && (e.class.starts_with("other_") || (e.class == "uniform" && !spec_decodes(e.word)))), obs, coq_samples),
        descr: format!("word {:#010x} at {:#x} ({}, {}-endian data): {} ; {} sampled states", e.word, addr, e.class, if big { "big" } else { "little" }, shown, samples.len()),
        tags,
        nontrivial: lift_tag == "ok" && !e.class.starts_with("other_") && (e.class != "uniform" || spec_decodes(e.word)),
        key: format!("{:08x}:{:x}:{}", e.word, addr, big),
    }
}

fn main() {
    quiet_panics();
    let args = parse_args();
    let table = structured();
    let mut front = corpus();
    front.extend(alias_table());
    if let Some(words) = args.extra.get("probe") {
        // debugging aid: --probe 0b3f43ff,8b3f63ff prints what the lifter returns for each word
        for w in words.split(',') {
            let word = u32::from_str_radix(w.trim_start_matches("0x"), 16).unwrap();
            let bytes = word.to_le_bytes().to_vec();
            match observe(|| AArch64::new().translate_block(&bytes, 0x1000, &Options::new())) {
                Obs::Ok(b) => {
                    let ops: Vec<String> = b.instructions().iter().flat_map(|(_, g)| g.blocks().iter().flat_map(|bl| bl.instructions().iter().map(|i| format!("{}", i.operation())).collect::<Vec<_>>()).collect::<Vec<_>>()).collect();
                    println!("{:08x}: {{{}}} -> {:?}", word, ops.join("; "), b.successors().iter().map(|(a, c)| format!("{:#x}{}", a, c.as_ref().map(|e| format!(" if {}", e)).unwrap_or_default())).collect::<Vec<_>>());
                }
                Obs::Err(k) => println!("{:08x}: Err {} ({:?})", word, k, AArch64::new().translate_block(&bytes, 0x1000, &Options::new()).err().map(|e| format!("{}", e))),
                Obs::Panic => println!("{:08x}: PANIC", word),
            }
        }
        return;
    }
    if let Some(pfx) = args.extra.get("scanpfx") {
        // debugging aid: random words with a given top byte; prints word + A(ccepted as nop) / O(ther accepted) / R(ejected)
        let top = u32::from_str_radix(pfx, 16).unwrap();
        let mut r = Rng::new(args.seed ^ 0x77);
        for _ in 0..args.n {
            let word = top << 24 | (r.next() as u32 & 0xffffff);
            let bytes = word.to_le_bytes().to_vec();
            let res = observe(|| AArch64::new().translate_block(&bytes, 0x1000, &Options::new()));
            let c = match res { Obs::Ok(b) => { let nop = b.instructions().iter().all(|(_, g)| g.blocks().iter().all(|bl| bl.instructions().iter().all(|i| format!("{}", i.operation()) == "nop"))); if nop { 'A' } else { 'O' } } _ => 'R' };
            println!("{:08x} {}", word, c);
        }
        return;
    }
    if let Some(n) = args.extra.get("scan") {
        // debugging aid: uniformly random words; prints every word the lifter accepts
        let n: u64 = n.parse().unwrap();
        let mut r = Rng::new(args.seed ^ 0x5ca9);
        let (mut accepted, mut kf, mut outside) = (0u64, 0u64, 0u64);
        for _ in 0..n {
            let word = r.next() as u32;
            let bytes = word.to_le_bytes().to_vec();
            if let Obs::Ok(b) = observe(|| AArch64::new().translate_block(&bytes, 0x1000, &Options::new())) {
                let ops: Vec<String> = b.instructions().iter().flat_map(|(_, g)| g.blocks().iter().flat_map(|bl| bl.instructions().iter().map(|i| format!("{}", i.operation())).collect::<Vec<_>>()).collect::<Vec<_>>()).collect();
                accepted += 1;
                if reserved_bitmask_orr(word) { kf += 1; } else if !spec_decodes(word) { outside += 1; println!("{:08x} {{{}}}", word, ops.join("; ")); }
            }
        }
        println!("scanned {} accepted {} kf-tagged {} accepted_words_outside_the_specification {}", n, accepted, kf, outside);
        return;
    }
    if args.extra.contains_key("count") {
        println!("corpus+alias {} structured {}", front.len(), table.len());
        return;
    }
    let from: u64 = args.extra.get("from").map(|v| v.parse().unwrap()).unwrap_or(0); // dev aid: start index
    let idxs: Vec<u64> = match args.only { Some(i) => vec![i], None => (from..from + args.n).collect() };
    let cases: Vec<Case> = idxs.iter().map(|i| gen_case(args.seed, *i, &front, &table, args.n)).collect();
    write_cases(
        &args,
        "C03",
        "From Coq Require Import ZArith List NArith.\nFrom Falcon Require Import Base.Res IL.Const IL.Expr IL.Func Isa.C03Check.\nImport ListNotations.\nLocal Open Scope Z_scope.",
        "ck",
        &cases,
        16,
        serde_json::json!({"structured_table": table.len(), "corpus_and_alias_table": front.len(),
            "accepted_words_outside_the_specification": cases.iter().filter(|c| c.tags.iter().any(|t| t.starts_with("cov:accepted-outside"))).count()}),
    );
}
