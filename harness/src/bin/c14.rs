//! C14 harness: dead_code_elimination on random IL functions; the observed output function is embedded
//! in the case and judged in Coq (shape + lock-step execution against the input in Exec/Sem.v).
#[path = "flow_common/mod.rs"]
mod flow_common;
use falcon::analysis::dead_code_elimination;
use falcon::il::{self, Function, Operation};
use flow_common::*;
use fvh::ilgen::*;
use fvh::*;

/// `f` with the operations at the given instruction locations replaced by Operation::nop()
fn with_nops(f: &Function, ks: &[(usize, usize)]) -> Function {
    let mut g = f.clone();
    let bidx: Vec<usize> = g.blocks().iter().map(|b| b.index()).collect();
    for bi in bidx {
        let b = g.block_mut(bi).unwrap();
        for ins in b.instructions_mut().iter_mut() {
            if ks.contains(&(bi, ins.index())) {
                *ins.operation_mut() = Operation::nop();
            }
        }
    }
    g
}

/// compact rendering of the output (see Flow/C14Check.v): mask of nop-ed locations, or the whole function
fn coq_out(f: &Function, g: &Function, it: &mut Interner) -> (String, usize) {
    let locs: Vec<il::FunctionLocation> = f.locations().into_iter().map(|l| l.into()).collect();
    let mut ks = vec![];
    let mut mask = num_bigint::BigUint::from(0u32);
    let same_blocks = f.blocks().len() == g.blocks().len();
    if same_blocks {
        for (bf, bg) in f.blocks().iter().zip(g.blocks().iter()) {
            if bf.index() != bg.index() || bf.instructions().len() != bg.instructions().len() { continue; }
            for (x, y) in bf.instructions().iter().zip(bg.instructions().iter()) {
                if x.index() == y.index() && x.operation() != y.operation() && *y.operation() == Operation::nop() {
                    if let Some(j) = locs.iter().position(|l| *l == il::FunctionLocation::Instruction(bf.index(), x.index())) {
                        if !ks.contains(&(bf.index(), x.index())) {
                            ks.push((bf.index(), x.index()));
                            mask |= num_bigint::BigUint::from(1u32) << j;
                        }
                    }
                }
            }
        }
    }
    if with_nops(f, &ks) == *g {
        (format!("(ODiff {})", mask), ks.len())
    } else {
        (format!("(OFull {})", coq_function(g, it)), usize::MAX)
    }
}

fn gen_case(seed: u64, i: u64) -> Case {
    let mut r = Rng::for_case(seed, i);
    let fc = gen_flow_function(&mut r, &FlowOpts { intrinsics_pct: 45, branches_pct: 30, unreachable_pct: 15, mixed_width_pct: 0 });
    let f = &fc.function;
    let mut it = Interner::new();
    let fcoq = coq_function(f, &mut it);
    let big = r.chance(1, 2);
    let aseed = r.below(1 << 20);
    let pool = coq_pool(&fc.pool, &mut it);
    let vals = coq_list((0..4).map(|_| gen_vals(&mut r, &fc.pool)).collect::<Vec<_>>());
    let out = observe(|| dead_code_elimination(f));
    let mut killed = 0usize;
    let obs = match &out {
        Obs::Ok(g) => { let (s, k) = coq_out(f, g, &mut it); killed = k; format!("(Ok {})", s) }
        Obs::Err(k) => format!("(Err {})", k),
        Obs::Panic => "Panic".to_string(),
    };
    let coq = format!("(K {} {} {} {} {} {})", fcoq, coq_bool(big), aseed, pool, vals, obs);
    let mut tags: Vec<String> = fc.tags.iter().cloned().collect();
    tags.push(format!("dce:{}", out.kind()));
    if killed == usize::MAX { tags.push("output:not-a-nop-diff".into()); }
    else if killed > 0 { tags.push("killed>0".into()); } else { tags.push("killed=0".into()); }
    let reach = reachable_blocks(f);
    if reach.len() < f.blocks().len() { tags.push("unreachable-block".into()); }
    let descr = describe(f);
    let nelems = instr_count(f);
    let descr = format!("{}{}", keep_prefix("instructions", nelems), descr);
    Case { coq, nontrivial: f.locations().len() >= 4 && killed > 0 && killed != usize::MAX, key: descr.clone(), descr, tags }.with_elements(nelems)
}

fn main() {
    quiet_panics();
    let args = parse_args();
    let cases: Vec<Case> = match args.only {
        Some(i) => vec![gen_case(args.seed, i)],
        None => (0..args.n).map(|i| gen_case(args.seed, i)).collect(),
    };
    let header = "From Coq Require Import ZArith List Bool NArith.\nFrom Falcon Require Import Base.Res IL.Const IL.Expr IL.Func IL.Loc Exec.Sem Flow.C14Check.\nImport ListNotations.\nLocal Open Scope Z_scope.";
    write_cases(&args, "C14", header, "ck", &cases, 16, serde_json::json!({}));
}
