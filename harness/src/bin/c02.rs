//! C02 harness: enumerate MIPS32 / PPC32 encodings, lift them with the REAL lifters
//! (translator::mips::{Mips, Mipsel}, translator::ppc::Ppc; translate_block on the bytes), dump every
//! instruction graph of the translated block (in order) and the block's successors as Gallina terms,
//! together with sampled machine states.  Coq (Isa/C02Check.v) decodes the raw words with the ISA
//! specification, runs the dumped IL with the reference IL semantics and compares.
use falcon::il;
use falcon::translator::{mips, ppc, BlockTranslationResult, Options, Translator};
use fvh::ilgen::*;
use fvh::*;

// ------------------------------------------------------------------ MIPS encodings
fn rtype(op: u32, rs: u32, rt: u32, rd: u32, sa: u32, func: u32) -> u32 {
    (op << 26) | (rs << 21) | (rt << 16) | (rd << 11) | (sa << 6) | func
}
fn itype(op: u32, rs: u32, rt: u32, imm: u32) -> u32 {
    (op << 26) | (rs << 21) | (rt << 16) | (imm & 0xffff)
}
fn jtype(op: u32, idx: u32) -> u32 {
    (op << 26) | (idx & 0x03ff_ffff)
}

#[derive(Clone, Copy, PartialEq, Debug)]
enum K {
    R3(u32),          // SPECIAL funct, rd rs rt
    Mul,              // SPECIAL2 2
    Shi(u32),         // SPECIAL funct, rd rt sa
    Shv(u32),         // SPECIAL funct, rd rt rs
    Imm(u32),         // opcode, rt rs imm
    Lui,
    Clzo(u32),        // SPECIAL2 funct
    MulDiv(u32, u32), // opcode (0 | 28), funct: rs rt
    MfHiLo(u32),      // funct 16 | 18: rd
    MtHiLo(u32),      // funct 17 | 19: rs
    Load(u32, u32),   // opcode, required alignment
    Store(u32, u32),
    Teq,
    Break,
    Syscall,
    Sync,
    Pref,
    Rdhwr,
    J(u32),           // opcode 2 | 3
    Jr,
    Jalr,
    Br2(u32),         // opcode 4 | 5: rs rt
    Brz(u32, u32),    // opcode, rt field: rs
}

const MIPS_FORMS: &[(&str, K)] = &[
    ("add", K::R3(32)), ("addu", K::R3(33)), ("sub", K::R3(34)), ("subu", K::R3(35)),
    ("and", K::R3(36)), ("or", K::R3(37)), ("xor", K::R3(38)), ("nor", K::R3(39)),
    ("slt", K::R3(42)), ("sltu", K::R3(43)), ("movz", K::R3(10)), ("movn", K::R3(11)),
    ("mul", K::Mul),
    ("sll", K::Shi(0)), ("srl", K::Shi(2)), ("sra", K::Shi(3)),
    ("sllv", K::Shv(4)), ("srlv", K::Shv(6)), ("srav", K::Shv(7)),
    ("addi", K::Imm(8)), ("addiu", K::Imm(9)), ("slti", K::Imm(10)), ("sltiu", K::Imm(11)),
    ("andi", K::Imm(12)), ("ori", K::Imm(13)), ("xori", K::Imm(14)), ("lui", K::Lui),
    ("clz", K::Clzo(32)), ("clo", K::Clzo(33)),
    ("mult", K::MulDiv(0, 24)), ("multu", K::MulDiv(0, 25)), ("div", K::MulDiv(0, 26)), ("divu", K::MulDiv(0, 27)),
    ("madd", K::MulDiv(28, 0)), ("maddu", K::MulDiv(28, 1)), ("msub", K::MulDiv(28, 4)), ("msubu", K::MulDiv(28, 5)),
    ("mfhi", K::MfHiLo(16)), ("mflo", K::MfHiLo(18)), ("mthi", K::MtHiLo(17)), ("mtlo", K::MtHiLo(19)),
    ("lb", K::Load(32, 1)), ("lh", K::Load(33, 2)), ("lwl", K::Load(34, 1)), ("lw", K::Load(35, 4)),
    ("lbu", K::Load(36, 1)), ("lhu", K::Load(37, 2)), ("lwr", K::Load(38, 1)), ("ll", K::Load(48, 4)),
    ("sb", K::Store(40, 1)), ("sh", K::Store(41, 2)), ("swl", K::Store(42, 1)), ("sw", K::Store(43, 4)),
    ("swr", K::Store(46, 1)), ("sc", K::Store(56, 4)),
    ("teq", K::Teq), ("break", K::Break), ("syscall", K::Syscall), ("sync", K::Sync), ("pref", K::Pref), ("rdhwr", K::Rdhwr),
    ("j", K::J(2)), ("jal", K::J(3)), ("jr", K::Jr), ("jalr", K::Jalr),
    ("beq", K::Br2(4)), ("bne", K::Br2(5)),
    ("blez", K::Brz(6, 0)), ("bgtz", K::Brz(7, 0)), ("bltz", K::Brz(1, 0)), ("bgez", K::Brz(1, 1)),
    ("bltzal", K::Brz(1, 16)), ("bgezal", K::Brz(1, 17)),
    // the lwl/lwr/swl/swr and branch forms get extra weight: they carry the endianness / delay-slot logic
    ("lwl", K::Load(34, 1)), ("lwr", K::Load(38, 1)), ("swl", K::Store(42, 1)), ("swr", K::Store(46, 1)),
    ("jal", K::J(3)), ("jalr", K::Jalr), ("jr", K::Jr), ("beq", K::Br2(4)), ("bne", K::Br2(5)),
    ("bltzal", K::Brz(1, 16)), ("bgezal", K::Brz(1, 17)),
];

const IMMS: [u32; 6] = [0, 1, 0xffff, 0x7fff, 0x8000, 0xfffc];
const BOUNDS: [u32; 12] = [
    0, 1, 0x7fff_ffff, 0x8000_0000, 0xffff_ffff, 0xffff_fffe, 0x8000, 0xffff_7fff, 2, 0x8000_0001, 0x7fff_fffe, 0x0001_0000,
];
const PAIRS: [(u32, u32); 20] = [
    (0x7fff_ffff, 1), (0x8000_0000, 0xffff_ffff), (0x7fff_ffff, 0x7fff_ffff), (0x8000_0000, 0x8000_0000),
    (0x4000_0000, 0x4000_0000), (0xc000_0000, 0xbfff_ffff), (0, 0), (0, 0x8000_0000), (0x8000_0000, 1),
    (0xffff_ffff, 0xffff_ffff), (5, 5), (5, 0xffff_fffb), (0xffff_ffff, 1), (1, 0xffff_ffff), (0x7fff_ffff, 0xffff_ffff),
    (0x1234_5678, 0x9abc_def0), (0xffff_ffff, 0x7fff_ffff), (0x8000_0000, 0x7fff_ffff), (3, 7), (0x0001_0000, 0x0001_0000),
];
const SHAMTS: [u32; 10] = [0, 1, 31, 32, 33, 63, 0x20, 0xffff_ffe1, 0x8000_0000, 0x1f];
const EAS: [u32; 8] = [0x2000, 0x2ffc, 0x7fff_eff8, 0xffff_fffc, 0x0000_0004, 0x0000_0000, 0x1000_0ffc, 0x8000_0000];

#[derive(Clone, Default)]
struct Sample {
    regs: Vec<(u32, u32)>,
    hi: u32,
    lo: u32,
    seed: u32,
}
impl Sample {
    fn coq(&self) -> String {
        format!(
            "(mksample {} {} {} {})",
            coq_list(self.regs.iter().map(|(r, v)| format!("({}, {})", r, v)).collect::<Vec<_>>()),
            self.hi, self.lo, self.seed
        )
    }
    fn short(&self) -> String {
        format!(
            "{{{} hi={:#x} lo={:#x} m={}}}",
            self.regs.iter().map(|(r, v)| format!("r{}={:#x}", r, v)).collect::<Vec<_>>().join(","),
            self.hi, self.lo, self.seed
        )
    }
}

fn rnd32(r: &mut Rng) -> u32 {
    match r.below(4) {
        0 => *r.pick(&BOUNDS),
        _ => r.next() as u32,
    }
}

/// register pattern for up to three fields
fn reg_pattern(r: &mut Rng, p: u64, v: u64) -> (u32, u32, u32) {
    let nz = |r: &mut Rng| r.range(1, 30) as u32;
    let (mut a, mut b, mut c) = (nz(r), nz(r), nz(r));
    while b == a { b = nz(r); }
    while c == a || c == b { c = nz(r); }
    match p {
        0 => (a, b, c),
        1 => (0, b, c),
        2 => (a, 0, c),
        3 => (a, b, 0),
        4 => (a, a, c),
        5 => (a, b, a),
        6 => (a, b, b),
        7 => (a, a, a),
        8 => (a, 0, 0),
        9 => (31, b, c),
        10 => (a, 31, c),
        11 => { a = (v % 32) as u32; (a, b, c) }
        12 => { b = (v % 32) as u32; (a, b, c) }
        _ => { c = (v % 32) as u32; (a, b, c) }
    }
}

struct Enc {
    form: String,
    words: Vec<u32>,
    big: bool,
    addr: u64,
    samples: Vec<Sample>,
    tags: Vec<String>,
    text: String,
}

/// effective-address samples for a memory form: base register value so that base + sx(off) = ea
fn mem_samples(r: &mut Rng, v: u64, rt: u32, base: u32, off: u32, align: u32, unaligned: bool, n: usize, store: bool) -> Vec<Sample> {
    let sx = (off as u16 as i16) as i32 as u32;
    let mut out = vec![];
    for j in 0..n {
        let ea0 = if j < 6 { EAS[((v as usize) + j) % EAS.len()] } else { (r.next() as u32) & !3 };
        let k = if align == 1 { (j as u32 + (v as u32)) % 4 } else if unaligned { 1 + ((j as u32) % (align - 1)) * if align == 2 { 1 } else { 1 } } else { 0 };
        let ea = ea0.wrapping_add(k);
        let mut s = Sample { hi: rnd32(r), lo: rnd32(r), seed: r.below(256) as u32, ..Default::default() };
        if base != 0 { s.regs.push((base, ea.wrapping_sub(sx))); }
        if rt != base && rt != 0 { s.regs.push((rt, if store || j % 2 == 0 { rnd32(r) } else { BOUNDS[j % BOUNDS.len()] })); }
        out.push(s);
    }
    out
}

fn src_samples(r: &mut Rng, v: u64, x: u32, y: u32, shamt: bool, n: usize) -> Vec<Sample> {
    let mut out = vec![];
    for j in 0..n {
        let (a, b) = if j < 8 {
            let (a, b) = PAIRS[(v as usize * 8 + j) % PAIRS.len()];
            if shamt { (a, SHAMTS[(v as usize + j) % SHAMTS.len()]) } else { (a, b) }
        } else if j < 10 {
            (BOUNDS[(v as usize + j) % BOUNDS.len()], BOUNDS[(v as usize * 3 + j) % BOUNDS.len()])
        } else {
            (r.next() as u32, r.next() as u32)
        };
        let mut s = Sample { hi: rnd32(r), lo: rnd32(r), seed: r.below(256) as u32, ..Default::default() };
        if x != 0 { s.regs.push((x, a)); }
        if y != 0 && y != x { s.regs.push((y, b)); }
        out.push(s);
    }
    out
}

const SLOT_KINDS: [&str; 11] = ["nop", "write-src", "read-ra", "write-ra", "lw", "sw-ra", "mult", "add-trap", "write-src2", "addu", "lwl"];

/// a delay-slot instruction: (word, kind, registers it reads that deserve boundary values)
fn slot_insn(r: &mut Rng, kind: &str, src1: u32, src2: u32) -> (u32, Vec<u32>, Option<u32>) {
    let t = |r: &mut Rng| r.range(1, 25) as u32;
    match kind {
        "nop" => (0, vec![], None),
        "write-src" => (itype(9, src1, src1, 4), vec![], Some(src1)),      // addiu src1, src1, 4
        "write-src2" => (itype(13, src2, src2, 1), vec![], Some(src2)),    // ori src2, src2, 1
        "read-ra" => (rtype(0, 31, 0, 2, 0, 33), vec![], Some(2)),         // addu $v0, $ra, $zero  (move $v0, $ra)
        "write-ra" => (itype(9, 31, 31, 8), vec![], Some(31)),             // addiu $ra, $ra, 8
        "lw" => { let d = t(r); (itype(35, 29, d, 4), vec![29], Some(d)) } // lw $t, 4($sp)
        "sw-ra" => (itype(43, 29, 31, 0xfffc), vec![29], None),            // sw $ra, -4($sp)
        "mult" => { let (a, b) = (t(r), t(r)); (rtype(0, a, b, 0, 0, 24), vec![a, b], None) }
        "add-trap" => { let (a, b, d) = (t(r), t(r), t(r)); (rtype(0, a, b, d, 0, 32), vec![a, b], Some(d)) }
        "lwl" => { let d = t(r); (itype(34, 29, d, 1), vec![29], Some(d)) } // lwl $t, 1($sp)
        _ => { let (a, b, d) = (t(r), t(r), t(r)); (rtype(0, a, b, d, 0, 33), vec![a, b], Some(d)) }
    }
}

fn mips_case(seed: u64, idx: u64) -> Enc {
    let mut rng = Rng::for_case(seed, idx);
    let r = &mut rng;
    let nf = MIPS_FORMS.len() as u64;
    let (name, k) = MIPS_FORMS[(idx % nf) as usize];
    let v = idx / nf;
    let big = v % 2 == 0;
    let p = v % 14;
    let immi = v % 7;
    let imm: u32 = if immi < 6 { IMMS[immi as usize] } else { r.below(0x10000) as u32 };
    let addr: u64 = if v % 3 == 2 { 0x9000_2000 } else { 0x0040_1000 };
    let (a, b, c) = reg_pattern(r, p, v);
    let ns = 12usize;
    let mut tags = vec![format!("form:{}", name), format!("end:{}", if big { "be" } else { "le" }), format!("regs:p{}", p.min(11))];
    if matches!(k, K::Load(..) | K::Store(..)) && a == b { tags.push("alias:rt=base".into()); }
    if matches!(k, K::R3(_) | K::Mul | K::Shv(_)) && a == b && b == c { tags.push("alias:rd=rs=rt".into()); }
    if matches!(k, K::R3(_) | K::Mul | K::Shv(_)) && (a == b || a == c) { tags.push("alias:rd=src".into()); }
    let mut words;
    let samples;
    let text;
    match k {
        K::R3(f) => {
            words = vec![rtype(0, b, c, a, 0, f)];
            samples = src_samples(r, v, b, c, false, ns);
            text = format!("{} r{}, r{}, r{}", name, a, b, c);
        }
        K::Mul => {
            words = vec![rtype(28, b, c, a, 0, 2)];
            samples = src_samples(r, v, b, c, false, ns);
            text = format!("mul r{}, r{}, r{}", a, b, c);
        }
        K::Shi(f) => {
            let sa = match v % 5 { 0 => 0, 1 => 31, 2 => 1, 3 => 16, _ => r.below(32) as u32 };
            words = vec![rtype(0, 0, b, a, sa, f)];
            samples = src_samples(r, v, b, 0, false, ns);
            text = format!("{} r{}, r{}, {}", name, a, b, sa);
        }
        K::Shv(f) => {
            words = vec![rtype(0, c, b, a, 0, f)];
            samples = src_samples(r, v, b, c, true, ns);
            text = format!("{} r{}, r{}, r{}", name, a, b, c);
        }
        K::Imm(op) => {
            words = vec![itype(op, b, a, imm)];
            samples = src_samples(r, v, b, 0, false, ns)
                .into_iter()
                .enumerate()
                .map(|(j, mut s)| {
                    // overflow boundaries relative to the immediate
                    if j < 4 && b != 0 {
                        let sx = (imm as u16 as i16) as i32;
                        let edge: i64 = if sx >= 0 { 0x7fff_ffff - sx as i64 } else { -0x8000_0000i64 - sx as i64 };
                        let val = (edge + (j as i64 % 3) - 1) as u32;
                        s.regs = vec![(b, val)];
                    }
                    s
                })
                .collect();
            text = format!("{} r{}, r{}, {:#x}", name, a, b, imm);
        }
        K::Lui => {
            words = vec![itype(15, 0, a, imm)];
            samples = src_samples(r, v, 0, 0, false, 3);
            text = format!("lui r{}, {:#x}", a, imm);
        }
        K::Clzo(f) => {
            words = vec![rtype(28, b, a, a, 0, f)];
            samples = (0..ns)
                .map(|j| {
                    let bit = (v as usize * 5 + j * 3) % 33;
                    let base: u32 = if bit == 32 { 0 } else { (1u32 << bit) | ((r.next() as u32) & ((1u32 << bit) - 1).max(0)) };
                    let val = if f == 33 { !base } else { base };
                    Sample { regs: if b != 0 { vec![(b, val)] } else { vec![] }, hi: rnd32(r), lo: rnd32(r), seed: 0 }
                })
                .collect();
            text = format!("{} r{}, r{}", name, a, b);
        }
        K::MulDiv(op, f) => {
            words = vec![rtype(op, b, c, 0, 0, f)];
            let mut s = src_samples(r, v, b, c, false, ns);
            for (j, x) in s.iter_mut().enumerate() {
                if j % 3 == 0 { x.hi = BOUNDS[(v as usize + j) % BOUNDS.len()]; x.lo = BOUNDS[(v as usize * 5 + j) % BOUNDS.len()]; }
            }
            if op == 0 && (f == 26 || f == 27) {
                // div / divu: a case has either only zero divisors (known finding: the IL faults) or none
                let zero_div = c == 0 || v % 4 == 3;
                for x in s.iter_mut() {
                    for e in x.regs.iter_mut() {
                        if e.0 == c { if zero_div { e.1 = 0 } else if e.1 == 0 { e.1 = 1 } }
                    }
                }
                if zero_div { tags.push("div:zero-divisor".into()); }
            }
            samples = s;
            text = format!("{} r{}, r{}", name, b, c);
        }
        K::MfHiLo(f) => {
            words = vec![rtype(0, 0, 0, a, 0, f)];
            samples = src_samples(r, v, 0, 0, false, 6);
            text = format!("{} r{}", name, a);
        }
        K::MtHiLo(f) => {
            words = vec![rtype(0, b, 0, 0, 0, f)];
            samples = src_samples(r, v, b, 0, false, 6);
            text = format!("{} r{}", name, b);
        }
        K::Load(op, align) | K::Store(op, align) => {
            let store = matches!(k, K::Store(..));
            let unaligned = align > 1 && v % 5 == 4;
            let off = if b == 0 { [0u32, 4, 0x7ffc, 0x8000, 0xfffc, 8, 0x10][(v % 7) as usize] + if unaligned { 1 } else { 0 } } else { imm };
            words = vec![itype(op, b, a, off)];
            samples = mem_samples(r, v, a, b, off, align, unaligned, ns, store);
            if unaligned { tags.push("kf:mips-unaligned-access-no-address-error".into()); tags.push("ea:unaligned".into()); }
            text = format!("{} r{}, {:#x}(r{})", name, a, off, b);
        }
        K::Teq => {
            words = vec![rtype(0, b, c, 0, 0, 52) | (((v % 3) as u32 * 0x155) << 6)];
            samples = src_samples(r, v, b, c, false, ns);
            text = format!("teq r{}, r{}", b, c);
        }
        K::Break => { words = vec![13 | (((v as u32 * 77) & 0xfffff) << 6)]; samples = src_samples(r, v, 0, 0, false, 2); text = "break".into(); }
        K::Syscall => { words = vec![12 | (((v as u32 * 33) & 0xfffff) << 6)]; samples = src_samples(r, v, 0, 0, false, 2); text = "syscall".into(); }
        K::Sync => { words = vec![rtype(0, 0, 0, 0, (v % 2) as u32 * 4, 15)]; samples = src_samples(r, v, 0, 0, false, 2); text = "sync".into(); }
        K::Pref => { words = vec![itype(51, b, (v % 32) as u32, imm)]; samples = src_samples(r, v, b, 0, false, 2); text = format!("pref {:#x}(r{})", imm, b); }
        K::Rdhwr => { words = vec![rtype(31, 0, a, 29, 0, 59)]; samples = src_samples(r, v, 0, 0, false, 2); text = format!("rdhwr r{}, $29", a); }
        K::J(_) | K::Jr | K::Jalr | K::Br2(_) | K::Brz(..) => {
            let sk = SLOT_KINDS[(v % SLOT_KINDS.len() as u64) as usize];
            let (bw, s1, s2, btext) = match k {
                K::J(op) => { let t = (r.below(1 << 26)) as u32; (jtype(op, t), 0, 0, format!("{} {:#x}", name, t)) }
                K::Jr => (rtype(0, b, 0, 0, 0, 8), b, 0, format!("jr r{}", b)),
                K::Jalr => {
                    let rd = match v % 4 { 0 | 1 => 31, 2 => a, _ => 0 };
                    (rtype(0, b, 0, rd, 0, 9), b, 0, format!("jalr r{}, r{}", rd, b))
                }
                K::Br2(op) => (itype(op, b, c, imm), b, c, format!("{} r{}, r{}, {:#x}", name, b, c, imm)),
                K::Brz(op, rtf) => (itype(op, b, rtf, imm), b, 0, format!("{} r{}, {:#x}", name, b, imm)),
                _ => unreachable!(),
            };
            let (sw, sreads, swrites) = slot_insn(r, sk, if s1 == 0 { 25 } else { s1 }, if s2 == 0 { 9 } else { s2 });
            // known finding: jr / jalr read their target register after the delay slot has executed
            if matches!(k, K::Jr | K::Jalr) && s1 != 0 && swrites == Some(s1) {
                tags.push("kf:mips-jr-jalr-target-read-after-slot".into());
            }
            words = vec![bw, sw];
            let mut ss = src_samples(r, v, s1, s2, false, ns);
            for (j, s) in ss.iter_mut().enumerate() {
                // make equal / signed-boundary operands frequent for the conditional branches
                if matches!(k, K::Br2(_)) && j % 3 == 0 && s2 != 0 && s1 != s2 && s.regs.len() == 2 { let x = s.regs[0].1; s.regs[1].1 = x; }
                if matches!(k, K::Jr | K::Jalr) && s1 != 0 { s.regs[0].1 &= !3; }
                for q in &sreads {
                    if *q == 29 {
                        if !s.regs.iter().any(|(x, _)| *x == 29) { s.regs.push((29, [0x7fff_eff0u32, 0x2000, 0x1000_0ff8][j % 3])); }
                        // the slot's lw / sw must be word-aligned (unaligned accesses are a class of their own)
                        for e in s.regs.iter_mut() { if e.0 == 29 { e.1 &= !3; } }
                    } else if !s.regs.iter().any(|(x, _)| x == q) {
                        s.regs.push((*q, PAIRS[(j + *q as usize) % PAIRS.len()].0));
                    }
                }
            }
            samples = ss;
            tags.push(format!("slot:{}", sk));
            text = format!("{} ; slot[{}] {:#010x}", btext, sk, sw);
        }
    }
    // canonical reserved fields only; nothing else to do
    let _ = &mut words;
    Enc { form: name.to_string(), words, big, addr, samples, tags, text }
}

// ------------------------------------------------------------------ lifting + dumping
fn seeded_interner(names: &[&str]) -> Interner {
    let mut it = Interner::new();
    for n in names { it.id(n); }
    it
}
const MIPS_NAMES: [&str; 40] = [
    "$zero", "$at", "$v0", "$v1", "$a0", "$a1", "$a2", "$a3", "$t0", "$t1", "$t2", "$t3", "$t4", "$t5", "$t6", "$t7",
    "$s0", "$s1", "$s2", "$s3", "$s4", "$s5", "$s6", "$s7", "$t8", "$t9", "$k0", "$k1", "$gp", "$sp", "$fp", "$ra",
    "$hi", "$lo", "branching_condition",
    "intrinsic:IntegerOverflow", "intrinsic:trap", "intrinsic:break", "intrinsic:syscall", "intrinsic:rdhwr",
];

fn dump_lifted(res: &BlockTranslationResult, it: &mut Interner) -> String {
    let graphs: Vec<String> = res
        .instructions()
        .iter()
        .map(|(a, g)| {
            let before = it.names.len() as u64;
            let s = coq_cfg(g, None, it);
            let after = it.names.len() as u64;
            format!("({}, {}, {})", a, s, coq_list((before..after).map(n_lit).collect::<Vec<_>>()))
        })
        .collect();
    let succs: Vec<String> = res
        .successors()
        .iter()
        .map(|(a, c)| format!("({}, {})", a, coq_opt(c.as_ref().map(|e| coq_expr(e, it)))))
        .collect();
    format!("({}, {})", coq_list(graphs), coq_list(succs))
}

fn il_text(res: &BlockTranslationResult) -> String {
    let mut s = String::new();
    for (a, g) in res.instructions() {
        s.push_str(&format!("[{:#x}:", a));
        for b in g.blocks() {
            s.push_str(&format!(" b{}{{", b.index()));
            for i in b.instructions() { s.push_str(&format!("{}; ", i.operation())); }
            s.push('}');
        }
        for e in g.edges() {
            s.push_str(&format!(" {}->{}{}", e.head(), e.tail(), e.condition().map(|c| format!("?{}", c)).unwrap_or_default()));
        }
        s.push_str("] ");
    }
    s.push_str("succ:");
    for (a, c) in res.successors() {
        s.push_str(&format!(" {:#x}{}", a, c.as_ref().map(|c| format!("?{}", c)).unwrap_or_default()));
    }
    s
}

fn mips_to_case(e: Enc, idx: u64) -> Case {
    let mut bytes = vec![];
    for w in &e.words {
        if e.big { bytes.extend_from_slice(&w.to_be_bytes()); } else { bytes.extend_from_slice(&w.to_le_bytes()); }
    }
    let opts = Options::default();
    let o = if e.big {
        observe(|| mips::Mips::new().translate_block(&bytes, e.addr, &opts))
    } else {
        observe(|| mips::Mipsel::new().translate_block(&bytes, e.addr, &opts))
    };
    let mut it = seeded_interner(&MIPS_NAMES);
    let mut tags = e.tags.clone();
    let (lifted, iltxt, accepted) = match &o {
        Obs::Ok(res) => (format!("(Some {})", dump_lifted(res, &mut it)), il_text(res), true),
        Obs::Err(k) => ("None".to_string(), format!("<lifter error {}>", k), false),
        Obs::Panic => ("None".to_string(), "<lifter panic>".to_string(), false),
    };
    tags.push(format!("lift:{}", o.kind()));
    let words = coq_list(e.words.iter().map(|w| format!("{}", w)).collect::<Vec<_>>());
    let samples = coq_list(e.samples.iter().map(|s| s.coq()).collect::<Vec<_>>());
    let coq = format!("KMips {} {} {} {} {}", coq_bool(e.big), e.addr, words, lifted, samples);
    let descr = format!(
        "#{} mips-{} @{:#x} words=[{}] {} => {} ; samples: {}",
        idx,
        if e.big { "be" } else { "le" },
        e.addr,
        e.words.iter().map(|w| format!("{:#010x}", w)).collect::<Vec<_>>().join(","),
        e.text,
        iltxt,
        e.samples.iter().take(4).map(|s| s.short()).collect::<Vec<_>>().join(" ")
    );
    Case { coq, descr, tags, nontrivial: accepted, key: format!("{}:{:?}:{}:{}", e.form, e.words, e.big, e.addr) }
}


// ------------------------------------------------------------------ PowerPC encodings
fn xform(op: u32, rt: u32, ra: u32, rb: u32, xo: u32, rc: u32) -> u32 {
    (op << 26) | (rt << 21) | (ra << 16) | (rb << 11) | (xo << 1) | rc
}
fn dform(op: u32, rt: u32, ra: u32, d: u32) -> u32 {
    (op << 26) | (rt << 21) | (ra << 16) | (d & 0xffff)
}

#[derive(Clone, Copy, PartialEq, Debug)]
enum P {
    X3(u32),       // opcode 31, xo: rt ra rb (add, subf)
    Addze,
    D(u32),        // addi / addis: rt ra si
    Cmp(u32),      // cmpwi / cmplwi
    Mem(u32),      // lbz lwz lwzu stw stwu
    Stmw,
    Or,
    Mr,
    Ori,
    Nop,
    Rlwinm,
    Slwi,
    Srawi,
    Spr(u32, u32), // xo (467 mtspr | 339 mfspr), spr number
    B(u32),        // lk
    Bc,
    Bclr,
    Blr,
    Bctr,
}
const PPC_FORMS: &[(&str, P)] = &[
    ("add", P::X3(266)), ("subf", P::X3(40)), ("addze", P::Addze), ("addi", P::D(14)), ("addis", P::D(15)),
    ("cmpwi", P::Cmp(11)), ("cmplwi", P::Cmp(10)),
    ("lbz", P::Mem(34)), ("lwz", P::Mem(32)), ("lwzu", P::Mem(33)), ("stw", P::Mem(36)), ("stwu", P::Mem(37)), ("stmw", P::Stmw),
    ("or", P::Or), ("mr", P::Mr), ("ori", P::Ori), ("nop", P::Nop), ("rlwinm", P::Rlwinm), ("slwi", P::Slwi), ("srawi", P::Srawi),
    ("mtlr", P::Spr(467, 8)), ("mtctr", P::Spr(467, 9)), ("mflr", P::Spr(339, 8)), ("mfctr", P::Spr(339, 9)),
    ("b", P::B(0)), ("bl", P::B(1)), ("bc", P::Bc), ("bclr", P::Bclr), ("blr", P::Blr), ("bctr", P::Bctr),
    ("cmpwi", P::Cmp(11)), ("cmplwi", P::Cmp(10)), ("bclr", P::Bclr), ("rlwinm", P::Rlwinm), ("li/lis", P::D(15)),
];

#[derive(Clone, Default)]
struct PSample { regs: Vec<(u32, u32)>, lr: u32, ctr: u32, cr: u32, ca: u32, so: u32, seed: u32 }
impl PSample {
    fn coq(&self) -> String {
        format!("(mkpsample {} {} {} {} {} {} {})",
            coq_list(self.regs.iter().map(|(r, v)| format!("({}, {})", r, v)).collect::<Vec<_>>()),
            self.lr, self.ctr, self.cr, self.ca, self.so, self.seed)
    }
    fn short(&self) -> String {
        format!("{{{} lr={:#x} ctr={:#x} cr={:#x} ca={} so={} m={}}}",
            self.regs.iter().map(|(r, v)| format!("r{}={:#x}", r, v)).collect::<Vec<_>>().join(","),
            self.lr, self.ctr, self.cr, self.ca, self.so, self.seed)
    }
}

struct PEnc { form: String, word: u32, addr: u64, samples: Vec<PSample>, tags: Vec<String>, text: String }

fn ppc_samples(r: &mut Rng, v: u64, x: Option<u32>, y: Option<u32>, n: usize) -> Vec<PSample> {
    (0..n).map(|j| {
        let (a, b) = if j < 8 { PAIRS[(v as usize * 8 + j) % PAIRS.len()] } else if j < 10 {
            (BOUNDS[(v as usize + j) % BOUNDS.len()], BOUNDS[(v as usize * 3 + j) % BOUNDS.len()])
        } else { (r.next() as u32, r.next() as u32) };
        let mut s = PSample {
            lr: if j % 4 == 3 { r.next() as u32 } else { (r.next() as u32) & !3 },
            ctr: [0u32, 1, 2, 0xffff_ffff, 0x8000_0000][(v as usize + j) % 5].wrapping_add(if j >= 5 { r.next() as u32 & !3 } else { 0 }),
            cr: r.next() as u32, ca: (j as u32 + v as u32) % 2, so: ((j / 2) as u32 + v as u32) % 2, seed: r.below(256) as u32, ..Default::default()
        };
        if let Some(x) = x { s.regs.push((x, a)); }
        if let Some(y) = y { if Some(y) != x { s.regs.push((y, b)); } }
        s
    }).collect()
}

fn ppc_case(seed: u64, idx: u64) -> PEnc {
    let mut rng = Rng::for_case(seed ^ 0x5050, idx);
    let r = &mut rng;
    let nf = PPC_FORMS.len() as u64;
    let (name, k) = PPC_FORMS[(idx % nf) as usize];
    let v = idx / nf;
    let p = v % 14;
    let immi = v % 7;
    let imm: u32 = if immi < 6 { IMMS[immi as usize] } else { r.below(0x10000) as u32 };
    let addr: u64 = if v % 3 == 2 { 0x1000_2000 } else { 0x0040_1000 };
    // register patterns: PPC r0 is an ordinary register except as (RA|0)
    let (mut a, mut b, mut c) = reg_pattern(r, p, v);
    if p == 0 && v % 2 == 1 { a = 0; }
    if p == 4 && v % 2 == 1 { b = 31; c = 31; }
    let ns = 10usize;
    let mut imm = imm;
    if matches!(k, P::Mem(_)) && p == 7 { a = 1; b = 1; imm = 0xfff0; }       // stwu r1, -16(r1) and friends: rS = rA / rD = rA
    let mut tags = vec![format!("form:ppc-{}", name), "arch:ppc".to_string(), format!("regs:p{}", p.min(11))];
    if matches!(k, P::Mem(_)) && a == b { tags.push("alias:rt=base".into()); }
    if matches!(k, P::X3(_) | P::Or) && a == b && b == c { tags.push("alias:rd=rs=rt".into()); }
    if matches!(k, P::X3(_) | P::Or | P::D(_) | P::Addze | P::Ori | P::Rlwinm | P::Slwi | P::Srawi) && (a == b) { tags.push("alias:rd=src".into()); }
    let (word, samples, text): (u32, Vec<PSample>, String) = match k {
        P::X3(xo) => (xform(31, a, b, c, xo, 0), ppc_samples(r, v, Some(b), Some(c), ns), format!("{} r{}, r{}, r{}", name, a, b, c)),
        P::Addze => (xform(31, a, b, 0, 202, 0), ppc_samples(r, v, Some(b), None, ns), format!("addze r{}, r{}", a, b)),
        P::D(op) => (dform(op, a, b, imm), ppc_samples(r, v, Some(b), None, ns), format!("{} r{}, r{}, {:#x}", name, a, b, imm)),
        P::Cmp(op) => {
            let bf = (v % 8) as u32;
            let mut s = ppc_samples(r, v, Some(b), None, ns);
            for (j, x) in s.iter_mut().enumerate() {
                // operands equal to / around the immediate
                let sx = if op == 11 { (imm as u16 as i16) as i32 as u32 } else { imm };
                if j < 3 { x.regs = vec![(b, sx.wrapping_add(j as u32).wrapping_sub(1))]; }
            }
            (dform(op, bf << 2, b, imm), s, format!("{} cr{}, r{}, {:#x}", name, bf, b, imm))
        }
        P::Mem(op) => {
            let sx = (imm as u16 as i16) as i32 as u32;
            let s: Vec<PSample> = ppc_samples(r, v, None, None, ns).into_iter().enumerate().map(|(j, mut x)| {
                let ea = EAS[(v as usize + j) % EAS.len()].wrapping_add(if j % 3 == 2 { (j as u32) % 4 } else { 0 });
                x.regs.push((b, ea.wrapping_sub(sx)));
                if a != b { x.regs.push((a, rnd32(r))); }
                x
            }).collect();
            (dform(op, a, b, imm), s, format!("{} r{}, {:#x}(r{})", name, a, imm, b))
        }
        P::Stmw => {
            let rs = [29u32, 31, 25, 30, 20][(v % 5) as usize];
            let sx = (imm as u16 as i16) as i32 as u32;
            let base = if b >= rs { 1 } else { b };
            let s: Vec<PSample> = ppc_samples(r, v, None, None, 6).into_iter().enumerate().map(|(j, mut x)| {
                let ea = EAS[(v as usize + j) % 3] & !3;
                x.regs.push((base, ea.wrapping_sub(sx)));
                for q in rs..32 { x.regs.push((q, rnd32(r))); }
                x
            }).collect();
            (dform(47, rs, base, imm), s, format!("stmw r{}, {:#x}(r{})", rs, imm, base))
        }
        P::Or => (xform(31, b, a, c, 444, 0), ppc_samples(r, v, Some(b), Some(c), ns), format!("or r{}, r{}, r{}", a, b, c)),
        P::Mr => (xform(31, b, a, b, 444, 0), ppc_samples(r, v, Some(b), None, 6), format!("mr r{}, r{}", a, b)),
        P::Ori => (dform(24, b, a, imm), ppc_samples(r, v, Some(b), None, ns), format!("ori r{}, r{}, {:#x}", a, b, imm)),
        P::Nop => (0x6000_0000, ppc_samples(r, v, None, None, 2), "nop".to_string()),
        P::Rlwinm => {
            let sh = [0u32, 1, 2, 31, 16, 8][(v % 6) as usize];
            let (mb, me) = [(0u32, 31u32), (0, 29), (16, 31), (24, 7), (31, 0), (5, 4), (0, 0), (31, 31), (10, 20), (20, 10)][(v % 10) as usize];
            (xform(21, b, a, sh, 0, 0) | (mb << 6) | (me << 1), ppc_samples(r, v, Some(b), None, ns), format!("rlwinm r{}, r{}, {}, {}, {}", a, b, sh, mb, me))
        }
        P::Slwi => {
            let sh = [1u32, 2, 31, 16, 8, 4][(v % 6) as usize];
            (xform(21, b, a, sh, 0, 0) | (0 << 6) | ((31 - sh) << 1), ppc_samples(r, v, Some(b), None, ns), format!("slwi r{}, r{}, {}", a, b, sh))
        }
        P::Srawi => {
            let sh = [0u32, 1, 31, 16, 4, 8][(v % 6) as usize];
            (xform(31, b, a, sh, 824, 0), ppc_samples(r, v, Some(b), None, ns), format!("srawi r{}, r{}, {}", a, b, sh))
        }
        P::Spr(xo, n) => (xform(31, a, n & 31, n >> 5, xo, 0), ppc_samples(r, v, Some(a), None, 6), format!("{} r{}", name, a)),
        P::B(lk) => {
            let li = [1u32, 4, 0x3f_fff0, 0x100, 0xff_ff00][(v % 5) as usize] & 0xff_ffff;
            ((18 << 26) | (li << 2) | lk, ppc_samples(r, v, None, None, 3), format!("{} {:#x}", name, li << 2))
        }
        P::Bc => {
            let bo = [12u32, 4, 16, 18, 20, 8, 0, 12][(v % 8) as usize];
            let bi = [2u32, 10, 0, 1, 30, 2, 5, 2][((v / 8) % 8) as usize];
            let bd = [4u32, 0x10, 0x3ff0][(v % 3) as usize];
            ((16 << 26) | (bo << 21) | (bi << 16) | (bd << 2), ppc_samples(r, v, None, None, ns), format!("bc {}, {}, {:#x}", bo, bi, bd << 2))
        }
        P::Bclr => {
            let bo = [12u32, 4, 16, 18, 8, 0, 10, 2, 13, 5][(v % 10) as usize];
            let bi = [2u32, 10, 0, 1, 30, 6, 5][((v / 10) % 7) as usize];
            (xform(19, bo, bi, 0, 16, 0), ppc_samples(r, v, None, None, ns), format!("bclr {}, {}", bo, bi))
        }
        P::Blr => (xform(19, 20, 0, 0, 16, 0), ppc_samples(r, v, None, None, 4), "blr".to_string()),
        P::Bctr => (xform(19, 20, 0, 0, 528, 0), ppc_samples(r, v, None, None, 4), "bctr".to_string()),
    };
    let _ = c;
    let mut samples = samples;
    if matches!(k, P::Bclr | P::Blr | P::Bctr) {
        // NIA <- LR / CTR with the two low bits cleared: a case has either only word-aligned targets or none
        let low = v % 3 == 2;
        // bclr / blr jump to LR (CTR keeps its boundary values 0, 1, 2: the decrement-and-test forms), bctr to CTR
        for x in samples.iter_mut() {
            if matches!(k, P::Bctr) {
                if low { x.ctr |= 1 + (x.seed & 2); } else { x.ctr &= !3; }
            } else if low { x.lr |= 1 + (x.seed & 2); } else { x.lr &= !3; }
        }
        if low { tags.push("target:low-bits".into()); }
    }
    PEnc { form: name.to_string(), word, addr, samples, tags, text }
}

const PPC_NAMES: [&str; 67] = [
    "r0", "r1", "r2", "r3", "r4", "r5", "r6", "r7", "r8", "r9", "r10", "r11", "r12", "r13", "r14", "r15",
    "r16", "r17", "r18", "r19", "r20", "r21", "r22", "r23", "r24", "r25", "r26", "r27", "r28", "r29", "r30", "r31",
    "lr", "ctr", "carry",
    "cr0-lt", "cr0-gt", "cr0-eq", "cr0-so", "cr1-lt", "cr1-gt", "cr1-eq", "cr1-so", "cr2-lt", "cr2-gt", "cr2-eq", "cr2-so",
    "cr3-lt", "cr3-gt", "cr3-eq", "cr3-so", "cr4-lt", "cr4-gt", "cr4-eq", "cr4-so", "cr5-lt", "cr5-gt", "cr5-eq", "cr5-so",
    "cr6-lt", "cr6-gt", "cr6-eq", "cr6-so", "cr7-lt", "cr7-gt", "cr7-eq", "cr7-so",
];

fn ppc_to_case(e: PEnc, idx: u64) -> Case {
    let bytes = e.word.to_be_bytes().to_vec();
    let opts = Options::default();
    let o = observe(|| ppc::Ppc::new().translate_block(&bytes, e.addr, &opts));
    let mut it = seeded_interner(&PPC_NAMES);
    let mut tags = e.tags.clone();
    let (lifted, iltxt, accepted) = match &o {
        Obs::Ok(res) => (format!("(Some {})", dump_lifted(res, &mut it)), il_text(res), true),
        Obs::Err(k) => ("None".to_string(), format!("<lifter error {}>", k), false),
        Obs::Panic => ("None".to_string(), "<lifter panic>".to_string(), false),
    };
    tags.push(format!("lift:{}", o.kind()));
    let samples = coq_list(e.samples.iter().map(|s| s.coq()).collect::<Vec<_>>());
    let coq = format!("KPpc {} {} {} {}", e.addr, e.word, lifted, samples);
    let descr = format!("#{} ppc @{:#x} word={:#010x} {} => {} ; samples: {}", idx, e.addr, e.word, e.text, iltxt,
        e.samples.iter().take(3).map(|s| s.short()).collect::<Vec<_>>().join(" "));
    Case { coq, descr, tags, nontrivial: accepted, key: format!("ppc:{}:{:#x}:{}", e.form, e.word, e.addr) }
}

// ------------------------------------------------------------------ opcode sweep: what does the lifter accept?
fn mips_sweep() -> Vec<String> {
    let mut acc = vec![];
    let mut opts = Options::default();
    opts.set_unsupported_are_intrinsics(false);
    let mut try_word = |w: u32, what: String| {
        let bytes = w.to_be_bytes().to_vec();
        let mut two = bytes.clone();
        two.extend_from_slice(&[0, 0, 0, 0]);
        let o = observe(|| mips::Mips::new().translate_block(&two, 0x1000, &opts));
        if let Obs::Ok(_) = o { acc.push(what); }
    };
    for op in 0..64u32 {
        if op == 0 || op == 1 || op == 28 || op == 31 { continue; }
        try_word(itype(op, 4, 5, 0x10), format!("op{}", op));
    }
    for f in 0..64u32 { try_word(rtype(0, 4, 5, 6, 0, f), format!("special{}", f)); }
    for f in 0..64u32 { try_word(rtype(0, 4, 0, 0, 0, f), format!("special{}-rs", f)); }
    for f in 0..64u32 { try_word(rtype(0, 0, 0, 6, 0, f), format!("special{}-rd", f)); }
    for f in 0..64u32 { try_word(rtype(0, 4, 5, 0, 0, f), format!("special{}-rsrt", f)); }
    for f in 0..64u32 { try_word(rtype(28, 4, 5, 6, 0, f), format!("special2-{}", f)); }
    for f in 0..64u32 { try_word(rtype(28, 4, 5, 0, 0, f), format!("special2-{}-rsrt", f)); }
    for f in 0..64u32 { try_word(rtype(28, 4, 6, 6, 0, f), format!("special2-{}-rt=rd", f)); }
    for f in 0..64u32 { try_word(rtype(31, 0, 5, 29, 0, f), format!("special3-{}", f)); }
    for rt in 0..32u32 { try_word(itype(1, 4, rt, 0x10), format!("regimm{}", rt)); }
    acc
}

/// Same protocol as fvh::write_cases (shards, TIE_FAIL / ORACLE_FAIL / COUNT, meta.json), but every case is
/// its own `Definition`: one nested list literal of 25 lifted blocks takes Coq ~1 s per case to elaborate
/// (superlinear in the size of a single term), separate definitions take ~15 ms each.
fn write_cases_defs(args: &Args, prop: &str, header: &str, ck: &str, cases: &[Case], shards: usize, extra_meta: serde_json::Value) {
    use std::collections::BTreeMap;
    use std::fmt::Write as _;
    use std::io::Write as _;
    std::fs::create_dir_all(&args.out).unwrap();
    for e in std::fs::read_dir(&args.out).unwrap().flatten() {
        let n = e.file_name().to_string_lossy().to_string();
        if n.starts_with("cases_") { let _ = std::fs::remove_file(e.path()); }
    }
    let per = ((cases.len() + shards - 1) / shards.max(1)).max(1);
    let mut shard_info = vec![];
    for (k, chunk) in cases.chunks(per).enumerate() {
        let mut s = String::new();
        writeln!(s, "(* generated by fvh {} seed={} -- do not edit *)", prop, args.seed).unwrap();
        writeln!(s, "{}", header).unwrap();
        let mut defs = vec![];
        for (j, sub) in chunk.chunks(25).enumerate() {
            for (i, c) in sub.iter().enumerate() {
                writeln!(s, "Definition c{}_{} : case := {}.", j, i, c.coq).unwrap();
            }
            writeln!(s, "Definition r{} := Eval vm_compute in (map {} [{}]).", j, ck,
                (0..sub.len()).map(|i| format!("c{}_{}", j, i)).collect::<Vec<_>>().join("; ")).unwrap();
            defs.push(format!("r{}", j));
        }
        writeln!(s, "Definition all := Eval vm_compute in ({}).", defs.join(" ++ ")).unwrap();
        writeln!(s, "Definition TIE_FAIL := Eval vm_compute in (failing (map fst all)).").unwrap();
        writeln!(s, "Definition ORACLE_FAIL := Eval vm_compute in (failing (map snd all)).").unwrap();
        writeln!(s, "Definition COUNT := Eval vm_compute in (N.of_nat (length all)).").unwrap();
        writeln!(s, "Print TIE_FAIL. Print ORACLE_FAIL. Print COUNT.").unwrap();
        let name = format!("cases_{}.v", k);
        std::fs::File::create(format!("{}/{}", args.out, name)).unwrap().write_all(s.as_bytes()).unwrap();
        shard_info.push(serde_json::json!({"file": name, "offset": k * per, "count": chunk.len()}));
    }
    let mut hist: BTreeMap<String, u64> = BTreeMap::new();
    let mut keys = std::collections::BTreeSet::new();
    for c in cases {
        for t in &c.tags { *hist.entry(t.clone()).or_insert(0) += 1; }
        if c.nontrivial { keys.insert(c.key.clone()); }
    }
    let meta = serde_json::json!({
        "property": prop, "seed": args.seed, "cases": cases.len(), "shards": shard_info,
        "distribution": hist, "distinct_nontrivial": keys.len(),
        "samples": cases.iter().take(3).map(|c| c.descr.clone()).collect::<Vec<_>>(),
        "descr": cases.iter().map(|c| c.descr.clone()).collect::<Vec<_>>(),
        "tags": cases.iter().map(|c| c.tags.clone()).collect::<Vec<_>>(),
        "extra": extra_meta,
    });
    std::fs::write(format!("{}/meta.json", args.out), serde_json::to_string(&meta).unwrap()).unwrap();
}

const HEADER: &str = "From Coq Require Import ZArith List NArith.\nFrom Falcon Require Import Base.Res IL.Const IL.Expr IL.Func Isa.C02Check.\nImport ListNotations.\nLocal Open Scope Z_scope.";

fn main() {
    quiet_panics();
    let args = parse_args();
    let _ = il::const_(0, 1);
    let idxs: Vec<u64> = match args.only { Some(i) => vec![i], None => (0..args.n).collect() };
    // three MIPS cases, then one PowerPC case
    let cases: Vec<Case> = idxs
        .iter()
        .map(|i| if *i % 4 == 3 { ppc_to_case(ppc_case(args.seed, *i / 4), *i) } else { mips_to_case(mips_case(args.seed, (*i / 4) * 3 + *i % 4), *i) })
        .collect();
    let accepted = if args.only.is_none() { mips_sweep() } else { vec![] };
    let mut rejected: std::collections::BTreeMap<String, u64> = Default::default();
    for c in &cases {
        if !c.nontrivial {
            let f = c.tags.iter().find(|t| t.starts_with("form:")).cloned().unwrap_or_default();
            *rejected.entry(f).or_insert(0) += 1;
        }
    }
    write_cases_defs(&args, "C02", HEADER, "ck", &cases, 16, serde_json::json!({"mips_sweep_accepted": accepted, "not_accepted_by_lifter": rejected}));
}
