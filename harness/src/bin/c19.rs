//! C19 harness: writes ELF32/ELF64 files (LE/BE; EM_386, X86_64, MIPS, PPC, AARCH64) from a random
//! description into work/c19/files/, loads them with falcon::loader::Elf at base 0 and at a second base,
//! and dumps architecture, memory().sections(), function_entries, symbols, program_entry.
//! A share of EM_386 cases is a main object + one shared object (DT_NEEDED, R_386_JMP_SLOT/GLOB_DAT/32/
//! RELATIVE relocations) loaded through ElfLinker.
//! The Coq side receives what goblin parsed (the model starts after goblin) plus the observations.
use falcon::loader::{Elf, ElfLinkerBuilder, Loader};
use fvh::*;

const PT_LOAD: u32 = 1;
const PT_DYNAMIC: u32 = 2;
const PT_NOTE: u32 = 4;

#[derive(Clone)]
struct Seg { ptype: u32, flags: u32, vaddr: u64, paddr: u64, filesz: u64, memsz: u64, align: u64, data: Vec<u8>, offset: u64 }
#[derive(Clone)]
struct Sym { name: String, value: u64, size: u64, shndx: u16, bind: u8, typ: u8 }
#[derive(Clone)]
struct Rel { offset: u64, sym: u32, typ: u32 }
#[derive(Clone)]
struct Desc {
    is64: bool, big: bool, machine: u16, etype: u16, entry: u64,
    segs: Vec<Seg>,            // program headers in order; the dynamic blob is the data of segs[dyn_seg]
    syms: Vec<Sym>,            // .symtab (index 0 = null symbol)
    dynsyms: Vec<Sym>,         // .dynsym (index 0 = null symbol); empty = no dynamic section
    pltrels: Vec<Rel>, dynrels: Vec<Rel>,
    needed: Vec<String>,
    dyn_seg: Option<usize>,
    /// MIPS: (DT_MIPS_LOCAL_GOTNO, DT_MIPS_GOTSYM, initial GOT words); DT_MIPS_SYMTABNO = dynsyms.len()
    mips: Option<(u64, u64, Vec<u32>)>,
    /// section headers: 0 = as a linker writes them, 1 = absent (e_shoff = 0), 2 = present with wrong sh_addr and
    /// two garbage PROGBITS/NOBITS headers (the loader must use the program headers)
    sh_mode: u8,
}

struct W { big: bool, is64: bool, b: Vec<u8> }
impl W {
    fn u8(&mut self, v: u8) { self.b.push(v) }
    fn u16(&mut self, v: u16) { if self.big { self.b.extend_from_slice(&v.to_be_bytes()) } else { self.b.extend_from_slice(&v.to_le_bytes()) } }
    fn u32(&mut self, v: u32) { if self.big { self.b.extend_from_slice(&v.to_be_bytes()) } else { self.b.extend_from_slice(&v.to_le_bytes()) } }
    fn u64(&mut self, v: u64) { if self.big { self.b.extend_from_slice(&v.to_be_bytes()) } else { self.b.extend_from_slice(&v.to_le_bytes()) } }
    fn word(&mut self, v: u64) { if self.is64 { self.u64(v) } else { self.u32(v as u32) } }
}

fn strtab(names: &[String]) -> (Vec<u8>, Vec<u32>) {
    let mut t = vec![0u8];
    let mut offs = vec![];
    for n in names {
        if n.is_empty() { offs.push(0); continue; }
        offs.push(t.len() as u32);
        t.extend_from_slice(n.as_bytes());
        t.push(0);
    }
    (t, offs)
}
fn put_sym(w: &mut W, name: u32, s: &Sym) {
    let info = (s.bind << 4) | (s.typ & 0xf);
    if w.is64 { w.u32(name); w.u8(info); w.u8(0); w.u16(s.shndx); w.u64(s.value); w.u64(s.size); }
    else { w.u32(name); w.u32(s.value as u32); w.u32(s.size as u32); w.u8(info); w.u8(0); w.u16(s.shndx); }
}

/// Builds the dynamic blob (.dynsym .dynstr .hash .rel[a].plt .rel[a].dyn .dynamic) for vaddr `va`.
/// Returns (bytes, offset of .dynamic inside the blob, size of .dynamic, offset/size of .dynstr).
fn dyn_blob(d: &Desc, va: u64) -> (Vec<u8>, u64, u64, u64, u64) {
    let mut names: Vec<String> = d.dynsyms.iter().map(|s| s.name.clone()).collect();
    let nsyms = names.len();
    names.extend(d.needed.iter().cloned());
    let (strs, offs) = strtab(&names);
    let mut w = W { big: d.big, is64: d.is64, b: vec![] };
    let symoff = 0u64;
    for (i, s) in d.dynsyms.iter().enumerate() { put_sym(&mut w, offs[i], s); }
    let syment = if d.is64 { 24 } else { 16 };
    let stroff = w.b.len() as u64;
    w.b.extend_from_slice(&strs);
    while w.b.len() % 4 != 0 { w.b.push(0); }
    let hashoff = w.b.len() as u64;
    w.u32(1); w.u32(nsyms as u32); w.u32(0);
    for _ in 0..nsyms { w.u32(0); }
    let rela = d.is64;
    let put_rel = |w: &mut W, r: &Rel| {
        if w.is64 { w.u64(r.offset); w.u64(((r.sym as u64) << 32) | r.typ as u64); if rela { w.u64(r.offset ^ 0x5a5a); } }
        else { w.u32(r.offset as u32); w.u32((r.sym << 8) | (r.typ & 0xff)); }
    };
    let relent: u64 = if d.is64 { 24 } else { 8 };
    let pltoff = w.b.len() as u64;
    for r in &d.pltrels { put_rel(&mut w, r); }
    let reloff = w.b.len() as u64;
    for r in &d.dynrels { put_rel(&mut w, r); }
    while w.b.len() % 4 != 0 { w.b.push(0); }
    let gotoff = w.b.len() as u64;
    if let Some((_, _, got)) = &d.mips { for g in got { w.u32(*g); } }
    let dynoff = w.b.len() as u64;
    let mut dy: Vec<(u64, u64)> = vec![];
    for (k, _) in d.needed.iter().enumerate() { dy.push((1, offs[nsyms + k] as u64)); }
    dy.push((4, va + hashoff));          // DT_HASH
    dy.push((5, va + stroff));           // DT_STRTAB
    dy.push((6, va + symoff));           // DT_SYMTAB
    dy.push((10, strs.len() as u64));    // DT_STRSZ
    dy.push((11, syment));               // DT_SYMENT
    if !d.pltrels.is_empty() {
        dy.push((23, va + pltoff));      // DT_JMPREL
        dy.push((2, d.pltrels.len() as u64 * relent)); // DT_PLTRELSZ
        dy.push((20, if rela { 7 } else { 17 }));      // DT_PLTREL
    }
    if !d.dynrels.is_empty() {
        if rela { dy.push((7, va + reloff)); dy.push((8, d.dynrels.len() as u64 * relent)); dy.push((9, relent)); }
        else { dy.push((17, va + reloff)); dy.push((18, d.dynrels.len() as u64 * relent)); dy.push((19, relent)); }
    }
    if let Some((lg, gs, _)) = &d.mips {
        dy.push((3, va + gotoff));                    // DT_PLTGOT
        dy.push((0x7000_000a, *lg));                  // DT_MIPS_LOCAL_GOTNO
        dy.push((0x7000_0013, *gs));                  // DT_MIPS_GOTSYM
        dy.push((0x7000_0011, nsyms as u64));         // DT_MIPS_SYMTABNO
    }
    dy.push((0, 0));
    for (t, v) in &dy { w.word(*t); w.word(*v); }
    let dynsz = w.b.len() as u64 - dynoff;
    (w.b, dynoff, dynsz, stroff, strs.len() as u64)
}

/// Serialises the description; fills in the segment offsets.
fn write_elf(d: &mut Desc, r: &mut Rng) -> Vec<u8> {
    let (ehsize, phent, shent) = if d.is64 { (64u64, 56u64, 64u64) } else { (52, 32, 40) };
    // dynamic blob into its segment
    let mut dyninfo = None;
    if let Some(k) = d.dyn_seg {
        let va = d.segs[k].vaddr;
        let (blob, dynoff, dynsz, stroff, strsz) = dyn_blob(d, va);
        let extra = d.segs[k].data.clone();
        let mut data = blob.clone();
        data.extend_from_slice(&extra);
        d.segs[k].filesz = data.len() as u64;
        d.segs[k].memsz = d.segs[k].memsz.max(data.len() as u64) + if d.segs[k].memsz > 0 { d.segs[k].memsz % 7 } else { 0 };
        d.segs[k].data = data;
        dyninfo = Some((k, dynoff, dynsz, stroff, strsz, blob.len() as u64));
    }
    let has_dyn_ph = dyninfo.is_some();
    let phnum = d.segs.len() as u64 + if has_dyn_ph { 1 } else { 0 };
    let mut off = ehsize + phent * phnum;
    // file data of the segments
    let mut body: Vec<u8> = vec![];
    let body_base = off;
    for s in d.segs.iter_mut() {
        let pad = r.below(9);
        for _ in 0..pad { body.push(0xcc); }
        off += pad;
        s.offset = off;
        body.extend_from_slice(&s.data[..(s.filesz as usize).min(s.data.len())]);
        off += s.filesz;
    }
    // .symtab / .strtab / .shstrtab
    let names: Vec<String> = d.syms.iter().map(|s| s.name.clone()).collect();
    let (strs, offs) = strtab(&names);
    let mut sw = W { big: d.big, is64: d.is64, b: vec![] };
    for (i, s) in d.syms.iter().enumerate() { put_sym(&mut sw, offs[i], s); }
    let symtab_off = off; let symtab_sz = sw.b.len() as u64; off += symtab_sz;
    let strtab_off = off; off += strs.len() as u64;
    let shnames: Vec<String> = vec![".symtab".into(), ".strtab".into(), ".shstrtab".into(), ".dynstr".into(), ".dynsym".into()];
    let (shstr, shoffs) = strtab(&shnames);
    let shstr_off = off; off += shstr.len() as u64;
    let shoff = off;
    // section headers: null, .symtab, .strtab, .shstrtab, [.dynstr, .dynsym]
    let mut sh = W { big: d.big, is64: d.is64, b: vec![] };
    let put_sh = |w: &mut W, name: u32, typ: u32, addr: u64, offset: u64, size: u64, link: u32, entsize: u64| {
        if w.is64 { w.u32(name); w.u32(typ); w.u64(0); w.u64(addr); w.u64(offset); w.u64(size); w.u32(link); w.u32(0); w.u64(1); w.u64(entsize); }
        else { w.u32(name); w.u32(typ); w.u32(0); w.u32(addr as u32); w.u32(offset as u32); w.u32(size as u32); w.u32(link); w.u32(0); w.u32(1); w.u32(entsize as u32); }
    };
    let syment = if d.is64 { 24 } else { 16 };
    put_sh(&mut sh, 0, 0, 0, 0, 0, 0, 0);
    put_sh(&mut sh, shoffs[0], 2, 0, symtab_off, symtab_sz, 2, syment);
    put_sh(&mut sh, shoffs[1], 3, 0, strtab_off, strs.len() as u64, 0, 0);
    put_sh(&mut sh, shoffs[2], 3, 0, shstr_off, shstr.len() as u64, 0, 0);
    let mut shnum = 4u16;
    // sh_mode 2: sh_addr of .dynstr/.dynsym is NOT the address the program headers give
    let bogus = if d.sh_mode == 2 { 0x0123_0000u64 } else { 0 };
    if let Some((k, _, _, stroff, strsz, _)) = dyninfo {
        let s = &d.segs[k];
        put_sh(&mut sh, shoffs[3], 3, (s.vaddr + stroff) ^ bogus, s.offset + stroff, strsz, 0, 0);
        put_sh(&mut sh, shoffs[4], 11, s.vaddr ^ bogus, s.offset, d.dynsyms.len() as u64 * syment, 4, syment);
        shnum = 6;
    }
    if d.sh_mode == 2 {
        // garbage: a PROGBITS section claiming a loaded address with a file range far outside the file, a NOBITS nowhere
        let v0 = d.segs.iter().find(|s| s.ptype == PT_LOAD).map(|s| s.vaddr).unwrap_or(0x1000);
        put_sh(&mut sh, shoffs[0], 1, v0 + 0x55, 0x7fff_ff00, 0x1000, 0, 0);
        put_sh(&mut sh, shoffs[1], 8, 0x9999_0000, 0, 0x4000, 0, 0);
        shnum += 2;
    }
    // header
    let mut w = W { big: d.big, is64: d.is64, b: vec![] };
    w.b.extend_from_slice(&[0x7f, b'E', b'L', b'F', if d.is64 { 2 } else { 1 }, if d.big { 2 } else { 1 }, 1, 0, 0, 0, 0, 0, 0, 0, 0, 0]);
    w.u16(d.etype); w.u16(d.machine); w.u32(1);
    let (shoff, shnum, shstrndx) = if d.sh_mode == 1 { (0, 0, 0) } else { (shoff, shnum, 3) };
    w.word(d.entry); w.word(ehsize); w.word(shoff);
    w.u32(0); w.u16(ehsize as u16); w.u16(phent as u16); w.u16(phnum as u16); w.u16(shent as u16); w.u16(shnum); w.u16(shstrndx);
    let put_ph = |w: &mut W, t: u32, fl: u32, o: u64, va: u64, pa: u64, fs: u64, ms: u64, al: u64| {
        if w.is64 { w.u32(t); w.u32(fl); w.u64(o); w.u64(va); w.u64(pa); w.u64(fs); w.u64(ms); w.u64(al); }
        else { w.u32(t); w.u32(o as u32); w.u32(va as u32); w.u32(pa as u32); w.u32(fs as u32); w.u32(ms as u32); w.u32(fl); w.u32(al as u32); }
    };
    for s in &d.segs { put_ph(&mut w, s.ptype, s.flags, s.offset, s.vaddr, s.paddr, s.filesz, s.memsz, s.align); }
    if let Some((k, dynoff, dynsz, _, _, _)) = dyninfo {
        let s = &d.segs[k];
        put_ph(&mut w, PT_DYNAMIC, 6, s.offset + dynoff, s.vaddr + dynoff, s.paddr.wrapping_add(dynoff), dynsz, dynsz, 4);
    }
    assert_eq!(w.b.len() as u64, body_base);
    w.b.extend_from_slice(&body);
    w.b.extend_from_slice(&sw.b);
    w.b.extend_from_slice(&strs);
    w.b.extend_from_slice(&shstr);
    w.b.extend_from_slice(&sh.b);
    w.b
}

fn rand_name(r: &mut Rng, pool: &[&str]) -> String {
    if r.chance(2, 3) { (*r.pick(pool)).to_string() } else { format!("{}{}", r.pick(pool), r.below(4)) }
}

/// random single object; `lib` = it exports function symbols (shared object)
fn gen_desc(r: &mut Rng, force: Option<(u16, bool, bool)>) -> Desc {
    let force386 = force.is_some();
    let (machine, is64, big): (u16, bool, bool) = if let Some(f) = force { f } else {
        match r.below(20) {
            0..=3 => (3, false, false),
            4..=6 => (62, true, false),
            7..=8 => (8, false, true),
            9..=10 => (8, false, false),
            11..=12 => (20, false, true),
            13..=14 => (183, true, false),
            15 => (183, true, true),
            16 => (20, false, false),     // PPC little endian: refused
            17 => (40, false, false),     // EM_ARM: unsupported
            18 => (243, true, false),     // EM_RISCV: unsupported
            _ => (3, false, false),
        }
    };
    let vbase: u64 = *r.pick(&[0x1000u64, 0x8048000, 0x400000, 0x10000, 0]);
    let nseg = r.range(1, 4) as usize;
    let mut segs = vec![];
    let mut va = vbase + r.below(64);
    let overlap = r.chance(1, 16);
    for _ in 0..nseg {
        let filesz = match r.below(6) { 0 => 0, 1 => r.range(1, 8), _ => r.range(8, 96) };
        let memsz = match r.below(4) { 0 => filesz, _ => filesz + r.range(1, 64) };
        let flags = if r.chance(1, 6) { (r.below(8) as u32) | 0x0070_0000 } else { r.below(8) as u32 };
        let ptype = if r.chance(1, 8) { PT_NOTE } else { PT_LOAD };
        let data: Vec<u8> = (0..filesz).map(|_| r.range(1, 255) as u8).collect();
        // p_paddr is unrelated to p_vaddr: equal, 0, shifted, or (below) another segment's p_vaddr
        let paddr = match r.below(5) { 0 => va, 1 => 0, 2 => va + 0x10_0000, 3 => va.wrapping_sub(r.range(1, 0x40)), _ => r.below(0x7fff_0000) };
        segs.push(Seg { ptype, flags, vaddr: va, paddr, filesz, memsz, align: *r.pick(&[1u64, 4, 0x1000, 3, 0, 7, 0x10001, 5]), data, offset: 0 });
        if overlap && r.chance(1, 2) { va += memsz / 2; } else { va += memsz + match r.below(4) { 0 => 0, 1 => 1, _ => r.range(2, 0x300) }; }
    }
    if segs.len() >= 2 && r.chance(1, 3) { let v = segs[1].vaddr; segs[0].paddr = v; }
    let loads: Vec<(u64, u64)> = segs.iter().filter(|s| s.ptype == PT_LOAD).map(|s| (s.vaddr, s.memsz)).collect();
    let addr_in = |r: &mut Rng| -> u64 {
        if loads.is_empty() || r.chance(1, 8) { vbase + r.below(0x400) } else { let (a, m) = *r.pick(&loads); a + r.below(m.max(1)) }
    };
    let entry = match r.below(8) { 0 => 0, _ => addr_in(r) };
    let pool = ["main", "foo", "bar", "init", "_start", "baz", "qux", "memcpy", "puts", "data_obj"];
    let gen_syms = |r: &mut Rng, n: usize, entry: u64, addr_in: &dyn Fn(&mut Rng) -> u64| -> Vec<Sym> {
        let mut v = vec![Sym { name: String::new(), value: 0, size: 0, shndx: 0, bind: 0, typ: 0 }];
        for _ in 0..n {
            let typ = *r.pick(&[2u8, 2, 2, 1, 0, 3, 2]);
            let undefined = r.chance(1, 5);
            let value = if undefined && r.chance(2, 3) { 0 } else if r.chance(1, 8) { entry } else { addr_in(r) };
            let shndx = if undefined { 0 } else if r.chance(1, 6) { *r.pick(&[0xfff1u16, 0xfff2, 0xffff, 0xff00]) } else { r.range(1, 5) as u16 };
            // st_size is unrelated to st_value (sometimes another address, sometimes the value itself)
            let size = match r.below(4) { 0 => 0, 1 => value, 2 => addr_in(r), _ => r.below(0x100) };
            v.push(Sym { name: rand_name(r, &pool), value, size, shndx, bind: *r.pick(&[1u8, 1, 0, 2]), typ });
        }
        v
    };
    let syms = if r.chance(1, 6) { vec![] } else { let n = r.range(0, 6) as usize; gen_syms(r, n, entry, &addr_in) };
    let mut d = Desc { is64, big, machine, etype: if r.chance(1, 2) { 2 } else { 3 }, entry, segs, syms, dynsyms: vec![], pltrels: vec![], dynrels: vec![], needed: vec![], dyn_seg: None, mips: None, sh_mode: if force386 { 0 } else { *r.pick(&[0u8, 0, 0, 1, 2, 2]) } };
    if r.chance(3, 5) || force386 {
        // dynamic section inside a dedicated RW PT_LOAD segment placed first
        let n = r.range(1, 6) as usize;
        d.dynsyms = gen_syms(r, n, entry, &addr_in);
        let dva = va + 0x100 + r.below(0x100);
        let extra: Vec<u8> = (0..r.range(8, 40)).map(|_| r.range(1, 255) as u8).collect();
        let nds = d.dynsyms.len() as u64;
        if !force386 {
            let nplt = r.below(4);
            for _ in 0..nplt {
                d.pltrels.push(Rel { offset: addr_in(r), sym: r.range(if nds > 1 { 1 } else { 0 }, nds - 1) as u32, typ: 7 });
            }
        }
        d.segs.insert(0, Seg { ptype: PT_LOAD, flags: 6, vaddr: dva, paddr: if r.chance(1, 2) { dva } else { r.below(0x7fff_0000) }, filesz: 0, memsz: r.below(48), align: 4, data: extra, offset: 0 });
        d.dyn_seg = Some(0);
    }
    d
}

fn hex(d: &[u8]) -> String { d.iter().map(|b| format!("{:02x}", b)).collect() }
fn coq_str(s: &str) -> String { format!("\"{}\"", s.replace('"', "\"\"")) }

struct Dump { coq: String, txt: String }

/// what goblin parsed (the inputs of the model)
fn parsed_view(e: &Elf, bytes: &[u8], users: &[u64]) -> String {
    let g = e.elf();
    let phs: Vec<String> = g.program_headers.iter().map(|p| format!("mkph {} {} {} {} {} {}", p.p_type, p.p_flags, p.p_offset, p.p_vaddr, p.p_filesz, p.p_memsz)).collect();
    let sy = |s: &[(String, u64, usize, u8)]| coq_list(s.iter().map(|(n, v, sh, i)| format!("mksym {} {} {} {}", coq_str(n), v, sh, i)));
    let dynsyms: Vec<(String, u64, usize, u8)> = g.dynsyms.iter().map(|s| (g.dynstrtab.get_at(s.st_name).unwrap_or("?").to_string(), s.st_value, s.st_shndx, s.st_info)).collect();
    let syms: Vec<(String, u64, usize, u8)> = g.syms.iter().map(|s| (g.strtab.get_at(s.st_name).unwrap_or("?").to_string(), s.st_value, s.st_shndx, s.st_info)).collect();
    let plt: Vec<String> = g.pltrelocs.iter().map(|r| format!("mkrel {} {} {}", r.r_offset, r.r_sym, r.r_type)).collect();
    format!("(mkelf {} {} {} {} \"{}\" {} {} {} {})", g.header.e_machine, coq_bool(!g.little_endian), g.header.e_entry,
        coq_list(phs), hex(bytes), sy(&dynsyms), sy(&syms), coq_list(plt), coq_list(users.iter().map(|u| u.to_string())))
}

fn dump_loader(l: &dyn Loader) -> Dump {
    let arch = format!("{}", l.architecture().name());
    let big = matches!(l.architecture().endian(), falcon::architecture::Endian::Big);
    let mem = observe(|| l.memory());
    let mem_coq = mem.coq(|m| coq_list(m.sections().iter().map(|(a, s)| format!("({}, \"{}\", {})", a, hex(s.data()), s.permissions().bits()))));
    let fes = observe(|| l.function_entries());
    let fe_coq = fes.coq(|v| coq_list(v.iter().map(|f| format!("({}, {})", f.address(), coq_opt(f.name().map(coq_str))))));
    let syms = observe_plain(|| l.symbols());
    let sy_coq = match &syms { Some(v) => format!("(Ok {})", coq_list(v.iter().map(|s| format!("({}, {})", s.address(), coq_str(s.name()))))), None => "Panic".into() };
    let pe = observe_plain(|| l.program_entry());
    let pe_coq = match pe { Some(v) => format!("(Ok {})", v), None => "Panic".into() };
    let mem_txt = match &mem { Obs::Ok(m) => m.sections().iter().map(|(a, s)| format!("0x{:x}+{}:p{}", a, s.len(), s.permissions().bits())).collect::<Vec<_>>().join(" "), o => o.kind() };
    let fe_txt = match &fes { Obs::Ok(v) => v.iter().map(|f| format!("0x{:x}{}", f.address(), f.name().map(|n| format!("={}", n)).unwrap_or_default())).collect::<Vec<_>>().join(" "), o => o.kind() };
    let sy_txt = match &syms { Some(v) => v.iter().map(|s| format!("0x{:x}={}", s.address(), s.name())).collect::<Vec<_>>().join(" "), None => "panic".into() };
    Dump {
        coq: format!("(mkobs {} {} {} {} {} {})", coq_str(&arch), coq_bool(big), mem_coq, fe_coq, sy_coq, pe_coq),
        txt: format!("arch {} sections [{}] entries [{}] symbols [{}] program_entry {:?}", arch, mem_txt, fe_txt, sy_txt, pe.map(|v| format!("0x{:x}", v))),
    }
}

fn gen_case(seed: u64, idx: u64, dir: &str) -> Case {
    let mut r = Rng::for_case(seed, idx);
    let r = &mut r;
    let link_kind = match r.below(10) { 0 => 1, 1 => 2, _ => 0 };   // 0 single object, 1 x86 link, 2 MIPS link
    let linked = link_kind != 0;
    let base: u64 = match r.below(8) { 0 => 0, 1 | 2 => 0x1000, 3 | 4 => 0x4000_0000, _ => (r.below(0x7fff_0000) & !0xf) + r.below(2) };
    let mut tags: Vec<String> = vec![];
    if !linked {
        let mut d = gen_desc(r, None);
        let bytes = write_elf(&mut d, r);
        let path = format!("{}/case_{}.elf", dir, idx);
        std::fs::write(&path, &bytes).unwrap();
        let users: Vec<u64> = (0..r.below(3)).map(|_| if r.chance(1, 2) { d.entry } else { d.segs[0].vaddr + r.below(64) }).collect();
        tags.push(format!("machine:{}", d.machine));
        tags.push(format!("class:{}{}", if d.is64 { 64 } else { 32 }, if d.big { "be" } else { "le" }));
        tags.push(format!("base:{}", match base { 0 => "0", 0x1000 => "0x1000", 0x4000_0000 => "0x40000000", _ => "random" }));
        tags.push(format!("loads:{}", d.segs.iter().filter(|s| s.ptype == PT_LOAD).count()));
        if d.dyn_seg.is_some() { tags.push("has:dynamic".into()); }
        if !d.pltrels.is_empty() { tags.push("has:pltrelocs".into()); }
        if d.segs.iter().any(|s| s.ptype == PT_LOAD && s.filesz < s.memsz) { tags.push("has:zero-fill".into()); }
        if d.segs.iter().any(|s| s.ptype == PT_LOAD && s.paddr != s.vaddr) { tags.push("has:paddr-ne-vaddr".into()); }
        if d.segs.iter().any(|s| s.ptype == PT_LOAD && s.filesz == 0 && s.memsz > 0) { tags.push("has:pure-bss".into()); }
        tags.push(format!("shdrs:{}", ["normal", "absent", "garbage"][d.sh_mode as usize]));
        let load = |b: u64| -> Result<Elf, falcon::Error> {
            let mut e = Elf::from_file_with_base_address(&path, b)?;
            for u in &users { e.add_user_function(*u); }
            Ok(e)
        };
        let (e0, eb) = (observe(|| load(0)), observe(|| load(base)));
        let (coq, txt, ok) = match (&e0, &eb) {
            (Obs::Ok(e0), Obs::Ok(eb)) => {
                let (d0, db) = (dump_loader(e0), dump_loader(eb));
                (format!("KOne {} {} (Ok ({}, {}))", parsed_view(e0, &bytes, &users), base, d0.coq, db.coq),
                 format!("base 0: {} | base 0x{:x}: {}", d0.txt, base, db.txt), true)
            }
            (a, _) => {
                // refused by Elf::new: the header fields are all the model needs
                let kind = match a { Obs::Err(k) => format!("(Err {})", k), Obs::Panic => "Panic".to_string(), _ => "(Err EOther)".to_string() };
                (format!("KOne (mkelf {} {} {} [] \"\" [] [] [] []) {} {}", d.machine, coq_bool(d.big), d.entry, base, kind), format!("Elf::new => {}", a.kind()), false)
            }
        };
        tags.push(format!("load:{}", if ok { "ok" } else { "refused" }));
        let _ = std::fs::remove_file(&path);
        let descr = format!("ELF{} {} machine {} entry 0x{:x} phdrs [{}] dynsyms {} syms {} pltrelocs {} users {:?}; {}",
            if d.is64 { 64 } else { 32 }, if d.big { "BE" } else { "LE" }, d.machine, d.entry,
            d.segs.iter().map(|s| format!("t{} va0x{:x} off0x{:x} fsz{} msz{} fl{:x}", s.ptype, s.vaddr, s.offset, s.filesz, s.memsz, s.flags)).collect::<Vec<_>>().join("; "),
            d.dynsyms.len(), d.syms.len(), d.pltrels.len(), users, txt);
        Case { coq: coq.clone(), descr, tags, nontrivial: ok && base != 0, key: coq }
    } else if link_kind == 1 {
        // main object + one shared object through ElfLinker, x86 relocations
        let sub = format!("{}/link_{}", dir, idx);
        std::fs::create_dir_all(&sub).unwrap();
        // one or two libraries (DT_NEEDED order libx.so, liby.so; bases 0x42000000, 0x44000000), exporting f*/h*
        let nlibs = if r.chance(1, 3) { 2 } else { 1 };
        // just_interpreter: only the PT_INTERP object (/ld.so, at 0x40000000) is loaded; the DT_NEEDED library does not even exist
        let interp = nlibs == 1 && r.chance(1, 3);
        let names = if interp { ["ld.so", ""] } else { ["libx.so", "liby.so"] };
        let pref = ["f", "h"];
        let mut libs: Vec<(Desc, Vec<u8>)> = vec![];
        let mut wanted: Vec<String> = vec![];
        for li in 0..nlibs {
            let mut lib = gen_desc(r, Some((3, false, false)));
            lib.etype = 3;
            let nexp = r.range(1, 3);
            let (lva, lms) = lib.segs.iter().filter(|s| s.ptype == PT_LOAD).map(|s| (s.vaddr, s.memsz)).last().unwrap();
            lib.dynsyms = vec![Sym { name: String::new(), value: 0, size: 0, shndx: 0, bind: 0, typ: 0 }];
            for k in 0..nexp {
                // the second library sometimes also defines f0: the first definition (libx.so) must win
                let nm = if li == 1 && k == 0 && r.chance(1, 3) { "f0".to_string() } else { format!("{}{}", pref[li], k) };
                lib.dynsyms.push(Sym { name: nm.clone(), value: lva + r.below(lms.max(1)).max(1), size: 0, shndx: 1, bind: 1, typ: 2 });
                if !wanted.contains(&nm) { wanted.push(nm); }
            }
            lib.pltrels.clear(); lib.dynrels.clear(); lib.needed.clear();
            let bytes = write_elf(&mut lib, r);
            std::fs::write(format!("{}/{}", sub, names[li]), &bytes).unwrap();
            libs.push((lib, bytes));
        }
        let nexp = wanted.len() as u64;
        let mut main = gen_desc(r, Some((3, false, false)));
        main.etype = 2;
        main.needed = if interp { vec!["libx.so".to_string()] } else { names[..nlibs].iter().map(|s| s.to_string()).collect() };
        if interp { main.segs.push(Seg { ptype: 3, flags: 4, vaddr: 0, paddr: 0, filesz: 7, memsz: 7, align: 1, data: b"/ld.so\0".to_vec(), offset: 0 }); }
        main.dynsyms = vec![Sym { name: String::new(), value: 0, size: 0, shndx: 0, bind: 0, typ: 0 }];
        for nm in &wanted { main.dynsyms.push(Sym { name: nm.clone(), value: 0, size: 0, shndx: 0, bind: 1, typ: 2 }); }
        // a GOT: one 4-byte slot per relocation at the end of the dynamic segment's extra data
        let nrel = r.range(1, 4);
        main.segs[0].data = vec![0x11; (nrel * 4 + 8) as usize];
        let blob_len = dyn_blob(&main, main.segs[0].vaddr).0.len() as u64;
        // the blob length does not depend on relocation offsets, only on their number: fix the number first
        main.pltrels = (0..nrel).map(|k| Rel { offset: 0, sym: 1 + (k % nexp) as u32, typ: 7 }).collect();
        let blob_len2 = dyn_blob(&main, main.segs[0].vaddr).0.len() as u64;
        let _ = blob_len;
        for (k, rel) in main.pltrels.iter_mut().enumerate() { rel.offset = main.segs[0].vaddr + blob_len2 + 4 * k as u64; rel.typ = *r.pick(&[7u32, 7, 6, 1]); }
        // GLOB_DAT / R_386_32 relocations belong to .rel.dyn
        let (plt, dynr): (Vec<Rel>, Vec<Rel>) = main.pltrels.iter().cloned().partition(|x| x.typ == 7);
        let _ = (plt, dynr);
        let main_bytes = write_elf(&mut main, r);
        let mpath = format!("{}/main", sub);
        std::fs::write(&mpath, &main_bytes).unwrap();
        tags.push(if interp { "linked:x86-just-interpreter".to_string() } else { format!("linked:x86-{}lib", nlibs) });
        let lk = observe(|| ElfLinkerBuilder::new(mpath.clone().into()).just_interpreter(interp).ld_paths(Some(vec![sub.clone()])).link());
        let (coq, txt) = match &lk {
            Obs::Ok(l) => {
                let dl = dump_loader(l);
                let m = Elf::from_file_with_base_address(&mpath, 0).unwrap();
                let dyr = |e: &Elf| coq_list(e.elf().dynrels.iter().map(|r| format!("mkrel {} {} {}", r.r_offset, r.r_sym, r.r_type)));
                let lp: Vec<(String, String)> = (0..nlibs).map(|li| {
                    let lb = Elf::from_file_with_base_address(format!("{}/{}", sub, names[li]), if interp { 0x4000_0000 } else { 0x4200_0000 + 0x0200_0000 * li as u64 }).unwrap();
                    (parsed_view(&lb, &libs[li].1, &[]), dyr(&lb))
                }).collect();
                let lv: Vec<String> = lp.iter().map(|(a, b)| format!("({}, {})", a, b)).collect();
                if interp { (format!("KLinkI {} {} {} (Ok {})", parsed_view(&m, &main_bytes, &[]), dyr(&m), format!("{} {}", lp[0].0, lp[0].1), dl.coq), dl.txt) }
                else { (format!("KLinkN {} {} {} (Ok {})", parsed_view(&m, &main_bytes, &[]), dyr(&m), coq_list(lv), dl.coq), dl.txt) }
            }
            o => (format!("KLinkN (mkelf 3 false 0 [] \"\" [] [] [] []) [] [] {}", match o { Obs::Err(k) => format!("(Err {})", k), _ => "Panic".into() }), format!("link => {}", o.kind())),
        };
        tags.push(format!("link:{}", lk.kind()));
        let _ = std::fs::remove_dir_all(&sub);
        let descr = format!("ElfLinker main(needed {} libraries, relocs [{}]) + exports [{}] at 0x42000000, 0x44000000; {}", nlibs,
            main.pltrels.iter().map(|x| format!("t{} off0x{:x} sym{}", x.typ, x.offset, x.sym)).collect::<Vec<_>>().join("; "),
            libs.iter().map(|(l, _)| l.dynsyms.iter().skip(1).map(|s| format!("{}=0x{:x}", s.name, s.value)).collect::<Vec<_>>().join(" ")).collect::<Vec<_>>().join(" | "), txt);
        Case { coq: coq.clone(), descr, tags, nontrivial: true, key: coq }
    } else {
        // MIPS main + one shared object through ElfLinker (relocations_mips): GOT with local and global entries,
        // R_MIPS_REL32 relocations
        let sub = format!("{}/mlink_{}", dir, idx);
        std::fs::create_dir_all(&sub).unwrap();
        let big = r.chance(1, 2);
        let null = Sym { name: String::new(), value: 0, size: 0, shndx: 0, bind: 0, typ: 0 };
        let word = |r: &mut Rng| -> u32 { r.below(0x1000) as u32 };
        // ---- library: local symbol(s), exported functions f0.., optionally an undefined reference to main's g0
        let mut lib = gen_desc(r, Some((8, false, big)));
        lib.etype = 3;
        let nexp = r.range(1, 3);
        let (lva, lms) = lib.segs.iter().filter(|s| s.ptype == PT_LOAD).map(|s| (s.vaddr, s.memsz)).last().unwrap();
        let nloc = r.below(2);
        lib.dynsyms = vec![null.clone()];
        for k in 0..nloc { lib.dynsyms.push(Sym { name: format!("loc{}", k), value: lva + r.below(lms.max(1)).max(1), size: r.below(64), shndx: 1, bind: 0, typ: 2 }); }
        let lgs = lib.dynsyms.len() as u64;
        for k in 0..nexp { lib.dynsyms.push(Sym { name: format!("f{}", k), value: lva + r.below(lms.max(1)).max(1), size: r.below(64), shndx: 1, bind: 1, typ: 2 }); }
        let lib_uses_g0 = r.chance(1, 2);
        if lib_uses_g0 { lib.dynsyms.push(Sym { name: "g0".into(), value: 0, size: 0, shndx: 0, bind: 1, typ: 2 }); }
        let llg = r.range(2, 4);
        let mut lgot: Vec<u32> = (0..llg).map(|_| word(r)).collect();
        for s in lib.dynsyms.iter().skip(lgs as usize) { lgot.push(if s.shndx == 0 { 0 } else { s.value as u32 }); }
        lib.mips = Some((llg, lgs, lgot));
        lib.pltrels.clear(); lib.needed.clear();
        let nlrel = r.below(3);
        lib.dynrels = (0..nlrel).map(|_| Rel { offset: 0, sym: 0, typ: 3 }).collect();
        lib.segs[0].data = (0..(nlrel * 4 + 8)).map(|_| 0u8).collect();
        let lblob = dyn_blob(&lib, lib.segs[0].vaddr).0.len() as u64;
        for (k, rel) in lib.dynrels.iter_mut().enumerate() { rel.offset = lib.segs[0].vaddr + lblob + 4 * k as u64; }
        let lib_bytes = write_elf(&mut lib, r);
        std::fs::write(format!("{}/libx.so", sub), &lib_bytes).unwrap();
        // ---- main: defines g0, references f0..
        let mut main = gen_desc(r, Some((8, false, big)));
        main.etype = 2;
        main.needed = vec!["libx.so".into()];
        let (mva, mms) = main.segs.iter().filter(|s| s.ptype == PT_LOAD).map(|s| (s.vaddr, s.memsz)).last().unwrap();
        main.dynsyms = vec![null.clone(), Sym { name: "g0".into(), value: mva + r.below(mms.max(1)).max(1), size: 0, shndx: 1, bind: 1, typ: 2 }];
        let mgs = if r.chance(1, 2) { 1 } else { 2 };
        for k in 0..nexp { main.dynsyms.push(Sym { name: format!("f{}", k), value: 0, size: 0, shndx: 0, bind: 1, typ: 2 }); }
        let mlg = r.range(2, 4);
        let mut mgot: Vec<u32> = (0..mlg).map(|_| word(r)).collect();
        for s in main.dynsyms.iter().skip(mgs as usize) { mgot.push(if s.shndx == 0 { 0 } else { s.value as u32 }); }
        main.mips = Some((mlg, mgs, mgot));
        main.pltrels.clear();
        let nmrel = r.range(1, 3);
        // a R_MIPS_REL32 whose r_sym names a symbol (before 90896ec it got only the object's base)
        let named = r.chance(1, 5);
        main.dynrels = (0..nmrel).map(|k| Rel { offset: 0, sym: if named && k == 0 { 2 } else { 0 }, typ: 3 }).collect();
        main.segs[0].data = (0..(nmrel * 4 + 8)).map(|_| 0u8).collect();
        let mblob = dyn_blob(&main, main.segs[0].vaddr).0.len() as u64;
        for (k, rel) in main.dynrels.iter_mut().enumerate() { rel.offset = main.segs[0].vaddr + mblob + 4 * k as u64; }
        let main_bytes = write_elf(&mut main, r);
        let mpath = format!("{}/main", sub);
        std::fs::write(&mpath, &main_bytes).unwrap();
        tags.push(format!("linked:mips{}", if big { "be" } else { "le" }));
        if named { tags.push("has:mips-rel32-names-symbol".into()); }
        let lk = observe(|| ElfLinkerBuilder::new(mpath.clone().into()).ld_paths(Some(vec![sub.clone()])).link());
        let m = Elf::from_file_with_base_address(&mpath, 0).unwrap();
        let lb = Elf::from_file_with_base_address(format!("{}/libx.so", sub), 0x4200_0000).unwrap();
        let dyr = |e: &Elf| coq_list(e.elf().dynrels.iter().map(|r| format!("mkrel {} {} {}", r.r_offset, r.r_sym, r.r_type)));
        let dyn_ = |e: &Elf| coq_list(e.elf().dynamic.map(|d| d.dyns.iter().map(|x| format!("({}, {})", x.d_tag, x.d_val)).collect::<Vec<_>>()).unwrap_or_default());
        let (res, txt) = match &lk {
            Obs::Ok(l) => { let dl = dump_loader(l); (format!("(Ok {})", dl.coq), dl.txt) }
            Obs::Err(k) => (format!("(Err {})", k), format!("link => {}", k)),
            Obs::Panic => ("Panic".to_string(), "link => panic".to_string()),
        };
        let coq = format!("KLinkM {} {} {} {} {} {} {}", parsed_view(&m, &main_bytes, &[]), dyn_(&m), dyr(&m), parsed_view(&lb, &lib_bytes, &[]), dyn_(&lb), dyr(&lb), res);
        tags.push(format!("link:{}", lk.kind()));
        let _ = std::fs::remove_dir_all(&sub);
        let descr = format!("ElfLinker MIPS {} main(dynsyms [{}], gotsym {}, local_gotno {}, REL32 [{}]) + libx.so(dynsyms [{}], gotsym {}, local_gotno {}, REL32 x{}) at 0x42000000; {}",
            if big { "BE" } else { "LE" },
            main.dynsyms.iter().skip(1).map(|s| format!("{}=0x{:x}/{}", s.name, s.value, s.shndx)).collect::<Vec<_>>().join(" "), mgs, mlg,
            main.dynrels.iter().map(|x| format!("off0x{:x} sym{}", x.offset, x.sym)).collect::<Vec<_>>().join("; "),
            lib.dynsyms.iter().skip(1).map(|s| format!("{}=0x{:x}/{}", s.name, s.value, s.shndx)).collect::<Vec<_>>().join(" "), lgs, llg, nlrel, txt);
        Case { coq: coq.clone(), descr, tags, nontrivial: true, key: coq }
    }
}

fn main() {
    quiet_panics();
    let args = parse_args();
    let dir = format!("{}/files", args.out);
    std::fs::create_dir_all(&dir).unwrap();
    let idxs: Vec<u64> = match args.only { Some(i) => vec![i], None => (0..args.n).collect() };
    let cases: Vec<Case> = idxs.iter().map(|i| gen_case(args.seed, *i, &dir)).collect();
    write_cases(
        &args, "C19",
        "From Coq Require Import ZArith NArith String List.\nFrom Falcon Require Import Base.Res Mem.Backing Elf.ElfModel Elf.C19Check.\nImport ListNotations.\nLocal Open Scope string_scope.\nLocal Open Scope Z_scope.\nLocal Open Scope list_scope.",
        "ck", &cases, 16, serde_json::json!({}),
    );
}
