//! C09 harness: the fixed-point engines run with a parametric family of analyses written against the
//! public trait; the same analyses are Gallina terms (`ana` of Flow/C09Check.v) in the case.
use falcon::analysis::fixed_point::{
    fixed_point_backward_options, fixed_point_forward_options, FixedPointAnalysis,
};
use falcon::il::{self, ControlFlowGraph, Function, FunctionLocation};
use falcon::Error;
use fvh::ilgen::*;
use fvh::*;
use std::cell::Cell;
use std::cmp::Ordering;
use std::collections::HashMap;

#[derive(Clone, Copy, Debug, PartialEq)]
enum Lat { Set, Num, Flat }
#[derive(Clone, Copy, Debug, PartialEq)]
enum Jn { Union, Inter, Max, Min, Flat, ErrDiff, First }
#[derive(Clone, Copy, Debug, PartialEq)]
enum Op { GenKill(i64, i64), IncMin(i64), Inc, Xor(i64), Const(i64), Id, FlatAdd(i64), SubFrom(i64), Err, Panic }

#[derive(Clone, Debug, PartialEq)]
struct St { lat: Lat, v: i64 }

impl PartialOrd for St {
    fn partial_cmp(&self, o: &St) -> Option<Ordering> {
        let (x, y) = (self.v, o.v);
        match self.lat {
            Lat::Set => {
                if x == y { Some(Ordering::Equal) }
                else if x & y == x { Some(Ordering::Less) }
                else if x & y == y { Some(Ordering::Greater) }
                else { None }
            }
            Lat::Num => Some(x.cmp(&y)),
            Lat::Flat => {
                if x == y { Some(Ordering::Equal) }
                else if x == -1 { Some(Ordering::Less) }
                else if y == -1 { Some(Ordering::Greater) }
                else if x == -2 { Some(Ordering::Greater) }
                else if y == -2 { Some(Ordering::Less) }
                else { None }
            }
        }
    }
}

struct Ana {
    lat: Lat,
    join: Jn,
    init: i64,
    default: Op,
    ops: Vec<(FunctionLocation, Op)>,
    table: HashMap<FunctionLocation, Op>,
    calls: Cell<u64>,
    watchdog: Option<u64>,
}
impl Ana {
    fn op_at(&self, l: &FunctionLocation) -> Op {
        *self.table.get(l).unwrap_or(&self.default)
    }
}

impl<'f, 'a> FixedPointAnalysis<'f, St> for &'a Ana {
    fn trans(&self, location: il::RefProgramLocation<'f>, state: Option<St>) -> Result<St, Error> {
        self.calls.set(self.calls.get() + 1);
        if let Some(w) = self.watchdog {
            if self.calls.get() > w {
                return Err(Error::Analysis("c09 watchdog".to_string()));
            }
        }
        let fl: FunctionLocation = location.function_location().clone().into();
        let x = match state { Some(s) => s.v, None => self.init };
        let v = match self.op_at(&fl) {
            Op::GenKill(g, k) => (x & !k) | g,
            Op::IncMin(k) => std::cmp::min(k, x + 1),
            Op::Inc => x + 1,
            Op::Xor(m) => x ^ m,
            Op::Const(c) => c,
            Op::Id => x,
            Op::FlatAdd(c) => if x < 0 { x } else { x + c },
            Op::SubFrom(k) => k - x,
            Op::Err => return Err(Error::Sort),
            Op::Panic => panic!("c09: transfer function panics"),
        };
        Ok(St { lat: self.lat, v })
    }
    fn join(&self, state0: St, state1: &St) -> Result<St, Error> {
        let (x, y) = (state0.v, state1.v);
        let v = match self.join {
            Jn::Union => x | y,
            Jn::Inter => x & y,
            Jn::Max => std::cmp::max(x, y),
            Jn::Min => std::cmp::min(x, y),
            Jn::Flat => if x == y { x } else if x == -1 { y } else if y == -1 { x } else { -2 },
            Jn::ErrDiff => if x == y { x } else { return Err(Error::DivideByZero) },
            Jn::First => x,
        };
        Ok(St { lat: self.lat, v })
    }
}

fn z(v: i64) -> String { z_i128(v as i128) }
fn coq_op(o: &Op) -> String {
    match o {
        Op::GenKill(g, k) => format!("(TGenKill {} {})", z(*g), z(*k)),
        Op::IncMin(k) => format!("(TIncMin {})", z(*k)),
        Op::Inc => "TInc".into(),
        Op::Xor(m) => format!("(TXor {})", z(*m)),
        Op::Const(c) => format!("(TConst {})", z(*c)),
        Op::Id => "TId".into(),
        Op::FlatAdd(c) => format!("(TFlatAdd {})", z(*c)),
        Op::SubFrom(k) => format!("(TSubFrom {})", z(*k)),
        Op::Err => "TErr".into(),
        Op::Panic => "TPanic".into(),
    }
}
fn coq_ana(a: &Ana) -> String {
    let lat = match a.lat { Lat::Set => "LSet", Lat::Num => "LNum", Lat::Flat => "LFlat" };
    let jn = match a.join { Jn::Union => "JUnion", Jn::Inter => "JInter", Jn::Max => "JMax", Jn::Min => "JMin", Jn::Flat => "JFlat", Jn::ErrDiff => "JErrDiff", Jn::First => "JFirst" };
    format!(
        "(mkana {} {} {} {} {})",
        lat, jn, z(a.init), coq_op(&a.default),
        coq_list(a.ops.iter().map(|(l, o)| format!("({}, {})", coq_floc(l), coq_op(o))))
    )
}

fn loc_key(l: &FunctionLocation) -> (u8, usize, usize) {
    match l {
        FunctionLocation::Instruction(b, i) => (0, *b, *i),
        FunctionLocation::Edge(h, t) => (1, *h, *t),
        FunctionLocation::EmptyBlock(b) => (2, *b, 0),
    }
}

/// the analysis families; returns (analysis, carrier, family tag)
fn gen_ana(r: &mut Rng, locs: &[FunctionLocation], tiny: bool, backward: bool) -> (Ana, Vec<i64>, &'static str) {
    let fam = r.below(100);
    let mut ops: Vec<(FunctionLocation, Op)> = vec![];
    let lat; let join; let mut init = 0i64; let default; let mut carrier: Vec<i64> = vec![]; let tag;
    let per_loc = |r: &mut Rng, mk: &mut dyn FnMut(&mut Rng) -> Op, ops: &mut Vec<(FunctionLocation, Op)>| {
        for l in locs {
            if r.chance(3, 5) { ops.push((l.clone(), mk(r))); }
        }
    };
    if fam < 28 {
        // gen/kill bit sets, union join: the monotone class
        let bits = if tiny { r.range(1, 2) } else { r.range(1, 3) };
        let u = (1i64 << bits) - 1;
        lat = Lat::Set; join = Jn::Union; tag = "genkill";
        init = if r.chance(1, 8) { r.below(u as u64 + 1) as i64 } else { 0 };
        default = if r.chance(1, 2) { Op::Id } else { Op::GenKill(r.below(u as u64 + 1) as i64, r.below(u as u64 + 1) as i64) };
        per_loc(r, &mut |r| match r.below(6) { 0 => Op::Id, 1 => Op::Const(r.below(u as u64 + 1) as i64), _ => Op::GenKill(r.below(u as u64 + 1) as i64, r.below(u as u64 + 1) as i64) }, &mut ops);
        carrier = (0..=u).collect();
    } else if fam < 34 {
        // "must" analysis with the wrong order: intersection is not an upper bound
        let u = 7i64;
        lat = Lat::Set; join = Jn::Inter; tag = "genkill-inter";
        init = if r.chance(1, 2) { u } else { 0 };
        default = Op::Id;
        per_loc(r, &mut |r| Op::GenKill(r.below(8) as i64, r.below(8) as i64), &mut ops);
        carrier = (0..=u).collect();
    } else if fam < 50 {
        // flat constant lattice
        let nc = if tiny { 1 } else { 2 };
        lat = Lat::Flat; join = Jn::Flat; tag = "flat";
        init = if r.chance(1, 5) { r.below(nc + 1) as i64 } else { -1 };
        let closed = tiny || r.chance(1, 2);
        default = Op::Id;
        per_loc(r, &mut |r| match r.below(5) { 0 | 1 => Op::Const(r.below(nc + 1) as i64), 2 if !closed => Op::FlatAdd(1), 3 => Op::Const(-2), _ => Op::Id }, &mut ops);
        if closed { carrier = vec![-1, -2]; carrier.extend(0..=(nc as i64)); }
    } else if fam < 65 {
        // bounded counter of height k
        let k = if tiny { r.range(1, 3) } else { r.range(1, 6) } as i64;
        lat = Lat::Num; join = Jn::Max; tag = "counter-bounded";
        default = Op::IncMin(k);
        per_loc(r, &mut |r| match r.below(4) { 0 => Op::Id, 1 => Op::Const(r.below(k as u64 + 1) as i64), _ => Op::IncMin(k) }, &mut ops);
        carrier = (0..=k).collect();
    } else if fam < 73 {
        // unbounded counter: loops exhaust the budget (forward) / the watchdog (backward)
        lat = Lat::Num; join = Jn::Max; tag = "counter-unbounded";
        default = if backward && r.chance(1, 2) { Op::IncMin(40) } else { Op::Inc };
        per_loc(r, &mut |r| if r.chance(1, 3) { Op::Id } else { Op::Inc }, &mut ops);
    } else if fam < 85 {
        // deliberately non-monotone
        tag = "nonmono";
        if r.chance(1, 2) {
            lat = Lat::Set; join = Jn::Union; default = Op::Id;
            per_loc(r, &mut |r| match r.below(3) { 0 => Op::Xor(r.range(1, 7) as i64), 1 => Op::GenKill(r.below(8) as i64, r.below(8) as i64), _ => Op::Id }, &mut ops);
            carrier = (0..=7).collect();
        } else {
            let k = r.range(1, 4) as i64;
            lat = Lat::Num; join = if r.chance(1, 4) { Jn::Min } else { Jn::Max }; default = Op::IncMin(k);
            per_loc(r, &mut |r| match r.below(3) { 0 => Op::SubFrom(k), 1 => Op::Id, _ => Op::IncMin(k) }, &mut ops);
            carrier = (0..=k).collect();
        }
    } else if fam < 92 {
        // join that fails / is not an upper bound
        tag = "join-bad";
        lat = if r.chance(1, 2) { Lat::Set } else { Lat::Num };
        join = if r.chance(2, 3) { Jn::ErrDiff } else { Jn::First };
        default = if lat == Lat::Set { Op::GenKill(r.below(4) as i64, 0) } else { Op::IncMin(3) };
        per_loc(r, &mut |r| match r.below(3) { 0 => Op::Id, 1 => Op::Const(r.below(4) as i64), _ => if lat == Lat::Set { Op::GenKill(r.below(4) as i64, r.below(4) as i64) } else { Op::IncMin(3) } }, &mut ops);
        carrier = (0..=3).collect();
    } else {
        // a transfer function that fails somewhere
        tag = "trans-fails";
        lat = Lat::Set; join = Jn::Union; default = Op::GenKill(1, 0);
        per_loc(r, &mut |r| match r.below(8) { 0 => Op::Err, 1 => Op::Panic, 2 => Op::Id, _ => Op::GenKill(r.below(4) as i64, r.below(4) as i64) }, &mut ops);
        carrier = (0..=3).collect();
    }
    let table: HashMap<FunctionLocation, Op> = ops.iter().rev().cloned().collect(); // first entry wins, as in op_at
    (Ana { lat, join, init, default, ops, table, calls: Cell::new(0), watchdog: None }, carrier, tag)
}

fn gen_fn(r: &mut Rng, tiny: bool) -> (Function, Vec<&'static str>) {
    let mut tags = vec![];
    if r.chance(1, 60) {
        // no entry / no exit set
        let mut cfg = ControlFlowGraph::new();
        let b = cfg.new_block().unwrap();
        b.nop();
        if r.chance(1, 2) { cfg.set_entry(0).unwrap(); } else { cfg.set_exit(0).unwrap(); }
        tags.push("shape:no-entry-or-exit");
        return (Function::new(0x1000, cfg), tags);
    }
    let mut o = GenOpts::default();
    o.scalars = vec![("a".into(), 8), ("f".into(), 1)];
    o.mem = false;
    o.expr_depth = 1;
    o.addresses = r.chance(1, 4);
    o.unreachable = true;
    o.loops = true;
    o.empty_blocks = true;
    if tiny {
        o.min_blocks = 1; o.max_blocks = 2; o.max_instrs = 2;
    } else {
        o.min_blocks = 2; o.max_blocks = 6; o.max_instrs = 3;
    }
    let mut f = gen_function(r, &o, 0x1000);
    let nb = f.blocks().len();
    // move the entry / exit: entry inside a loop, exit in the middle, several blocks without successors
    if r.chance(1, 3) {
        let e = r.below(nb as u64) as usize;
        f.control_flow_graph_mut().set_entry(e).unwrap();
    }
    if r.chance(1, 3) {
        let e = r.below(nb as u64) as usize;
        f.control_flow_graph_mut().set_exit(e).unwrap();
    }
    if r.chance(1, 4) { f.set_index(Some(r.below(5) as usize)); }
    let cfg = f.control_flow_graph();
    let entry = cfg.entry().unwrap();
    if cfg.edges().iter().any(|e| e.tail() == entry) { tags.push("shape:entry-has-pred"); }
    if cfg.edges().iter().any(|e| e.head() == e.tail()) { tags.push("shape:self-loop"); }
    if cfg.edges().iter().any(|e| e.tail() <= e.head()) { tags.push("shape:loop"); }
    if cfg.blocks().iter().any(|b| b.instructions().is_empty()) { tags.push("shape:empty-block"); }
    let sinks = cfg.blocks().iter().filter(|b| !cfg.edges().iter().any(|e| e.head() == b.index())).count();
    if sinks > 1 { tags.push("shape:multi-exit"); }
    (f, tags)
}

type Dump = Vec<(FunctionLocation, Option<usize>, i64)>;
fn coq_dump(d: &Dump) -> String {
    coq_list(d.iter().map(|(l, fi, v)| format!("(mkploc {} {}, {})", coq_optz(fi.map(|x| x as u64)), coq_floc(l), z(*v))))
}
fn ploc_index(l: &il::ProgramLocation) -> Option<usize> {
    // function_index is private; recover it through Display ("0x<idx>:<loc>" or "<loc>")
    let s = format!("{}", l);
    let inner = format!("{}", l.function_location());
    if s.len() > inner.len() {
        usize::from_str_radix(s[..s.len() - inner.len() - 1].trim_start_matches("0x"), 16).ok()
    } else {
        None
    }
}

fn run_fwd(a: &Ana, f: &Function, force: bool, max: usize) -> Obs<Dump> {
    a.calls.set(0);
    observe(|| {
        let m = fixed_point_forward_options(a, f, force, max)?;
        let mut d: Dump = m.iter().map(|(l, s)| (l.function_location().clone(), ploc_index(l), s.v)).collect();
        d.sort_by_key(|x| loc_key(&x.0));
        Ok(d)
    })
}
fn run_bwd(a: &Ana, f: &Function, force: bool) -> Obs<Dump> {
    a.calls.set(0);
    observe(|| {
        let m = fixed_point_backward_options(a, f, force)?;
        let mut d: Dump = m.iter().map(|(l, s)| (l.function_location().clone().into(), l.function().index(), s.v)).collect();
        d.sort_by_key(|x| loc_key(&x.0));
        Ok(d)
    })
}

const WATCHDOG: u64 = 300;

fn gen_case(seed: u64, idx: u64) -> Case {
    let mut r = Rng::for_case(seed, idx);
    let r = &mut r;
    let tiny = r.chance(3, 10); // stream whose graphs are small enough for the leastness enumeration
    let backward = r.chance(2, 5);
    let (f, mut shape) = gen_fn(r, tiny);
    let locs: Vec<FunctionLocation> = f.locations().into_iter().map(|l| l.into()).collect();
    let (mut a, carrier, fam) = gen_ana(r, &locs, tiny, backward);
    // minimisation protocol (`--keep p0,p1,..`): the analysis never looks at the IL operations, so the droppable
    // elements are the entries of the per-location transfer table; a dropped entry falls back to `default`
    let nelems = a.ops.len();
    if keep().is_some() {
        a.ops = a.ops.iter().cloned().enumerate().filter(|(k, _)| kept(*k)).map(|(_, e)| e).collect();
        a.table = a.ops.iter().rev().cloned().collect();
    }
    let force = r.chance(3, 10);
    let mut it = Interner::new();
    let fcoq = coq_function(&f, &mut it);
    let (lim, obs, pops) = if backward {
        a.watchdog = Some(WATCHDOG);
        let o = run_bwd(&a, &f, force);
        (WATCHDOG, o, a.calls.get())
    } else {
        // pops needed without a budget-imposed stop (the counter sits in trans: one call per pop)
        let probe = run_fwd(&a, &f, force, 400);
        let need = a.calls.get();
        let max = match r.below(20) {
            0..=6 => r.below(13),
            7..=11 if matches!(probe, Obs::Ok(_)) && need >= 1 => (need + r.below(4)).saturating_sub(3), // need-3 .. need: around the off-by-one
            _ => 400,
        };
        let o = run_fwd(&a, &f, force, max as usize);
        (max, o, a.calls.get())
    };
    let res_tag = obs.kind();
    let nres = match &obs { Obs::Ok(d) => d.len(), _ => 0 };
    let descr = format!(
        "{}{} force={} lim={} analysis={} {:?}/{:?} init={} default={:?} ops={:?} | function: {} | => {}",
        keep_prefix("transfer-table entries", nelems), if backward { "backward" } else { "forward" }, force, lim, fam, a.lat, a.join, a.init, a.default,
        a.ops.iter().map(|(l, o)| format!("{}:{:?}", l, o)).collect::<Vec<_>>(),
        format!("{}", f.control_flow_graph()).replace('\n', " ; "),
        match &obs { Obs::Ok(d) => format!("{:?}", d.iter().map(|(l, _, v)| format!("{}={}", l, v)).collect::<Vec<_>>()), x => x.kind() }
    );
    let coq = format!(
        "K {} {} {} {} {} {}%nat {}",
        if backward { "Bwd" } else { "Fwd" }, fcoq, coq_ana(&a), coq_list(carrier.iter().map(|v| z(*v))), coq_bool(force), lim,
        obs.coq(coq_dump)
    );
    let mut tags = vec![
        format!("dir:{}", if backward { "backward" } else { "forward" }),
        format!("analysis:{}", fam), format!("force:{}", force), format!("res:{}", res_tag),
        format!("locs:{}", match locs.len() { 0..=6 => "1-6", 7..=12 => "7-12", _ => "13+" }),
        format!("pops:{}", match pops { 0..=5 => "0-5", 6..=20 => "6-20", 21..=100 => "21-100", _ => "101+" }),
    ];
    if !backward { tags.push(format!("budget:{}", if lim >= 400 { "large" } else { "small" })); }
    tags.extend(shape.drain(..).map(|s| s.to_string()));
    let looped = tags.iter().any(|t| t == "shape:loop");
    Case {
        coq, descr, tags,
        nontrivial: nres >= 2 && looped || res_tag != "ok",
        key: format!("{}:{}:{}:{}:{}", backward, force, lim, coq_ana(&a), fcoq),
    }.with_elements(nelems)
}

fn main() {
    quiet_panics();
    let args = parse_args();
    let idxs: Vec<u64> = match args.only { Some(i) => vec![i], None => (0..args.n).collect() };
    let cases: Vec<Case> = idxs.iter().map(|i| gen_case(args.seed, *i)).collect();
    write_cases(
        &args, "C09",
        "From Coq Require Import ZArith List NArith.\nFrom Falcon Require Import Base.Res IL.Const IL.Expr IL.Func IL.Loc Flow.C09Check.\nImport ListNotations.\nLocal Open Scope Z_scope.",
        "ck", &cases, 16, serde_json::json!({"watchdog": WATCHDOG}),
    );
}
