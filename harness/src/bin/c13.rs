//! C13 harness: analysis::constants::constants on random IL functions.  The observed per-location maps
//! (Top / Constant per scalar, read off the Debug rendering since the field is private), the answers of
//! Constants::eval on probe expressions, and the harness' own definite-assignment verdict are embedded in
//! the case; Coq compares them with the model (Flow/Constants.v) and judges them against executions of
//! Exec/Sem.v from random initial states.
use falcon::analysis::constants::{constants, Constants};
use falcon::il::{self, ControlFlowGraph, Expression, Function, Intrinsic, Operation, Scalar};
use fvh::ilgen::*;
use fvh::*;
use std::collections::{BTreeMap, BTreeSet, HashMap};

fn ex(s: &Scalar) -> Expression {
    Expression::scalar(s.clone())
}
fn k(v: u64, w: usize) -> Expression {
    il::expr_const(v, w)
}

struct G {
    pool: Vec<Scalar>,
    tags: BTreeSet<String>,
}
impl G {
    fn tag(&mut self, t: &str) {
        self.tags.insert(t.to_string());
    }
    fn pick(&self, r: &mut Rng) -> Scalar {
        self.pool[r.below(self.pool.len() as u64) as usize].clone()
    }
    fn same(&self, r: &mut Rng, w: usize) -> Scalar {
        let c: Vec<&Scalar> = self.pool.iter().filter(|s| s.bits() == w).collect();
        (*r.pick(&c)).clone()
    }
    fn small(&self, r: &mut Rng, w: usize) -> Expression {
        let v = match r.below(5) { 0 => 0, 1 => 1, 2 => 5, 3 => 7, _ => r.below(256) };
        k(if w == 1 { v & 1 } else { v }, w)
    }
    fn binop(&self, r: &mut Rng, a: Expression, b: Expression) -> Expression {
        match r.below(6) {
            0 => Expression::add(a, b),
            1 => Expression::sub(a, b),
            2 => Expression::and(a, b),
            3 => Expression::xor(a, b),
            4 => Expression::mul(a, b),
            _ => Expression::or(a, b),
        }
        .unwrap()
    }
    fn addr(&self, r: &mut Rng) -> Expression {
        k(0x1000 + r.below(40), 32)
    }
    fn op(&mut self, r: &mut Rng) -> Operation {
        let s = self.pick(r);
        let w = s.bits();
        let p = r.below(100);
        if p < 24 {
            let c = self.small(r, w);
            Operation::assign(s, c)
        } else if p < 42 {
            let t = self.same(r, w);
            let c = self.small(r, w);
            let e = self.binop(r, ex(&t), c);
            Operation::assign(s, e)
        } else if p < 52 {
            let (t, u) = (self.same(r, w), self.same(r, w));
            let e = self.binop(r, ex(&t), ex(&u));
            Operation::assign(s, e)
        } else if p < 60 {
            self.tag("self-update");
            Operation::assign(s.clone(), Expression::add(ex(&s), k(1, w)).unwrap())
        } else if p < 67 {
            if w % 8 == 0 {
                self.tag("load");
                Operation::load(s, self.addr(r))
            } else {
                Operation::nop()
            }
        } else if p < 72 {
            if w % 8 == 0 {
                self.tag("store");
                Operation::store(self.addr(r), ex(&s))
            } else {
                Operation::nop()
            }
        } else if p < 76 {
            Operation::nop()
        } else if p < 82 {
            let declared = r.chance(1, 2);
            self.tag(if declared { "intrinsic:declared" } else { "intrinsic:undeclared" });
            let t = self.pick(r);
            Operation::intrinsic(Intrinsic::new(
                if declared { "declared" } else { "syscall" },
                "intrinsic",
                vec![],
                if declared { Some(vec![ex(&s)]) } else { None },
                if declared { Some(vec![ex(&t)]) } else { None },
                vec![0x0f, 0x05],
            ))
        } else if p < 85 {
            self.tag("indirect-branch");
            let a = self.same(r, 32);
            if r.chance(1, 2) { Operation::branch(ex(&a)) } else { Operation::branch(k(0x2000, 32)) }
        } else {
            // a flag computed from a comparison
            let flags: Vec<Scalar> = self.pool.iter().filter(|s| s.bits() == 1).cloned().collect();
            let t = self.same(r, 32);
            match flags.first() {
                Some(f) => Operation::assign(f.clone(), Expression::cmpeq(ex(&t), k(r.below(3), 32)).unwrap()),
                None => Operation::assign(t.clone(), k(r.below(9), 32)),
            }
        }
    }
}

struct Gen {
    f: Function,
    pool: Vec<Scalar>,
    tags: BTreeSet<String>,
}

fn push(b: &mut il::Block, o: Operation) {
    match o {
        Operation::Assign { dst, src } => b.assign(dst, src),
        Operation::Store { index, src } => b.store(index, src),
        Operation::Load { dst, index } => b.load(dst, index),
        Operation::Intrinsic { intrinsic } => b.intrinsic(intrinsic),
        Operation::Branch { target } => b.branch(target),
        Operation::Nop { .. } => b.nop(),
    }
}

/// the shape of the former known finding (repaired), randomised: a diamond whose shorter arm assigns `x` a constant
/// while the longer arm does not touch it, followed by `y = x op c` and one more location
fn gen_half_assigned(r: &mut Rng) -> Gen {
    let pool: Vec<Scalar> = vec![il::scalar("a", 32), il::scalar("b", 32), il::scalar("c", 32)];
    let (x, y, g) = (pool[1].clone(), pool[2].clone(), pool[0].clone());
    let mut tags = BTreeSet::new();
    tags.insert("half-assigned-diamond".to_string());
    tags.insert("diamond".to_string());
    tags.insert("scalars:3".to_string());
    let mut cfg = ControlFlowGraph::new();
    let c0 = r.below(200);
    {
        let b = cfg.new_block().unwrap();
        if r.chance(1, 2) { b.nop(); }
    }
    {
        let b = cfg.new_block().unwrap();
        b.assign(x.clone(), k(c0, 32));
    }
    {
        let b = cfg.new_block().unwrap();
        for _ in 0..r.range(3, 5) { b.nop(); }
    }
    {
        let b = cfg.new_block().unwrap();
        let e = match r.below(3) {
            0 => Expression::add(ex(&x), k(1, 32)).unwrap(),
            1 => Expression::xor(ex(&x), k(r.below(16), 32)).unwrap(),
            _ => ex(&x),
        };
        b.assign(y.clone(), e);
        if r.chance(1, 2) { b.nop(); } else { b.store(k(0x1000, 32), ex(&y)); }
    }
    let cond = Expression::cmpeq(ex(&g), k(r.below(2), 32)).unwrap();
    let ncond = Expression::cmpeq(cond.clone(), k(0, 1)).unwrap();
    let (t1, t2) = if r.chance(1, 2) { (cond, ncond) } else { (ncond, cond) };
    cfg.conditional_edge(0, 1, t1).unwrap();
    cfg.conditional_edge(0, 2, t2).unwrap();
    cfg.unconditional_edge(1, 3).unwrap();
    cfg.unconditional_edge(2, 3).unwrap();
    cfg.set_entry(0).unwrap();
    cfg.set_exit(3).unwrap();
    Gen { f: Function::new(0x1000, cfg), pool, tags }
}

fn gen(r: &mut Rng) -> Gen {
    if r.chance(1, 10) {
        return gen_half_assigned(r);
    }
    let all = [("a", 32usize), ("b", 32), ("f", 1), ("c", 32), ("x", 8)];
    let n = r.range(2, 5) as usize;
    let pool: Vec<Scalar> = all[..n].iter().map(|(s, w)| il::scalar(*s, *w)).collect();
    let mut g = G { pool: pool.clone(), tags: BTreeSet::new() };
    g.tag(&format!("scalars:{}", n));
    let init = r.chance(1, 2);
    if init {
        g.tag("entry-initialises-all");
    }
    let nb = r.range(1, 6) as usize;
    let mut cfg = ControlFlowGraph::new();
    for bi in 0..nb {
        let cnt = if r.chance(1, 8) { 0 } else { r.range(1, 4) };
        let mut ops: Vec<Operation> = vec![];
        if bi == 0 && init {
            for s in &pool {
                let c = g.small(r, s.bits());
                ops.push(Operation::assign(s.clone(), c));
            }
        }
        for _ in 0..cnt {
            ops.push(g.op(r));
        }
        let b = cfg.new_block().unwrap();
        for o in ops {
            push(b, o);
        }
    }
    // an extra block unreachable from the entry that jumps into reachable code
    let unreachable_pred = nb >= 2 && r.chance(1, 5);
    let total = if unreachable_pred { nb + 1 } else { nb };
    if unreachable_pred {
        let ops: Vec<Operation> = (0..r.range(0, 2)).map(|_| g.op(r)).collect();
        let b = cfg.new_block().unwrap();
        for o in ops {
            push(b, o);
        }
        g.tag("unreachable-predecessor");
    }
    let entry_loop = r.chance(1, 12);
    let w32 = pool.iter().find(|s| s.bits() == 32).unwrap().clone();
    let flag = pool.iter().find(|s| s.bits() == 1).cloned();
    for h in 0..nb {
        // mostly the next block, so that few blocks end up without a path from the entry
        let fwd = |r: &mut Rng| -> Option<usize> {
            if h + 1 < nb { Some(if r.chance(3, 5) { h + 1 } else { r.range(h as u64 + 1, nb as u64 - 1) as usize }) } else { None }
        };
        let lo = if entry_loop { 0 } else { 1 };
        let back = |r: &mut Rng| -> usize { r.range(lo as u64, h as u64) as usize };
        let cond = match (&flag, r.chance(1, 2)) {
            (Some(f), true) => ex(f),
            _ => Expression::cmpeq(ex(&w32), k(r.below(3), 32)).unwrap(),
        };
        let ncond = Expression::cmpeq(cond.clone(), k(0, 1)).unwrap();
        let shape = r.below(10);
        match fwd(r) {
            None => {
                if shape < 3 && nb > 1 && h >= lo {
                    cfg.conditional_edge(h, back(r), cond).unwrap();
                    g.tag("loop");
                }
            }
            Some(t1) => {
                if shape < 3 {
                    cfg.unconditional_edge(h, t1).unwrap();
                } else if shape < 7 {
                    let t2 = fwd(r).unwrap();
                    if t2 == t1 {
                        cfg.unconditional_edge(h, t1).unwrap();
                    } else {
                        cfg.conditional_edge(h, t1, cond).unwrap();
                        cfg.conditional_edge(h, t2, ncond).unwrap();
                        g.tag("diamond");
                    }
                } else if h >= lo {
                    let t2 = back(r);
                    if t2 == t1 {
                        cfg.unconditional_edge(h, t1).unwrap();
                    } else {
                        cfg.conditional_edge(h, t1, ncond).unwrap();
                        cfg.conditional_edge(h, t2, cond).unwrap();
                        g.tag("loop");
                    }
                } else {
                    cfg.unconditional_edge(h, t1).unwrap();
                }
            }
        }
    }
    if unreachable_pred {
        let t = r.range(1, nb as u64 - 1) as usize;
        cfg.unconditional_edge(nb, t).unwrap();
    }
    cfg.set_entry(0).unwrap();
    cfg.set_exit(nb - 1).unwrap();
    let _ = total;
    // accurate tag: some edge leads from a block unreachable from the entry into a reachable one
    {
        let mut seen = BTreeSet::new();
        let mut work = vec![0usize];
        while let Some(b) = work.pop() {
            if !seen.insert(b) { continue; }
            for e in cfg.edges() { if e.head() == b { work.push(e.tail()); } }
        }
        g.tags.remove("unreachable-predecessor");
        if cfg.edges().iter().any(|e| !seen.contains(&e.head()) && seen.contains(&e.tail())) {
            g.tag("unreachable-predecessor");
        }
    }
    Gen { f: Function::new(0x1000, cfg), pool, tags: g.tags }
}

/// the harness' own verdict: every read is definitely assigned on every path from the entry
/// (block-level formulation of Flow/C13Check.v def_assigned; the tie compares the two)
fn def_assigned(f: &Function) -> bool {
    let g = f.control_flow_graph();
    let entry = match g.entry() { Some(e) => e, None => return false };
    let mut univ: BTreeSet<Scalar> = BTreeSet::new();
    let writes = |o: &Operation| -> Vec<Scalar> {
        match o {
            Operation::Assign { dst, .. } | Operation::Load { dst, .. } => vec![dst.clone()],
            _ => vec![],
        }
    };
    let reads = |o: &Operation| -> Vec<Scalar> { o.scalars_read().map(|v| v.into_iter().cloned().collect()).unwrap_or_default() };
    for b in g.blocks() {
        for i in b.instructions() {
            univ.extend(reads(i.operation()));
            univ.extend(writes(i.operation()));
        }
    }
    for e in g.edges() {
        if let Some(c) = e.condition() {
            univ.extend(c.scalars().into_iter().cloned());
        }
    }
    let idx: Vec<usize> = g.blocks().iter().map(|b| b.index()).collect();
    let mut din: BTreeMap<usize, BTreeSet<Scalar>> = idx.iter().map(|i| (*i, if *i == entry { BTreeSet::new() } else { univ.clone() })).collect();
    let out = |din: &BTreeMap<usize, BTreeSet<Scalar>>, b: usize| -> BTreeSet<Scalar> {
        let mut s = din[&b].clone();
        for i in g.block(b).unwrap().instructions() {
            s.extend(writes(i.operation()));
        }
        s
    };
    loop {
        let mut next = din.clone();
        for b in &idx {
            if *b == entry {
                continue;
            }
            let mut acc = univ.clone();
            for e in g.edges() {
                if e.tail() == *b {
                    let o = out(&din, e.head());
                    acc = acc.intersection(&o).cloned().collect();
                }
            }
            next.insert(*b, acc);
        }
        if next == din {
            break;
        }
        din = next;
    }
    for b in g.blocks() {
        let mut cur = din[&b.index()].clone();
        for i in b.instructions() {
            if reads(i.operation()).iter().any(|s| !cur.contains(s)) {
                return false;
            }
            cur.extend(writes(i.operation()));
        }
        for e in g.edges() {
            if e.head() == b.index() {
                if let Some(c) = e.condition() {
                    if c.scalars().iter().any(|s| !cur.contains(*s)) {
                        return false;
                    }
                }
            }
        }
    }
    true
}

/// Constants' Debug rendering -> sorted [(scalar, Top | Constant c | Bottom)]
fn parse_constants(c: &Constants, it: &mut Interner) -> String {
    let s = format!("{:?}", c);
    let mut out: Vec<(String, usize, Option<usize>, String)> = vec![];
    let mut rest = s.as_str();
    let key = "Scalar { name: \"";
    while let Some(p) = rest.find(key) {
        rest = &rest[p + key.len()..];
        let q = rest.find('"').unwrap();
        let name = rest[..q].to_string();
        rest = &rest[q..];
        let p = rest.find("bits: ").unwrap();
        rest = &rest[p + 6..];
        let q = rest.find(',').unwrap();
        let bits: usize = rest[..q].parse().unwrap();
        let p = rest.find("ssa: ").unwrap();
        rest = &rest[p + 5..];
        let ssa = if rest.starts_with("None") {
            None
        } else {
            let q = rest.find(')').unwrap();
            Some(rest["Some(".len()..q].parse::<usize>().unwrap())
        };
        let p = rest.find("}: ").unwrap();
        rest = &rest[p + 3..];
        let v = if rest.starts_with("Top") {
            "CTop".to_string()
        } else if rest.starts_with("Bottom") {
            "CBot".to_string()
        } else {
            assert!(rest.starts_with("Constant(Constant { value: "), "unexpected Debug rendering: {}", rest);
            rest = &rest["Constant(Constant { value: ".len()..];
            let q = rest.find(',').unwrap();
            let val = rest[..q].to_string();
            let p = rest.find("bits: ").unwrap();
            rest = &rest[p + 6..];
            let q = rest.find(' ').unwrap();
            let b: usize = rest[..q].parse().unwrap();
            format!("(CConst (mkc {} {}))", b, val)
        };
        out.push((name, bits, ssa, v));
    }
    out.sort();
    coq_list(out.iter().map(|(n, b, z, v)| format!("((mks {} {} {}), {})", n_lit(it.id(n)), b, coq_opt(z.map(|x| n_lit(x as u64))), v)).collect::<Vec<_>>())
}

fn coq_result(m: &HashMap<il::ProgramLocation, Constants>, it: &mut Interner) -> String {
    let mut v: Vec<(il::FunctionLocation, &Constants)> = m.iter().map(|(l, c)| (l.function_location().clone(), c)).collect();
    v.sort_by(|a, b| a.0.cmp(&b.0));
    coq_list(v.iter().map(|(l, c)| format!("({}, {})", coq_floc(l), parse_constants(c, it))).collect::<Vec<_>>())
}

fn describe(f: &Function) -> String {
    let mut s = String::new();
    for b in f.blocks() {
        s.push_str(&format!("B{}[", b.index()));
        s.push_str(&b.instructions().iter().map(|i| format!("{}", i.operation())).collect::<Vec<_>>().join("; "));
        s.push_str("] ");
    }
    for e in f.edges() {
        match e.condition() {
            Some(c) => s.push_str(&format!("{}->{} if {}; ", e.head(), e.tail(), c)),
            None => s.push_str(&format!("{}->{}; ", e.head(), e.tail())),
        }
    }
    s
}

fn gen_env(r: &mut Rng, pool: &[Scalar], it: &mut Interner) -> String {
    coq_list(
        pool.iter()
            .map(|s| {
                let v = match r.below(6) { 0 => 0u64, 1 => 1, 2 => 5, 3 => 7, 4 => u64::MAX, _ => r.next() };
                let v = if s.bits() >= 64 { v } else { v & ((1u64 << s.bits()) - 1) };
                format!("(({}, None), mkc {} {})", n_lit(it.id(s.name())), s.bits(), v)
            })
            .collect::<Vec<_>>(),
    )
}

fn gen_case(seed: u64, i: u64) -> Case {
    let mut r = Rng::for_case(seed, i);
    let mut g = gen(&mut r);
    // minimisation protocol (`--keep p0,p1,..`): dropped instructions become `nop` (indices, edges, pool unchanged)
    let nelems = nop_dropped(&mut g.f, 0);
    let f = &g.f;
    let mut it = Interner::new();
    let fcoq = coq_function(f, &mut it);
    let big = r.chance(1, 2);
    let mem = coq_list((0..48u64).map(|d| format!("({}, {})", 0x1000 + d, r.below(256))).collect::<Vec<_>>());
    let envs = coq_list((0..3).map(|_| gen_env(&mut r, &g.pool, &mut it)).collect::<Vec<_>>());
    let da = def_assigned(f);
    let obs = observe(|| constants(f));
    // probes: Constants::eval of small expressions at random locations of the result
    let mut probes: Vec<String> = vec![];
    if let Obs::Ok(m) = &obs {
        let mut locs: Vec<&il::ProgramLocation> = m.keys().collect();
        locs.sort();
        for _ in 0..3 {
            if locs.is_empty() {
                break;
            }
            let l = *r.pick(&locs);
            let s = g.pool[r.below(g.pool.len() as u64) as usize].clone();
            let w = s.bits();
            let same: Vec<&Scalar> = g.pool.iter().filter(|t| t.bits() == w).collect();
            let e = match r.below(4) {
                0 => ex(&s),
                1 => Expression::add(ex(&s), k(r.below(9), w)).unwrap(),
                2 => Expression::xor(ex(&s), ex(*r.pick(&same))).unwrap(),
                _ => Expression::sub(ex(*r.pick(&same)), ex(&s)).unwrap(),
            };
            let c = &m[l];
            let ans = match observe_plain(|| c.eval(&e)) {
                Some(Some(v)) => format!("(Ok (Some {}))", coq_const(&v)),
                Some(None) => "(Ok None)".to_string(),
                None => "Panic".to_string(),
            };
            probes.push(format!("({}, {}, {})", coq_floc(l.function_location()), coq_expr(&e, &mut it), ans));
        }
    }
    let coq = format!(
        "(K {} {} {} {} {} {} {})",
        fcoq,
        coq_bool(big),
        mem,
        envs,
        obs.coq(|m| coq_result(m, &mut it.clone())),
        coq_list(probes),
        coq_bool(da)
    );
    let mut tags: Vec<String> = g.tags.iter().cloned().collect();
    tags.push(format!("result:{}", obs.kind()));
    tags.push(if da { "def-assigned".into() } else { "not-def-assigned".into() });
    if let Obs::Ok(m) = &obs {
        if m.values().any(|c| g.pool.iter().any(|s| c.scalar(s).is_some())) {
            tags.push("reports-a-constant".into());
        }
    }
    let descr = format!("{}{}", keep_prefix("instructions", nelems), describe(f));
    let interesting = g.tags.contains("diamond") || g.tags.contains("loop") || g.tags.contains("load") || g.tags.contains("indirect-branch");
    Case { coq, nontrivial: f.locations().len() >= 4 && interesting, key: descr.clone(), descr, tags }.with_elements(nelems)
}

fn main() {
    quiet_panics();
    let args = parse_args();
    let cases: Vec<Case> = match args.only {
        Some(i) => vec![gen_case(args.seed, i)],
        None => (0..args.n).map(|i| gen_case(args.seed, i)).collect(),
    };
    let header = "From Coq Require Import ZArith List Bool NArith.\nFrom Falcon Require Import Base.Res IL.Const IL.Expr IL.Func IL.Loc Exec.Sem Flow.Constants Flow.C13Check.\nImport ListNotations.\nLocal Open Scope Z_scope.";
    write_cases(&args, "C13", header, "ck", &cases, 16, serde_json::json!({}));
}
