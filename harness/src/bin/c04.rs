//! C04 harness: Constant operators, Expression constructors, eval, replace_scalar, sra, rotl.
use falcon::executor::eval;
use falcon::il::{self, Constant, Expression, Scalar};
use fvh::*;
use num_bigint::BigUint;
use num_traits::{One, Zero};

const BINOPS: [&str; 17] = [
    "Add", "Sub", "Mul", "Divu", "Modu", "Divs", "Mods", "And", "Or", "Xor", "Shl", "Shr", "AShr",
    "Cmpeq", "Cmpneq", "Cmplts", "Cmpltu",
];
const EXTOPS: [&str; 3] = ["Zext", "Sext", "Trun"];

fn width(r: &mut Rng) -> usize {
    match r.below(10) {
        0..=2 => r.range(1, 16) as usize,
        3..=5 => *r.pick(&[31usize, 32, 33, 63, 64, 65, 127, 128, 129, 200, 256]),
        6 => *r.pick(&[1usize, 2, 7, 8]),
        _ => r.range(1, 256) as usize,
    }
}
fn pow2(n: usize) -> BigUint { BigUint::one() << n }
/// boundary-biased value for width w (may exceed the range on purpose: new_big trims)
fn value(r: &mut Rng, w: usize) -> BigUint {
    let m = |v: BigUint| v;
    match r.below(20) {
        0 => BigUint::zero(),
        1 => BigUint::one(),
        2 => BigUint::from(2u32),
        3 => if w >= 1 { pow2(w - 1) } else { BigUint::zero() },
        4 => if w >= 1 { pow2(w - 1) - BigUint::one() } else { BigUint::zero() },
        5 => if w >= 1 { pow2(w - 1) + BigUint::one() } else { BigUint::zero() },
        6 => pow2(w) - BigUint::one(),
        7 => (pow2(w) - BigUint::one()).checked_sub(&BigUint::one()).unwrap_or_else(BigUint::zero),
        8 => BigUint::from(w as u64),
        9 => BigUint::from((w as u64).saturating_sub(1)),
        10 => BigUint::from(w as u64 + 1),
        11 => BigUint::from(u64::MAX),
        12 => pow2(64),
        13 => pow2(64) + BigUint::one(),
        14 => m(r.big(w + 3)), // out of range: trimmed by the constructor
        _ => r.big(w),
    }
}
fn amount(r: &mut Rng, w: usize) -> BigUint {
    match r.below(8) {
        0..=3 => { let d = r.below(5) as i64 - 2; BigUint::from((w as i64 + d).max(0) as u64) }
        4 => BigUint::from(r.below(w as u64 + 1)),
        _ => value(r, w),
    }
}
use num_traits::CheckedSub;

fn cst(c: &Constant) -> String { format!("(mkc {} {})", c.bits(), z_big(c.value())) }
fn obs_c(o: &Obs<Constant>) -> String { o.coq(cst) }

fn apply_bin(op: &str, a: &Constant, b: &Constant) -> Result<Constant, falcon::Error> {
    match op {
        "Add" => a.add(b), "Sub" => a.sub(b), "Mul" => a.mul(b), "Divu" => a.divu(b), "Modu" => a.modu(b),
        "Divs" => a.divs(b), "Mods" => a.mods(b), "And" => a.and(b), "Or" => a.or(b), "Xor" => a.xor(b),
        "Shl" => a.shl(b), "Shr" => a.shr(b), "AShr" => a.ashr(b), "Cmpeq" => a.cmpeq(b), "Cmpneq" => a.cmpneq(b),
        "Cmplts" => a.cmplts(b), "Cmpltu" => a.cmpltu(b), _ => unreachable!(),
    }
}
fn build_bin(op: &str, a: Expression, b: Expression) -> Result<Expression, falcon::Error> {
    match op {
        "Add" => Expression::add(a, b), "Sub" => Expression::sub(a, b), "Mul" => Expression::mul(a, b),
        "Divu" => Expression::divu(a, b), "Modu" => Expression::modu(a, b), "Divs" => Expression::divs(a, b),
        "Mods" => Expression::mods(a, b), "And" => Expression::and(a, b), "Or" => Expression::or(a, b),
        "Xor" => Expression::xor(a, b), "Shl" => Expression::shl(a, b), "Shr" => Expression::shr(a, b),
        "AShr" => Expression::ashr(a, b), "Cmpeq" => Expression::cmpeq(a, b), "Cmpneq" => Expression::cmpneq(a, b),
        "Cmplts" => Expression::cmplts(a, b), "Cmpltu" => Expression::cmpltu(a, b), _ => unreachable!(),
    }
}

/// raw expression tree, mirrored by `rexpr` in IL/Expr.v
#[derive(Clone)]
enum R {
    Scalar(String, usize),
    Const(BigUint, usize),
    Bin(&'static str, Box<R>, Box<R>),
    Ext(&'static str, usize, Box<R>),
    Ite(Box<R>, Box<R>, Box<R>),
    Sra(Box<R>, Box<R>),
    Rotl(Box<R>, Box<R>),
}
fn sc_id(name: &str) -> u64 { name.trim_start_matches('s').parse().unwrap() }
impl R {
    fn coq(&self) -> String {
        match self {
            R::Scalar(n, w) => format!("(RScalar (mks {} {} None))", n_lit(sc_id(n)), w),
            R::Const(v, w) => format!("(RConst {} {})", z_big(v), w),
            R::Bin(o, a, b) => format!("(RBin {} {} {})", o, a.coq(), b.coq()),
            R::Ext(o, n, a) => format!("(RExt {} {} {})", o, n, a.coq()),
            R::Ite(c, t, e) => format!("(RIte {} {} {})", c.coq(), t.coq(), e.coq()),
            R::Sra(a, b) => format!("(RSra {} {})", a.coq(), b.coq()),
            R::Rotl(a, b) => format!("(RRotl {} {})", a.coq(), b.coq()),
        }
    }
    fn build(&self) -> Result<Expression, falcon::Error> {
        Ok(match self {
            R::Scalar(n, w) => Expression::scalar(Scalar::new(n.clone(), *w)),
            R::Const(v, w) => Expression::constant(Constant::new_big(v.clone(), *w)),
            R::Bin(o, a, b) => build_bin(o, a.build()?, b.build()?)?,
            R::Ext(o, n, a) => match *o {
                "Zext" => Expression::zext(*n, a.build()?)?,
                "Sext" => Expression::sext(*n, a.build()?)?,
                _ => Expression::trun(*n, a.build()?)?,
            },
            R::Ite(c, t, e) => Expression::ite(c.build()?, t.build()?, e.build()?)?,
            R::Sra(a, b) => Expression::sra(a.build()?, b.build()?)?,
            R::Rotl(a, b) => Expression::rotl(a.build()?, b.build()?)?,
        })
    }
    fn size(&self) -> usize {
        match self {
            R::Scalar(..) | R::Const(..) => 1,
            R::Bin(_, a, b) | R::Sra(a, b) | R::Rotl(a, b) => 1 + a.size() + b.size(),
            R::Ext(_, _, a) => 1 + a.size(),
            R::Ite(c, t, e) => 1 + c.size() + t.size() + e.size(),
        }
    }
}
/// mostly well-sorted tree of width w
fn gen_tree(r: &mut Rng, w: usize, depth: u32, scalars: &[(String, usize)], bad: bool) -> R {
    if depth == 0 || r.chance(1, 6) {
        let cands: Vec<&(String, usize)> = scalars.iter().filter(|s| s.1 == w).collect();
        if !cands.is_empty() && r.chance(1, 3) {
            let s = r.pick(&cands);
            return R::Scalar(s.0.clone(), s.1);
        }
        return R::Const(value(r, w), w);
    }
    let w2 = if bad && r.chance(1, 4) { width(r) } else { w };
    match r.below(12) {
        0..=4 => {
            if w == 1 && r.chance(1, 2) {
                let ow = width(r);
                let o = *r.pick(&["Cmpeq", "Cmpneq", "Cmplts", "Cmpltu"]);
                let ow2 = if bad && r.chance(1, 4) { width(r) } else { ow };
                R::Bin(o, Box::new(gen_tree(r, ow, depth - 1, scalars, bad)), Box::new(gen_tree(r, ow2, depth - 1, scalars, bad)))
            } else {
                let o = *r.pick(&BINOPS[..13]);
                let rhs = if matches!(o, "Shl" | "Shr" | "AShr") && r.chance(2, 3) { R::Const(amount(r, w2), w2) } else { gen_tree(r, w2, depth - 1, scalars, bad) };
                R::Bin(o, Box::new(gen_tree(r, w, depth - 1, scalars, bad)), Box::new(rhs))
            }
        }
        5 => { // zext / sext from a narrower width
            if w >= 2 { let sw = r.range(1, w as u64 - 1) as usize; let sw = if bad && r.chance(1, 3) { w } else { sw }; R::Ext(*r.pick(&["Zext", "Sext"]), w, Box::new(gen_tree(r, sw, depth - 1, scalars, bad))) }
            else { R::Const(value(r, w), w) }
        }
        6 => { let sw = w + r.range(1, 70) as usize; let sw = if bad && r.chance(1, 3) { w } else { sw }; R::Ext("Trun", w, Box::new(gen_tree(r, sw, depth - 1, scalars, bad))) }
        7 | 8 => { let cwid = if bad && r.chance(1, 4) { 2 } else { 1 }; R::Ite(Box::new(gen_tree(r, cwid, depth - 1, scalars, bad)), Box::new(gen_tree(r, w, depth - 1, scalars, bad)), Box::new(gen_tree(r, w2, depth - 1, scalars, bad))) }
        9 => R::Sra(Box::new(gen_tree(r, w, depth - 1, scalars, bad)), Box::new(R::Const(amount(r, w2), w2))),
        10 => { let a = if r.chance(3, 4) { BigUint::from(r.below(w as u64 + 1)) } else { amount(r, w2) }; R::Rotl(Box::new(gen_tree(r, w, depth - 1, scalars, bad)), Box::new(R::Const(a, w2))) }
        _ => R::Const(value(r, w), w),
    }
}

/// deterministic boundary sweep: every operator x widths {1,8,32,64,65,128} x every pair of
/// boundary values {0, 1, 2^(w-1)-1, 2^(w-1), 2^w-1, w} (a seeded change that needs ONE
/// operand pair at ONE width -- e.g. MIN / -1 at width 64 -- is reached without luck)
const SWEEP_W: [usize; 6] = [1, 8, 32, 64, 65, 128];
fn sweep_vals(w: usize) -> Vec<BigUint> {
    let m = pow2(w);
    let mut v = vec![
        BigUint::zero(), BigUint::one(), pow2(w - 1).checked_sub(&BigUint::one()).unwrap_or_else(BigUint::zero), pow2(w - 1),
        m.clone() - BigUint::one(), BigUint::from(w as u64),
    ];
    for x in v.iter_mut() { *x = x.clone() % &m; }
    v.sort();
    v.dedup();
    v
}
fn sweep_len() -> u64 {
    SWEEP_W.iter().map(|w| { let k = sweep_vals(*w).len() as u64; k * k * BINOPS.len() as u64 }).sum()
}
fn sweep_case(mut idx: u64) -> Case {
    for w in SWEEP_W.iter() {
        let vals = sweep_vals(*w);
        let k = vals.len() as u64;
        let n = k * k * BINOPS.len() as u64;
        if idx >= n { idx -= n; continue; }
        let op = BINOPS[(idx / (k * k)) as usize];
        let a = vals[((idx / k) % k) as usize].clone();
        let b = vals[(idx % k) as usize].clone();
        let (ca, cb) = (Constant::new_big(a.clone(), *w), Constant::new_big(b.clone(), *w));
        let o = observe(|| apply_bin(op, &ca, &cb));
        return Case {
            coq: format!("KBin {} {} {} {} {} {}", op, w, z_big(&a), w, z_big(&b), obs_c(&o)),
            descr: format!("{} {}:{} {}:{} => {}", op, a, w, b, w, match &o { Obs::Ok(c) => format!("{}", c), x => x.kind() }),
            tags: vec![format!("op:{}", op), format!("w:{}", wclass(*w)), format!("res:{}", o.kind()), "stream:sweep".into()],
            nontrivial: true,
            key: format!("b{}:{}:{}:{}:{}", op, w, a, w, b),
        };
    }
    unreachable!()
}

fn gen_case(seed: u64, idx: u64) -> Case {
    // the first fifth of every run walks the boundary sweep (rotated by the seed), the rest is random
    let mut r = Rng::for_case(seed, idx);
    let r = &mut r;
    let kind = r.below(100);
    if kind < 45 {
        // Constant operator on two constants
        let op = *r.pick(&BINOPS);
        let w = if r.chance(1, 60) { 0 } else { width(r) };
        let malformed = r.chance(1, 12);
        let w2 = if malformed { width(r) } else { w };
        let a = value(r, w);
        let shift = matches!(op, "Shl" | "Shr" | "AShr");
        let b = if shift { amount(r, w2) } else if matches!(op, "Divu" | "Modu" | "Divs" | "Mods") && r.chance(1, 8) { BigUint::zero() } else { value(r, w2) };
        let (ca, cb) = (Constant::new_big(a.clone(), w), Constant::new_big(b.clone(), w2));
        let o = observe(|| apply_bin(op, &ca, &cb));
        let boundary = shift || ca.value() >= &(pow2(w.max(1) - 1)) || cb.is_zero();
        Case {
            coq: format!("KBin {} {} {} {} {} {}", op, w, z_big(&a), w2, z_big(&b), obs_c(&o)),
            descr: format!("{} {}:{} {}:{} => {}", op, a, w, b, w2, match &o { Obs::Ok(c) => format!("{}", c), x => x.kind() }),
            tags: vec![format!("op:{}", op), format!("w:{}", wclass(w)), format!("res:{}", o.kind()), if w != w2 { "stream:malformed".into() } else { "stream:valid".into() }],
            nontrivial: boundary && w >= 1,
            key: format!("b{}:{}:{}:{}:{}", op, w, a, w2, b),
        }
    } else if kind < 55 {
        let op = *r.pick(&EXTOPS);
        let w = width(r);
        let t = match r.below(6) { 0 => w, 1 => w + 1, 2 => w.saturating_sub(1), 3 => r.range(0, 300) as usize, _ => if op == "Trun" { r.range(1, w as u64) as usize } else { w + r.range(1, 100) as usize } };
        let a = value(r, w);
        let ca = Constant::new_big(a.clone(), w);
        let o = observe(|| match op { "Zext" => ca.zext(t), "Sext" => ca.sext(t), _ => ca.trun(t) });
        Case {
            coq: format!("KExt {} {} {} {} {}", op, t, w, z_big(&a), obs_c(&o)),
            descr: format!("{}.{} {}:{} => {}", op, t, a, w, match &o { Obs::Ok(c) => format!("{}", c), x => x.kind() }),
            tags: vec![format!("op:{}", op), format!("w:{}", wclass(w)), format!("res:{}", o.kind())],
            nontrivial: t % 8 != 0 || ca.value() >= &pow2(w - 1),
            key: format!("e{}:{}:{}:{}", op, t, w, a),
        }
    } else if kind < 90 {
        // expression tree through the public constructors, then eval
        let bad = r.chance(1, 8);
        let w = width(r);
        let scalars: Vec<(String, usize)> = if r.chance(1, 10) { vec![("s1".into(), w)] } else { vec![] };
        let d = r.range(1, 5) as u32;
        let t = gen_tree(r, w, d, &scalars, bad);
        let o = observe(|| eval(&t.build()?));
        Case {
            coq: format!("KEval {} {}", t.coq(), obs_c(&o)),
            descr: format!("eval {} => {}", t.build().map(|e| format!("{}", e)).unwrap_or_else(|_| "<construction error>".into()), match &o { Obs::Ok(c) => format!("{}", c), x => x.kind() }),
            tags: vec!["op:eval".into(), format!("w:{}", wclass(w)), format!("res:{}", o.kind()), format!("size:{}", t.size().min(40) / 5 * 5), if bad { "stream:malformed".into() } else { "stream:valid".into() }],
            nontrivial: t.size() >= 3,
            key: format!("v{}", t.coq()),
        }
    } else {
        // replace_scalar with a constant, then eval
        let w = width(r);
        let scalars: Vec<(String, usize)> = vec![("s1".into(), w), ("s2".into(), w)];
        let d = r.range(1, 4) as u32;
        let t = gen_tree(r, w, d, &scalars, false);
        let cw = if r.chance(1, 6) { width(r) } else { w };
        let v = value(r, cw);
        let c2 = value(r, w);
        let target = Scalar::new("s1", w);
        let o = observe(|| {
            let e = t.build()?;
            let e = e.replace_scalar(&target, &Expression::constant(Constant::new_big(v.clone(), cw)))?;
            let e = e.replace_scalar(&Scalar::new("s2", w), &Expression::constant(Constant::new_big(c2.clone(), w)))?;
            eval(&e)
        });
        Case {
            coq: format!("KReplace {} {} {} {} {} {}", t.coq(), w, z_big(&v), cw, z_big(&c2), obs_c(&o)),
            descr: format!("replace s1:{}:={}:{} s2:={} in {} => {}", w, v, cw, c2, t.build().map(|e| format!("{}", e)).unwrap_or_default(), match &o { Obs::Ok(c) => format!("{}", c), x => x.kind() }),
            tags: vec!["op:replace_scalar".into(), format!("w:{}", wclass(w)), format!("res:{}", o.kind())],
            nontrivial: t.size() >= 3,
            key: format!("r{}:{}:{}:{}", t.coq(), v, cw, c2),
        }
    }
}
fn wclass(w: usize) -> &'static str {
    match w { 0 => "0", 1 => "1", 2..=7 => "2-7", 8 => "8", 9..=31 => "9-31", 32 => "32", 33..=63 => "33-63", 64 => "64", 65..=127 => "65-127", 128 => "128", _ => "129+" }
}

fn main() {
    quiet_panics();
    let args = parse_args();
    let _ = il::const_(0, 1);
    let idxs: Vec<u64> = match args.only { Some(i) => vec![i], None => (0..args.n).collect() };
    let total = args.extra.get("total").and_then(|v| v.parse().ok()).unwrap_or(args.n);
    let sl = sweep_len();
    // sweep share: all of it when n allows (n/2 >= sweep), else a seed-rotated window of n/3 cases
    let share = if total / 2 >= sl { sl } else { total / 3 };
    let cases: Vec<Case> = idxs.iter().map(|i| {
        if *i < share { sweep_case((*i + args.seed.wrapping_mul(7919) % sl.max(1) * (if share < sl { 1 } else { 0 })) % sl) } else { gen_case(args.seed, *i) }
    }).collect();
    write_cases(&args, "C04", "From Coq Require Import ZArith List NArith.\nFrom Falcon Require Import Base.Res IL.Const IL.Expr IL.C04Check.\nImport ListNotations.\nLocal Open Scope Z_scope.", "ck", &cases, 16, serde_json::json!({}));
}
