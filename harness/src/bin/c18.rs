//! C18 harness: program locations (forward / backward / locations / apply / migrate / from_address /
//! from_function) on random programs of 1-3 functions.
use falcon::il::{self, ControlFlowGraph, Function, FunctionLocation, Program, ProgramLocation, RefFunctionLocation, RefProgramLocation};
use fvh::ilgen::*;
use fvh::*;

fn floc_of(l: &RefFunctionLocation) -> FunctionLocation {
    l.clone().into()
}
fn obs_locs(o: &Obs<Vec<FunctionLocation>>) -> String {
    o.coq(|v| coq_list(v.iter().map(coq_floc).collect::<Vec<_>>()))
}
fn obs_zf(o: &Obs<(i128, FunctionLocation)>) -> String {
    o.coq(|(k, l)| format!("({}, {})", z_i128(*k), coq_floc(l)))
}
fn fidx(f: &Function) -> i128 {
    f.index().map(|v| v as i128).unwrap_or(-1)
}
fn applied(r: RefProgramLocation) -> (i128, FunctionLocation) {
    (fidx(r.function()), floc_of(r.function_location()))
}

/// random function, then edits that the plain generator never produces: removed instructions
/// (non-contiguous index fields), re-addressed instructions (duplicates inside and across functions,
/// addresses outside the function's own range, missing addresses)
fn gen_fun(r: &mut Rng, base: u64, tags: &mut Vec<String>) -> Function {
    let mut o = GenOpts::default();
    o.max_blocks = *r.pick(&[1u64, 2, 4, 6]);
    o.max_instrs = *r.pick(&[1u64, 3, 5]);
    o.expr_depth = 1;
    o.unreachable = r.chance(1, 2);
    o.loops = r.chance(3, 4);
    o.intrinsics = r.chance(1, 4);
    o.branches = r.chance(1, 4);
    let address = base + r.below(40);
    let mut f = gen_function(r, &o, address);
    let bidx: Vec<usize> = f.blocks().iter().map(|b| b.index()).collect();
    let mut removed = 0;
    if r.chance(2, 3) {
        for bi in &bidx {
            let iidx: Vec<usize> = f.block(*bi).unwrap().instructions().iter().map(|i| i.index()).collect();
            for ii in iidx {
                if r.chance(1, 4) {
                    f.block_mut(*bi).unwrap().remove_instruction(ii).unwrap();
                    removed += 1;
                }
            }
        }
    }
    if removed > 0 {
        tags.push("edit:removed-instructions".into());
    }
    if r.chance(1, 2) {
        for bi in &bidx {
            for i in f.block_mut(*bi).unwrap().instructions_mut() {
                match r.below(8) {
                    0 => i.set_address(Some(base + r.below(48))),
                    1 => i.set_address(None),
                    _ => {}
                }
            }
        }
        tags.push("edit:readdressed".into());
    }
    // a function whose graph lost entry/exit (ControlFlowGraph::insert clears them)
    if r.chance(1, 12) {
        let mut g = ControlFlowGraph::new();
        g.insert(f.control_flow_graph()).unwrap();
        f = Function::new(address, g);
        tags.push("edit:no-entry".into());
    }
    f
}

fn rand_ploc(r: &mut Rng, nf: u64) -> ProgramLocation {
    let fi = match r.below(6) {
        0 => None,
        1 => Some(nf as usize),
        _ => Some(r.below(nf) as usize),
    };
    let fl = match r.below(3) {
        0 => FunctionLocation::Instruction(r.below(7) as usize, r.below(6) as usize),
        1 => FunctionLocation::Edge(r.below(7) as usize, r.below(7) as usize),
        _ => FunctionLocation::EmptyBlock(r.below(7) as usize),
    };
    ProgramLocation::new(fi, fl)
}

fn gen_case(seed: u64, idx: u64) -> Case {
    let mut rng = Rng::for_case(seed, idx);
    let r = &mut rng;
    let mut tags = vec![];
    let nf = r.range(1, 3);
    let base = 0x1000 + 4 * r.below(8);
    let fs: Vec<Function> = (0..nf).map(|_| gen_fun(r, base, &mut tags)).collect();
    let program: Program = program_of(fs);
    let clone = program.clone();
    let mut it = Interner::new();

    let mut fobs = vec![];
    let (mut nlocs, mut nempty, mut nedges) = (0usize, 0usize, 0usize);
    for f in program.functions() {
        let locs = f.locations();
        let mut fwd = vec![];
        let mut bwd = vec![];
        let mut same = vec![];
        let mut cl = vec![];
        let mut mig = vec![];
        for l in &locs {
            let rpl = RefProgramLocation::new(f, l.clone());
            fwd.push(observe(|| rpl.forward().map(|v| v.iter().map(|x| floc_of(x.function_location())).collect::<Vec<_>>())));
            bwd.push(observe(|| rpl.backward().map(|v| v.iter().map(|x| floc_of(x.function_location())).collect::<Vec<_>>())));
            let pl: ProgramLocation = rpl.clone().into();
            same.push(observe(|| pl.apply(&program).map(applied)));
            cl.push(observe(|| pl.apply(&clone).map(applied)));
            mig.push(observe(|| rpl.migrate(&clone).map(applied)));
            match l {
                RefFunctionLocation::EmptyBlock(_) => nempty += 1,
                RefFunctionLocation::Edge(_) => nedges += 1,
                _ => {}
            }
        }
        nlocs += locs.len();
        let ff = match observe_plain(|| RefProgramLocation::from_function(f)) {
            Some(None) => "None".to_string(),
            Some(Some(Ok(l))) => format!("(Some (Ok {}))", coq_ref_floc(l.function_location())),
            Some(Some(Err(e))) => format!("(Some (Err {}))", err_kind(&e)),
            None => "(Some Panic)".to_string(),
        };
        fobs.push(format!(
            "(mkfobs {} {} {} {} {} {} {})",
            coq_list(locs.iter().map(coq_ref_floc).collect::<Vec<_>>()),
            coq_list(fwd.iter().map(obs_locs).collect::<Vec<_>>()),
            coq_list(bwd.iter().map(obs_locs).collect::<Vec<_>>()),
            coq_list(same.iter().map(obs_zf).collect::<Vec<_>>()),
            coq_list(cl.iter().map(obs_zf).collect::<Vec<_>>()),
            coq_list(mig.iter().map(obs_zf).collect::<Vec<_>>()),
            ff
        ));
    }

    // arbitrary owned locations (most do not resolve): error paths of apply
    let xs: Vec<String> = (0..6)
        .map(|_| {
            let pl = rand_ploc(r, nf);
            let o = observe(|| pl.apply(&program).map(applied));
            format!("({}, {})", coq_ploc(&pl), obs_zf(&o))
        })
        .collect();

    // from_address over the whole address range +- 2
    let mut lo = u64::MAX;
    let mut hi = 0u64;
    for f in program.functions() {
        lo = lo.min(f.address());
        hi = hi.max(f.address());
        for b in f.blocks() {
            for i in b.instructions() {
                if let Some(a) = i.address() {
                    lo = lo.min(a);
                    hi = hi.max(a);
                }
            }
        }
    }
    let lo = lo - 2;
    let hi = (hi + 2).min(lo + 160);
    let mut addrs = vec![];
    let (mut hits, mut second_pass) = (0, 0);
    for a in lo..=hi {
        let o = observe_plain(|| {
            RefProgramLocation::from_address(&program, a).map(|l| (fidx(l.function()), floc_of(l.function_location()), l.address()))
        })
        .expect("from_address does not panic");
        if let Some((k, _, _)) = &o {
            hits += 1;
            // found in a function other than the closest one
            let closest = program.functions().iter().filter(|f| f.address() <= a).map(|f| f.address()).max();
            if program.function(*k as usize).map(|f| Some(f.address()) != closest).unwrap_or(false) {
                second_pass += 1;
            }
        }
        addrs.push(coq_opt(o.map(|(k, l, ad)| format!("({}, {}, {})", z_i128(k), coq_floc(&l), coq_optz(ad)))));
    }
    tags.push(format!("functions:{}", nf));
    tags.push(format!("locations:{}", (nlocs / 10) * 10));
    if nempty > 0 {
        tags.push("has:empty-block".into());
    }
    if second_pass > 0 {
        tags.push("from_address:second-pass-hit".into());
    }
    let coq = format!(
        "KProg {} {} {} {} {}",
        coq_program(&program, &mut it),
        coq_list(fobs),
        coq_list(xs),
        lo,
        coq_list(addrs)
    );
    let key = format!("{:x}", fxhash(&coq));
    Case {
        descr: format!(
            "program of {} function(s) at {:?}, {} locations ({} empty blocks, {} edges), from_address {:#x}..={:#x} ({} hits); regenerate with --seed {} --only {}",
            nf,
            program.functions().iter().map(|f| f.address()).collect::<Vec<_>>(),
            nlocs, nempty, nedges, lo, hi, hits, seed, idx
        ),
        coq,
        tags,
        nontrivial: nlocs >= 4 && nedges >= 1,
        key,
    }
}

fn fxhash(s: &str) -> u64 {
    let mut h: u64 = 0xcbf29ce484222325;
    for b in s.bytes() {
        h ^= b as u64;
        h = h.wrapping_mul(0x100000001b3);
    }
    h
}

fn main() {
    quiet_panics();
    let args = parse_args();
    let _ = il::const_(0, 1);
    let idxs: Vec<u64> = match args.only {
        Some(i) => vec![i],
        None => (0..args.n).collect(),
    };
    let cases: Vec<Case> = idxs.iter().map(|i| gen_case(args.seed, *i)).collect();
    write_cases(
        &args,
        "C18",
        "From Coq Require Import ZArith List NArith.\nFrom Falcon Require Import Base.Res IL.Const IL.Expr IL.Func IL.Loc IL.C18Check.\nImport ListNotations.\nLocal Open Scope Z_scope.",
        "ck",
        &cases,
        16,
        serde_json::json!({}),
    );
}
