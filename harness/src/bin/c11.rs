//! C11 harness: falcon::graph::Graph -- every public algorithm on exhaustively enumerated and random
//! digraphs, and edit histories (insert/remove vertex/edge, failing operations included) after each
//! step of which every public view is dumped.  Results are canonicalised (hash sets / maps sorted).
use falcon::graph::{Edge, Graph, Loop, NullEdge, NullVertex, Vertex};
use fvh::*;
use std::collections::BTreeSet;

const EXHAUSTIVE: u64 = 2 + 32 + 1536; // all digraphs on 1, 2, 3 vertices x every root

type G = Graph<NullVertex, NullEdge>;

// ------------------------------------------------------------------ printers
fn nl(v: &[usize]) -> String { coq_list(v.iter().map(|x| x.to_string())) }
fn el(v: &[(usize, usize)]) -> String { coq_list(v.iter().map(|(a, b)| format!("({}, {})", a, b))) }
fn adj(v: &[(usize, Vec<usize>)]) -> String { coq_list(v.iter().map(|(a, l)| format!("({}, {})", a, nl(l)))) }

type Dump = (Vec<usize>, Vec<(usize, usize)>, Vec<(usize, Vec<usize>)>, Vec<(usize, Vec<usize>)>);
fn dump<V: Vertex, E: Edge>(g: &Graph<V, E>) -> Result<Dump, falcon::Error> {
    let vs: Vec<usize> = g.vertices().iter().map(|v| v.index()).collect();
    let es: Vec<(usize, usize)> = g.edges().iter().map(|e| (e.head(), e.tail())).collect();
    let mut s = vec![];
    let mut p = vec![];
    for v in &vs {
        s.push((*v, g.successor_indices(*v)?));
    }
    for v in &vs {
        p.push((*v, g.predecessor_indices(*v)?));
    }
    Ok((vs, es, s, p))
}
fn dump_coq(d: &Dump) -> String { format!("({}, {}, {}, {})", nl(&d.0), el(&d.1), adj(&d.2), adj(&d.3)) }

fn sorted<I: IntoIterator<Item = usize>>(it: I) -> Vec<usize> {
    let mut v: Vec<usize> = it.into_iter().collect();
    v.sort();
    v
}
fn sorted_map<I: IntoIterator<Item = (usize, Vec<usize>)>>(it: I) -> Vec<(usize, Vec<usize>)> {
    let mut v: Vec<(usize, Vec<usize>)> = it.into_iter().collect();
    v.sort();
    v
}

fn build(vs: &[usize], es: &[(usize, usize)]) -> G {
    let mut g = G::new();
    for v in vs {
        g.insert_vertex(NullVertex::new(*v)).unwrap();
    }
    for (a, b) in es {
        g.insert_edge(NullEdge::new(*a, *b)).unwrap();
    }
    g
}

struct AlgRun {
    coq: String,
    kinds: Vec<(&'static str, String)>,
}
fn run_alg(g: &G, r: usize) -> AlgRun {
    let mut parts: Vec<String> = vec![];
    let mut kinds = vec![];
    macro_rules! rec {
        ($name:expr, $o:expr, $f:expr) => {{
            let o = $o;
            kinds.push(($name, o.kind()));
            parts.push(o.coq($f));
        }};
    }
    rec!("reach", observe(|| Ok(sorted(g.reachable_vertices(r)?))), |v| nl(v));
    rec!("unreach", observe(|| Ok(sorted(g.unreachable_vertices(r)?))), |v| nl(v));
    rec!("rm_unreach", observe(|| { let mut h = g.clone(); h.remove_unreachable_vertices(r)?; dump(&h) }), dump_coq);
    rec!("pre", observe(|| g.compute_pre_order(r)), |v| nl(v));
    rec!("post", observe(|| g.compute_post_order(r)), |v| nl(v));
    rec!("dfs", observe(|| dump(&g.compute_dfs_tree(r)?)), dump_coq);
    rec!("idom", observe(|| { let mut v: Vec<(usize, usize)> = g.compute_immediate_dominators(r)?.into_iter().collect(); v.sort(); Ok(v) }), |v| el(v));
    rec!("domtree", observe(|| dump(&g.compute_dominator_tree(r)?)), dump_coq);
    rec!("doms", observe(|| Ok(sorted_map(g.compute_dominators(r)?.into_iter().map(|(k, s)| (k, sorted(s)))))), |v| adj(v));
    rec!("df", observe(|| Ok(sorted_map(g.compute_dominance_frontiers(r)?.into_iter().map(|(k, s)| (k, sorted(s)))))), |v| adj(v));
    rec!("tpreds", observe(|| Ok(sorted_map(g.compute_predecessors()?.into_iter().map(|(k, s)| (k, sorted(s)))))), |v| adj(v));
    rec!("acyclic_g", observe(|| dump(&g.compute_acyclic(r)?)), dump_coq);
    rec!("is_acyclic", observe(|| Ok(g.is_acyclic(r))), |b| coq_bool(*b).to_string());
    rec!("reducible", observe(|| g.is_reducible(r)), |b| coq_bool(*b).to_string());
    let loops_coq = |ls: &Vec<Loop>| adj(&ls.iter().map(|l| (l.header(), l.nodes().iter().cloned().collect::<Vec<usize>>())).collect::<Vec<_>>());
    rec!("loops", observe(|| g.compute_loops(r)), loops_coq);
    rec!("looptree", observe(|| {
        let t = g.compute_loop_tree(r)?;
        let vs: Vec<Loop> = t.vertices().into_iter().cloned().collect();
        let d = dump(&t)?;
        Ok((vs, d))
    }), |(vs, d): &(Vec<Loop>, Dump)| format!("({}, {}, {}, {})", loops_coq(vs), el(&d.1), adj(&d.2), adj(&d.3)));
    rec!("topo", observe(|| g.compute_topological_ordering()), |v| nl(v));
    AlgRun { coq: format!("(mkObs {})", parts.join("\n    ")), kinds }
}

fn reachable_set(vs: &[usize], es: &[(usize, usize)], r: usize) -> BTreeSet<usize> {
    let mut seen = BTreeSet::new();
    if !vs.contains(&r) { return seen; }
    seen.insert(r);
    let mut stack = vec![r];
    while let Some(v) = stack.pop() {
        for (a, b) in es {
            if *a == v && seen.insert(*b) { stack.push(*b); }
        }
    }
    seen
}
fn has_cycle(vs: &[usize], es: &[(usize, usize)]) -> bool {
    vs.iter().any(|v| es.iter().any(|(a, b)| a == v && reachable_set(vs, es, *b).contains(v)))
}

fn alg_case(kind: &str, vs: Vec<usize>, es: Vec<(usize, usize)>, r: usize, mut tags: Vec<String>) -> Case {
    // minimisation protocol (`--keep p0,p1,..`): the graph was generated exactly as usual; its edges (in insertion
    // order) are the droppable elements -- vertices and root stay
    let nelems = es.len();
    let es: Vec<(usize, usize)> = es.into_iter().enumerate().filter(|(i, _)| kept(*i)).map(|(_, e)| e).collect();
    let g = build(&vs, &es);
    let run = run_alg(&g, r);
    let reach = reachable_set(&vs, &es, r);
    let unreach = vs.contains(&r) && reach.len() < vs.len();
    let cyc = has_cycle(&vs, &es);
    tags.push(format!("kind:{}", kind));
    tags.push(format!("n:{}", vs.len()));
    tags.push(format!("unreachable:{}", if !vs.contains(&r) { "root-missing" } else if unreach { "yes" } else { "no" }));
    tags.push(format!("cyclic:{}", cyc));
    for (n, k) in &run.kinds {
        if k != "ok" || *n == "topo" { tags.push(format!("{}:{}", n, k)); }
    }
    let input = format!("vs={:?} es={:?} root={}", vs, es, r);
    Case {
        coq: format!("(KAlg {} {} {}\n   {})%N", nl(&vs), el(&es), r, run.coq),
        descr: match keep_arg() { Some(k) => format!("[edges kept: {} of {}] graph {}", k, nelems, input), None => format!("graph {}", input) },
        tags,
        nontrivial: unreach || cyc || vs.len() >= 4,
        key: input,
    }.with_elements(nelems)
}

fn exhaustive_case(idx: u64) -> Case {
    let (n, k) = if idx < 2 { (1u64, idx) } else if idx < 34 { (2, idx - 2) } else { (3, idx - 34) };
    let mask = k / n;
    let root = (k % n) as usize;
    let vs: Vec<usize> = (0..n as usize).collect();
    let mut es = vec![];
    for a in 0..n {
        for b in 0..n {
            if (mask >> (a * n + b)) & 1 == 1 { es.push((a as usize, b as usize)); }
        }
    }
    alg_case("alg-exhaustive", vs, es, root, vec![])
}

fn pick_ids(r: &mut Rng, n: usize, tags: &mut Vec<String>) -> Vec<usize> {
    let mut ids: Vec<usize> = vec![];
    match r.below(10) {
        0..=2 => { ids = (0..n).collect(); tags.push("ids:contiguous".into()); }
        3..=5 => {
            let pool = [0usize, 7, 1000, 1 << 40, 3, 65535, 65536, (1 << 40) + 1, 12, 1 << 32, 99, 100, 5, 1 << 20, usize::MAX, usize::MAX - 1, 1 << 63];
            while ids.len() < n {
                let c = *r.pick(&pool);
                if !ids.contains(&c) { ids.push(c); }
            }
            tags.push("ids:sparse-pool".into());
        }
        _ => {
            while ids.len() < n {
                let c = match r.below(3) { 0 => r.below(64) as usize, 1 => r.below(1 << 20) as usize, _ => r.next() as usize };
                if !ids.contains(&c) { ids.push(c); }
            }
            tags.push("ids:random".into());
        }
    }
    // insertion order is not the key order
    for i in (1..ids.len()).rev() {
        let j = r.below(i as u64 + 1) as usize;
        ids.swap(i, j);
    }
    ids
}

fn random_alg_case(r: &mut Rng) -> Case {
    let mut tags = vec![];
    let n = match r.below(10) { 0 => r.range(1, 3), 1..=6 => r.range(4, 8), _ => r.range(9, 14) } as usize;
    let vs = pick_ids(r, n, &mut tags);
    let mut es: Vec<(usize, usize)> = vec![];
    let add = |es: &mut Vec<(usize, usize)>, a: usize, b: usize| { if !es.contains(&(a, b)) { es.push((a, b)); } };
    // base shape
    match r.below(4) {
        0 => { // sparse random
            let m = r.range(0, (2 * n) as u64);
            for _ in 0..m { let a = *r.pick(&vs); let b = *r.pick(&vs); if a != b || r.chance(1, 3) { add(&mut es, a, b); } }
            tags.push("shape:sparse".into());
        }
        1 => { // dense
            for a in &vs { for b in &vs { if r.chance(1, 3) && (a != b || r.chance(1, 4)) { add(&mut es, *a, *b); } } }
            tags.push("shape:dense".into());
        }
        2 => { // structured CFG-like: spine with branches and back edges
            for i in 0..n.saturating_sub(1) { add(&mut es, vs[i], vs[i + 1]); }
            let extra = r.range(0, n as u64);
            for _ in 0..extra {
                let i = r.below(n as u64) as usize; let j = r.below(n as u64) as usize;
                add(&mut es, vs[i], vs[j]);
            }
            tags.push("shape:spine".into());
        }
        _ => { // DAG-ish: edges mostly forward in list order
            for i in 0..n { for j in (i + 1)..n { if r.chance(1, 3) { add(&mut es, vs[i], vs[j]); } } }
            if r.chance(1, 3) { let i = r.below(n as u64) as usize; let j = r.below(n as u64) as usize; add(&mut es, vs[i], vs[j]); }
            tags.push("shape:dag".into());
        }
    }
    if r.chance(1, 3) { let a = *r.pick(&vs); add(&mut es, a, a); tags.push("forced:self-loop".into()); }
    let root = *r.pick(&vs);
    if n >= 3 && r.chance(2, 5) {
        // two-entry cycle: a -> b, a -> c, b <-> c
        let a = if r.chance(1, 2) { root } else { *r.pick(&vs) };
        let others: Vec<usize> = vs.iter().cloned().filter(|x| *x != a).collect();
        let b = *r.pick(&others);
        let others2: Vec<usize> = others.iter().cloned().filter(|x| *x != b).collect();
        let c = *r.pick(&others2);
        add(&mut es, a, b); add(&mut es, a, c); add(&mut es, b, c); add(&mut es, c, b);
        tags.push("forced:irreducible-core".into());
    }
    if r.chance(2, 5) {
        // root inside a loop
        let reach: Vec<usize> = reachable_set(&vs, &es, root).into_iter().collect();
        let a = *r.pick(&reach);
        add(&mut es, a, root);
        tags.push("forced:root-in-loop".into());
    }
    if n >= 2 && r.chance(2, 5) {
        // unreachable component: no edge may enter U from outside
        let k = r.range(1, (n as u64 - 1).min(4)) as usize;
        let mut u: Vec<usize> = vec![];
        while u.len() < k { let c = *r.pick(&vs); if c != root && !u.contains(&c) { u.push(c); } }
        es.retain(|(a, b)| !(u.contains(b) && !u.contains(a)));
        // make sure the component touches the rest and has inner structure
        let outside: Vec<usize> = vs.iter().cloned().filter(|x| !u.contains(x)).collect();
        let a = *r.pick(&u); let b = *r.pick(&outside);
        add(&mut es, a, b);
        if r.chance(1, 2) { let a2 = *r.pick(&u); add(&mut es, a2, root); }
        if u.len() >= 2 && r.chance(1, 2) { add(&mut es, u[0], u[1]); add(&mut es, u[1], u[0]); }
        tags.push("forced:unreachable-component".into());
    }
    let root = if r.chance(1, 40) { let mut x = r.below(50) as usize; while vs.contains(&x) { x += 1; } x } else { root };
    // edge insertion order is not the key order
    for i in (1..es.len()).rev() {
        let j = r.below(i as u64 + 1) as usize;
        es.swap(i, j);
    }
    alg_case("alg-random", vs, es, root, tags)
}

// ------------------------------------------------------------------ edit histories
#[derive(Clone, Debug, PartialEq)]
struct TV { index: usize, tag: u64 }
impl Vertex for TV {
    fn index(&self) -> usize { self.index }
    fn dot_label(&self) -> String { String::new() }
}
#[derive(Clone, Debug, PartialEq)]
struct TE { head: usize, tail: usize, tag: u64 }
impl Edge for TE {
    fn head(&self) -> usize { self.head }
    fn tail(&self) -> usize { self.tail }
    fn dot_label(&self) -> String { String::new() }
}
type TG = Graph<TV, TE>;

fn tv(v: &TV) -> String { format!("({}, {})", v.index, v.tag) }
fn te(e: &TE) -> String { format!("({}, {}, {})", e.head, e.tail, e.tag) }

fn res_coq<T>(r: Result<T, falcon::Error>, f: impl Fn(&T) -> String) -> String {
    match r { Ok(t) => format!("(Ok {})", f(&t)), Err(e) => format!("(Err {})", err_kind(&e)) }
}

fn views(g: &TG, pool: &[usize]) -> Result<String, falcon::Error> {
    let vs: Vec<&TV> = g.vertices();
    let ks: Vec<usize> = vs.iter().map(|v| v.index).collect();
    let mut per = |f: &dyn Fn(usize) -> Result<String, falcon::Error>| -> Result<String, falcon::Error> {
        let mut out = vec![];
        for k in &ks { out.push(format!("({}, {})", k, f(*k)?)); }
        Ok(coq_list(out))
    };
    let s = per(&|k| Ok(nl(&g.successor_indices(k)?)))?;
    let p = per(&|k| Ok(nl(&g.predecessor_indices(k)?)))?;
    let sv = per(&|k| Ok(coq_list(g.successors(k)?.iter().map(|v| tv(v)))))?;
    let pv = per(&|k| Ok(coq_list(g.predecessors(k)?.iter().map(|v| tv(v)))))?;
    let eo = per(&|k| Ok(coq_list(g.edges_out(k)?.iter().map(|e| te(e)))))?;
    let ei = per(&|k| Ok(coq_list(g.edges_in(k)?.iter().map(|e| te(e)))))?;
    let np = coq_list(g.vertices_without_predecessors().iter().map(|v| tv(v)));
    let ns = coq_list(g.vertices_without_successors().iter().map(|v| tv(v)));
    // probes of the pool ids that are not vertices: every answer must be an error
    let probes = coq_list(pool.iter().filter(|k| !g.has_vertex(**k)).map(|k| {
        format!("({}, ({}, {}, {}, {}))", k,
            res_coq(g.edges_in(*k), |v| coq_list(v.iter().map(|e| te(e)))),
            res_coq(g.edges_out(*k), |v| coq_list(v.iter().map(|e| te(e)))),
            res_coq(g.successor_indices(*k), |v| nl(v)),
            res_coq(g.predecessor_indices(*k), |v| nl(v)))
    }));
    // canonical representation: equal (derived PartialEq over the four maps) to the graph rebuilt from its views
    let mut g2 = TG::new();
    for v in g.vertices() { g2.insert_vertex(v.clone())?; }
    for e in g.edges() { g2.insert_edge(e.clone())?; }
    let canon = *g == g2;
    Ok(format!("(mkViews {} {} {} {} {} {} {} {} {} {} {} {} {})", g.num_vertices(),
        coq_list(vs.iter().map(|v| tv(v))), coq_list(g.edges().iter().map(|e| te(e))), s, p, sv, pv, eo, ei, np, ns, probes, coq_bool(canon)))
}

fn hist_case(r: &mut Rng) -> Case {
    let nops = r.range(1, 40) as usize;
    let mut t = vec![];
    let npool = r.range(2, 6) as usize;
    let pool = pick_ids(r, npool, &mut t);
    let mut g = TG::new();
    let mut ops = vec![];
    let mut obs = vec![];
    let mut descr = vec![];
    let mut fails = 0;
    let mut rich_removals = 0;
    let mut recs: Vec<HOp> = vec![]; // the concrete operations, for the minimisation protocol (hist_replay)
    for step in 0..nops {
        let tag = step as u64 + 1;
        let k = r.below(100);
        // early steps favour insertions so that there is something to remove
        let k = if step < 3 && k >= 65 { k % 65 } else { k };
        let (opc, opd): (String, String);
        let res: Obs<()>;
        if k < 25 {
            let i = *r.pick(&pool);
            opc = format!("OInsV {} {}", i, tag); opd = format!("+v{}", i);
            recs.push(HOp::InsV(i, tag));
            res = observe(|| g.insert_vertex(TV { index: i, tag }));
        } else if k < 65 {
            let h = *r.pick(&pool); let tl = *r.pick(&pool);
            opc = format!("OInsE {} {} {}", h, tl, tag); opd = format!("+e{}>{}", h, tl);
            recs.push(HOp::InsE(h, tl, tag));
            res = observe(|| g.insert_edge(TE { head: h, tail: tl, tag }));
        } else if k < 80 {
            let i = *r.pick(&pool);
            opc = format!("ORemV {}", i); opd = format!("-v{}", i);
            recs.push(HOp::RemV(i));
            let deg = g.edges_out(i).map(|v| v.len()).unwrap_or(0) + g.edges_in(i).map(|v| v.len()).unwrap_or(0);
            if deg > 0 { rich_removals += 1; }
            res = observe(|| g.remove_vertex(i));
        } else {
            // mostly an existing edge
            let existing: Vec<(usize, usize)> = g.edges().iter().map(|e| (e.head, e.tail)).collect();
            let (h, tl) = if !existing.is_empty() && r.chance(3, 4) { *r.pick(&existing) } else { (*r.pick(&pool), *r.pick(&pool)) };
            opc = format!("ORemE {} {}", h, tl); opd = format!("-e{}>{}", h, tl);
            recs.push(HOp::RemE(h, tl));
            res = observe(|| g.remove_edge(h, tl));
        }
        if res.kind() != "ok" { fails += 1; }
        let w = observe(|| views(&g, &pool));
        ops.push(opc);
        descr.push(format!("{}:{}", opd, res.kind()));
        obs.push(format!("({}, {})", res.coq(|_| "tt".to_string()), w.coq(|s| s.clone())));
    }
    if keep().is_some() { return hist_replay(pool, t, recs); }
    t.push("kind:history".into());
    t.push(format!("ops:{}", nops / 10 * 10));
    t.push(format!("failing-ops:{}", if fails == 0 { "0" } else if fails < 5 { "1-4" } else { "5+" }));
    t.push(format!("removals-with-incident-edges:{}", rich_removals.min(3)));
    Case {
        coq: format!("(KHist {} {}\n   {})%N", nl(&pool), coq_list(ops.iter().cloned()), coq_list(obs.iter().cloned())),
        descr: format!("history pool={:?} {}", pool, descr.join(" ")),
        tags: t,
        nontrivial: fails > 0 || rich_removals > 0,
        key: format!("{:?} {:?}", pool, ops),
    }.with_elements(nops)
}

/// minimisation protocol (`--keep p0,p1,..`).  Generation of a history looks at the graph built so far (removals
/// pick an existing edge), so `hist_case` first runs the whole history exactly as usual and records the concrete
/// operations (payload tags included); the kept ones are then run again here, from an empty graph, and observed.
/// `--keep all` must reproduce the case of the normal run.
#[derive(Clone)]
enum HOp { InsV(usize, u64), InsE(usize, usize, u64), RemV(usize), RemE(usize, usize) }
fn hist_replay(pool: Vec<usize>, mut t: Vec<String>, recs: Vec<HOp>) -> Case {
    let nelems = recs.len();
    let mut g = TG::new();
    let (mut ops, mut obs, mut descr) = (vec![], vec![], vec![]);
    let (mut fails, mut rich_removals) = (0, 0);
    for op in recs.into_iter().enumerate().filter(|(i, _)| kept(*i)).map(|(_, o)| o) {
        let (opc, opd): (String, String);
        let res: Obs<()>;
        match op {
            HOp::InsV(i, tag) => {
                opc = format!("OInsV {} {}", i, tag); opd = format!("+v{}", i);
                res = observe(|| g.insert_vertex(TV { index: i, tag }));
            }
            HOp::InsE(h, tl, tag) => {
                opc = format!("OInsE {} {} {}", h, tl, tag); opd = format!("+e{}>{}", h, tl);
                res = observe(|| g.insert_edge(TE { head: h, tail: tl, tag }));
            }
            HOp::RemV(i) => {
                opc = format!("ORemV {}", i); opd = format!("-v{}", i);
                let deg = g.edges_out(i).map(|v| v.len()).unwrap_or(0) + g.edges_in(i).map(|v| v.len()).unwrap_or(0);
                if deg > 0 { rich_removals += 1; }
                res = observe(|| g.remove_vertex(i));
            }
            HOp::RemE(h, tl) => {
                opc = format!("ORemE {} {}", h, tl); opd = format!("-e{}>{}", h, tl);
                res = observe(|| g.remove_edge(h, tl));
            }
        }
        if res.kind() != "ok" { fails += 1; }
        let w = observe(|| views(&g, &pool));
        ops.push(opc);
        descr.push(format!("{}:{}", opd, res.kind()));
        obs.push(format!("({}, {})", res.coq(|_| "tt".to_string()), w.coq(|s| s.clone())));
    }
    t.push("kind:history".into());
    t.push(format!("ops:{}", ops.len() / 10 * 10));
    t.push(format!("failing-ops:{}", if fails == 0 { "0" } else if fails < 5 { "1-4" } else { "5+" }));
    t.push(format!("removals-with-incident-edges:{}", rich_removals.min(3)));
    Case {
        coq: format!("(KHist {} {}\n   {})%N", nl(&pool), coq_list(ops.iter().cloned()), coq_list(obs.iter().cloned())),
        descr: format!("[operations kept: {} of {}] history pool={:?} {}", keep_arg().unwrap_or_default(), nelems, pool, descr.join(" ")),
        tags: t,
        nontrivial: fails > 0 || rich_removals > 0,
        key: format!("{:?} {:?}", pool, ops),
    }.with_elements(nelems)
}

/// Position in the case list -> logical case index.  Three of every four positions are taken by the
/// exhaustive enumeration (logical 0..EXHAUSTIVE) until it is used up (position 2094), the others by the
/// random stream (logical EXHAUSTIVE..): the cheap and the expensive cases are spread over all shards.
fn logical(pos: u64) -> u64 {
    let a = 3 * (pos / 4) + (pos % 4).min(3);
    if pos % 4 < 3 && a < EXHAUSTIVE { a } else { EXHAUSTIVE + pos - a.min(EXHAUSTIVE) }
}

/// Fixed cases, the same at every seed (logical indices EXHAUSTIVE..EXHAUSTIVE+NFIXED): the largest vertex id
/// usize::MAX (a tempting "no vertex" sentinel), 2-cycles (a neighbour that is both successor and predecessor),
/// and their combinations, as algorithm cases from every root and as edit histories that remove such vertices.
const M: usize = usize::MAX;
fn fixed_graphs() -> Vec<(Vec<usize>, Vec<(usize, usize)>)> {
    vec![
        (vec![0, M], vec![(0, M), (M, 0)]),
        (vec![M], vec![(M, M)]),
        (vec![M, M - 1, 5], vec![(M, M - 1), (M - 1, M), (M - 1, 5), (5, M)]),
        (vec![1, 2, 3], vec![(1, 2), (2, 1), (2, 3), (3, 2)]),
        (vec![0, 1, 2, M], vec![(0, 1), (1, 0), (0, M), (M, 2), (2, M), (1, 2)]),
        (vec![0, 1, M], vec![(0, 1), (1, 0), (M, 1), (M, M)]),
        (vec![3, M, 7, 0, 9], vec![(3, M), (M, 7), (7, M), (M, 0), (0, 9), (9, 0), (9, 3), (7, 9)]),
        (vec![0, 1, 2, 3, 4, M], vec![(0, 1), (1, 2), (2, 3), (3, 4), (4, M), (M, 0), (2, 1), (4, 3), (M, 4), (1, M)]),
    ]
}
fn fixed_histories() -> Vec<(Vec<usize>, Vec<HOp>)> {
    use HOp::*;
    vec![
        (vec![0, M], vec![InsV(0, 1), InsV(M, 2), InsE(0, M, 3), InsE(M, 0, 4), RemV(0), InsV(0, 6), InsE(0, M, 7), RemE(M, 0), RemV(M), RemV(M)]),
        (vec![1, 2, 3], vec![InsV(1, 1), InsV(2, 2), InsV(3, 3), InsE(1, 2, 4), InsE(2, 1, 5), InsE(1, 1, 6), InsE(3, 1, 7), InsE(1, 3, 8),
                             RemV(1), InsV(1, 10), InsE(2, 1, 11), RemE(1, 2), RemV(2), RemV(3), RemV(1)]),
        (vec![M, M - 1, 4], vec![InsV(M, 1), InsE(M, M, 2), InsV(M - 1, 3), InsE(M, M - 1, 4), InsE(M - 1, M, 5), InsV(4, 6), InsE(4, M, 7),
                                 InsE(M, 4, 8), InsE(4, M, 9), RemV(M), RemE(4, M), InsV(M, 12), RemV(M - 1), RemV(4), RemV(M)]),
    ]
}
fn n_fixed() -> u64 {
    fixed_graphs().iter().map(|(vs, _)| vs.len() as u64).sum::<u64>() + fixed_histories().len() as u64
}
fn fixed_case(k: u64) -> Case {
    let mut k = k;
    for (vs, es) in fixed_graphs() {
        if k < vs.len() as u64 {
            let root = vs[k as usize];
            return alg_case("alg-fixed", vs, es, root, vec!["fixed:usize-max-or-2-cycle".into()]);
        }
        k -= vs.len() as u64;
    }
    let (pool, ops) = fixed_histories().swap_remove(k as usize);
    hist_replay(pool, vec!["fixed:usize-max-or-2-cycle".into()], ops)
}

fn gen_case(seed: u64, pos: u64) -> Case {
    let idx = logical(pos);
    if idx < EXHAUSTIVE { return exhaustive_case(idx); }
    if idx < EXHAUSTIVE + n_fixed() { return fixed_case(idx - EXHAUSTIVE); }
    let mut r = Rng::for_case(seed, idx);
    if idx % 10 < 7 { random_alg_case(&mut r) } else { hist_case(&mut r) }
}

fn main() {
    quiet_panics();
    let args = parse_args();
    let idxs: Vec<u64> = match args.only { Some(i) => vec![i], None => (0..args.n).collect() };
    let cases: Vec<Case> = idxs.iter().map(|i| gen_case(args.seed, *i)).collect();
    // vcheck gives every shard 900 s of coqc: keep shards at <= 500 cases (~80 s CPU) however large the run is
    let shards = std::cmp::max(16, (cases.len() + 499) / 500);
    write_cases(&args, "C11",
        "From Coq Require Import NArith List.\nFrom Falcon Require Import Base.Res Graph.C11Check.\nImport ListNotations.",
        "ck", &cases, shards, serde_json::json!({"exhaustive_prefix": EXHAUSTIVE}));
}
