//! fvh -- shared pieces of the verification harness: PRNG, Gallina printers, case-file writer.
use num_bigint::BigUint;
use num_traits::{One, Zero};
use std::collections::BTreeMap;
use std::fmt::Write as _;
use std::io::Write as _;
use std::panic::{catch_unwind, AssertUnwindSafe};

pub mod ilgen;

// ---------------------------------------------------------------- PRNG (xoshiro256**, no crate)
#[derive(Clone)]
pub struct Rng {
    s: [u64; 4],
}
fn splitmix(x: &mut u64) -> u64 {
    *x = x.wrapping_add(0x9E3779B97F4A7C15);
    let mut z = *x;
    z = (z ^ (z >> 30)).wrapping_mul(0xBF58476D1CE4E5B9);
    z = (z ^ (z >> 27)).wrapping_mul(0x94D049BB133111EB);
    z ^ (z >> 31)
}
impl Rng {
    pub fn new(seed: u64) -> Rng {
        let mut x = seed;
        Rng { s: [splitmix(&mut x), splitmix(&mut x), splitmix(&mut x), splitmix(&mut x)] }
    }
    /// independent stream for case `index` of run `seed`
    pub fn for_case(seed: u64, index: u64) -> Rng {
        Rng::new(seed.wrapping_mul(0x2545F4914F6CDD1D) ^ index.wrapping_mul(0x9E3779B97F4A7C15) ^ 0xD1B54A32D192ED03)
    }
    pub fn next(&mut self) -> u64 {
        let r = self.s[1].wrapping_mul(5).rotate_left(7).wrapping_mul(9);
        let t = self.s[1] << 17;
        self.s[2] ^= self.s[0];
        self.s[3] ^= self.s[1];
        self.s[1] ^= self.s[2];
        self.s[0] ^= self.s[3];
        self.s[2] ^= t;
        self.s[3] = self.s[3].rotate_left(45);
        r
    }
    pub fn below(&mut self, n: u64) -> u64 {
        if n == 0 { 0 } else { self.next() % n }
    }
    pub fn range(&mut self, lo: u64, hi: u64) -> u64 {
        lo + self.below(hi - lo + 1)
    }
    pub fn chance(&mut self, num: u64, den: u64) -> bool {
        self.below(den) < num
    }
    pub fn pick<'a, T>(&mut self, v: &'a [T]) -> &'a T {
        &v[self.below(v.len() as u64) as usize]
    }
    /// uniformly random value below 2^bits
    pub fn big(&mut self, bits: usize) -> BigUint {
        let mut v = BigUint::zero();
        let mut got = 0;
        while got < bits {
            v = (v << 64usize) | BigUint::from(self.next());
            got += 64;
        }
        v & ((BigUint::one() << bits) - BigUint::one())
    }
}

// ---------------------------------------------------------------- Gallina printers
pub fn z_big(v: &BigUint) -> String {
    format!("{}", v)
}
pub fn z_i128(v: i128) -> String {
    if v < 0 { format!("({})", v) } else { format!("{}", v) }
}
pub fn n_lit(v: u64) -> String {
    format!("{}%N", v)
}
pub fn coq_list<I: IntoIterator<Item = String>>(it: I) -> String {
    let v: Vec<String> = it.into_iter().collect();
    format!("[{}]", v.join("; "))
}
pub fn coq_opt(o: Option<String>) -> String {
    match o {
        Some(s) => format!("(Some {})", s),
        None => "None".to_string(),
    }
}
pub fn coq_bool(b: bool) -> &'static str {
    if b { "true" } else { "false" }
}

/// the small error enum of Base/Res.v
pub fn err_kind(e: &falcon::Error) -> &'static str {
    use falcon::Error::*;
    match e {
        Sort => "ESort",
        DivideByZero => "EDivZero",
        ExecutorScalar(_) => "EExecScalar",
        TooManyAddressBits => "EAddrBits",
        AccessUnmappedMemory(_) => "EUnmapped",
        ExecutorNoValidLocation => "ENoLocation",
        ExecutorNoEdgeCondition => "ENoEdgeCond",
        UnhandledIntrinsic(_) => "EIntrinsic",
        FixedPointMaxSteps => "EMaxSteps",
        FixedPointOrdering(_, _) => "EOrdering",
        FixedPointRequiresEntry | ControlFlowGraphEntryExitNotFound => "ENoEntry",
        FixedPointRequiresExit => "ENoExit",
        GraphVertexNotFound(_) => "EGraphVertex",
        GraphEdgeNotFound(_, _) => "EGraphEdge",
        Custom(_) => "ECustom",
        ExecutorInvalidAddress => "EInvalidAddress",
        _ => "EOther",
    }
}

/// Outcome of running a piece of the implementation under catch_unwind
pub enum Obs<T> {
    Ok(T),
    Err(&'static str),
    Panic,
}
impl<T> Obs<T> {
    pub fn coq(&self, f: impl Fn(&T) -> String) -> String {
        match self {
            Obs::Ok(t) => format!("(Ok {})", f(t)),
            Obs::Err(k) => format!("(Err {})", k),
            Obs::Panic => "Panic".to_string(),
        }
    }
    pub fn kind(&self) -> String {
        match self {
            Obs::Ok(_) => "ok".into(),
            Obs::Err(k) => (*k).into(),
            Obs::Panic => "panic".into(),
        }
    }
}
pub fn observe<T>(f: impl FnOnce() -> Result<T, falcon::Error>) -> Obs<T> {
    match catch_unwind(AssertUnwindSafe(f)) {
        Ok(Ok(t)) => Obs::Ok(t),
        Ok(Err(e)) => Obs::Err(err_kind(&e)),
        Err(_) => Obs::Panic,
    }
}
pub fn observe_plain<T>(f: impl FnOnce() -> T) -> Option<T> {
    catch_unwind(AssertUnwindSafe(f)).ok()
}
pub fn quiet_panics() {
    std::panic::set_hook(Box::new(|_| {}));
}

// ---------------------------------------------------------------- case files
pub struct Case {
    /// Gallina term of the property's `case` type (inputs + observed results)
    pub coq: String,
    /// short human-readable rendering for evidence samples / replay files
    pub descr: String,
    /// classification tags (distribution histogram; known-finding classes)
    pub tags: Vec<String>,
    /// non-trivial by the property's stated rule
    pub nontrivial: bool,
    /// canonical key for the distinct count
    pub key: String,
}

// ---------------------------------------------------------------- minimisation protocol (notes/minimisation.md)
// A harness that supports minimisation regenerates case `--only <idx>` exactly as usual (same Rng stream), then
// DROPS every element (operation of a history, edge of a graph, ...) whose position is not in `--keep p0,p1,...`
// before running the implementation.  `Case` keeps its five fields (every harness builds it with an exhaustive
// struct literal), so the element count travels as one reserved tag which `write_cases` strips again and emits as
// `meta.json: "elements": [n | null per case]`.
const ELEMENTS_TAG: &str = "#elements=";
impl Case {
    /// declare that this case was built from `n` droppable elements (positions 0..n)
    pub fn with_elements(mut self, n: usize) -> Case {
        self.tags.retain(|t| !t.starts_with(ELEMENTS_TAG));
        self.tags.push(format!("{}{}", ELEMENTS_TAG, n));
        self
    }
    pub fn elements(&self) -> Option<usize> {
        self.tags.iter().find_map(|t| t.strip_prefix(ELEMENTS_TAG).and_then(|n| n.parse().ok()))
    }
}
/// `--keep`: None = not given (keep everything, the normal run); `all` = every position, but through the
/// harness' dropping code path (self-test: must reproduce the normal case); `none` or a comma-separated list.
pub enum Keep { All, Only(std::collections::BTreeSet<usize>) }
pub fn keep() -> Option<&'static Keep> {
    static K: std::sync::OnceLock<Option<Keep>> = std::sync::OnceLock::new();
    K.get_or_init(|| {
        let v: Vec<String> = std::env::args().collect();
        let p = v.iter().position(|a| a == "--keep")?;
        let s = v.get(p + 1).cloned().unwrap_or_default();
        Some(if s == "all" { Keep::All } else { Keep::Only(s.split(',').filter_map(|x| x.trim().parse().ok()).collect()) })
    }).as_ref()
}
/// is element `pos` kept?  (always true without `--keep`)
pub fn kept(pos: usize) -> bool {
    match keep() { None | Some(Keep::All) => true, Some(Keep::Only(s)) => s.contains(&pos) }
}
/// the `--keep` argument as given (for descriptions / passing on to child processes)
pub fn keep_arg() -> Option<String> {
    let v: Vec<String> = std::env::args().collect();
    let p = v.iter().position(|a| a == "--keep")?;
    Some(v.get(p + 1).cloned().unwrap_or_default())
}

/// "[<kind> kept: 3,7 of 12] " for the description of a reduced case, "" in a normal run
pub fn keep_prefix(kind: &str, n: usize) -> String {
    match keep_arg() { Some(k) => format!("[{} kept: {} of {}] ", kind, k, n), None => String::new() }
}
/// IL-program cases: an element is one INSTRUCTION of the generated function (position = `base` + running index over
/// the blocks in order).  A dropped instruction is REPLACED BY `nop`: block indices, instruction indices, edges and
/// addresses stay, so initial states, location-keyed tables and everything drawn later from the Rng stay meaningful.
/// Returns the number of instructions of `f` (the caller adds it to `base` for the next function of a program).
pub fn nop_dropped(f: &mut falcon::il::Function, base: usize) -> usize {
    let bidx: Vec<usize> = f.blocks().iter().map(|b| b.index()).collect();
    let mut pos = base;
    for bi in bidx {
        let b = f.block_mut(bi).unwrap();
        for ins in b.instructions_mut().iter_mut() {
            if !kept(pos) { *ins.operation_mut() = falcon::il::Operation::nop(); }
            pos += 1;
        }
    }
    pos - base
}
pub fn instr_count(f: &falcon::il::Function) -> usize {
    f.blocks().iter().map(|b| b.instructions().len()).sum()
}

pub struct Args {
    pub seed: u64,
    pub n: u64,
    pub out: String,
    pub only: Option<u64>,
    pub extra: BTreeMap<String, String>,
}
pub fn parse_args() -> Args {
    let mut a = Args { seed: 1, n: 100, out: ".".into(), only: None, extra: BTreeMap::new() };
    let v: Vec<String> = std::env::args().collect();
    let mut i = 1;
    while i < v.len() {
        let k = v[i].trim_start_matches("--").to_string();
        let val = v.get(i + 1).cloned().unwrap_or_default();
        match k.as_str() {
            "seed" => a.seed = val.parse().unwrap(),
            "n" => a.n = val.parse().unwrap(),
            "out" => a.out = val,
            "only" => a.only = Some(val.parse().unwrap()),
            _ => {
                a.extra.insert(k, val);
            }
        }
        i += 2;
    }
    a
}

/// Writes `cases_<k>.v` shards and `meta.json`.
/// `header`  : Require/Import lines;  `ck` : name of the Gallina checker `case -> bool * bool`
/// (first component: model = observed, second: observed satisfies the specification).
pub fn write_cases(args: &Args, prop: &str, header: &str, ck: &str, cases: &[Case], shards: usize, extra_meta: serde_json::Value) {
    std::fs::create_dir_all(&args.out).unwrap();
    for e in std::fs::read_dir(&args.out).unwrap().flatten() {
        let n = e.file_name().to_string_lossy().to_string();
        if n.starts_with("cases_") { let _ = std::fs::remove_file(e.path()); }
    }
    let per = (cases.len() + shards - 1) / shards.max(1);
    let per = per.max(1);
    let mut shard_info = vec![];
    for (k, chunk) in cases.chunks(per).enumerate() {
        let mut s = String::new();
        writeln!(s, "(* generated by fvh {} seed={} -- do not edit *)", prop, args.seed).unwrap();
        writeln!(s, "{}", header).unwrap();
        let mut defs = vec![];
        for (j, sub) in chunk.chunks(25).enumerate() {
            writeln!(s, "Definition r{} := Eval vm_compute in (map {} [", j, ck).unwrap();
            for (i, c) in sub.iter().enumerate() {
                writeln!(s, "  {}{}", c.coq, if i + 1 < sub.len() { ";" } else { "" }).unwrap();
            }
            writeln!(s, "]).").unwrap();
            defs.push(format!("r{}", j));
        }
        writeln!(s, "Definition all := Eval vm_compute in ({}).", defs.join(" ++ ")).unwrap();
        writeln!(s, "Definition TIE_FAIL := Eval vm_compute in (failing (map fst all)).").unwrap();
        writeln!(s, "Definition ORACLE_FAIL := Eval vm_compute in (failing (map snd all)).").unwrap();
        writeln!(s, "Definition COUNT := Eval vm_compute in (N.of_nat (length all)).").unwrap();
        writeln!(s, "Print TIE_FAIL. Print ORACLE_FAIL. Print COUNT.").unwrap();
        let name = format!("cases_{}.v", k);
        std::fs::File::create(format!("{}/{}", args.out, name)).unwrap().write_all(s.as_bytes()).unwrap();
        shard_info.push(serde_json::json!({"file": name, "offset": k * per, "count": chunk.len()}));
    }
    let mut hist: BTreeMap<String, u64> = BTreeMap::new();
    let mut keys = std::collections::BTreeSet::new();
    let real = |t: &&String| !t.starts_with(ELEMENTS_TAG);
    for c in cases {
        for t in c.tags.iter().filter(real) { *hist.entry(t.clone()).or_insert(0) += 1; }
        if c.nontrivial { keys.insert(c.key.clone()); }
    }
    let mut meta = serde_json::json!({
        "property": prop, "seed": args.seed, "cases": cases.len(), "shards": shard_info,
        "distribution": hist, "distinct_nontrivial": keys.len(),
        "samples": cases.iter().take(3).map(|c| c.descr.clone()).collect::<Vec<_>>(),
        "descr": cases.iter().map(|c| c.descr.clone()).collect::<Vec<_>>(),
        "tags": cases.iter().map(|c| c.tags.iter().filter(real).cloned().collect::<Vec<_>>()).collect::<Vec<_>>(),
        "extra": extra_meta,
    });
    if cases.iter().any(|c| c.elements().is_some()) {
        // minimisation protocol: number of droppable elements per case (null = the case has no element list)
        meta["elements"] = serde_json::json!(cases.iter().map(|c| c.elements()).collect::<Vec<_>>());
    }
    std::fs::write(format!("{}/meta.json", args.out), serde_json::to_string(&meta).unwrap()).unwrap();
}
