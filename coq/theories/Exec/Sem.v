(* Exec/Sem.v -- the IL's operational semantics, written from the IL documentation (NOT from the
   executor): this is what "execution" means in properties C07, C10, C12, C13, C14, C17.
   Executable (a function), so that oracles can run it inside the kernel; C07 proves the model of
   executor::Driver refines it.  Definitions only.

   * scalars: environment keyed by (name, ssa version); a read of `x:w` whose stored value has a
     different width is a sort error (never happens under wf_names).
   * memory: a byte map; multi-byte values in the memory's endianness; a load fails (Unmapped) iff
     some byte of the range is absent; addresses are 64-bit (an index value >= 2^64 is AddressTooWide).
   * control: after an instruction the unique successor location is taken: the next instruction of
     the block, or the out-edge whose guard denotes 1 (an unguarded edge is always enabled). *)
From Coq Require Import ZArith List Bool NArith.
From Falcon Require Import Base.Res IL.Const IL.ConstSpec IL.Expr IL.ExprSpec IL.Func IL.Loc.
Import ListNotations.
Local Open Scope Z_scope.

(* ---------- scalar environment ---------- *)
Definition skey := (N * option N)%type.
Definition skey_of (s : scalar) : skey := (sname s, sssa s).
Definition skey_eqb (a b : skey) : bool := N.eqb (fst a) (fst b) && optN_eqb (snd a) (snd b).
Definition senv := list (skey * const).
Fixpoint env_get (en : senv) (k : skey) : option const :=
  match en with [] => None | (k', v) :: t => if skey_eqb k' k then Some v else env_get t k end.
Fixpoint env_set (en : senv) (k : skey) (v : const) : senv :=
  match en with
  | [] => [(k, v)]
  | (k', v') :: t => if skey_eqb k' k then (k, v) :: t else (k', v') :: env_set t k v
  end.

(* ---------- denotation of expressions (over ConstSpec operators) ---------- *)
Fixpoint den (en : senv) (e : expr) : res const :=
  match e with
  | EScalar s => match env_get en (skey_of s) with
                 | Some c => if cbits c =? sbits s then Ok c else Err ESort
                 | None => Err EExecScalar
                 end
  | EConst c => Ok c
  | EBin o l r => a <- den en l ;; b <- den en r ;; sp_bin_c o a b
  | EExt o bits x => a <- den en x ;; sp_ext o bits a
  | EIte c t f => cv <- den en c ;;
                  if negb (cbits cv =? 1) then Err ESort
                  else if cval cv =? 1 then den en t else den en f
  end.

(* ---------- byte memory ---------- *)
Record bmem := mkbmem { bm_big : bool; bm_bytes : list (Z * Z) }.    (* newest first *)
Fixpoint bytes_get (l : list (Z * Z)) (a : Z) : option Z :=
  match l with [] => None | (k, v) :: t => if k =? a then Some v else bytes_get t a end.
Definition bm_get (m : bmem) (a : Z) : option Z := bytes_get (bm_bytes m) a.

Definition ADDR_LIMIT : Z := 2 ^ 64.

(* little-endian byte list of an n-byte value *)
Fixpoint le_bytes (n : nat) (v : Z) : list Z :=
  match n with O => [] | Datatypes.S n => (v mod 256) :: le_bytes n (v / 256) end.
Fixpoint le_value (bs : list Z) : Z :=
  match bs with [] => 0 | b :: t => b + 256 * le_value t end.

Definition value_bytes (big : bool) (nbytes : nat) (v : Z) : list Z :=
  if big then rev (le_bytes nbytes v) else le_bytes nbytes v.
Definition bytes_value (big : bool) (bs : list Z) : Z :=
  if big then le_value (rev bs) else le_value bs.

Fixpoint write_bytes (l : list (Z * Z)) (a : Z) (bs : list Z) : list (Z * Z) :=
  match bs with [] => l | b :: t => write_bytes ((a, b) :: l) (a + 1) t end.
Fixpoint read_bytes (m : bmem) (a : Z) (n : nat) : option (list Z) :=
  match n with
  | O => Some []
  | Datatypes.S n => match bm_get m a, read_bytes m (a + 1) n with
                     | Some b, Some t => Some (b :: t)
                     | _, _ => None
                     end
  end.

(* widths must be positive multiples of 8; the range must not leave the 64-bit address space *)
Definition mem_store (m : bmem) (a : Z) (v : const) : res bmem :=
  if (cbits v <=? 0) || negb (cbits v mod 8 =? 0) then Err ESort
  else if ADDR_LIMIT <? a + cbits v / 8 then Err EUnmapped
  else Ok (mkbmem (bm_big m) (write_bytes (bm_bytes m) a (value_bytes (bm_big m) (Z.to_nat (cbits v / 8)) (cval v)))).
Definition mem_load (m : bmem) (a : Z) (bits : Z) : res const :=
  if (bits <=? 0) || negb (bits mod 8 =? 0) then Err ESort
  else if ADDR_LIMIT <? a + bits / 8 then Err EUnmapped
  else match read_bytes m a (Z.to_nat (bits / 8)) with
       | Some bs => Ok (mkc bits (bytes_value (bm_big m) bs))
       | None => Err EUnmapped
       end.

(* ---------- one operation ---------- *)
Inductive event :=
| EvNone
| EvAssign (k : skey) (v : const)
| EvStore (a : Z) (v : const)
| EvLoad (k : skey) (a : Z) (v : const)
| EvBranch (a : Z).

Record sstate := mkst { st_env : senv; st_mem : bmem }.

Definition addr_of (c : const) : res Z := if cval c <? ADDR_LIMIT then Ok (cval c) else Err EAddrBits.

(* Intrinsics have no IL semantics: executing one is the outcome `Err EIntrinsic`. *)
Definition exec_op (st : sstate) (o : operation) : res (sstate * event) :=
  match o with
  | OAssign dst src =>
      v <- den (st_env st) src ;;
      Ok (mkst (env_set (st_env st) (skey_of dst) v) (st_mem st), EvAssign (skey_of dst) v)
  | OStore index src =>
      v <- den (st_env st) src ;; i <- den (st_env st) index ;; a <- addr_of i ;;
      m <- mem_store (st_mem st) a v ;;
      Ok (mkst (st_env st) m, EvStore a v)
  | OLoad dst index =>
      i <- den (st_env st) index ;; a <- addr_of i ;;
      v <- mem_load (st_mem st) a (sbits dst) ;;
      Ok (mkst (env_set (st_env st) (skey_of dst) v) (st_mem st), EvLoad (skey_of dst) a v)
  | OBranch target =>
      t <- den (st_env st) target ;; a <- addr_of t ;; Ok (st, EvBranch a)
  | OIntrinsic _ => Err EIntrinsic
  | ONop _ => Ok (st, EvNone)
  end.

(* ---------- control ---------- *)
(* guard of an edge location: unguarded = enabled *)
Definition edge_enabled (f : func) (en : senv) (l : floc) : res bool :=
  match loc_edge f l with
  | None => Ok true                       (* not an edge: the next instruction of the block *)
  | Some e => match e_cond e with
              | None => Ok true
              | Some c => v <- den en c ;; if negb (cbits v =? 1) then Err ESort else Ok (cval v =? 1)
              end
  end.
Fixpoint enabled_locs (f : func) (en : senv) (ls : list floc) : res (list floc) :=
  match ls with
  | [] => Ok []
  | l :: t => b <- edge_enabled f en l ;; r <- enabled_locs f en t ;; Ok (if b then l :: r else r)
  end.

Inductive step_result :=
| Next (l : floc) (st : sstate) (ev : event)     (* control moved to l *)
| Goto (a : Z) (st : sstate)                     (* indirect branch to native address a *)
| Exit (st : sstate) (ev : event)                (* end of a block without successors *)
| Stuck (e : err).                               (* fault: undefined scalar, unmapped, div by zero, intrinsic, no guard (ENoLocation), several guards (EOther) *)

Definition choose (f : func) (st : sstate) (ev : event) (succs : list floc) : step_result :=
  match succs with
  | [] => Exit st ev
  | _ => match enabled_locs f (st_env st) succs with
         | Err e => Stuck e
         | Panic => Stuck EOther
         | Ok [l] => Next l st ev
         | Ok [] => Stuck ENoLocation
         | Ok _ => Stuck EOther
         end
  end.

Definition sem_step (f : func) (l : floc) (st : sstate) : step_result :=
  match l with
  | LInstr _ _ =>
      match loc_instruction f l with
      | None => Stuck EOther
      | Some i =>
          match exec_op st (i_op i) with
          | Err e => Stuck e
          | Panic => Stuck EOther
          | Ok (st', EvBranch a) => Goto a st'
          | Ok (st', ev) =>
              match forward f l with
              | Ok succs => choose f st' ev succs
              | _ => Stuck EOther
              end
          end
      end
  | LEdge _ _ =>
      match forward f l with
      | Ok [l'] => Next l' st EvNone
      | _ => Stuck EOther
      end
  | LEmpty _ =>
      match forward f l with
      | Ok succs => choose f st EvNone succs
      | _ => Stuck EOther
      end
  end.

(* ---------- traces (for oracles): (location executed, state before, result) ---------- *)
Record trace_item := mkti { ti_loc : floc; ti_before : sstate; ti_res : step_result }.
Fixpoint sem_run (fuel : nat) (f : func) (l : floc) (st : sstate) : list trace_item :=
  match fuel with
  | O => []
  | Datatypes.S fuel =>
      let r := sem_step f l st in
      mkti l st r :: match r with Next l' st' _ => sem_run fuel f l' st' | _ => [] end
  end.

(* guards of every block are mutually exclusive and exhaustive in state `en`: exactly one enabled *)
Definition guards_det_at (f : func) (en : senv) (succs : list floc) : bool :=
  match succs with
  | [] => true
  | _ => match enabled_locs f en succs with Ok [_] => true | _ => false end
  end.
