(* Exec/DriverProofs.v -- proofs of property C07: the model of executor::Driver (Exec/State.v,
   Exec/Driver.v) refines the IL semantics Exec/Sem.v.  Proofs only, except for the Prop-level
   readings (typed, mem_ok, named) of the executable hypotheses of Exec/DriverSpec.v. *)
From Coq Require Import ZArith List Bool NArith Lia ZifyBool.
From Falcon Require Import Base.Res IL.Const IL.ConstSpec IL.Expr IL.ExprSpec IL.ConstProofs IL.ExprProofs
  IL.Func IL.Loc Exec.Sem Exec.State Exec.Driver Exec.DriverSpec.
Import ListNotations.
Local Open Scope Z_scope.
Ltac Zify.zify_post_hook ::= Z.div_mod_to_equations.

(* ---------- small facts ---------- *)
Lemma USIZE_val : USIZE = 2 ^ 64. Proof. reflexivity. Qed.
Lemma ADDR_LIMIT_val : ADDR_LIMIT = 2 ^ 64. Proof. reflexivity. Qed.

Lemma optN_eqb_refl o : optN_eqb o o = true.
Proof. destruct o; cbn; [apply N.eqb_refl|reflexivity]. Qed.
Lemma optN_eqb_eq a b : optN_eqb a b = true -> a = b.
Proof. destruct a, b; cbn; intros H; try discriminate; [apply N.eqb_eq in H; congruence|reflexivity]. Qed.

Lemma inr_b_inr w a : 0 <= w -> inr_b w a = true -> inr w a.
Proof.
  intros Hw H. unfold inr_b in H. apply andb_prop in H as [H0 H1]. apply Z.leb_le in H0.
  unfold inr. split; [assumption|].
  apply orb_prop in H1 as [H1|H1].
  - apply Z.eqb_eq in H1. subst. apply pow_pos. assumption.
  - apply Z.ltb_lt in H1. destruct (Z.eq_dec a 0) as [->|N]; [apply pow_pos; assumption|].
    apply Z.log2_lt_pow2; lia.
Qed.

Lemma emap_id e : e <> EUnmapped -> emap e = e.
Proof. destruct e; cbn; congruence. Qed.

(* ---------- hypotheses read as propositions ---------- *)
Section Names.
Variable ty : N -> Z.
Variable sv : N -> option N.

Definition named_s (s : scalar) : Prop := sbits s = ty (sname s) /\ sssa s = sv (sname s).
Fixpoint named (e : expr) : Prop :=
  match e with
  | EScalar s => named_s s
  | EConst _ => True
  | EBin _ l r => named l /\ named r
  | EExt _ _ x => named x
  | EIte c t f => named c /\ named t /\ named f
  end.

Definition typed (sc : scalars) : Prop :=
  forall n c, sget sc n = Some c -> cbits c = ty n /\ 1 <= ty n < 2 ^ 64 /\ inr (cbits c) (cval c).
Definition byte_ok (ab : Z * Z) : Prop := 0 <= snd ab < 256 /\ 0 <= fst ab < USIZE.
Definition mem_ok (m : bmem) : Prop := Forall byte_ok (bm_bytes m).

Lemma wf_scalar_b_spec s : wf_scalar_b ty sv s = true -> named_s s /\ 1 <= sbits s < 2 ^ 64.
Proof.
  unfold wf_scalar_b, named_s. intros H.
  apply andb_prop in H as [H H4]. apply andb_prop in H as [H H3]. apply andb_prop in H as [H1 H2].
  apply Z.eqb_eq in H1. apply optN_eqb_eq in H2. rewrite USIZE_val in H4.
  split; [split; assumption|lia].
Qed.

Lemma wf_expr_b_spec e : wf_expr_b ty sv e = true -> wf e /\ named e.
Proof.
  induction e as [s|c|o l IHl r IHr|o bits x IHx|c IHc t IHt f IHf]; cbn [wf_expr_b wf named]; intros H.
  - apply wf_scalar_b_spec in H. tauto.
  - apply andb_prop in H as [H H3]. apply andb_prop in H as [H1 H2]. rewrite USIZE_val in H2.
    split; [|exact I]. split; [lia|]. apply inr_b_inr; [lia|assumption].
  - apply andb_prop in H as [H H3]. apply andb_prop in H as [H1 H2].
    destruct (IHl H1), (IHr H2). apply Z.eqb_eq in H3. tauto.
  - destruct o.
    + apply andb_prop in H as [H H3]. apply andb_prop in H as [H1 H2]. destruct (IHx H1).
      rewrite USIZE_val in H3. split; [|assumption]. split; [assumption|lia].
    + apply andb_prop in H as [H H3]. apply andb_prop in H as [H1 H2]. destruct (IHx H1).
      rewrite USIZE_val in H3. split; [|assumption]. split; [assumption|lia].
    + apply andb_prop in H as [H H3]. apply andb_prop in H as [H1 H2]. destruct (IHx H1).
      split; [|assumption]. split; [assumption|lia].
  - apply andb_prop in H as [H H5]. apply andb_prop in H as [H H4]. apply andb_prop in H as [H H3].
    apply andb_prop in H as [H1 H2]. destruct (IHc H1), (IHt H2), (IHf H3).
    apply Z.eqb_eq in H4, H5. tauto.
Qed.

Lemma typed_b_typed sc : typed_b ty sc = true -> typed sc.
Proof.
  unfold typed. induction sc as [|[k v] t IH]; cbn [typed_b forallb sget fst snd]; intros H n c E; [discriminate E|].
  apply andb_prop in H as [H Ht].
  destruct (N.eqb_spec k n) as [->|N].
  - injection E as <-. unfold typed_entry in H.
    apply andb_prop in H as [H H4]. apply andb_prop in H as [H H3]. apply andb_prop in H as [H1 H2].
    apply Z.eqb_eq in H1. rewrite USIZE_val in H3.
    split; [assumption|]. split; [lia|]. apply inr_b_inr; [lia|assumption].
  - apply (IH Ht n c E).
Qed.

Lemma mem_ok_b_ok m : mem_ok_b m = true -> mem_ok m.
Proof.
  unfold mem_ok_b, mem_ok. intros H. rewrite forallb_forall in H. apply Forall_forall. intros ab I.
  specialize (H ab I). unfold byte_ok. lia.
Qed.

(* ---------- scalars ---------- *)
Lemma sget_sset sc n v m : sget (sset sc n v) m = if N.eqb n m then Some v else sget sc m.
Proof.
  induction sc as [|[k w] t IH]; cbn [sset sget].
  - reflexivity.
  - destruct (N.eqb_spec k n) as [->|Nk]; cbn [sget].
    + destruct (N.eqb_spec n m); reflexivity.
    + rewrite IH. destruct (N.eqb_spec k m) as [->|Nm]; [|reflexivity].
      destruct (N.eqb_spec n m); [congruence|reflexivity].
Qed.

Lemma abs_env_get sc n : env_get (abs_env sv sc) (n, sv n) = sget sc n.
Proof.
  induction sc as [|[k w] t IH]; cbn [abs_env map env_get sget fst snd]; [reflexivity|].
  unfold skey_eqb; cbn [fst snd]. destruct (N.eqb_spec k n) as [->|Nk]; cbn [andb].
  - rewrite optN_eqb_refl. reflexivity.
  - exact IH.
Qed.

Lemma abs_env_set sc n v : abs_env sv (sset sc n v) = env_set (abs_env sv sc) (n, sv n) v.
Proof.
  induction sc as [|[k w] t IH]; cbn [abs_env map env_set sset fst snd]; [reflexivity|].
  unfold skey_eqb; cbn [fst snd]. destruct (N.eqb_spec k n) as [->|Nk]; cbn [andb map fst snd].
  - rewrite optN_eqb_refl. reflexivity.
  - f_equal. exact IH.
Qed.

Lemma typed_sset sc n v : typed sc -> cbits v = ty n -> 1 <= ty n < 2 ^ 64 -> inr (cbits v) (cval v) ->
  typed (sset sc n v).
Proof.
  intros T E B R m c G. rewrite sget_sset in G. destruct (N.eqb_spec n m) as [->|Nm].
  - injection G as <-. auto.
  - apply (T m c G).
Qed.

(* ---------- symbolize + eval = den ---------- *)
Definition envf (sc : scalars) : env := fun s => if sbits s =? ty (sname s) then sget sc (sname s) else None.

Lemma envf_ok sc : typed sc -> env_ok (envf sc).
Proof.
  intros T s c E. unfold envf in E. destruct (Z.eqb_spec (sbits s) (ty (sname s))) as [Es|]; [|discriminate E].
  destruct (T _ _ E) as (A & B & C). split; [congruence|assumption].
Qed.

Lemma symbolize_ok sc e : typed sc -> wf e -> named e ->
  exists e', symbolize sc e = Ok e' /\ wf e' /\ e_bits e' = e_bits e /\
             eden (fun _ => None) e' = eden (envf sc) e.
Proof.
  intros T.
  induction e as [s|k|o l IHl r IHr|o bits x IHx|g IHg t IHt f IHf]; cbn [wf named symbolize]; intros W Nm.
  - destruct Nm as [N1 N2]. unfold envf. cbn [eden]. rewrite N1, Z.eqb_refl.
    destruct (sget sc (sname s)) as [c|] eqn:G.
    + destruct (T _ _ G) as (A & B & C). exists (EConst c). cbn [wf e_bits eden].
      split; [reflexivity|]. split; [split; [lia|exact C]|]. split; [congruence|reflexivity].
    + exists (EScalar s). cbn [wf e_bits eden]. auto.
  - exists (EConst k). cbn [wf eden]. auto.
  - destruct W as (Wl & Wr & Eb). destruct Nm as [Nl Nr].
    destruct (IHl Wl Nl) as (l' & Rl & Wl' & Bl & Dl). destruct (IHr Wr Nr) as (r' & Rr & Wr' & Br & Dr).
    rewrite Rl, Rr. cbn [bind]. rewrite mk_bin_ok by congruence.
    exists (EBin o l' r'). cbn [wf e_bits eden]. rewrite Dl, Dr, Bl. repeat split; (assumption || congruence).
  - assert (Wx : wf x) by (destruct o; tauto).
    destruct (IHx Wx Nm) as (x' & Rx & Wx' & Bx & Dx). rewrite Rx. cbn [bind].
    pose proof (wf_bits x Wx) as Bb.
    rewrite mk_ext_ok by (rewrite Bx; destruct o; lia).
    exists (EExt o bits x'). cbn [wf e_bits eden]. rewrite Dx, Bx. repeat split; trivial.
    destruct o; tauto.
  - destruct W as (Wg & Wt & Wf & E1 & E2). destruct Nm as (Ng & Nt & Nf).
    destruct (IHg Wg Ng) as (g' & Rg & Wg' & Bg & Dg). destruct (IHt Wt Nt) as (t' & Rt & Wt' & Bt & Dt).
    destruct (IHf Wf Nf) as (f' & Rf & Wf' & Bf & Df).
    rewrite Rg, Rt, Rf. cbn [bind]. rewrite mk_ite_ok by congruence.
    exists (EIte g' t' f'). cbn [wf e_bits eden]. rewrite Dg, Dt, Df. repeat split; (assumption || congruence).
Qed.

Lemma eden_den sc e : typed sc -> wf e -> named e -> eden (envf sc) e = den (abs_env sv sc) e.
Proof.
  intros T. pose proof (envf_ok sc T) as EO.
  induction e as [s|k|o l IHl r IHr|o bits x IHx|g IHg t IHt f IHf]; cbn [wf named eden den]; intros W Nm.
  - destruct Nm as [N1 N2]. unfold envf, skey_of. rewrite N1, Z.eqb_refl, N2, abs_env_get.
    destruct (sget sc (sname s)) as [c|] eqn:G; [|reflexivity].
    destruct (T _ _ G) as (A & _). rewrite A, <- N1, Z.eqb_refl. reflexivity.
  - reflexivity.
  - destruct W as (Wl & Wr & Eb). destruct Nm as [Nl Nr]. rewrite <- (IHl Wl Nl), <- (IHr Wr Nr).
    destruct (eden (envf sc) l) as [a| |] eqn:El; cbn [bind]; try reflexivity.
    destruct (eden (envf sc) r) as [b| |] eqn:Er; cbn [bind]; try reflexivity.
    destruct (eden_good _ l EO Wl a El) as [A1 _]. destruct (eden_good _ r EO Wr b Er) as [B1 _].
    unfold sp_bin_c. replace (cbits a =? cbits b) with true by (symmetry; apply Z.eqb_eq; congruence).
    reflexivity.
  - assert (Wx : wf x) by (destruct o; tauto). rewrite <- (IHx Wx Nm). reflexivity.
  - destruct W as (Wg & Wt & Wf & E1 & E2). destruct Nm as (Ng & Nt & Nf).
    rewrite <- (IHg Wg Ng), <- (IHt Wt Nt), <- (IHf Wf Nf).
    destruct (eden (envf sc) g) as [cv| |] eqn:Eg; cbn [bind]; try reflexivity.
    destruct (eden_good _ g EO Wg cv Eg) as [A1 _]. rewrite A1, E1. reflexivity.
Qed.

Theorem sym_eval_den sc e : typed sc -> wf_expr_b ty sv e = true ->
  sym_eval sc e = den (abs_env sv sc) e.
Proof.
  intros T H. apply wf_expr_b_spec in H as [W Nm].
  destruct (symbolize_ok sc e T W Nm) as (e' & S & W' & _ & D).
  unfold sym_eval. rewrite S. cbn [bind]. rewrite (eval_eden e' W'), D. apply eden_den; assumption.
Qed.

Lemma den_good sc e c : typed sc -> wf_expr_b ty sv e = true -> den (abs_env sv sc) e = Ok c ->
  cbits c = e_bits e /\ inr (cbits c) (cval c) /\ 1 <= e_bits e < 2 ^ 64.
Proof.
  intros T H D. apply wf_expr_b_spec in H as [W Nm]. rewrite <- eden_den in D by assumption.
  destruct (eden_good _ e (envf_ok sc T) W c D). pose proof (wf_bits e W). tauto.
Qed.


(* ---------- the errors of a denotation ---------- *)
Lemma sp_bin_err o w a b e : sp_bin o w a b = Err e -> e = EDivZero.
Proof. destruct o; cbn [sp_bin]; try discriminate; destruct (b =? 0); intros H; inversion H; reflexivity. Qed.

Lemma den_err en e k : den en e = Err k -> k = ESort \/ k = EExecScalar \/ k = EDivZero.
Proof.
  revert k. induction e as [s|c|o l IHl r IHr|o bits x IHx|g IHg t IHt f IHf]; cbn [den]; intros k H.
  - destruct (env_get en (skey_of s)) as [c|]; [destruct (cbits c =? sbits s)|]; inversion H; auto.
  - discriminate H.
  - destruct (den en l) as [a|e'|]; cbn [bind] in H; [|inversion H; subst; auto|discriminate H].
    destruct (den en r) as [b|e'|]; cbn [bind] in H; [|inversion H; subst; auto|discriminate H].
    unfold sp_bin_c in H. destruct (negb (cbits a =? cbits b)); [inversion H; auto|].
    apply sp_bin_err in H. auto.
  - destruct (den en x) as [a|e'|]; cbn [bind] in H; [|inversion H; subst; auto|discriminate H].
    destruct o; cbn [sp_ext] in H;
      match type of H with (if ?c then _ else _) = _ => destruct c end; inversion H; auto.
  - destruct (den en g) as [a|e'|]; cbn [bind] in H; [|inversion H; subst; auto|discriminate H].
    destruct (negb (cbits a =? 1)); [inversion H; auto|]. destruct (cval a =? 1); auto.
Qed.

Lemma emap_den en e k : den en e = Err k -> emap k = k.
Proof. intros H. apply den_err in H. destruct H as [->|[->| ->]]; reflexivity. Qed.

(* ---------- byte memory ---------- *)
Definition is_byte (b : Z) : Prop := 0 <= b < 256.

Lemma bytes_get_in l x b : bytes_get l x = Some b -> In (x, b) l.
Proof.
  induction l as [|[k v] t IH]; cbn [bytes_get]; intros H; [discriminate H|].
  destruct (Z.eqb_spec k x) as [->|N]; [injection H as ->; left; reflexivity|right; auto].
Qed.

Lemma bytes_get_write_out bs : forall l a x, (x < a \/ a + Z.of_nat (length bs) <= x) ->
  bytes_get (write_bytes l a bs) x = bytes_get l x.
Proof.
  induction bs as [|b t IH]; intros l a x H; cbn [write_bytes]; [reflexivity|].
  cbn [length] in H. rewrite Nat2Z.inj_succ in H. rewrite IH by lia. cbn [bytes_get].
  destruct (Z.eqb_spec a x); [lia|reflexivity].
Qed.

Lemma write_bytes_ok bs : forall l a, Forall byte_ok l -> Forall is_byte bs -> 0 <= a ->
  a + Z.of_nat (length bs) <= USIZE -> Forall byte_ok (write_bytes l a bs).
Proof.
  induction bs as [|b t IH]; intros l a Hl Hb Ha Hn; cbn [write_bytes]; [assumption|].
  cbn [length] in Hn. rewrite Nat2Z.inj_succ in Hn. inversion Hb as [|? ? Hb1 Hb2]; subst.
  apply IH; [|assumption|lia|lia]. constructor; [|assumption].
  unfold byte_ok, is_byte in *. cbn [fst snd]. lia.
Qed.

Lemma le_bytes_ok n : forall v, Forall is_byte (le_bytes n v).
Proof. induction n as [|n IH]; intros v; cbn [le_bytes]; constructor; [unfold is_byte; lia|apply IH]. Qed.
Lemma le_bytes_len n : forall v, length (le_bytes n v) = n.
Proof. induction n as [|n IH]; intros v; cbn [le_bytes length]; [reflexivity|f_equal; apply IH]. Qed.
Lemma value_bytes_ok big n v : Forall is_byte (value_bytes big n v).
Proof. unfold value_bytes. destruct big; [apply Forall_rev|]; apply le_bytes_ok. Qed.
Lemma value_bytes_len big n v : length (value_bytes big n v) = n.
Proof. unfold value_bytes. destruct big; [rewrite rev_length|]; apply le_bytes_len. Qed.

Lemma le_value_bound bs : Forall is_byte bs -> 0 <= le_value bs < 256 ^ Z.of_nat (length bs).
Proof.
  induction 1 as [|b t Hb Ht IH]; cbn [le_value length]; [cbn; lia|].
  rewrite Nat2Z.inj_succ, Z.pow_succ_r by lia. unfold is_byte in Hb.
  set (P := 256 ^ Z.of_nat (length t)) in *. lia.
Qed.
Lemma bytes_value_bound big bs : Forall is_byte bs -> 0 <= bytes_value big bs < 256 ^ Z.of_nat (length bs).
Proof.
  intros H. unfold bytes_value. destruct big; [|apply le_value_bound; assumption].
  rewrite <- (rev_length bs). apply le_value_bound. apply Forall_rev. assumption.
Qed.

Lemma read_bytes_ok m : mem_ok m -> forall n a bs, read_bytes m a n = Some bs ->
  length bs = n /\ Forall is_byte bs.
Proof.
  intros M. induction n as [|n IH]; intros a bs H; cbn [read_bytes] in H.
  - injection H as <-. split; [reflexivity|constructor].
  - destruct (bm_get m a) as [b|] eqn:G; [|discriminate H].
    destruct (read_bytes m (a + 1) n) as [t|] eqn:R; [|discriminate H]. injection H as <-.
    destruct (IH _ _ R) as [L F]. split; [cbn [length]; congruence|]. constructor; [|assumption].
    apply bytes_get_in in G. unfold mem_ok in M. rewrite Forall_forall in M. apply M in G.
    unfold byte_ok in G. cbn [fst snd] in G. unfold is_byte. lia.
Qed.

Lemma xm_read_spec m n : forall a, a + Z.of_nat n <= USIZE -> xm_read m a n = Ok (read_bytes m a n).
Proof.
  induction n as [|n IH]; intros a H; cbn [xm_read read_bytes]; [reflexivity|].
  rewrite Nat2Z.inj_succ in H. destruct (Z.leb_spec USIZE a); [lia|].
  destruct (bm_get m a) as [b|]; [|reflexivity]. rewrite IH by lia. cbn [bind].
  destruct (read_bytes m (a + 1) n); reflexivity.
Qed.

Lemma pow2_bytes bits : 0 <= bits -> bits mod 8 = 0 -> 2 ^ bits = 256 ^ (bits / 8).
Proof.
  intros H M. replace bits with (8 * (bits / 8)) at 1 by lia.
  rewrite Z.pow_mul_r by lia. reflexivity.
Qed.

(* ---------- one operation ---------- *)
Definition succ_of (ev : event) : succ_type := match ev with EvBranch a => SBranch a | _ => SFall end.

Lemma byte_w_spec w : byte_w w = true -> w mod 8 = 0 /\ 0 < w.
Proof. unfold byte_w. lia. Qed.

Lemma execute_refines x o : typed (x_scal x) -> mem_ok (x_mem x) -> wf_op_b ty sv o = true ->
  wraps (abs sv x) o = false ->
  match exec_op (abs sv x) o with
  | Ok (st', ev) => exists x', execute x o = Ok (x', succ_of ev) /\ abs sv x' = st' /\
                               typed (x_scal x') /\ mem_ok (x_mem x')
  | Err e => execute x o = Err (emap e)
  | Panic => True
  end.
Proof.
  intros T M W ST. destruct x as [sc m]. unfold abs in *. cbn [x_scal x_mem] in *.
  destruct o as [dst src|index src|dst index|target|i|ph]; cbn [wf_op_b] in W;
    cbn [exec_op execute st_env st_mem x_scal x_mem].
  - (* Assign *)
    apply andb_prop in W as [W W3]. apply andb_prop in W as [W1 W2]. apply Z.eqb_eq in W3.
    apply wf_scalar_b_spec in W1 as [[N1 N2] B].
    rewrite (sym_eval_den sc src T W2).
    destruct (den (abs_env sv sc) src) as [v|e|] eqn:D; cbn [bind]; [| |exact I].
    + destruct (den_good sc src v T W2 D) as (G1 & G2 & G3).
      eexists. split; [reflexivity|]. cbn [x_scal x_mem succ_of]. split; [|split; [|assumption]].
      * rewrite abs_env_set. unfold skey_of. rewrite N2. reflexivity.
      * apply typed_sset; [assumption|congruence|lia|assumption].
    + rewrite (emap_den _ _ _ D). reflexivity.
  - (* Store *)
    apply andb_prop in W as [W W3]. apply andb_prop in W as [W1 W2]. apply byte_w_spec in W3 as [B1 B2].
    rewrite (sym_eval_den sc src T W2), (sym_eval_den sc index T W1).
    cbn [wraps st_env] in ST.
    destruct (den (abs_env sv sc) src) as [v|e|] eqn:D; cbn [bind]; [| |exact I].
    2:{ rewrite (emap_den _ _ _ D). reflexivity. }
    destruct (den (abs_env sv sc) index) as [iv|e|] eqn:Di; cbn [bind]; [| |exact I].
    2:{ rewrite (emap_den _ _ _ Di). reflexivity. }
    destruct (den_good sc src v T W2 D) as (G1 & G2 & G3).
    destruct (den_good sc index iv T W1 Di) as (I1 & I2 & I3).
    unfold addr_of, addr_u64. change ADDR_LIMIT with USIZE in *.
    destruct (Z.ltb_spec (cval iv) USIZE) as [La|La]; cbn [bind]; [|reflexivity].
    cbn [andb] in ST. apply Z.ltb_ge in ST.
    unfold mem_store, xm_store. rewrite G1, B1. change ADDR_LIMIT with USIZE.
    destruct (Z.leb_spec (e_bits src) 0); [lia|]. destruct (Z.eqb_spec (e_bits src) 0); [lia|].
    cbn [Z.eqb negb orb]. destruct (Z.ltb_spec USIZE (cval iv + e_bits src / 8)); [lia|]. cbn [bind].
    eexists. split; [reflexivity|]. cbn [x_scal x_mem succ_of]. split; [reflexivity|]. split; [assumption|].
    unfold mem_ok. cbn [bm_bytes]. unfold inr in I2.
    apply write_bytes_ok; [exact M|apply value_bytes_ok|lia|].
    rewrite value_bytes_len, Z2Nat.id by lia. rewrite G1 in *. lia.
  - (* Load *)
    apply andb_prop in W as [W W3]. apply andb_prop in W as [W1 W2]. apply byte_w_spec in W3 as [B1 B2].
    apply wf_scalar_b_spec in W1 as [[N1 N2] B].
    rewrite (sym_eval_den sc index T W2).
    cbn [wraps st_env] in ST.
    destruct (den (abs_env sv sc) index) as [iv|e|] eqn:Di; cbn [bind]; [| |exact I].
    2:{ rewrite (emap_den _ _ _ Di). reflexivity. }
    destruct (den_good sc index iv T W2 Di) as (I1 & I2 & I3).
    unfold addr_of, addr_u64. change ADDR_LIMIT with USIZE in *.
    destruct (Z.ltb_spec (cval iv) USIZE) as [La|La]; cbn [bind]; [|reflexivity].
    cbn [andb] in ST. apply Z.ltb_ge in ST.
    unfold mem_load, xm_load. rewrite B1. change ADDR_LIMIT with USIZE.
    destruct (Z.leb_spec (sbits dst) 0); [lia|]. destruct (Z.eqb_spec (sbits dst) 0); [lia|].
    cbn [Z.eqb negb orb]. unfold inr in I2.
    destruct (Z.ltb_spec USIZE (cval iv + sbits dst / 8)) as [Top|NTop].
    + lia.
    + rewrite xm_read_spec by (rewrite Z2Nat.id; lia). cbn [bind].
      destruct (read_bytes m (cval iv) (Z.to_nat (sbits dst / 8))) as [bs|] eqn:R; [|reflexivity].
      destruct (read_bytes_ok m M _ _ _ R) as [L F].
      eexists. split; [reflexivity|]. cbn [x_scal x_mem succ_of]. split; [|split; [|assumption]].
      * rewrite abs_env_set. unfold skey_of. rewrite N2. reflexivity.
      * apply typed_sset; cbn [cbits cval]; [assumption|congruence|lia|].
        pose proof (bytes_value_bound (bm_big m) bs F) as Bv. rewrite L, Z2Nat.id in Bv by lia.
        unfold inr. rewrite pow2_bytes by lia. exact Bv.
  - (* Branch *)
    rewrite (sym_eval_den sc target T W).
    destruct (den (abs_env sv sc) target) as [tv|e|] eqn:D; cbn [bind]; [| |exact I].
    2:{ rewrite (emap_den _ _ _ D). reflexivity. }
    unfold addr_of, addr_u64. change ADDR_LIMIT with USIZE.
    destruct (Z.ltb_spec (cval tv) USIZE); cbn [bind]; [|reflexivity].
    eexists. split; [reflexivity|]. cbn [x_scal x_mem succ_of]. auto.
  - reflexivity.
  - eexists. split; [reflexivity|]. cbn [x_scal x_mem succ_of]. auto.
Qed.

(* ---------- no panic on the Sem side ---------- *)
Lemma den_np en e : den en e <> Panic.
Proof.
  induction e as [s|c|o l IHl r IHr|o bits x IHx|g IHg t IHt f IHf]; cbn [den].
  - destruct (env_get en (skey_of s)) as [c|]; [destruct (cbits c =? sbits s)|]; discriminate.
  - discriminate.
  - destruct (den en l) as [a|e'|]; cbn [bind]; [|discriminate|congruence].
    destruct (den en r) as [b|e'|]; cbn [bind]; [|discriminate|congruence].
    unfold sp_bin_c. destruct (negb (cbits a =? cbits b)); [discriminate|].
    destruct o; cbn [sp_bin]; try discriminate; destruct (cval b =? 0); discriminate.
  - destruct (den en x) as [a|e'|]; cbn [bind]; [|discriminate|congruence].
    destruct o; cbn [sp_ext]; match goal with |- (if ?c then _ else _) <> _ => destruct c end; discriminate.
  - destruct (den en g) as [a|e'|]; cbn [bind]; [|discriminate|congruence].
    destruct (negb (cbits a =? 1)); [discriminate|]. destruct (cval a =? 1); assumption.
Qed.

Lemma exec_op_np st o : exec_op st o <> Panic.
Proof.
  destruct o as [dst src|index src|dst index|target|i|ph]; cbn [exec_op]; try discriminate.
  - pose proof (den_np (st_env st) src). destruct (den (st_env st) src); cbn [bind]; (discriminate || congruence).
  - pose proof (den_np (st_env st) src). destruct (den (st_env st) src) as [v| |]; cbn [bind]; [|discriminate|congruence].
    pose proof (den_np (st_env st) index). destruct (den (st_env st) index) as [iv| |]; cbn [bind]; [|discriminate|congruence].
    unfold addr_of. destruct (cval iv <? ADDR_LIMIT); cbn [bind]; [|discriminate].
    unfold mem_store. destruct (_ || _); [discriminate|]. destruct (_ <? _); cbn [bind]; discriminate.
  - pose proof (den_np (st_env st) index). destruct (den (st_env st) index) as [iv| |]; cbn [bind]; [|discriminate|congruence].
    unfold addr_of. destruct (cval iv <? ADDR_LIMIT); cbn [bind]; [|discriminate].
    unfold mem_load. destruct (_ || _); [discriminate|]. destruct (_ <? _); cbn [bind]; [discriminate|].
    destruct (read_bytes _ _ _); cbn [bind]; discriminate.
  - pose proof (den_np (st_env st) target). destruct (den (st_env st) target) as [tv| |]; cbn [bind]; [|discriminate|congruence].
    unfold addr_of. destruct (cval tv <? ADDR_LIMIT); cbn [bind]; discriminate.
Qed.

(* ---------- lookups in the static view ---------- *)
Lemma find_block_in bs i b : find_block bs i = Some b -> In b bs /\ b_index b = i.
Proof.
  induction bs as [|b0 t IH]; cbn [find_block]; intros H; [discriminate H|].
  destruct (Z.eqb_spec (b_index b0) i) as [E|N].
  - injection H as <-. split; [left; reflexivity|assumption].
  - destruct (IH H). split; [right|]; assumption.
Qed.
Lemma find_instr_in is_ i x : find_instr is_ i = Some x -> In x is_ /\ i_index x = i.
Proof.
  induction is_ as [|x0 t IH]; cbn [find_instr]; intros H; [discriminate H|].
  destruct (Z.eqb_spec (i_index x0) i) as [E|N].
  - injection H as <-. split; [left; reflexivity|assumption].
  - destruct (IH H). split; [right|]; assumption.
Qed.
Lemma find_instr_some is_ y : In y is_ -> exists z, find_instr is_ (i_index y) = Some z.
Proof.
  induction is_ as [|x0 t IH]; intros H; [destruct H|]. cbn [find_instr].
  destruct (Z.eqb_spec (i_index x0) (i_index y)); [eexists; reflexivity|].
  destruct H as [->|H]; [congruence|auto].
Qed.
Lemma find_edge_in es h t e : find_edge es h t = Some e -> In e es /\ e_head e = h /\ e_tail e = t.
Proof.
  induction es as [|e0 r IH]; cbn [find_edge]; intros H; [discriminate H|].
  destruct ((e_head e0 =? h) && (e_tail e0 =? t)) eqn:E.
  - injection H as <-. apply andb_prop in E as [E1 E2]. apply Z.eqb_eq in E1, E2. split; [left; reflexivity|auto].
  - destruct (IH H) as (A & B). split; [right; assumption|assumption].
Qed.
Lemma find_edge_some es e : In e es -> exists e', find_edge es (e_head e) (e_tail e) = Some e'.
Proof.
  induction es as [|e0 r IH]; intros H; [destruct H|]. cbn [find_edge].
  destruct ((e_head e0 =? e_head e) && (e_tail e0 =? e_tail e)) eqn:E; [eexists; reflexivity|].
  destruct H as [->|H]; [rewrite !Z.eqb_refl in E; discriminate E|auto].
Qed.
Lemma find_func_in fs i f : find_func fs i = Some f -> In (i, f) fs.
Proof.
  induction fs as [|[k g] t IH]; cbn [find_func]; intros H; [discriminate H|].
  destruct (Z.eqb_spec k i) as [->|N]; [injection H as <-; left; reflexivity|right; auto].
Qed.

Lemma has_block_find g i : has_block g i = true <-> exists b, find_block (g_blocks g) i = Some b.
Proof. unfold has_block. destruct (find_block (g_blocks g) i); split; intros H; try eauto; try discriminate; destruct H; discriminate. Qed.

(* ---------- well-formed functions / programs, unpacked ---------- *)
Lemma wf_func_parts f : wf_func_b ty sv f = true ->
  (forall e, In e (f_edges f) -> has_block (f_cfg f) (e_tail e) = true) /\
  (forall b i, In b (f_blocks f) -> In i (b_instrs b) -> wf_op_b ty sv (i_op i) = true) /\
  (forall e, In e (f_edges f) -> wf_edge_b ty sv e = true) /\
  edges_guarded_b f = true.
Proof.
  unfold wf_func_b, cfg_inv. intros H.
  apply andb_prop in H as [H G]. apply andb_prop in H as [H E]. apply andb_prop in H as [C O].
  apply andb_prop in C as [C _]. apply andb_prop in C as [C _]. apply andb_prop in C as [C _].
  apply andb_prop in C as [_ C].
  rewrite forallb_forall in C, O, E. repeat split.
  - intros e I. specialize (C e I). apply andb_prop in C as [_ C]. exact C.
  - intros b i Ib Ii. specialize (O b Ib). rewrite forallb_forall in O. apply O. exact Ii.
  - exact E.
  - exact G.
Qed.

Lemma wf_prog_in p k f : wf_prog_b ty sv p = true -> In (k, f) (p_funcs p) ->
  f_index f = Some k /\ wf_func_b ty sv f = true.
Proof.
  unfold wf_prog_b. intros H I. apply andb_prop in H as [_ H]. rewrite forallb_forall in H.
  specialize (H _ I). cbn [fst snd] in H. apply andb_prop in H as [H1 H2]. split; [|exact H2].
  destruct (f_index f) as [z|]; cbn [optZ_eqb] in H1; [|discriminate H1]. apply Z.eqb_eq in H1. congruence.
Qed.

(* ---------- the shape of forward ---------- *)
Inductive fwd_shape (f : func) : list floc -> Prop :=
| FS_one l1 : fwd_shape f [l1]
| FS_edges bi : has_block (f_cfg f) bi = true ->
    fwd_shape f (edge_locs (filter (fun e => e_head e =? bi) (f_edges f))).

Lemma instr_forward_shape f bi is_ ii x : find_instr is_ ii = Some x -> has_block (f_cfg f) bi = true ->
  exists succs, instr_forward_scan f bi is_ ii = Ok succs /\ fwd_shape f succs.
Proof.
  intros F HB. induction is_ as [|x0 rest IH]; cbn [find_instr instr_forward_scan] in *; [discriminate F|].
  destruct (i_index x0 =? ii).
  - destruct rest as [|y r].
    + unfold cfg_edges_out. rewrite HB. cbn [bind]. eexists. split; [reflexivity|]. apply FS_edges. exact HB.
    + eexists. split; [reflexivity|]. apply FS_one.
  - apply IH. exact F.
Qed.

Lemma floc_apply_id f l0 l : floc_apply f l0 = Ok l -> l = l0.
Proof.
  destruct l0 as [b i|h t|b]; cbn [floc_apply].
  - destruct (find_block (f_blocks f) b) as [blk|]; [|discriminate]. destruct (block_instruction blk i); [|discriminate]. congruence.
  - destruct (find_edge (f_edges f) h t); [|discriminate]. congruence.
  - destruct (find_block (f_blocks f) b); [|discriminate]. congruence.
Qed.

Lemma forward_shape f l : wf_func_b ty sv f = true -> floc_apply f l = Ok l ->
  exists succs, forward f l = Ok succs /\ fwd_shape f succs.
Proof.
  intros W A. destruct (wf_func_parts f W) as (HE & _). destruct l as [b i|h t|b]; cbn [floc_apply forward] in *.
  - destruct (find_block (f_blocks f) b) as [blk|] eqn:FB; [|discriminate A].
    unfold block_instruction in A. destruct (find_instr (b_instrs blk) i) as [x|] eqn:FI; [|discriminate A].
    apply (instr_forward_shape f b _ i x FI). apply has_block_find. eexists. exact FB.
  - destruct (find_edge (f_edges f) h t) as [e|] eqn:FE; [|discriminate A].
    destruct (find_edge_in _ _ _ _ FE) as (I & _ & Et). specialize (HE e I). rewrite Et in HE.
    apply has_block_find in HE as [blk FB]. unfold f_block, cfg_block. fold (f_blocks f) in FB. unfold f_blocks in *.
    rewrite FB. cbn [bind]. eexists. split; [reflexivity|]. apply FS_one.
  - destruct (find_block (f_blocks f) b) as [blk|] eqn:FB; [|discriminate A].
    assert (HB : has_block (f_cfg f) b = true) by (apply has_block_find; eexists; exact FB).
    unfold cfg_edges_out. rewrite HB. cbn [bind]. eexists. split; [reflexivity|]. apply FS_edges. exact HB.
Qed.

(* ---------- guards ---------- *)
Definition edge_ok (f : func) (l : floc) : Prop :=
  exists h t e c, l = LEdge h t /\ find_edge (f_edges f) h t = Some e /\ e_cond e = Some c /\
                  wf_expr_b ty sv c = true /\ e_bits c = 1.

Lemma fan_edges_ok f bi : wf_func_b ty sv f = true -> has_block (f_cfg f) bi = true ->
  (2 <= length (filter (fun e => (e_head e =? bi)%Z) (f_edges f)))%nat ->
  Forall (edge_ok f) (edge_locs (filter (fun e => e_head e =? bi) (f_edges f))).
Proof.
  intros W HB L. destruct (wf_func_parts f W) as (_ & _ & WE & G).
  apply has_block_find in HB as [blk FB]. apply find_block_in in FB as [Ib Eb].
  unfold edges_guarded_b in G. rewrite forallb_forall in G. specialize (G blk Ib). rewrite Eb in G.
  set (es := filter (fun e => e_head e =? bi) (f_edges f)) in *.
  assert (GA : forallb has_cond es = true).
  { destruct es as [|e1 [|e2 r]]; cbn [length] in L; [lia|lia|exact G]. }
  rewrite forallb_forall in GA.
  apply Forall_forall. intros l Il. unfold edge_locs in Il. apply in_map_iff in Il as (e & <- & Ie).
  pose proof Ie as Ie'. apply filter_In in Ie' as [Ie1 Ie2]. apply Z.eqb_eq in Ie2.
  destruct (find_edge_some _ e Ie1) as [e' FE]. destruct (find_edge_in _ _ _ _ FE) as (I' & Eh & Et).
  assert (I'' : In e' es) by (apply filter_In; split; [assumption|apply Z.eqb_eq; congruence]).
  specialize (GA e' I''). unfold has_cond in GA. destruct (e_cond e') as [c|] eqn:EC; [|discriminate GA].
  specialize (WE e' I'). unfold wf_edge_b in WE. rewrite EC in WE. apply andb_prop in WE as [W1 W2].
  apply Z.eqb_eq in W2. exists (e_head e), (e_tail e), e', c. auto.
Qed.

Lemma scan_enabled f sc nc ls : typed sc -> Forall (edge_ok f) ls ->
  match enabled_locs f (abs_env sv sc) ls with
  | Ok r => scan f sc nc ls = Ok (hd_error r)
  | Err e => none_before_error f (abs_env sv sc) ls = true -> scan f sc nc ls = Err e /\ emap e = e
  | Panic => True
  end.
Proof.
  intros T. induction 1 as [|l t Hl Ht IH]; cbn [enabled_locs scan none_before_error]; [reflexivity|].
  destruct Hl as (h & tl & e & c & -> & FE & EC & WC & BC).
  unfold edge_enabled. cbn [loc_edge]. rewrite FE, EC. rewrite (sym_eval_den sc c T WC).
  destruct (den (abs_env sv sc) c) as [v|k|] eqn:D; cbn [bind]; [| |exact I].
  - destruct (den_good sc c v T WC D) as (G1 & _). rewrite G1, BC. cbn [Z.eqb negb Pos.eqb].
    unfold c_is_one. destruct (cval v =? 1); cbn [bind].
    + destruct (enabled_locs f (abs_env sv sc) t) as [r|k|]; cbn [bind hd_error]; [reflexivity|discriminate|exact I].
    + destruct (enabled_locs f (abs_env sv sc) t) as [r|k|]; cbn [bind]; [exact IH|exact IH|exact I].
  - intros _. split; [reflexivity|]. apply (emap_den _ _ _ D).
Qed.

(* ---------- one step ---------- *)
Variable lift : bmem -> Z -> res func.

Definition good_x (x : xstate) : Prop := typed (x_scal x) /\ mem_ok (x_mem x).

(* `refines` together with the invariants of the new executor state *)
Definition refines' (p : program) (fi : Z) (r : res dconf) (s : step_result) : Prop :=
  match s with
  | Next l' st' _ => exists x', r = Ok (mkd p (mkploc (Some fi) l') x') /\ abs sv x' = st' /\ good_x x'
  | Goto a st' =>
      match from_address p a with
      | Some (k, l') => exists x', r = Ok (mkd p (mkploc (Some k) l') x') /\ abs sv x' = st' /\ good_x x'
      | None => exists x', abs sv x' = st' /\ r = goto_address lift p a x'
      end
  | Exit _ _ => r = Err ENoLocation
  | Stuck e => r = Err (emap e)
  end.

Lemma refines'_refines p fi r s : refines' p fi r s -> refines lift sv p fi r s.
Proof.
  destruct s as [l' st' ev|a st'|st' ev|e]; cbn [refines' refines]; try (intros H; exact H).
  - intros (x' & A & B & _). exists x'. auto.
  - destruct (from_address p a) as [[k l']|]; [|intros H; exact H]. intros (x' & A & B & _). exists x'. auto.
Qed.

Lemma pick_single p fi f x nc ev l1 : f_index f = Some fi -> good_x x ->
  ctl_ok f (abs_env sv (x_scal x)) [l1] = true ->
  refines' p fi (pick_successor p f x nc [l1]) (choose f (abs sv x) ev [l1]).
Proof.
  intros FI G C. cbn [ctl_ok] in C. cbn [pick_successor]. unfold choose. cbn [enabled_locs abs st_env].
  destruct (edge_enabled f (abs_env sv (x_scal x)) l1) as [[|]| |]; try discriminate C. cbn [bind].
  cbn [refines']. exists x. unfold ploc_of. rewrite FI. auto.
Qed.

Lemma pick_refines p fi f x nc ev succs : wf_func_b ty sv f = true -> f_index f = Some fi -> good_x x ->
  fwd_shape f succs -> ctl_ok f (abs_env sv (x_scal x)) succs = true ->
  refines' p fi (pick_successor p f x nc succs) (choose f (abs sv x) ev succs).
Proof.
  intros W FI G S C. destruct S as [l1|bi HB]; [apply pick_single; assumption|].
  pose proof (fan_edges_ok f bi W HB) as FO.
  set (es := filter (fun e => e_head e =? bi) (f_edges f)) in *.
  assert (L : length (edge_locs es) = length es) by (unfold edge_locs; apply map_length).
  destruct (edge_locs es) as [|l1 [|l2 t]] eqn:E.
  - cbn [pick_successor scan bind choose refines']. reflexivity.
  - apply pick_single; assumption.
  - assert (FA : Forall (edge_ok f) (l1 :: l2 :: t)) by (apply FO; rewrite <- L; cbn [length]; lia).
    destruct G as [T M].
    pose proof (scan_enabled f (x_scal x) nc _ T FA) as SE.
    cbn [ctl_ok] in C. unfold choose. cbn [pick_successor abs st_env].
    destruct (enabled_locs f (abs_env sv (x_scal x)) (l1 :: l2 :: t)) as [r|e|]; [| |discriminate C].
    + rewrite SE. cbn [bind]. destruct r as [|a [|b r']]; cbn [hd_error refines']; [reflexivity| |discriminate C].
      exists x. unfold ploc_of. rewrite FI. unfold good_x. auto.
    + destruct (SE C) as [SE1 SE2]. rewrite SE1. cbn [bind refines']. rewrite SE2. reflexivity.
Qed.

Lemma ploc_apply_inv p pl fi l : ploc_apply p pl = Ok (fi, l) ->
  exists f, pl_func pl = Some fi /\ program_function p fi = Some f /\ floc_apply f (pl_loc pl) = Ok l.
Proof.
  unfold ploc_apply. destruct (pl_func pl) as [k|]; [|discriminate].
  destruct (program_function p k) as [f|] eqn:PF; [|discriminate].
  destruct (floc_apply f (pl_loc pl)) as [l0| |] eqn:FA; cbn [bind]; [|discriminate|discriminate].
  intros H. injection H as <- <-. exists f. auto.
Qed.

Lemma from_address_func p a k l' : from_address p a = Some (k, l') -> exists g, In (k, g) (p_funcs p).
Proof.
  assert (EX : forall fs, exhaustive_address fs a = Some (k, l') -> exists g, In (k, g) fs).
  { induction fs as [|[k0 g0] t IH]; cbn [exhaustive_address]; [discriminate|].
    destruct (find_addr_blocks (f_blocks g0) a); intros H.
    - injection H as -> _. exists g0. left. reflexivity.
    - destruct (IH H) as [g I]. exists g. right. exact I. }
  assert (CF : forall fs best kf, closest_function fs a best = Some kf ->
               (best = Some kf \/ In kf fs)).
  { induction fs as [|[k0 g0] t IH]; cbn [closest_function]; intros best kf H; [left; exact H|].
    destruct (a <? f_addr g0).
    - destruct (IH _ _ H); [left|right; right]; assumption.
    - destruct best as [[kb bf]|].
      + destruct (f_addr bf <? f_addr g0).
        * destruct (IH _ _ H) as [E|I]; [injection E as <-; right; left; reflexivity|right; right; exact I].
        * destruct (IH _ _ H); [left|right; right]; assumption.
      + destruct (IH _ _ H) as [E|I]; [injection E as <-; right; left; reflexivity|right; right; exact I]. }
  unfold from_address. destruct (closest_function (p_funcs p) a None) as [[kc fc]|] eqn:C; [|apply EX].
  destruct (find_addr_blocks (f_blocks fc) a) as [l0|]; [|apply EX].
  intros H. injection H as -> _. destruct (CF _ _ _ C) as [E|I]; [discriminate E|]. exists fc. exact I.
Qed.

Lemma find_func_some fs k g : In (k, g) fs -> exists g', find_func fs k = Some g'.
Proof.
  induction fs as [|[k0 g0] t IH]; intros H; [destruct H|]. cbn [find_func].
  destruct (Z.eqb_spec k0 k); [eexists; reflexivity|]. destruct H as [E|H]; [congruence|auto].
Qed.

Theorem step_refines_inv p pl fi l f x :
  wf_prog_b ty sv p = true -> ploc_apply p pl = Ok (fi, l) -> program_function p fi = Some f ->
  good_x x -> det_at f l (abs sv x) = true -> top_at f l (abs sv x) = false ->
  refines' p fi (step lift (mkd p pl x)) (sem_step f l (abs sv x)).
Proof.
  intros WP PA PF G DA TA.
  destruct (ploc_apply_inv _ _ _ _ PA) as (f0 & _ & PF0 & FA). rewrite PF in PF0. injection PF0 as <-.
  pose proof (floc_apply_id _ _ _ FA) as El. rewrite <- El in FA. clear El.
  destruct (wf_prog_in p fi f WP (find_func_in _ _ _ PF)) as [FI W].
  destruct (forward_shape f l W FA) as (succs & FW & SH).
  unfold step. cbn [d_prog d_loc d_st]. rewrite PA, PF.
  destruct l as [b i|h t|b].
  - (* instruction *)
    assert (LI : exists ins, loc_instruction f (LInstr b i) = Some ins /\ wf_op_b ty sv (i_op ins) = true).
    { cbn [floc_apply loc_instruction] in *. destruct (find_block (f_blocks f) b) as [blk|] eqn:FB; [|discriminate FA].
      destruct (block_instruction blk i) as [ins|] eqn:BI; [|discriminate FA]. exists ins. split; [reflexivity|].
      destruct (wf_func_parts f W) as (_ & WO & _). apply find_block_in in FB as [Ib _].
      unfold block_instruction in BI. apply find_instr_in in BI as [Ii _]. apply (WO blk ins Ib Ii). }
    destruct LI as (ins & LI & WO). rewrite LI.
    unfold top_at in TA. rewrite LI in TA. unfold det_at in DA. rewrite LI, FW in DA.
    unfold sem_step. rewrite LI, FW.
    destruct G as [T M]. pose proof (execute_refines x (i_op ins) T M WO TA) as ER.
    pose proof (exec_op_np (abs sv x) (i_op ins)) as NP.
    destruct (exec_op (abs sv x) (i_op ins)) as [[st' ev]|e|]; [| |congruence].
    + destruct ER as (x' & EX & AB & G'). rewrite EX. cbn [bind fst snd].
      assert (FALL : succ_of ev = SFall -> ctl_ok f (st_env st') succs = true ->
                     refines' p fi (locs <- Ok succs ;; pick_successor p f x' ECustom locs) (choose f st' ev succs)).
      { intros _ C. cbn [bind]. rewrite <- AB in *. apply pick_refines; assumption. }
      destruct ev as [|k v|a v|k a v|a]; cbn [succ_of] in *; try (apply FALL; [reflexivity|exact DA]).
      (* branch *)
      cbn [refines']. unfold goto_address.
      destruct (from_address p a) as [[k l']|] eqn:FAD.
      * destruct (from_address_func _ _ _ _ FAD) as [g Ig]. destruct (find_func_some _ _ _ Ig) as [g' PG].
        unfold program_function. rewrite PG.
        destruct (wf_prog_in p k g' WP (find_func_in _ _ _ PG)) as [FI' _].
        exists x'. unfold ploc_of. rewrite FI'. auto.
      * exists x'. split; [exact AB|reflexivity].
    + rewrite ER. cbn [bind refines']. reflexivity.
  - (* edge *)
    unfold sem_step. rewrite FW. cbn [bind].
    assert (E1 : exists l1, succs = [l1]).
    { cbn [forward] in FW. destruct (f_block f t) as [blk| |]; cbn [bind] in FW; try discriminate FW.
      injection FW as <-. eexists. reflexivity. }
    destruct E1 as [l1 ->]. cbn [refines']. exists x. unfold ploc_of. rewrite FI. auto.
  - (* empty block *)
    unfold sem_step. rewrite FW. cbn [bind]. unfold det_at in DA. rewrite FW in DA.
    apply pick_refines; assumption.
Qed.

(* ---------- frame (a theorem about the model alone) ---------- *)
Definition op_frame (o : operation) (x x' : xstate) : Prop :=
  match o with
  | OAssign d _ | OLoad d _ =>
      x_mem x' = x_mem x /\ forall n, n <> sname d -> sget (x_scal x') n = sget (x_scal x) n
  | OStore index src =>
      x_scal x' = x_scal x /\ bm_big (x_mem x') = bm_big (x_mem x) /\
      exists iv v, sym_eval (x_scal x) index = Ok iv /\ sym_eval (x_scal x) src = Ok v /\
                   forall y, (y < cval iv \/ cval iv + cbits v / 8 <= y) -> bm_get (x_mem x') y = bm_get (x_mem x) y
  | OBranch _ | OIntrinsic _ | ONop _ => x' = x
  end.

Lemma execute_frame x o x' t : execute x o = Ok (x', t) -> op_frame o x x'.
Proof.
  destruct o as [dst src|index src|dst index|target|i|ph]; cbn [execute op_frame].
  - destruct (sym_eval (x_scal x) src) as [v| |]; cbn [bind]; try discriminate.
    intros H. injection H as <- _. cbn [x_scal x_mem]. split; [reflexivity|].
    intros n N. rewrite sget_sset. destruct (N.eqb_spec (sname dst) n); [congruence|reflexivity].
  - destruct (sym_eval (x_scal x) src) as [v| |]; cbn [bind]; try discriminate.
    destruct (sym_eval (x_scal x) index) as [iv| |]; cbn [bind]; try discriminate.
    unfold addr_u64. destruct (cval iv <? USIZE); cbn [bind]; try discriminate.
    unfold xm_store. destruct (_ || _); [discriminate|]. destruct (USIZE <? _); cbn [bind]; [discriminate|].
    intros H. injection H as <- _. cbn [x_scal x_mem bm_big]. split; [reflexivity|]. split; [reflexivity|].
    exists iv, v. split; [reflexivity|]. split; [reflexivity|].
    intros y Hy. unfold bm_get. cbn [bm_bytes]. apply bytes_get_write_out. rewrite value_bytes_len.
    lia.
  - destruct (sym_eval (x_scal x) index) as [iv| |]; cbn [bind]; try discriminate.
    unfold addr_u64. destruct (cval iv <? USIZE); cbn [bind]; try discriminate.
    destruct (xm_load (x_mem x) (cval iv) (sbits dst)) as [[v|]| |]; cbn [bind]; try discriminate.
    intros H. injection H as <- _. cbn [x_scal x_mem]. split; [reflexivity|].
    intros n N. rewrite sget_sset. destruct (N.eqb_spec (sname dst) n); [congruence|reflexivity].
  - destruct (sym_eval (x_scal x) target) as [v| |]; cbn [bind]; try discriminate.
    unfold addr_u64. destruct (cval v <? USIZE); cbn [bind]; try discriminate. intros H. injection H as <- _. reflexivity.
  - discriminate.
  - intros H. injection H as <- _. reflexivity.
Qed.

Lemma pick_state p f x nc locs c' : pick_successor p f x nc locs = Ok c' -> d_st c' = x.
Proof.
  unfold pick_successor.
  assert (SC : (r <- scan f (x_scal x) nc locs ;;
                match r with Some l' => Ok (mkd p (ploc_of f l') x) | None => Err ENoLocation end) = Ok c' -> d_st c' = x).
  { destruct (scan f (x_scal x) nc locs) as [[l'|]| |]; cbn [bind]; try discriminate. intros H. injection H as <-. reflexivity. }
  destruct locs as [|l1 [|l2 t]]; try exact SC. intros H. injection H as <-. reflexivity.
Qed.

Lemma goto_state p a x c' : goto_address lift p a x = Ok c' -> d_st c' = x.
Proof.
  unfold goto_address. destruct (from_address p a) as [[k l']|].
  - destruct (program_function p k); [|discriminate]. intros H. injection H as <-. reflexivity.
  - destruct (lift (x_mem x) a) as [fn| |]; try discriminate.
    destruct (from_address (add_function p fn) a) as [[k l']|]; [|discriminate].
    destruct (program_function (add_function p fn) k); [|discriminate]. intros H. injection H as <-. reflexivity.
Qed.

Theorem step_frame_thm c c' fi l f : step lift c = Ok c' ->
  ploc_apply (d_prog c) (d_loc c) = Ok (fi, l) -> program_function (d_prog c) fi = Some f ->
  match l with
  | LInstr _ _ => forall i, loc_instruction f l = Some i -> op_frame (i_op i) (d_st c) (d_st c')
  | _ => d_st c' = d_st c
  end.
Proof.
  unfold step. intros S PA PF. rewrite PA, PF in S. destruct l as [b i|h t|b].
  - intros ins LI. rewrite LI in S.
    destruct (execute (d_st c) (i_op ins)) as [[x1 ty1]| |] eqn:EX; cbn [bind fst snd] in S; try discriminate S.
    pose proof (execute_frame _ _ _ _ EX) as FR.
    destruct ty1.
    + destruct (forward f (LInstr b i)) as [locs| |]; cbn [bind] in S; try discriminate S.
      rewrite (pick_state _ _ _ _ _ _ S). exact FR.
    + rewrite (goto_state _ _ _ _ S). exact FR.
  - destruct (forward f (LEdge h t)) as [[|l1 r]| |]; cbn [bind] in S; try discriminate S.
    injection S as <-. reflexivity.
  - destruct (forward f (LEmpty b)) as [locs| |]; cbn [bind] in S; try discriminate S.
    apply (pick_state _ _ _ _ _ _ S).
Qed.

(* ---------- errors are reported, never replaced by a value ---------- *)
Theorem no_guess_thm p pl fi l f x :
  wf_prog_b ty sv p = true -> ploc_apply p pl = Ok (fi, l) -> program_function p fi = Some f ->
  good_x x -> det_at f l (abs sv x) = true -> top_at f l (abs sv x) = false ->
  (forall e, sem_step f l (abs sv x) = Stuck e -> step lift (mkd p pl x) = Err (emap e)) /\
  (forall st' ev, sem_step f l (abs sv x) = Exit st' ev -> step lift (mkd p pl x) = Err ENoLocation).
Proof.
  intros WP PA PF G DA TA. pose proof (step_refines_inv p pl fi l f x WP PA PF G DA TA) as SR.
  split; intros; rewrite H in SR; exact SR.
Qed.

(* the error situations named in the property are `Stuck` in the semantics *)
Lemma sem_stuck_operation f b i ins st e : loc_instruction f (LInstr b i) = Some ins ->
  exec_op st (i_op ins) = Err e -> sem_step f (LInstr b i) st = Stuck e.
Proof. intros LI EX. unfold sem_step. rewrite LI, EX. reflexivity. Qed.
Lemma den_undefined en s : env_get en (skey_of s) = None -> den en (EScalar s) = Err EExecScalar.
Proof. intros H. cbn [den]. rewrite H. reflexivity. Qed.
Lemma den_zero_divisor en o l r a b : den en l = Ok a -> den en r = Ok b -> cbits a = cbits b -> cval b = 0 ->
  In o [Divu; Modu; Divs; Mods] -> den en (EBin o l r) = Err EDivZero.
Proof.
  intros A B W Z I. cbn [den]. rewrite A, B. cbn [bind]. unfold sp_bin_c. rewrite W, Z.eqb_refl, Z. cbn [negb].
  destruct I as [<-|[<-|[<-|[<-|[]]]]]; reflexivity.
Qed.
Lemma exec_intrinsic st i : exec_op st (OIntrinsic i) = Err EIntrinsic.
Proof. reflexivity. Qed.
Lemma exec_load_unmapped st dst index iv : den (st_env st) index = Ok iv -> cval iv < ADDR_LIMIT ->
  byte_w (sbits dst) = true -> bm_get (st_mem st) (cval iv) = None ->
  exec_op st (OLoad dst index) = Err EUnmapped.
Proof.
  intros D L B G. cbn [exec_op]. rewrite D. cbn [bind]. unfold addr_of.
  destruct (Z.ltb_spec (cval iv) ADDR_LIMIT); [|lia]. cbn [bind]. unfold mem_load.
  apply byte_w_spec in B as [B1 B2]. rewrite B1. destruct (Z.leb_spec (sbits dst) 0); [lia|]. cbn [Z.eqb negb orb].
  destruct (ADDR_LIMIT <? cval iv + sbits dst / 8); [reflexivity|].
  destruct (Z.to_nat (sbits dst / 8)) eqn:N; [lia|]. cbn [read_bytes]. rewrite G. reflexivity.
Qed.
Lemma choose_no_guard f st ev l1 l2 t : enabled_locs f (st_env st) (l1 :: l2 :: t) = Ok [] ->
  choose f st ev (l1 :: l2 :: t) = Stuck ENoLocation.
Proof. intros H. unfold choose. rewrite H. reflexivity. Qed.
Lemma choose_guard_error f st ev succs e : succs <> [] -> enabled_locs f (st_env st) succs = Err e ->
  choose f st ev succs = Stuck e.
Proof. intros N H. unfold choose. destruct succs; [congruence|]. rewrite H. reflexivity. Qed.


(* ---------- determinism: the successor taken is THE enabled successor ---------- *)
Lemma enabled_in f en ls : forall r l, enabled_locs f en ls = Ok r -> In l ls ->
  edge_enabled f en l = Ok true -> In l r.
Proof.
  induction ls as [|a t IH]; intros r l H I E; [destruct I|]. cbn [enabled_locs] in H.
  destruct (edge_enabled f en a) as [b| |] eqn:EA; cbn [bind] in H; try discriminate H.
  destruct (enabled_locs f en t) as [r'| |]; cbn [bind] in H; try discriminate H. injection H as <-.
  destruct I as [->|I].
  - rewrite E in EA. injection EA as <-. left. reflexivity.
  - specialize (IH r' l eq_refl I E). destruct b; [right|]; assumption.
Qed.

Lemma choose_next f st ev succs l' st' ev' : choose f st ev succs = Next l' st' ev' ->
  st' = st /\ enabled_locs f (st_env st) succs = Ok [l'].
Proof.
  unfold choose. destruct succs as [|s0 t]; [discriminate|].
  destruct (enabled_locs f (st_env st) (s0 :: t)) as [[|a [|b r]]| |]; try discriminate.
  intros H. injection H as <- <- _. auto.
Qed.

(* a statement about the semantics alone: `Next l'` names the only enabled successor *)
Lemma sem_next_unique f l st l' st' ev succs l'' : sem_step f l st = Next l' st' ev ->
  forward f l = Ok succs -> In l'' succs -> edge_enabled f (st_env st') l'' = Ok true -> l'' = l'.
Proof.
  intros S FW I E. destruct l as [b i|h t|b]; unfold sem_step in S.
  - destruct (loc_instruction f (LInstr b i)) as [ins|]; [|discriminate S].
    destruct (exec_op st (i_op ins)) as [[st1 ev1]| |]; try discriminate S. rewrite FW in S.
    assert (C : choose f st1 ev1 succs = Next l' st' ev -> l'' = l').
    { intros C. apply choose_next in C as [-> EN]. pose proof (enabled_in _ _ _ _ _ EN I E) as X.
      destruct X as [X|[]]. congruence. }
    destruct ev1; try (apply C; exact S). discriminate S.
  - rewrite FW in S. destruct succs as [|l1 [|l2 r]]; try discriminate S. injection S as <- _ _.
    destruct I as [I|[]]. congruence.
  - rewrite FW in S. apply choose_next in S as [-> EN]. pose proof (enabled_in _ _ _ _ _ EN I E) as X.
    destruct X as [X|[]]. congruence.
Qed.

Theorem step_deterministic_thm p pl fi l f x c' :
  wf_prog_b ty sv p = true -> ploc_apply p pl = Ok (fi, l) -> program_function p fi = Some f ->
  good_x x -> det_at f l (abs sv x) = true -> top_at f l (abs sv x) = false ->
  step lift (mkd p pl x) = Ok c' ->
  (forall a st', sem_step f l (abs sv x) <> Goto a st') ->
  forall succs l'', forward f l = Ok succs -> In l'' succs ->
    edge_enabled f (abs_env sv (x_scal (d_st c'))) l'' = Ok true -> d_loc c' = mkploc (Some fi) l''.
Proof.
  intros WP PA PF G DA TA S NG succs l'' FW I E.
  pose proof (step_refines_inv p pl fi l f x WP PA PF G DA TA) as SR.
  destruct (sem_step f l (abs sv x)) as [l' st' ev|a st'|st' ev|e] eqn:SS; cbn [refines'] in SR.
  - destruct SR as (x' & EQ & AB & _). rewrite S in EQ. injection EQ as ->. cbn [d_loc d_st] in *.
    f_equal. symmetry. apply (sem_next_unique _ _ _ _ _ _ _ _ SS FW I). rewrite <- AB. exact E.
  - exfalso. apply (NG a st'). reflexivity.
  - rewrite S in SR. discriminate SR.
  - rewrite S in SR. discriminate SR.
Qed.

(* the property's premise (guards mutually exclusive and exhaustive here) implies det_at *)
Lemma guards_det_ctl_ok f en succs : guards_det_at f en succs = true -> ctl_ok f en succs = true.
Proof.
  unfold guards_det_at, ctl_ok. destruct succs as [|l1 [|l2 t]]; [reflexivity| |].
  - cbn [enabled_locs]. destruct (edge_enabled f en l1) as [[|]| |]; cbn [bind]; (reflexivity || discriminate).
  - destruct (enabled_locs f en (l1 :: l2 :: t)) as [[|a [|b r]]| |]; (reflexivity || discriminate).
Qed.
Lemma guards_det_here_det_at f l st : guards_det_here f l st = true -> det_at f l st = true.
Proof.
  unfold guards_det_here, det_at. destruct l as [b i|h t|b]; [|reflexivity|].
  - destruct (loc_instruction f (LInstr b i)); [|reflexivity].
    destruct (exec_op st (i_op i0)) as [[st' ev]| |]; try reflexivity.
    destruct ev; try reflexivity; destruct (forward f (LInstr b i)); try reflexivity; apply guards_det_ctl_ok.
  - destruct (forward f (LEmpty b)); try reflexivity. apply guards_det_ctl_ok.
Qed.

End Names.

(* ---------- the statements of Props/C07.v (hypotheses in their executable form) ---------- *)
Section Final.
Variable ty : N -> Z.
Variable sv : N -> option N.
Variable lift : bmem -> Z -> res func.

Lemma good_of_b x : typed_b ty (x_scal x) = true -> mem_ok_b (x_mem x) = true -> good_x ty x.
Proof. intros T M. split; [apply (typed_b_typed ty sv); exact T|apply mem_ok_b_ok; exact M]. Qed.

Theorem step_refines_main p pl fi l f x :
  wf_prog_b ty sv p = true -> ploc_apply p pl = Ok (fi, l) -> program_function p fi = Some f ->
  typed_b ty (x_scal x) = true -> mem_ok_b (x_mem x) = true ->
  det_at f l (abs sv x) = true -> top_at f l (abs sv x) = false ->
  refines lift sv p fi (step lift (mkd p pl x)) (sem_step f l (abs sv x)).
Proof.
  intros WP PA PF T M DA TA. apply (refines'_refines ty).
  apply step_refines_inv; try assumption. apply good_of_b; assumption.
Qed.

Theorem step_deterministic_main p pl fi l f x c' :
  wf_prog_b ty sv p = true -> ploc_apply p pl = Ok (fi, l) -> program_function p fi = Some f ->
  typed_b ty (x_scal x) = true -> mem_ok_b (x_mem x) = true ->
  det_at f l (abs sv x) = true -> top_at f l (abs sv x) = false ->
  step lift (mkd p pl x) = Ok c' ->
  (forall a st', sem_step f l (abs sv x) <> Goto a st') ->
  forall succs l'', forward f l = Ok succs -> In l'' succs ->
    edge_enabled f (abs_env sv (x_scal (d_st c'))) l'' = Ok true -> d_loc c' = mkploc (Some fi) l''.
Proof.
  intros WP PA PF T M DA TA S NG succs l'' FW I E.
  apply (step_deterministic_thm ty sv lift p pl fi l f x c' WP PA PF (good_of_b x T M) DA TA S NG succs l'' FW I E).
Qed.

Theorem no_guessed_value_main p pl fi l f x :
  wf_prog_b ty sv p = true -> ploc_apply p pl = Ok (fi, l) -> program_function p fi = Some f ->
  typed_b ty (x_scal x) = true -> mem_ok_b (x_mem x) = true ->
  det_at f l (abs sv x) = true -> top_at f l (abs sv x) = false ->
  (forall e, sem_step f l (abs sv x) = Stuck e -> step lift (mkd p pl x) = Err (emap e)) /\
  (forall st' ev, sem_step f l (abs sv x) = Exit st' ev -> step lift (mkd p pl x) = Err ENoLocation).
Proof.
  intros WP PA PF T M DA TA. exact (no_guess_thm ty sv lift p pl fi l f x WP PA PF (good_of_b x T M) DA TA).
Qed.
End Final.

Theorem stuck_situations_main :
  (forall f b i ins st e, loc_instruction f (LInstr b i) = Some ins -> exec_op st (i_op ins) = Err e ->
     sem_step f (LInstr b i) st = Stuck e) /\
  (forall en s, env_get en (skey_of s) = None -> den en (EScalar s) = Err EExecScalar) /\
  (forall en o l r a b, den en l = Ok a -> den en r = Ok b -> cbits a = cbits b -> cval b = 0 ->
     In o [Divu; Modu; Divs; Mods] -> den en (EBin o l r) = Err EDivZero) /\
  (forall st i, exec_op st (OIntrinsic i) = Err EIntrinsic) /\
  (forall st dst index iv, den (st_env st) index = Ok iv -> cval iv < ADDR_LIMIT -> byte_w (sbits dst) = true ->
     bm_get (st_mem st) (cval iv) = None -> exec_op st (OLoad dst index) = Err EUnmapped) /\
  (forall f st ev l1 l2 t, enabled_locs f (st_env st) (l1 :: l2 :: t) = Ok [] ->
     choose f st ev (l1 :: l2 :: t) = Stuck ENoLocation) /\
  (forall f st ev succs e, succs <> [] -> enabled_locs f (st_env st) succs = Err e -> choose f st ev succs = Stuck e).
Proof.
  exact (conj sem_stuck_operation (conj den_undefined (conj den_zero_divisor
        (conj exec_intrinsic (conj (exec_load_unmapped (fun _ _ => Err EOther))
        (conj choose_no_guard choose_guard_error)))))).
Qed.
