(* Exec/PagedDriver.v -- C07 o C08: the executor model over the REAL paged-memory model
   (Mem/Paged.v, V = il::Constant) refines the IL semantics Exec/Sem.v.
   1. byte level: Sem's byte map (write_bytes / read_bytes / value_bytes / bytes_value) is C08's
      specification (store_spec / load_spec of Mem/PagedSpec.v);
   2. a driver generic in the state type (gstep), of which Exec/Driver.step is the byte-map instance;
   3. the paged instance (pexecute over Paged.store / Paged.load COps) and its simulation by the
      byte-map instance under C08's invariant InvM  (abs_store_l, abs_load_l, store_wrap_err);
   4. composition with DriverProofs.step_refines_inv / steps: "Driver over paged memory refines Sem". *)
From Coq Require Import ZArith List Bool NArith Lia ZifyBool.
From Falcon Require Import Base.Res IL.Const IL.ConstSpec IL.Expr IL.Func IL.Loc IL.LocProofs
  Exec.Sem Exec.State Exec.Driver Exec.DriverSpec Exec.DriverProofs Exec.DriverClosure
  Mem.PagedTypes Mem.Paged Mem.PagedSpec Mem.PagedCells Mem.PagedProofs Mem.PagedLoad Mem.PagedStore.
Import ListNotations.
Local Open Scope Z_scope.
Ltac Zify.zify_post_hook ::= Z.div_mod_to_equations.

(* ---------- 1. byte level ---------- *)
Definition big_of (e : endian) : bool := match e with BE => true | LE => false end.

Lemma bytes_get_write bs : forall l a x,
  bytes_get (write_bytes l a bs) x =
  if (a <=? x) && (x <? a + Z.of_nat (length bs)) then nth_error bs (Z.to_nat (x - a)) else bytes_get l x.
Proof.
  induction bs as [|b t IH]; intros l a x; cbn [write_bytes length].
  - destruct ((a <=? x) && (x <? a + Z.of_nat 0)) eqn:E; [lia|reflexivity].
  - rewrite IH, Nat2Z.inj_succ. cbn [bytes_get].
    destruct (Z.eqb_spec a x) as [->|N].
    + destruct ((x + 1 <=? x) && _) eqn:E1; [lia|].
      destruct ((x <=? x) && (x <? x + Z.succ (Z.of_nat (length t)))) eqn:E2; [|lia].
      replace (x - x) with 0 by lia. reflexivity.
    + destruct ((a + 1 <=? x) && (x <? a + 1 + Z.of_nat (length t))) eqn:E1;
      destruct ((a <=? x) && (x <? a + Z.succ (Z.of_nat (length t)))) eqn:E2; try lia; [|reflexivity].
      replace (Z.to_nat (x - a)) with (Datatypes.S (Z.to_nat (x - (a + 1)))) by lia. reflexivity.
Qed.

Lemma le_bytes_nth n : forall v i, (i < n)%nat ->
  nth_error (le_bytes n v) i = Some ((v / 2 ^ (8 * Z.of_nat i)) mod 256).
Proof.
  induction n as [|n IH]; intros v i H; [lia|]. cbn [le_bytes]. destruct i as [|i]; cbn [nth_error].
  - change (8 * Z.of_nat 0) with 0. rewrite Z.pow_0_r, Z.div_1_r. reflexivity.
  - rewrite IH by lia. f_equal. f_equal. rewrite Nat2Z.inj_succ.
    replace (8 * Z.succ (Z.of_nat i)) with (8 + 8 * Z.of_nat i) by lia.
    rewrite Z.pow_add_r by lia. rewrite Z.div_div by (try apply Z.pow_pos_nonneg; lia). reflexivity.
Qed.

Lemma nth_error_rev {A} (l : list A) i : (i < length l)%nat ->
  nth_error (rev l) i = nth_error l (length l - Datatypes.S i).
Proof.
  intros H. destruct l as [|d t]; [cbn in H; lia|].
  rewrite (nth_error_nth' (rev (d :: t)) d) by (rewrite rev_length; exact H).
  rewrite (nth_error_nth' (d :: t) d) by lia. f_equal. apply rev_nth. exact H.
Qed.

Lemma value_bytes_nth e n v i : (i < n)%nat ->
  nth_error (value_bytes (big_of e) n v) i = Some (byte_of e (Z.of_nat n) v (Z.of_nat i)).
Proof.
  intros H. unfold value_bytes, byte_of, pos. destruct e; cbn [big_of].
  - apply le_bytes_nth. exact H.
  - rewrite nth_error_rev by (rewrite le_bytes_len; exact H). rewrite le_bytes_len.
    rewrite le_bytes_nth by lia. f_equal. f_equal. f_equal. f_equal. lia.
Qed.

(* a store into Sem's byte map is C08's store_spec *)
Lemma write_is_store_spec e l a (v : const) x : 0 <= cbits v / 8 ->
  bytes_get (write_bytes l a (value_bytes (big_of e) (Z.to_nat (cbits v / 8)) (cval v))) x =
  store_spec e (bytes_get l) a v x.
Proof.
  intros K. rewrite bytes_get_write, value_bytes_len, Z2Nat.id by exact K.
  unfold store_spec, write.
  destruct ((a <=? x) && (x <? a + cbits v / 8)) eqn:E; [|reflexivity].
  rewrite value_bytes_nth by lia. rewrite !Z2Nat.id by lia. reflexivity.
Qed.

Lemma gather_read (bm : Z -> option Z) m : (forall x, bm x = bm_get m x) ->
  forall n a, gather bm a n = read_bytes m a n.
Proof.
  intros H. induction n as [|n IH]; intros a; cbn [gather read_bytes]; [reflexivity|].
  rewrite H, IH. reflexivity.
Qed.

Lemma le_value_app l1 : forall l2, le_value (l1 ++ l2) = le_value l1 + 256 ^ Z.of_nat (length l1) * le_value l2.
Proof.
  induction l1 as [|b t IH]; intros l2; cbn [app le_value length].
  - change (Z.of_nat 0) with 0. rewrite Z.pow_0_r. lia.
  - rewrite IH, Nat2Z.inj_succ, Z.pow_succ_r by lia. ring.
Qed.

Lemma asm_le l : forall k i, 0 <= i -> assemble_from LE k i l = 2 ^ (8 * i) * le_value l.
Proof.
  induction l as [|y t IH]; intros k i Hi; cbn [assemble_from le_value]; [lia|].
  rewrite IH by lia. unfold pos. replace (8 * (i + 1)) with (8 * i + 8) by lia.
  rewrite Z.pow_add_r by lia. change (2 ^ 8) with 256. ring.
Qed.

Lemma asm_be l : forall k i, k = i + Zlength l -> assemble_from BE k i l = le_value (rev l).
Proof.
  induction l as [|y t IH]; intros k i Hk; cbn [assemble_from rev]; [reflexivity|].
  rewrite Zlength_cons in Hk. rewrite (IH k (i + 1)) by lia.
  rewrite le_value_app. cbn [le_value]. rewrite rev_length. unfold pos.
  replace (k - 1 - i) with (Zlength t) by lia. rewrite Zlength_correct.
  rewrite (Z.pow_mul_r 2 8 (Z.of_nat (length t))) by lia. change (2 ^ 8) with 256. lia.
Qed.

Lemma assemble_bytes_value e l : assemble e l = bytes_value (big_of e) l.
Proof.
  unfold assemble, bytes_value. destruct e; cbn [big_of].
  - rewrite asm_le by lia. change (8 * 0) with 0. rewrite Z.pow_0_r. lia.
  - apply asm_be. lia.
Qed.

(* ---------- 2. Driver::step, generic in the state ---------- *)
Section Generic.
Variable S : Type.
Variable scal : S -> scalars.
Variable exec : S -> operation -> res (S * succ_type).
Variable liftS : S -> Z -> res func.

Record gconf := mkg { g_prog : program; g_loc : ploc; g_st : S }.

Definition ggoto (p : program) (a : Z) (st : S) : res gconf :=
  match from_address p a with
  | Some (k, l') =>
      match program_function p k with
      | Some g => Ok (mkg p (ploc_of g l') st)
      | None => Panic
      end
  | None =>
      match liftS st a with
      | Ok fn =>
          let p' := add_function p fn in
          match from_address p' a with
          | Some (k, l') =>
              match program_function p' k with
              | Some g => Ok (mkg p' (ploc_of g l') st)
              | None => Panic
              end
          | None => Err ECustom
          end
      | Err _ => Err EOther
      | Panic => Panic
      end
  end.

Definition gpick (p : program) (f : func) (st : S) (nocond : err) (locs : list floc) : res gconf :=
  match locs with
  | [l1] => Ok (mkg p (ploc_of f l1) st)
  | _ => r <- scan f (scal st) nocond locs ;;
         match r with
         | Some l' => Ok (mkg p (ploc_of f l') st)
         | None => Err ENoLocation
         end
  end.

Definition gstep (c : gconf) : res gconf :=
  let p := g_prog c in
  match ploc_apply p (g_loc c) with
  | Err _ => Err EOther
  | Panic => Panic
  | Ok (fi, l) =>
      match program_function p fi with
      | None => Panic
      | Some f =>
          match l with
          | LInstr _ _ =>
              match loc_instruction f l with
              | None => Panic
              | Some i =>
                  r <- exec (g_st c) (i_op i) ;;
                  match snd r with
                  | SFall => locs <- forward f l ;; gpick p f (fst r) ECustom locs
                  | SBranch a => ggoto p a (fst r)
                  end
              end
          | LEdge _ _ =>
              locs <- forward f l ;;
              match locs with
              | l1 :: _ => Ok (mkg p (ploc_of f l1) (g_st c))
              | [] => Panic
              end
          | LEmpty _ => locs <- forward f l ;; gpick p f (g_st c) ENoEdgeCond locs
          end
      end
  end.

Fixpoint grun (n : nat) (c : gconf) : res gconf :=
  match n with O => Ok c | Datatypes.S n => c' <- gstep c ;; grun n c' end.
End Generic.
Arguments mkg {S}. Arguments g_prog {S}. Arguments g_loc {S}. Arguments g_st {S}.

Definition rmap {A B} (f : A -> B) (r : res A) : res B :=
  match r with Ok a => Ok (f a) | Err e => Err e | Panic => Panic end.

(* Exec/Driver.step IS the byte-map instance *)
Section XInstance.
Variable lift : bmem -> Z -> res func.
Definition xlift (st : xstate) (a : Z) := lift (x_mem st) a.
Definition dconf_of (c : gconf xstate) : dconf := mkd (g_prog c) (g_loc c) (g_st c).
Definition xstep := gstep xstate x_scal execute xlift.

Lemma xgoto_eq p a st : rmap dconf_of (ggoto xstate xlift p a st) = goto_address lift p a st.
Proof.
  unfold ggoto, goto_address, xlift. destruct (from_address p a) as [[k l']|].
  - destruct (program_function p k); reflexivity.
  - destruct (lift (x_mem st) a) as [fn| |]; try reflexivity. cbv zeta.
    destruct (from_address (add_function p fn) a) as [[k l']|]; [|reflexivity].
    destruct (program_function (add_function p fn) k); reflexivity.
Qed.
Lemma xpick_eq p f st nc locs : rmap dconf_of (gpick xstate x_scal p f st nc locs) = pick_successor p f st nc locs.
Proof.
  unfold gpick, pick_successor.
  assert (SC : rmap dconf_of (r <- scan f (x_scal st) nc locs ;;
                 match r with Some l' => Ok (mkg p (ploc_of f l') st) | None => Err ENoLocation end) =
               (r <- scan f (x_scal st) nc locs ;;
                 match r with Some l' => Ok (mkd p (ploc_of f l') st) | None => Err ENoLocation end)).
  { destruct (scan f (x_scal st) nc locs) as [[l'|]| |]; reflexivity. }
  destruct locs as [|l1 [|l2 t]]; try exact SC. reflexivity.
Qed.
Lemma xstep_eq c : rmap dconf_of (xstep c) = step lift (dconf_of c).
Proof.
  unfold xstep, gstep, step, dconf_of. cbn [d_prog d_loc d_st].
  destruct (ploc_apply (g_prog c) (g_loc c)) as [[fi l]| |]; try reflexivity.
  destruct (program_function (g_prog c) fi) as [f|]; [|reflexivity].
  destruct l as [b i|h t|b].
  - destruct (loc_instruction f (LInstr b i)) as [ins|]; [|reflexivity].
    destruct (execute (g_st c) (i_op ins)) as [[x1 t1]| |]; try reflexivity. cbn [bind fst snd].
    destruct t1.
    + destruct (forward f (LInstr b i)) as [locs| |]; try reflexivity. cbn [bind]. apply xpick_eq.
    + apply xgoto_eq.
  - destruct (forward f (LEdge h t)) as [[|l1 r]| |]; reflexivity.
  - destruct (forward f (LEmpty b)) as [locs| |]; try reflexivity. cbn [bind]. apply xpick_eq.
Qed.
End XInstance.

(* ---------- simulation between two instances ---------- *)
Definition rres {A B} (R : A -> B -> Prop) (r1 : res A) (r2 : res B) : Prop :=
  match r1, r2 with
  | Ok a, Ok b => R a b
  | Err e, Err e' => e = e'
  | Panic, Panic => True
  | _, _ => False
  end.

Section Sim.
Variables (S1 S2 : Type) (scal1 : S1 -> scalars) (scal2 : S2 -> scalars).
Variables (exec1 : S1 -> operation -> res (S1 * succ_type)) (exec2 : S2 -> operation -> res (S2 * succ_type)).
Variables (lift1 : S1 -> Z -> res func) (lift2 : S2 -> Z -> res func).
Variable R : S1 -> S2 -> Prop.
Hypothesis R_scal : forall s1 s2, R s1 s2 -> scal1 s1 = scal2 s2.
Hypothesis R_lift : forall s1 s2 a, R s1 s2 -> lift1 s1 a = lift2 s2 a.

Definition crel (c1 : gconf S1) (c2 : gconf S2) : Prop :=
  g_prog c1 = g_prog c2 /\ g_loc c1 = g_loc c2 /\ R (g_st c1) (g_st c2).
Definition erel (a : S1 * succ_type) (b : S2 * succ_type) : Prop := R (fst a) (fst b) /\ snd a = snd b.

Lemma ggoto_sim p a s1 s2 : R s1 s2 ->
  rres crel (ggoto S1 lift1 p a s1) (ggoto S2 lift2 p a s2).
Proof.
  intros H. unfold ggoto. destruct (from_address p a) as [[k l']|].
  - destruct (program_function p k); cbn [rres]; [|exact I]. repeat split; assumption.
  - rewrite (R_lift _ _ a H). destruct (lift2 s2 a) as [fn| |]; cbn [rres]; try reflexivity; try exact I.
    cbv zeta. destruct (from_address (add_function p fn) a) as [[k l']|]; [|reflexivity].
    destruct (program_function (add_function p fn) k); cbn [rres]; [|exact I]. repeat split; assumption.
Qed.
Lemma gpick_sim p f s1 s2 nc locs : R s1 s2 ->
  rres crel (gpick S1 scal1 p f s1 nc locs) (gpick S2 scal2 p f s2 nc locs).
Proof.
  intros H. unfold gpick. rewrite (R_scal _ _ H).
  assert (SC : rres crel
     (r <- scan f (scal2 s2) nc locs ;; match r with Some l' => Ok (mkg p (ploc_of f l') s1) | None => Err ENoLocation end)
     (r <- scan f (scal2 s2) nc locs ;; match r with Some l' => Ok (mkg p (ploc_of f l') s2) | None => Err ENoLocation end)).
  { destruct (scan f (scal2 s2) nc locs) as [[l'|]| |]; cbn [bind rres]; try reflexivity; try exact I.
    repeat split; assumption. }
  destruct locs as [|l1 [|l2 t]]; try exact SC. cbn [rres]. repeat split; assumption.
Qed.

Lemma gstep_sim c1 c2 : crel c1 c2 ->
  (forall fi l f i, ploc_apply (g_prog c2) (g_loc c2) = Ok (fi, l) -> program_function (g_prog c2) fi = Some f ->
     loc_instruction f l = Some i -> rres erel (exec1 (g_st c1) (i_op i)) (exec2 (g_st c2) (i_op i))) ->
  rres crel (gstep S1 scal1 exec1 lift1 c1) (gstep S2 scal2 exec2 lift2 c2).
Proof.
  intros (EP & EL & HR) HX. unfold gstep. rewrite EP, EL.
  destruct (ploc_apply (g_prog c2) (g_loc c2)) as [[fi l]| |] eqn:PA; cbn [rres]; try reflexivity; try exact I.
  destruct (program_function (g_prog c2) fi) as [f|] eqn:PF; cbn [rres]; [|exact I].
  destruct l as [b i|h t|b].
  - destruct (loc_instruction f (LInstr b i)) as [ins|] eqn:LI; cbn [rres]; [|exact I].
    specialize (HX _ _ _ _ eq_refl PF LI).
    destruct (exec1 (g_st c1) (i_op ins)) as [[y1 t1]| |], (exec2 (g_st c2) (i_op ins)) as [[y2 t2]| |];
      cbn [rres] in HX; try contradiction; cbn [bind rres]; try assumption; try exact I.
    destruct HX as [HR' ET]. cbn [fst snd] in *. subst t2. destruct t1.
    + destruct (forward f (LInstr b i)) as [locs| |]; cbn [bind rres]; try reflexivity; try exact I.
      apply gpick_sim. exact HR'.
    + apply ggoto_sim. exact HR'.
  - destruct (forward f (LEdge h t)) as [[|l1 r]| |]; cbn [bind rres]; try reflexivity; try exact I.
    repeat split; assumption.
  - destruct (forward f (LEmpty b)) as [locs| |]; cbn [bind rres]; try reflexivity; try exact I.
    apply gpick_sim. exact HR.
Qed.
End Sim.

(* ---------- 3. the instance over paged memory ---------- *)
Record pstate := mkp { p_scal : scalars; p_mem : cmem }.

(* State::execute with memory = paged::Memory<Constant> (Mem/Paged.v, COps) *)
Definition pexecute (st : pstate) (o : operation) : res (pstate * succ_type) :=
  match o with
  | OAssign dst src =>
      v <- sym_eval (p_scal st) src ;;
      Ok (mkp (sset (p_scal st) (sname dst) v) (p_mem st), SFall)
  | OStore index src =>
      v <- sym_eval (p_scal st) src ;;
      i <- sym_eval (p_scal st) index ;;
      a <- addr_u64 i ;;
      m <- Paged.store COps (p_mem st) a v ;;
      Ok (mkp (p_scal st) m, SFall)
  | OLoad dst index =>
      i <- sym_eval (p_scal st) index ;;
      a <- addr_u64 i ;;
      r <- Paged.load COps (p_mem st) a (sbits dst) ;;
      match r with
      | Some v => Ok (mkp (sset (p_scal st) (sname dst) v) (p_mem st), SFall)
      | None => Err EInvalidAddress
      end
  | OBranch target =>
      t <- sym_eval (p_scal st) target ;;
      a <- addr_u64 t ;;
      Ok (st, SBranch a)
  | OIntrinsic _ => Err EIntrinsic
  | ONop _ => Ok (st, SFall)
  end.

(* the byte map is the view (C08's mabs) of the paged memory, which satisfies C08's invariant *)
Definition mrel (pm : cmem) (bm : bmem) : Prop :=
  bm_big bm = big_of (m_end pm) /\ (forall x, mabs pm x = bm_get bm x) /\ InvM pm /\ back_ok (m_back pm).
Definition srel (ps : pstate) (x : xstate) : Prop := p_scal ps = x_scal x /\ mrel (p_mem ps) (x_mem x).

(* what the C08 theorems need of the operands (established from the C07 premises in section 4) *)
Definition mem_pre (x : xstate) (o : operation) : Prop :=
  match o with
  | OStore index src =>
      forall v i, sym_eval (x_scal x) src = Ok v -> sym_eval (x_scal x) index = Ok i -> cval i < USIZE ->
        0 <= cval i /\ 0 <= cval v < 2 ^ cbits v /\ 0 <= cbits v < 2 ^ 63
  | OLoad dst index =>
      forall i, sym_eval (x_scal x) index = Ok i -> cval i < USIZE ->
        0 <= cval i /\ 0 <= sbits dst < 2 ^ 63 /\ cval i + sbits dst / 8 <= 2 ^ 64
  | _ => True
  end.

Lemma store_sim pm bm a v : mrel pm bm -> 0 <= a -> 0 <= cval v < 2 ^ cbits v -> 0 <= cbits v < 2 ^ 63 ->
  rres mrel (Paged.store COps pm a v) (xm_store bm a v).
Proof.
  intros (EB & AB & HM & HB) Ha Hv Hw. unfold xm_store.
  destruct (Z.eqb_spec (cbits v mod 8) 0) as [M8|M8]; cbn [negb orb].
  2:{ rewrite store_bad_width by (left; exact M8). reflexivity. }
  destruct (Z.eqb_spec (cbits v) 0) as [Z0|Z0].
  { rewrite store_bad_width by (right; exact Z0). reflexivity. }
  destruct (Z.ltb_spec USIZE (a + cbits v / 8)) as [Top|NTop].
  { rewrite store_wrap_err; [reflexivity|exact M8|exact Z0|]. unfold vk. rewrite USIZE_val in Top. exact Top. }
  assert (WF : wfv v).
  { unfold wfv, vk. replace (8 * (cbits v / 8)) with (cbits v) by lia. repeat split; lia. }
  destruct (abs_store_l pm a v HM HB WF Ha) as (m' & E & HM' & (F1 & F2 & _) & A).
  { unfold vk. rewrite USIZE_val in NTop. lia. }
  rewrite E. cbn [rres]. unfold mrel. cbn [bm_big bm_bytes]. rewrite F1, F2.
  split; [exact EB|]. split; [|split; assumption].
  intros x. rewrite A. unfold bm_get. cbn [bm_bytes]. rewrite EB.
  rewrite write_is_store_spec by lia. unfold store_spec, write.
  destruct ((a <=? x) && (x <? a + cbits v / 8)); [reflexivity|]. apply AB.
Qed.

Lemma load_sim pm bm a bits : mrel pm bm -> 0 <= a -> 0 <= bits < 2 ^ 63 -> a + bits / 8 <= 2 ^ 64 ->
  Paged.load COps pm a bits = xm_load bm a bits.
Proof.
  intros (EB & AB & HM & HB) Ha Hw Hn. unfold xm_load.
  destruct (Z.eqb_spec (bits mod 8) 0) as [M8|M8]; cbn [negb].
  2:{ apply load_bad_width. left. exact M8. }
  destruct (Z.eqb_spec bits 0) as [Z0|Z0].
  { apply load_bad_width. right. exact Z0. }
  replace bits with (8 * (bits / 8)) at 1 by lia.
  rewrite abs_load_l by (assumption || lia).
  rewrite xm_read_spec by (rewrite Z2Nat.id, USIZE_val; lia). cbn [bind]. f_equal.
  unfold load_spec. rewrite (gather_read (mabs pm) bm AB).
  destruct (read_bytes bm a (Z.to_nat (bits / 8))) as [bs|]; [|reflexivity].
  rewrite assemble_bytes_value, EB. f_equal. f_equal. lia.
Qed.

Lemma pexecute_sim ps x o : srel ps x -> mem_pre x o ->
  rres (erel pstate xstate srel) (pexecute ps o) (execute x o).
Proof.
  intros [ES MR] PRE. destruct ps as [sc pm], x as [sc' bm]. cbn [p_scal p_mem x_scal x_mem] in *. subst sc'.
  destruct o as [dst src|index src|dst index|target|i|ph]; cbn [pexecute execute p_scal p_mem x_scal x_mem mem_pre] in *.
  - destruct (sym_eval sc src) as [v| |]; cbn [bind rres]; try reflexivity; try exact I.
    split; [split; [reflexivity|exact MR]|reflexivity].
  - destruct (sym_eval sc src) as [v| |]; cbn [bind rres]; try reflexivity; try exact I.
    destruct (sym_eval sc index) as [iv| |]; cbn [bind rres]; try reflexivity; try exact I.
    unfold addr_u64. destruct (Z.ltb_spec (cval iv) USIZE) as [La|La]; cbn [bind rres]; [|reflexivity].
    destruct (PRE v iv eq_refl eq_refl La) as (P1 & P2 & P3).
    pose proof (store_sim pm bm (cval iv) v MR P1 P2 P3) as SS.
    destruct (Paged.store COps pm (cval iv) v) as [m1| |], (xm_store bm (cval iv) v) as [m2| |];
      cbn [rres] in SS; try contradiction; cbn [bind rres]; try assumption; try exact I.
    split; [split; [reflexivity|exact SS]|reflexivity].
  - destruct (sym_eval sc index) as [iv| |]; cbn [bind rres]; try reflexivity; try exact I.
    unfold addr_u64. destruct (Z.ltb_spec (cval iv) USIZE) as [La|La]; cbn [bind rres]; [|reflexivity].
    destruct (PRE iv eq_refl La) as (P1 & P2 & P3).
    rewrite (load_sim pm bm (cval iv) (sbits dst) MR P1 P2 P3).
    destruct (xm_load bm (cval iv) (sbits dst)) as [[v|]| |]; cbn [bind rres]; try reflexivity; try exact I.
    split; [split; [reflexivity|exact MR]|reflexivity].
  - destruct (sym_eval sc target) as [v| |]; cbn [bind rres]; try reflexivity; try exact I.
    unfold addr_u64. destruct (cval v <? USIZE); cbn [bind rres]; [|reflexivity].
    split; [split; [reflexivity|exact MR]|reflexivity].
  - reflexivity.
  - split; [split; [reflexivity|exact MR]|reflexivity].
Qed.

(* ---------- 4. composition: the driver over paged memory refines Sem ---------- *)
(* widths of memory operands stay below 2^63 bits (C08's theorems: `8 * n < 2^63`, the `as usize`
   casts of paged.rs) *)
Definition memw (o : operation) : bool :=
  match o with
  | OStore _ s => e_bits s <? 2 ^ 63
  | OLoad d _ => sbits d <? 2 ^ 63
  | _ => true
  end.
Definition memw_prog_b (p : program) : bool :=
  forallb (fun kf => forallb (fun b => forallb (fun i => memw (i_op i)) (b_instrs b)) (f_blocks (snd kf))) (p_funcs p).

Section Compose.
Variable ty : N -> Z.
Variable sv : N -> option N.
Variable lift : bmem -> Z -> res func.
Variable plift : cmem -> Z -> res func.
(* the translator reads the memory through get_u8 / permissions only: it cannot tell a paged memory
   from its byte view (trusted, like the oracle itself) *)
Hypothesis lift_compat : forall pm bm a, mrel pm bm -> plift pm a = lift bm a.

Definition pliftS (st : pstate) (a : Z) := plift (p_mem st) a.
Definition pstep := gstep pstate p_scal pexecute pliftS.
Definition prun := grun pstate p_scal pexecute pliftS.

Lemma mem_pre_of x o : typed ty (x_scal x) -> wf_op_b ty sv o = true -> wraps (DriverSpec.abs sv x) o = false ->
  memw o = true -> mem_pre x o.
Proof.
  intros T W WR MW. destruct o as [dst src|index src|dst index|target|i|ph]; cbn [mem_pre]; try exact I;
    cbn [wf_op_b] in W; cbn [wraps DriverSpec.abs st_env] in WR; cbn [memw] in MW.
  - apply andb_prop in W as [W W3]. apply andb_prop in W as [W1 W2].
    intros v i Ev Ei La. rewrite (sym_eval_den ty sv _ _ T W2) in Ev. rewrite (sym_eval_den ty sv _ _ T W1) in Ei.
    destruct (den_good ty sv _ _ _ T W2 Ev) as (G1 & G2 & G3).
    destruct (den_good ty sv _ _ _ T W1 Ei) as (I1 & I2 & I3).
    unfold ConstSpec.inr in *. rewrite G1 in G2 |- *. lia.
  - apply andb_prop in W as [W W3]. apply andb_prop in W as [W1 W2].
    apply wf_scalar_b_spec in W1 as [_ B].
    intros i Ei La. rewrite (sym_eval_den ty sv _ _ T W2) in Ei. rewrite Ei in WR.
    destruct (den_good ty sv _ _ _ T W2 Ei) as (I1 & I2 & I3).
    unfold ConstSpec.inr in *. change ADDR_LIMIT with USIZE in WR. rewrite USIZE_val in *. lia.
Qed.

Definition prefines (p : program) (fi : Z) (r : res (gconf pstate)) (s : step_result) : Prop :=
  match s with
  | Next l' st' _ =>
      exists ps' x', r = Ok (mkg p (mkploc (Some fi) l') ps') /\ srel ps' x' /\ DriverSpec.abs sv x' = st' /\ good_x ty x'
  | Goto a st' =>
      match from_address p a with
      | Some (k, l') =>
          exists ps' x', r = Ok (mkg p (mkploc (Some k) l') ps') /\ srel ps' x' /\ DriverSpec.abs sv x' = st' /\ good_x ty x'
      | None => True
      end
  | Exit _ _ => r = Err ENoLocation
  | Stuck e => r = Err (emap e)
  end.

Lemma transfer_ok (r1 : res (gconf pstate)) (r2 : res (gconf xstate)) p' loc' x' :
  rres (crel pstate xstate srel) r1 r2 -> rmap dconf_of r2 = Ok (mkd p' loc' x') ->
  exists ps', r1 = Ok (mkg p' loc' ps') /\ srel ps' x'.
Proof.
  intros S E. destruct r2 as [[p2 l2 x2]| |]; cbn [rmap dconf_of g_prog g_loc g_st] in E; try discriminate E.
  injection E as -> -> ->. destruct r1 as [[p1 l1 ps1]| |]; cbn [rres] in S; try contradiction.
  destruct S as (A & B & C). cbn [g_prog g_loc g_st] in *. subst. exists ps1. auto.
Qed.
Lemma transfer_err (r1 : res (gconf pstate)) (r2 : res (gconf xstate)) e :
  rres (crel pstate xstate srel) r1 r2 -> rmap dconf_of r2 = Err e -> r1 = Err e.
Proof.
  intros S E. destruct r2 as [c2|e2|]; cbn [rmap] in E; try discriminate E. injection E as ->.
  destruct r1; cbn [rres] in S; try contradiction. congruence.
Qed.

Theorem paged_step_refines p pl fi l f x ps :
  wf_prog_b ty sv p = true -> memw_prog_b p = true ->
  ploc_apply p pl = Ok (fi, l) -> program_function p fi = Some f ->
  good_x ty x -> srel ps x ->
  det_at f l (DriverSpec.abs sv x) = true -> top_at f l (DriverSpec.abs sv x) = false ->
  prefines p fi (pstep (mkg p pl ps)) (sem_step f l (DriverSpec.abs sv x)).
Proof.
  intros WP MWP PA PF G SR DA TA.
  pose proof (step_refines_inv ty sv lift p pl fi l f x WP PA PF G DA TA) as RF.
  assert (SIM : rres (crel pstate xstate srel) (pstep (mkg p pl ps)) (xstep lift (mkg p pl x))).
  { apply gstep_sim.
    - intros s1 s2 [E _]. exact E.
    - intros s1 s2 a [_ M]. apply lift_compat. exact M.
    - split; [reflexivity|split; [reflexivity|exact SR]].
    - cbn [g_prog g_loc g_st]. intros fi0 l0 f0 i PA0 PF0 LI. rewrite PA in PA0. injection PA0 as <- <-.
      rewrite PF in PF0. injection PF0 as <-.
      apply pexecute_sim; [exact SR|]. destruct G as [T M].
      destruct (wf_prog_in ty sv p fi f WP (DriverProofs.find_func_in _ _ _ PF)) as [_ W].
      assert (IN : exists b, In b (f_blocks f) /\ In i (b_instrs b)).
      { destruct l as [b ii|h t|b]; cbn [loc_instruction] in LI; try discriminate LI.
        destruct (find_block (f_blocks f) b) as [blk|] eqn:FB; [|discriminate LI].
        apply DriverProofs.find_block_in in FB as [Ib _]. unfold block_instruction in LI.
        apply DriverProofs.find_instr_in in LI as [Ii _]. exists blk. auto. }
      destruct IN as (blk & Ib & Ii).
      apply mem_pre_of; [exact T| | |].
      + destruct (wf_func_parts ty sv f W) as (_ & WO & _). apply (WO blk i Ib Ii).
      + unfold top_at in TA. rewrite LI in TA. exact TA.
      + unfold memw_prog_b in MWP. rewrite forallb_forall in MWP.
        specialize (MWP _ (DriverProofs.find_func_in _ _ _ PF)). cbn [snd] in MWP.
        rewrite forallb_forall in MWP. specialize (MWP _ Ib). rewrite forallb_forall in MWP. apply (MWP _ Ii). }
  pose proof (xstep_eq lift (mkg p pl x)) as XE. unfold dconf_of in XE at 2. cbn [g_prog g_loc g_st] in XE.
  destruct (sem_step f l (DriverSpec.abs sv x)) as [l' st' ev|a st'|st' ev|e]; cbn [refines' prefines] in *.
  - destruct RF as (x' & E & AB & G'). rewrite E in XE.
    destruct (transfer_ok _ _ _ _ _ SIM XE) as (ps' & E1 & S1). exists ps', x'. auto.
  - destruct (from_address p a) as [[k l']|]; [|exact I].
    destruct RF as (x' & E & AB & G'). rewrite E in XE.
    destruct (transfer_ok _ _ _ _ _ SIM XE) as (ps' & E1 & S1). exists ps', x'. auto.
  - rewrite RF in XE. apply (transfer_err _ _ _ SIM XE).
  - rewrite RF in XE. apply (transfer_err _ _ _ SIM XE).
Qed.
End Compose.

(* ---------- 5. all step counts ---------- *)
Section PagedRun.
Variable ty : N -> Z.
Variable sv : N -> option N.
Variable lift : bmem -> Z -> res func.
Variable plift : cmem -> Z -> res func.
Hypothesis lift_compat : forall pm bm a, mrel pm bm -> plift pm a = lift bm a.

Definition prun_refines (p : program) (r : res (gconf pstate)) (s : sfinal) : Prop :=
  match s with
  | FRan c' => exists ps' x', r = Ok (mkg p (mkploc (Some (sc_fi c')) (sc_loc c')) ps') /\ srel ps' x' /\
                              DriverSpec.abs sv x' = sc_st c'
  | FExit => r = Err ENoLocation
  | FStuck e => r = Err (emap e)
  | FRelift => True
  end.

Theorem paged_steps_refine p : wf_prog_b ty sv p = true -> memw_prog_b p = true ->
  forall n fi l f x ps, program_function p fi = Some f -> valid_loc f l = true -> good_x ty x -> srel ps x ->
  run_ok n p (mksc fi l (DriverSpec.abs sv x)) = true ->
  prun_refines p (prun plift n (mkg p (mkploc (Some fi) l) ps)) (sem_prun n p (mksc fi l (DriverSpec.abs sv x))).
Proof.
  intros WP MW. destruct (wf_prog_inv ty sv p WP) as [PI CI].
  induction n as [|n IH]; intros fi l f x ps PF VL G SR RO.
  - cbn [prun grun sem_prun prun_refines sc_fi sc_loc sc_st]. exists ps, x. auto.
  - cbn [run_ok] in RO. apply andb_prop in RO as [OK RO]. unfold ok_at in OK. cbn [sc_fi sc_loc sc_st] in OK.
    rewrite PF in OK. apply andb_prop in OK as [DA TA]. apply negb_true_iff in TA.
    pose proof (floc_apply_valid f l VL) as FA.
    assert (PA : ploc_apply p (mkploc (Some fi) l) = Ok (fi, l)).
    { unfold ploc_apply. cbn [pl_func pl_loc]. rewrite PF, FA. reflexivity. }
    pose proof (paged_step_refines ty sv lift plift lift_compat p _ fi l f x ps WP MW PA PF G SR DA TA) as PR.
    assert (CF : cfg_inv (f_cfg f) = true) by (apply (CI fi f), DriverProofs.find_func_in, PF).
    unfold prun in *. cbn [grun sem_prun]. fold (pstep plift). unfold sem_pstep in *. cbn [sc_fi sc_loc sc_st] in *. rewrite PF in *.
    destruct (sem_step f l (DriverSpec.abs sv x)) as [l' st' ev|a st'|st' ev|e] eqn:SS; cbn [prefines] in PR.
    + destruct PR as (ps' & x' & -> & SR' & <- & G'). cbn [bind].
      destruct (sem_next_in _ _ _ _ _ _ SS) as (succs & FW & IN).
      destruct (forward_total f CF l VL) as (succs' & FW' & VS). rewrite FW in FW'. injection FW' as <-.
      apply (IH fi l' f x' ps' PF (VS l' IN) G' SR' RO).
    + destruct (from_address p a) as [[k l']|] eqn:FAD.
      * destruct PR as (ps' & x' & -> & SR' & <- & G'). cbn [bind].
        destruct (from_address_sound p a k l' PI CI FAD) as (g & ins & PG & VG & _).
        apply (IH k l' g x' ps' PG VG G' SR' RO).
      * exact I.
    + rewrite PR. reflexivity.
    + rewrite PR. reflexivity.
Qed.
End PagedRun.

(* ---------- the statements of Props/C07.v ---------- *)
Section PagedFinal.
Variable ty : N -> Z.
Variable sv : N -> option N.
Variable lift : bmem -> Z -> res func.
Variable plift : cmem -> Z -> res func.
Hypothesis lift_compat : forall pm bm a, mrel pm bm -> plift pm a = lift bm a.

Theorem paged_step_refines_main p pl fi l f x ps :
  wf_prog_b ty sv p = true -> memw_prog_b p = true ->
  ploc_apply p pl = Ok (fi, l) -> program_function p fi = Some f ->
  typed_b ty (x_scal x) = true -> mem_ok_b (x_mem x) = true -> srel ps x ->
  det_at f l (DriverSpec.abs sv x) = true -> top_at f l (DriverSpec.abs sv x) = false ->
  prefines ty sv p fi (pstep plift (mkg p pl ps)) (sem_step f l (DriverSpec.abs sv x)).
Proof.
  intros WP MW PA PF T M SR DA TA.
  apply (paged_step_refines ty sv lift plift lift_compat p pl fi l f x ps WP MW PA PF); try assumption.
  apply (good_of_b ty sv); assumption.
Qed.

Theorem paged_steps_refine_main p n fi l f x ps :
  wf_prog_b ty sv p = true -> memw_prog_b p = true ->
  program_function p fi = Some f -> valid_loc f l = true ->
  typed_b ty (x_scal x) = true -> mem_ok_b (x_mem x) = true -> srel ps x ->
  run_ok n p (mksc fi l (DriverSpec.abs sv x)) = true ->
  prun_refines sv p (prun plift n (mkg p (mkploc (Some fi) l) ps)) (sem_prun n p (mksc fi l (DriverSpec.abs sv x))).
Proof.
  intros WP MW PF VL T M SR RO.
  apply (paged_steps_refine ty sv lift plift lift_compat p WP MW n fi l f x ps PF VL); try assumption.
  apply (good_of_b ty sv); assumption.
Qed.
End PagedFinal.

(* a fresh paged memory and the empty byte map are related *)
Lemma srel_fresh e : srel (mkp [] (mnew e None)) (mkx [] (mkbmem (big_of e) [])).
Proof.
  split; [reflexivity|]. destruct (good_new e None) as [HI HB]; [intros x y E; discriminate E|].
  split; [reflexivity|]. split; [intros x; reflexivity|]. split; assumption.
Qed.
