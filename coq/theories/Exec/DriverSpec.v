(* Exec/DriverSpec.v -- statement vocabulary of property C07 (definitions only, all executable):
   well-formedness hypotheses, the abstraction from executor states to the states of Exec/Sem.v,
   the program-level small-step semantics built on Sem.sem_step, and the correspondence
   `refines` between a result of Driver.step and a Sem.step_result.

   Everything below the model (symbolize, execute, step) is written from Exec/Sem.v and the
   property text; nothing here looks at Exec/State.v except `abs`/`refines`, which relate the two. *)
From Coq Require Import ZArith List Bool NArith.
From Falcon Require Import Base.Res IL.Const IL.ConstSpec IL.Expr IL.ExprSpec IL.Func IL.Loc
  Exec.Sem Exec.State Exec.Driver.
Import ListNotations.
Local Open Scope Z_scope.

(* cheap range test (2^w is never computed) *)
Definition inr_b (w a : Z) : bool := (0 <=? a) && ((a =? 0) || (Z.log2 a <? w)).
(* a width that paged memory accepts: a positive multiple of 8 *)
Definition byte_w (w : Z) : bool := (w mod 8 =? 0) && (0 <? w).

Section Names.
(* wf_names: the executor keys its state by name only, so a name has ONE width [ty] and ONE ssa
   version [sv] throughout the program (sv = fun _ => None for IL that is not in SSA form) *)
Variable ty : N -> Z.
Variable sv : N -> option N.

Definition wf_scalar_b (s : scalar) : bool :=
  (sbits s =? ty (sname s)) && optN_eqb (sssa s) (sv (sname s)) && (1 <=? sbits s) && (sbits s <? USIZE).

(* sort rules (wf_expr) + wf_names; widths fit a usize *)
Fixpoint wf_expr_b (e : expr) : bool :=
  match e with
  | EScalar s => wf_scalar_b s
  | EConst c => (1 <=? cbits c) && (cbits c <? USIZE) && inr_b (cbits c) (cval c)
  | EBin o l r => wf_expr_b l && wf_expr_b r && (e_bits l =? e_bits r)
  | EExt Trun bits x => wf_expr_b x && (1 <=? bits) && (bits <? e_bits x)
  | EExt _ bits x => wf_expr_b x && (e_bits x <? bits) && (bits <? USIZE)
  | EIte c t f => wf_expr_b c && wf_expr_b t && wf_expr_b f && (e_bits c =? 1) && (e_bits t =? e_bits f)
  end.

(* wf_op: assignment widths agree, memory operands have a byte width *)
Definition wf_op_b (o : operation) : bool :=
  match o with
  | OAssign d s => wf_scalar_b d && wf_expr_b s && (e_bits s =? sbits d)
  | OStore i s => wf_expr_b i && wf_expr_b s && byte_w (e_bits s)
  | OLoad d i => wf_scalar_b d && wf_expr_b i && byte_w (sbits d)
  | OBranch t => wf_expr_b t
  | OIntrinsic _ | ONop _ => true
  end.

Definition wf_edge_b (e : edge) : bool :=
  match e_cond e with None => true | Some c => wf_expr_b c && (e_bits c =? 1) end.

(* a block with several out-edges has a guard on each of them (as lifters produce) *)
Definition has_cond (e : edge) : bool := match e_cond e with Some _ => true | None => false end.
Definition edges_guarded_b (f : func) : bool :=
  forallb (fun b => match filter (fun e => e_head e =? b_index b) (f_edges f) with
                    | [] | [_] => true
                    | es => forallb has_cond es
                    end) (f_blocks f).

Definition wf_func_b (f : func) : bool :=
  cfg_inv (f_cfg f) &&
  forallb (fun b => forallb (fun i => wf_op_b (i_op i)) (b_instrs b)) (f_blocks f) &&
  forallb wf_edge_b (f_edges f) && edges_guarded_b f.

(* a Program built by add_function: ascending keys, every function carries its key as index *)
Definition wf_prog_b (p : program) : bool :=
  sorted_by fst (p_funcs p) &&
  forallb (fun kf => optZ_eqb (f_index (snd kf)) (Some (fst kf)) && wf_func_b (snd kf)) (p_funcs p).

(* ---------- states ---------- *)
(* every stored constant has the width of its name and an in-range value *)
Definition typed_entry (n : N) (c : const) : bool :=
  (cbits c =? ty n) && (1 <=? ty n) && (ty n <? USIZE) && inr_b (cbits c) (cval c).
Definition typed_b (sc : scalars) : bool := forallb (fun kv => typed_entry (fst kv) (snd kv)) sc.
(* bytes are bytes, at 64-bit addresses *)
Definition mem_ok_b (m : bmem) : bool :=
  forallb (fun ab => (0 <=? snd ab) && (snd ab <? 256) && (0 <=? fst ab) && (fst ab <? USIZE)) (bm_bytes m).

(* abstraction: the Sem state of an executor state *)
Definition abs_env (sc : scalars) : senv := map (fun kv => ((fst kv, sv (fst kv)), snd kv)) sc.
Definition abs (x : xstate) : sstate := mkst (abs_env (x_scal x)) (x_mem x).

End Names.

(* ---------- dynamic side conditions, written on the Sem side ---------- *)

(* the memory operation at the current location addresses a range that WRAPS: a + bytes > 2^64.
   The property is silent there (Sem answers Unmapped; paged memory answers Err(Custom) for a store and,
   for a load, None or -- when every byte up to 2^64-1 is present -- an overflow panic).  A range that
   ENDS exactly at 2^64 is inside the theorems. *)
Definition wraps (st : sstate) (o : operation) : bool :=
  match o with
  | OStore index src =>
      match den (st_env st) src, den (st_env st) index with
      | Ok v, Ok i => (cval i <? ADDR_LIMIT) && (ADDR_LIMIT <? cval i + cbits v / 8)
      | _, _ => false
      end
  | OLoad dst index =>
      match den (st_env st) index with
      | Ok i => (cval i <? ADDR_LIMIT) && (ADDR_LIMIT <? cval i + sbits dst / 8)
      | _ => false
      end
  | _ => false
  end.
Definition top_at (f : func) (l : floc) (st : sstate) : bool :=
  match loc_instruction f l with Some i => wraps st (i_op i) | None => false end.

(* no guard evaluates to one before the first guard that fails to evaluate *)
Fixpoint none_before_error (f : func) (en : senv) (ls : list floc) : bool :=
  match ls with
  | [] => true
  | l :: t => match edge_enabled f en l with
              | Ok true => false
              | Ok false => none_before_error f en t
              | _ => true
              end
  end.

(* the successor choice is determined: guards_det_at (exactly one enabled), or one of the error
   situations of the property text (no guard holds among 0 or >= 2 successors; a guard fails to
   evaluate and nothing before it was enabled).  Excluded: several enabled guards; a SINGLE
   successor whose guard is not one (the executor takes a single successor without looking). *)
Definition ctl_ok (f : func) (en : senv) (succs : list floc) : bool :=
  match succs with
  | [] => true
  | [l] => match edge_enabled f en l with Ok true => true | _ => false end
  | _ => match enabled_locs f en succs with
         | Ok [] | Ok [_] => true
         | Ok _ => false
         | Err _ => none_before_error f en succs
         | Panic => false
         end
  end.

Definition det_at (f : func) (l : floc) (st : sstate) : bool :=
  match l with
  | LInstr _ _ =>
      match loc_instruction f l with
      | None => true
      | Some i =>
          match exec_op st (i_op i) with
          | Ok (_, EvBranch _) => true
          | Ok (st', _) => match forward f l with Ok succs => ctl_ok f (st_env st') succs | _ => true end
          | _ => true
          end
      end
  | LEdge _ _ => true
  | LEmpty _ => match forward f l with Ok succs => ctl_ok f (st_env st) succs | _ => true end
  end.

(* the strict form named in the property: guards mutually exclusive and exhaustive in this state *)
Definition guards_det_here (f : func) (l : floc) (st : sstate) : bool :=
  match l with
  | LInstr _ _ =>
      match loc_instruction f l with
      | None => true
      | Some i =>
          match exec_op st (i_op i) with
          | Ok (_, EvBranch _) => true
          | Ok (st', _) => match forward f l with Ok succs => guards_det_at f (st_env st') succs | _ => true end
          | _ => true
          end
      end
  | LEdge _ _ => true
  | LEmpty _ => match forward f l with Ok succs => guards_det_at f (st_env st) succs | _ => true end
  end.

(* ---------- program-level semantics: Sem.sem_step + resolution of indirect branches ---------- *)
Record sconf := mksc { sc_fi : Z; sc_loc : floc; sc_st : sstate }.
Inductive sout :=
| SNext (c : sconf)
| SExit
| SStuck (e : err)
| SRelift (a : Z) (st : sstate).      (* branch to an address outside the program: re-lifting, trusted *)

Definition sem_pstep (p : program) (c : sconf) : sout :=
  match program_function p (sc_fi c) with
  | None => SStuck EOther
  | Some f =>
      match sem_step f (sc_loc c) (sc_st c) with
      | Next l' st' _ => SNext (mksc (sc_fi c) l' st')
      | Goto a st' => match from_address p a with
                      | Some (k, l') => SNext (mksc k l' st')
                      | None => SRelift a st'
                      end
      | Exit _ _ => SExit
      | Stuck e => SStuck e
      end
  end.

Inductive sfinal := FRan (c : sconf) | FExit | FStuck (e : err) | FRelift.
Fixpoint sem_prun (n : nat) (p : program) (c : sconf) : sfinal :=
  match n with
  | O => FRan c
  | Datatypes.S n =>
      match sem_pstep p c with
      | SNext c' => sem_prun n p c'
      | SExit => FExit
      | SStuck e => FStuck e
      | SRelift _ _ => FRelift
      end
  end.

(* side conditions at one configuration, and along the first n steps of the semantic run *)
Definition ok_at (p : program) (c : sconf) : bool :=
  match program_function p (sc_fi c) with
  | None => false
  | Some f => det_at f (sc_loc c) (sc_st c) && negb (top_at f (sc_loc c) (sc_st c))
  end.
Fixpoint run_ok (n : nat) (p : program) (c : sconf) : bool :=
  match n with
  | O => true
  | Datatypes.S n => ok_at p c && match sem_pstep p c with SNext c' => run_ok n p c' | _ => true end
  end.

(* ---------- correspondence of results ---------- *)
(* error kinds: the semantics' Unmapped is the executor's ExecutorInvalidAddress; all others coincide.
   The end of a block without successors (Sem: Exit) is the executor's ExecutorNoValidLocation. *)
Definition emap (e : err) : err := match e with EUnmapped => EInvalidAddress | _ => e end.

Section Refines.
Variable lift : bmem -> Z -> res func.
Variable sv : N -> option N.

Definition refines (p : program) (fi : Z) (r : res dconf) (s : step_result) : Prop :=
  match s with
  | Next l' st' _ => exists x', r = Ok (mkd p (mkploc (Some fi) l') x') /\ abs sv x' = st'
  | Goto a st' =>
      match from_address p a with
      | Some (k, l') => exists x', r = Ok (mkd p (mkploc (Some k) l') x') /\ abs sv x' = st'
      | None => exists x', abs sv x' = st' /\ r = goto_address lift p a x'
      end
  | Exit _ _ => r = Err ENoLocation
  | Stuck e => r = Err (emap e)
  end.

Definition run_refines (p : program) (r : res dconf) (s : sfinal) : Prop :=
  match s with
  | FRan c' => exists x', r = Ok (mkd p (mkploc (Some (sc_fi c')) (sc_loc c')) x') /\ abs sv x' = sc_st c'
  | FExit => r = Err ENoLocation
  | FStuck e => r = Err (emap e)
  | FRelift => True
  end.
End Refines.
