(* Exec/Driver.v -- faithful model of lib/executor/driver.rs (Driver::step).  Definitions only.

   A Driver is (program, ProgramLocation, State, architecture).  The architecture is used only by the
   re-lifting arm of an indirect branch whose target is not in the program: it is the Section
   variable `lift` (an oracle for `translator().translate_function(memory, address)`), TRUSTED.

   Notes taken from the code (nothing here is tidied):
   * every step starts with `location.apply(&program)?` (failure: *LocationApplication => EOther);
   * Instruction, FallThrough: `forward()?`; EXACTLY ONE location => taken WITHOUT evaluating its
     guard; otherwise the locations are scanned in order, non-edge locations are skipped, an edge
     without condition is Err(Custom "Failed to get edge condition"), the first edge whose condition
     evaluates to a constant with `is_one()` wins; none (also: no successor at all) =>
     ExecutorNoValidLocation;
   * Instruction, Branch(a): `from_address`, on a miss the re-lifting arm;
   * Edge: `forward()?[0]` -- edge_forward returns exactly one location or an error, so the index
     cannot fail (the model says Panic for the impossible empty list);
   * EmptyBlock: the same scan with ExecutorNoEdgeCondition for an edge without condition.
   Locations are re-resolved against the function (the Rust references cannot dangle); the
   `None => Panic` arms of re-resolution are unreachable for locations produced by apply/forward. *)
From Coq Require Import ZArith List Bool NArith.
From Falcon Require Import Base.Res IL.Const IL.Expr IL.Func IL.Loc Exec.Sem Exec.State.
Import ListNotations.
Local Open Scope Z_scope.

Record dconf := mkd { d_prog : program; d_loc : ploc; d_st : xstate }.

(* the edge scan of both the Instruction and the EmptyBlock arm *)
Fixpoint scan (f : func) (sc : scalars) (nocond : err) (ls : list floc) : res (option floc) :=
  match ls with
  | [] => Ok None
  | l :: t =>
      match l with
      | LEdge h tl =>
          match find_edge (f_edges f) h tl with
          | None => Panic
          | Some e =>
              match e_cond e with
              | None => Err nocond
              | Some c => v <- sym_eval sc c ;; if c_is_one v then Ok (Some l) else scan f sc nocond t
              end
          end
      | _ => scan f sc nocond t
      end
  end.

(* Program::add_function (next_index = number of functions ever added = greatest key + 1) *)
Definition prog_next (p : program) : Z := fold_right (fun kf m => Z.max (fst kf + 1) m) 0 (p_funcs p).
Definition add_function (p : program) (f : func) : program :=
  let k := prog_next p in mkprog (p_funcs p ++ [(k, mkfunc (f_addr f) (f_cfg f) (Some k))]).

Section Driver.
Variable lift : bmem -> Z -> res func.

Definition goto_address (p : program) (a : Z) (st : xstate) : res dconf :=
  match from_address p a with
  | Some (k, l') =>
      match program_function p k with
      | Some g => Ok (mkd p (ploc_of g l') st)
      | None => Panic
      end
  | None =>
      match lift (x_mem st) a with
      | Ok fn =>
          let p' := add_function p fn in
          match from_address p' a with
          | Some (k, l') =>
              match program_function p' k with
              | Some g => Ok (mkd p' (ploc_of g l') st)
              | None => Panic
              end
          | None => Err ECustom           (* "Failed to get location for newly lifted function" *)
          end
      | Err _ => Err EOther               (* Error::ExecutorLiftFail *)
      | Panic => Panic
      end
  end.

Definition pick_successor (p : program) (f : func) (st : xstate) (nocond : err) (locs : list floc) : res dconf :=
  match locs with
  | [l1] => Ok (mkd p (ploc_of f l1) st)
  | _ => r <- scan f (x_scal st) nocond locs ;;
         match r with
         | Some l' => Ok (mkd p (ploc_of f l') st)
         | None => Err ENoLocation
         end
  end.

Definition step (c : dconf) : res dconf :=
  let p := d_prog c in
  match ploc_apply p (d_loc c) with
  | Err _ => Err EOther
  | Panic => Panic
  | Ok (fi, l) =>
      match program_function p fi with
      | None => Panic
      | Some f =>
          match l with
          | LInstr _ _ =>
              match loc_instruction f l with
              | None => Panic
              | Some i =>
                  r <- execute (d_st c) (i_op i) ;;
                  match snd r with
                  | SFall => locs <- forward f l ;; pick_successor p f (fst r) ECustom locs
                  | SBranch a => goto_address p a (fst r)
                  end
              end
          | LEdge _ _ =>
              locs <- forward f l ;;
              match locs with
              | l1 :: _ => Ok (mkd p (ploc_of f l1) (d_st c))
              | [] => Panic
              end
          | LEmpty _ =>
              locs <- forward f l ;; pick_successor p f (d_st c) ENoEdgeCond locs
          end
      end
  end.

(* n steps: stops at the first error *)
Fixpoint run (n : nat) (c : dconf) : res dconf :=
  match n with O => Ok c | Datatypes.S n => c' <- step c ;; run n c' end.

End Driver.
