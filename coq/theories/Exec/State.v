(* Exec/State.v -- faithful model of lib/executor/state.rs (State, symbolize_expression,
   symbolize_and_eval, State::execute) and lib/executor/successor.rs.  Definitions only.

   * State.scalars is a BTreeMap<String, Constant> keyed by the NAME ONLY (names interned to N by the
     harness); only `get`/`insert` are used, so an association list with replace-in-place is
     observationally the same map.
   * State.memory is `paged::Memory<Constant>` (property C08).  To stay decoupled from C08's cell model
     the executor's memory is held as the byte map `bmem` of Exec/Sem.v; that paged memory refines
     this byte map is C08's theorem.  What IS transcribed here is the error behaviour of
     paged::Memory::{store,load} that the executor can observe:
       - store: width 0 or not a multiple of 8          => Err(Custom)
                `address + bits/8` beyond 2^64           => Err(Custom) (as repaired by 4699f48: the end of
                                                            the write is computed in u128 before anything
                                                            is written; a write ending exactly at 2^64 is
                                                            accepted)
       - load:  width not a multiple of 8, width 0      => Err(Custom)
                some byte of the range absent           => Ok(None)   (=> ExecutorInvalidAddress)
                `address + offset` overflows u64 in the byte-wise path (only reachable when every
                byte up to 2^64-1 is present)           => Panic *)
From Coq Require Import ZArith List Bool NArith.
From Falcon Require Import Base.Res IL.Const IL.Expr IL.Func IL.Loc Exec.Sem.
Import ListNotations.
Local Open Scope Z_scope.

(* ---------- scalars: name -> constant ---------- *)
Definition scalars := list (N * const).
Fixpoint sget (l : scalars) (n : N) : option const :=
  match l with [] => None | (k, v) :: t => if N.eqb k n then Some v else sget t n end.
Fixpoint sset (l : scalars) (n : N) (v : const) : scalars :=
  match l with
  | [] => [(n, v)]
  | (k, v') :: t => if N.eqb k n then (n, v) :: t else (k, v') :: sset t n v
  end.

Record xstate := mkx { x_scal : scalars; x_mem : bmem }.

(* State::symbolize_expression: a scalar is replaced by the stored constant WHATEVER its width;
   every inner node is rebuilt through the checked constructor (sort errors possible);
   arguments are symbolized left to right. *)
Fixpoint symbolize (sc : scalars) (e : expr) : res expr :=
  match e with
  | EScalar s => match sget sc (sname s) with Some c => Ok (EConst c) | None => Ok e end
  | EConst _ => Ok e
  | EBin o l r => l' <- symbolize sc l ;; r' <- symbolize sc r ;; mk_bin o l' r'
  | EExt o bits x => x' <- symbolize sc x ;; mk_ext o bits x'
  | EIte c t f => c' <- symbolize sc c ;; t' <- symbolize sc t ;; f' <- symbolize sc f ;; mk_ite c' t' f'
  end.

(* State::symbolize_and_eval *)
Definition sym_eval (sc : scalars) (e : expr) : res const := e' <- symbolize sc e ;; eval e'.

(* Constant::value_u64().ok_or(Error::TooManyAddressBits) *)
Definition addr_u64 (c : const) : res Z := if cval c <? USIZE then Ok (cval c) else Err EAddrBits.

(* ---------- the observable behaviour of paged::Memory::{store, load} over the byte map ---------- *)
Definition xm_store (m : bmem) (a : Z) (v : const) : res bmem :=
  if negb (cbits v mod 8 =? 0) || (cbits v =? 0) then Err ECustom
  else if USIZE <? a + cbits v / 8 then Err ECustom
  else Ok (mkbmem (bm_big m)
             (write_bytes (bm_bytes m) a (value_bytes (bm_big m) (Z.to_nat (cbits v / 8)) (cval v)))).

(* bytes a, a+1, ..: the first absent byte ends the load with None; the address of a later byte is
   computed with a checked u64 addition *)
Fixpoint xm_read (m : bmem) (a : Z) (n : nat) : res (option (list Z)) :=
  match n with
  | O => Ok (Some [])
  | Datatypes.S n =>
      if USIZE <=? a then Panic
      else match bm_get m a with
           | None => Ok None
           | Some b => r <- xm_read m (a + 1) n ;;
                       Ok (match r with Some t => Some (b :: t) | None => None end)
           end
  end.
Definition xm_load (m : bmem) (a : Z) (bits : Z) : res (option const) :=
  if negb (bits mod 8 =? 0) then Err ECustom
  else if bits =? 0 then Err ECustom
  else r <- xm_read m a (Z.to_nat (bits / 8)) ;;
       Ok (match r with Some bs => Some (mkc bits (bytes_value (bm_big m) bs)) | None => None end).

(* ---------- State::execute ---------- *)
Inductive succ_type := SFall | SBranch (a : Z).      (* SuccessorType::Intrinsic is never constructed *)

Definition execute (st : xstate) (o : operation) : res (xstate * succ_type) :=
  match o with
  | OAssign dst src =>
      v <- sym_eval (x_scal st) src ;;
      Ok (mkx (sset (x_scal st) (sname dst) v) (x_mem st), SFall)      (* no width comparison *)
  | OStore index src =>
      v <- sym_eval (x_scal st) src ;;                                  (* src BEFORE index *)
      i <- sym_eval (x_scal st) index ;;
      a <- addr_u64 i ;;
      m <- xm_store (x_mem st) a v ;;
      Ok (mkx (x_scal st) m, SFall)
  | OLoad dst index =>
      i <- sym_eval (x_scal st) index ;;
      a <- addr_u64 i ;;
      r <- xm_load (x_mem st) a (sbits dst) ;;                          (* dst.bits() bits *)
      match r with
      | Some v => Ok (mkx (sset (x_scal st) (sname dst) v) (x_mem st), SFall)
      | None => Err EInvalidAddress
      end
  | OBranch target =>
      t <- sym_eval (x_scal st) target ;;
      a <- addr_u64 t ;;
      Ok (st, SBranch a)
  | OIntrinsic _ => Err EIntrinsic
  | ONop _ => Ok (st, SFall)
  end.
