(* Exec/C07Check.v -- the per-case checker evaluated in the kernel by the C07 case files.
   A case is one program, one initial executor state and the OBSERVED trace of executor::Driver::step:
   per successful step the new location and the scalars / bytes that changed (the harness diffs the
   complete scalar map and a byte window before and after the step), then how the run ended.
     fst ck = tie   : replaying Exec.Driver.step from the same start gives the same locations, the same
                      changes and the same end;
     snd ck = oracle: every observed transition is the one Exec.Sem.sem_step prescribes (computed from
                      Sem alone; the oracle keeps its own Sem state).  It is silent (true) from the
                      first configuration on that lies outside the property's premises: program not
                      well formed, state ill typed, successor choice not determined (det_at), memory
                      range wrapping past 2^64, branch target outside the program. *)
From Coq Require Import ZArith List Bool NArith.
From Falcon Require Import Base.Res IL.Const IL.Expr IL.Func IL.Loc Exec.Sem Exec.State Exec.Driver Exec.DriverSpec.
Import ListNotations.
Local Open Scope Z_scope.

Record ostep := mkos {
  os_loc : ploc;                    (* Driver::location() after the step *)
  os_scal : list (N * const);       (* scalars whose value changed (or appeared) *)
  os_bytes : list (Z * Z) }.        (* bytes whose value changed (or appeared) *)

Inductive ofin := FSteps | FErr (e : err) | FPanic.

Inductive case :=
| KRun (p : program) (types : list (N * Z)) (start : ploc) (scal : list (N * const))
       (big : bool) (bytes : list (Z * Z)) (steps : list ostep) (fin : ofin).

Definition const_opt_eqb (a b : option const) : bool :=
  match a, b with Some x, Some y => const_eqb x y | None, None => true | _, _ => false end.
Definition optz_eqb (a b : option Z) : bool :=
  match a, b with Some x, Some y => x =? y | None, None => true | _, _ => false end.

Fixpoint scal_eqb (a b : scalars) : bool :=
  match a, b with
  | [], [] => true
  | (k, v) :: t, (k', v') :: t' => N.eqb k k' && const_eqb v v' && scal_eqb t t'
  | _, _ => false
  end.
Fixpoint senv_eqb (a b : senv) : bool :=
  match a, b with
  | [], [] => true
  | (k, v) :: t, (k', v') :: t' => skey_eqb k k' && const_eqb v v' && senv_eqb t t'
  | _, _ => false
  end.

(* memory: [post] must be [added ++ pre]; every observed change is what post holds, every added entry
   is an observed change or rewrites the value already there *)
Definition bytes_delta_ok (pre post : list (Z * Z)) (delta : list (Z * Z)) : bool :=
  let added := firstn (length post - length pre) post in
  forallb (fun ab => optz_eqb (bytes_get post (fst ab)) (Some (snd ab))) delta &&
  forallb (fun ab => optz_eqb (bytes_get delta (fst ab)) (Some (snd ab)) ||
                     optz_eqb (bytes_get pre (fst ab)) (Some (snd ab))) added.
Definition mem_delta_ok (pre post : bmem) (delta : list (Z * Z)) : bool :=
  Bool.eqb (bm_big pre) (bm_big post) && bytes_delta_ok (bm_bytes pre) (bm_bytes post) delta.

(* ---------- tie ---------- *)
(* the re-lifting oracle of the generated cases: their memory holds no code, and for unmapped memory the
   translator returns a function with one empty block (observed; then `from_address` misses again and
   the step ends with Err(Custom "Failed to get location for newly lifted function")) *)
Definition no_lift : bmem -> Z -> res func :=
  fun _ a => Ok (mkfunc a (mkcfg [mkblock 0 0 [] []] [] 1 (Some 0) None) None).

Definition xdelta_ok (pre post : xstate) (o : ostep) : bool :=
  scal_eqb (fold_left (fun s kv => sset s (fst kv) (snd kv)) (os_scal o) (x_scal pre)) (x_scal post) &&
  mem_delta_ok (x_mem pre) (x_mem post) (os_bytes o).

Fixpoint tie_run (c : dconf) (steps : list ostep) (fin : ofin) : bool :=
  match steps with
  | [] =>
      match fin, step no_lift c with
      | FSteps, _ => true
      | FErr e, Err e' => err_eqb e e'
      | FPanic, Panic => true
      | _, _ => false
      end
  | o :: t =>
      match step no_lift c with
      | Ok c' => ploc_eqb (d_loc c') (os_loc o) && xdelta_ok (d_st c) (d_st c') o && tie_run c' t fin
      | _ => false
      end
  end.

(* ---------- oracle ---------- *)
Fixpoint lookup_ty (t : list (N * Z)) (n : N) : Z :=
  match t with [] => 0 | (k, w) :: r => if N.eqb k n then w else lookup_ty r n end.
Definition no_ssa : N -> option N := fun _ => None.

Definition sdelta_ok (pre post : sstate) (o : ostep) : bool :=
  senv_eqb (fold_left (fun s kv => env_set s (fst kv, None) (snd kv)) (os_scal o) (st_env pre)) (st_env post) &&
  mem_delta_ok (st_mem pre) (st_mem post) (os_bytes o).

Fixpoint orc_run (p : program) (fi : Z) (l : floc) (st : sstate) (steps : list ostep) (fin : ofin) : bool :=
  match program_function p fi with
  | None => true
  | Some f =>
      if negb (det_at f l st) || top_at f l st then true
      else
        match steps with
        | [] =>
            match fin with
            | FSteps => true
            | FErr e =>
                match sem_step f l st with
                | Stuck e' => err_eqb (emap e') e
                | Exit _ _ => err_eqb ENoLocation e
                | Goto a _ => match from_address p a with None => true | Some _ => false end
                | Next _ _ _ => false
                end
            | FPanic =>
                match sem_step f l st with
                | Goto a _ => match from_address p a with None => true | Some _ => false end
                | _ => false
                end
            end
        | o :: t =>
            match sem_step f l st with
            | Next l' st' _ =>
                ploc_eqb (os_loc o) (mkploc (Some fi) l') && sdelta_ok st st' o && orc_run p fi l' st' t fin
            | Goto a st' =>
                match from_address p a with
                | None => true
                | Some _ =>
                    (* "indirect branch to the evaluated address": the new location is an instruction
                       whose address is a (which one, among several, is C18's business) *)
                    match pl_func (os_loc o), pl_loc (os_loc o) with
                    | Some k, LInstr b i =>
                        match program_function p k with
                        | Some g =>
                            match loc_instruction g (LInstr b i) with
                            | Some ins => optz_eqb (i_addr ins) (Some a) && sdelta_ok st st' o &&
                                          orc_run p k (LInstr b i) st' t fin
                            | None => false
                            end
                        | None => false
                        end
                    | _, _ => false
                    end
                end
            | _ => false
            end
        end
  end.

Definition ck (k : case) : bool * bool :=
  match k with
  | KRun p types start scal big bytes steps fin =>
      let x0 := mkx scal (mkbmem big bytes) in
      (tie_run (mkd p start x0) steps fin,
       let ty := lookup_ty types in
       if negb (wf_prog_b ty no_ssa p && typed_b ty scal && mem_ok_b (mkbmem big bytes)) then true
       else match ploc_apply p start with
            | Ok (fi, l) => orc_run p fi l (abs no_ssa x0) steps fin
            | _ => true
            end)
  end.
