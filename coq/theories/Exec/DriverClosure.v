(* Exec/DriverClosure.v -- all step counts: n steps of the driver model are n steps of the semantics.
   Valid locations are closed under forward / from_address (C18: IL/LocProofs.v forward_total,
   from_address_sound, floc_apply_valid), so the run needs a valid START location only. Proofs only. *)
From Coq Require Import ZArith List Bool NArith Lia ZifyBool.
From Falcon Require Import Base.Res IL.Const IL.ConstSpec IL.Expr IL.Func IL.Loc IL.LocProofs
  Exec.Sem Exec.State Exec.Driver Exec.DriverSpec Exec.DriverProofs.
Import ListNotations.
Local Open Scope Z_scope.

(* ---------- closure of valid locations along the semantic run (C18's lemmas) ---------- *)
Lemma enabled_sub f en ls : forall r l, enabled_locs f en ls = Ok r -> In l r -> In l ls.
Proof.
  induction ls as [|a t IH]; intros r l H I; cbn [enabled_locs] in H.
  - injection H as <-. destruct I.
  - destruct (edge_enabled f en a) as [b| |]; cbn [bind] in H; try discriminate H.
    destruct (enabled_locs f en t) as [r'| |]; cbn [bind] in H; try discriminate H. injection H as <-.
    destruct b; [destruct I as [->|I]; [left; reflexivity|]|]; right; apply (IH r' l eq_refl I).
Qed.

(* a statement about the semantics alone: `Next l'` is one of the forward locations *)
Lemma sem_next_in f l st l' st' ev : sem_step f l st = Next l' st' ev ->
  exists succs, forward f l = Ok succs /\ In l' succs.
Proof.
  intros S. destruct l as [b i|h t|b]; unfold sem_step in S.
  - destruct (loc_instruction f (LInstr b i)) as [ins|]; [|discriminate S].
    destruct (exec_op st (i_op ins)) as [[st1 ev1]| |]; try discriminate S.
    destruct (forward f (LInstr b i)) as [succs| |] eqn:FW.
    + exists succs. split; [reflexivity|].
      assert (C : choose f st1 ev1 succs = Next l' st' ev -> In l' succs).
      { intros C. apply choose_next in C as [_ EN]. apply (enabled_sub _ _ _ _ _ EN). left. reflexivity. }
      destruct ev1; try (apply C; exact S). discriminate S.
    + destruct ev1; discriminate S.
    + destruct ev1; discriminate S.
  - destruct (forward f (LEdge h t)) as [[|l1 [|l2 r]]| |]; try discriminate S. injection S as <- _ _.
    eexists. split; [reflexivity|left; reflexivity].
  - destruct (forward f (LEmpty b)) as [succs| |]; try discriminate S.
    exists succs. split; [reflexivity|]. apply choose_next in S as [_ EN]. apply (enabled_sub _ _ _ _ _ EN). left. reflexivity.
Qed.

Section Closure.
Variable ty : N -> Z.
Variable sv : N -> option N.
Variable lift : bmem -> Z -> res func.

Lemma wf_func_cfg_inv f : wf_func_b ty sv f = true -> cfg_inv (f_cfg f) = true.
Proof. unfold wf_func_b. intros H. apply andb_prop in H as [H _]. apply andb_prop in H as [H _]. apply andb_prop in H as [H _]. exact H. Qed.

Lemma wf_prog_inv p : wf_prog_b ty sv p = true ->
  prog_inv p = true /\ forall k f, In (k, f) (p_funcs p) -> cfg_inv (f_cfg f) = true.
Proof.
  intros WP. split.
  - unfold wf_prog_b in WP. unfold prog_inv. apply andb_prop in WP as [S F]. rewrite S. cbn [andb].
    rewrite forallb_forall in *. intros kf I. specialize (F kf I). apply andb_prop in F as [F _]. exact F.
  - intros k f I. apply wf_func_cfg_inv. apply (wf_prog_in ty sv p k f WP I).
Qed.

Theorem steps_refine_closed p : wf_prog_b ty sv p = true ->
  forall n fi l f x, program_function p fi = Some f -> valid_loc f l = true -> good_x ty x ->
  run_ok n p (mksc fi l (abs sv x)) = true ->
  run_refines sv p (run lift n (mkd p (mkploc (Some fi) l) x)) (sem_prun n p (mksc fi l (abs sv x))).
Proof.
  intros WP. destruct (wf_prog_inv p WP) as [PI CI].
  induction n as [|n IH]; intros fi l f x PF VL G RO.
  - cbn [run sem_prun run_refines sc_fi sc_loc sc_st]. exists x. auto.
  - cbn [run_ok] in RO. apply andb_prop in RO as [OK RO]. unfold ok_at in OK. cbn [sc_fi sc_loc sc_st] in OK.
    rewrite PF in OK. apply andb_prop in OK as [DA TA]. apply negb_true_iff in TA.
    pose proof (floc_apply_valid f l VL) as FA.
    assert (PA : ploc_apply p (mkploc (Some fi) l) = Ok (fi, l)).
    { unfold ploc_apply. cbn [pl_func pl_loc]. rewrite PF, FA. reflexivity. }
    pose proof (step_refines_inv ty sv lift p _ fi l f x WP PA PF G DA TA) as SR.
    assert (CF : cfg_inv (f_cfg f) = true) by (apply (CI fi f), DriverProofs.find_func_in, PF).
    cbn [run sem_prun]. unfold sem_pstep in *. cbn [sc_fi sc_loc sc_st] in *. rewrite PF in *.
    destruct (sem_step f l (abs sv x)) as [l' st' ev|a st'|st' ev|e] eqn:SS; cbn [refines'] in SR.
    + destruct SR as (x' & -> & <- & G'). cbn [bind].
      destruct (sem_next_in _ _ _ _ _ _ SS) as (succs & FW & IN).
      destruct (forward_total f CF l VL) as (succs' & FW' & VS). rewrite FW in FW'. injection FW' as <-.
      apply (IH fi l' f x' PF (VS l' IN) G' RO).
    + destruct (from_address p a) as [[k l']|] eqn:FAD.
      * destruct SR as (x' & -> & <- & G'). cbn [bind].
        destruct (from_address_sound p a k l' PI CI FAD) as (g & ins & PG & VG & _).
        apply (IH k l' g x' PG VG G' RO).
      * exact I.
    + rewrite SR. reflexivity.
    + rewrite SR. reflexivity.
Qed.

Theorem steps_refine_main p n fi l f x :
  wf_prog_b ty sv p = true -> program_function p fi = Some f -> valid_loc f l = true ->
  typed_b ty (x_scal x) = true -> mem_ok_b (x_mem x) = true ->
  run_ok n p (mksc fi l (abs sv x)) = true ->
  run_refines sv p (run lift n (mkd p (mkploc (Some fi) l) x)) (sem_prun n p (mksc fi l (abs sv x))).
Proof.
  intros WP PF VL T M RO. apply (steps_refine_closed p WP n fi l f x PF VL); [|exact RO].
  apply (good_of_b ty sv); assumption.
Qed.
End Closure.
