(* Graph/LoopTreeModel.v -- [U] the MODEL function compute_loop_tree is correct whenever the idom map passes
   idom_check: it returns Ok t, t is a consistent graph whose vertices are exactly the natural loops (payload
   (header, nodes), keyed by header) and which has an edge outer -> inner exactly when the loop of inner is nested
   in the loop of outer (headers differ, nodes(inner) included in nodes(outer)). *)
From Coq Require Import NArith List Bool Lia.
From Falcon Require Import Base.Res Graph.NMap Graph.NMapFacts Graph.Graph Graph.GraphInv Graph.Algo Graph.Spec
  Graph.Oracle Graph.OracleProofs Graph.DomTheory Graph.LoopModel.
Import ListNotations.
Local Open Scope N_scope.

(* ------------------------------------------------------------------ textbook facts about natural loops *)
Section LoopFacts.
  Variable es : list (N * N).
  Variable r : N.

  (* the header dominates every vertex of its loop *)
  Lemma loop_dom h x : in_loop es r h x -> dom es r h x.
  Proof.
    intros [[t0 [_ Hd0]] [->|[Hrx [t [l [[_ Hdt] [Hp Hav]]]]]]].
    - apply dom_refl. destruct Hd0 as [[l0 Hl0] Hd0]. pose proof (Hd0 l0 Hl0) as Hin.
      destruct (path_split es r l0 t0 h Hl0 Hin) as [l1 [_ [_ [H1 _]]]]. exists l1. exact H1.
    - split; auto. intros P HP. destruct Hdt as [_ Hdt]. specialize (Hdt (P ++ l) (path_app es r P x l t HP Hp)).
      change (r :: P ++ l) with ((r :: P) ++ l) in Hdt. apply in_app_or in Hdt. destruct Hdt as [|Hin]; auto.
      exfalso. apply Hav. right. exact Hin.
  Qed.

  (* nesting = the inner header lies in the outer loop *)
  Lemma nesting_char h1 h2 : h1 <> h2 -> is_header es r h2 ->
    in_loop es r h1 h2 -> forall x, in_loop es r h2 x -> in_loop es r h1 x.
  Proof.
    intros Hne Hh2 H12 x Hx2.
    pose proof H12 as [Hh1 [Heq|[Hr2 [t1 [l1 [Hb1 [Hp1 Hav1]]]]]]]; [congruence|].
    pose proof Hx2 as [_ [->|[Hrx [t2 [l2 [Hb2 [Hp2 Hav2]]]]]]]; [exact H12|].
    split; auto. destruct (N.eq_dec x h1) as [|Hxh1]; auto. right. split; auto.
    exists t1, (l2 ++ h2 :: l1). split; auto. split.
    - apply (path_app es x l2 t2 (h2 :: l1) t1 Hp2). apply path_cons with (b := h2); [apply Hb2|exact Hp1].
    - (* the walk x ->* t2 avoids h1: otherwise h1 would lie in the loop of h2 and the two headers dominate each other *)
      assert (Hl2 : ~ In h1 (x :: l2)).
      { intros Hin. destruct (path_split es x l2 t2 h1 Hp2 Hin) as [a [b [Hab [Ha Hb]]]].
        assert (Hin1 : in_loop es r h2 h1).
        { split; auto. right. split.
          - destruct Hrx as [lx Hlx]. exists (lx ++ a). eapply path_app; eauto.
          - exists t2, b. split; auto. split; auto. intros [Hq|Hq]; [congruence|].
            apply Hav2. right. rewrite Hab. apply in_or_app. auto. }
        apply Hne. apply (dom_antisym es r).
        - apply loop_dom. exact H12.
        - apply loop_dom. exact Hin1. }
      intros Hin. change (x :: l2 ++ h2 :: l1) with ((x :: l2) ++ h2 :: l1) in Hin. apply in_app_or in Hin. tauto.
  Qed.
End LoopFacts.

(* ------------------------------------------------------------------ list lemmas *)
Lemma fold_left_map {A B C} (f : A -> C -> A) (gm : B -> C) l : forall a,
  fold_left f (map gm l) a = fold_left (fun a b => f a (gm b)) l a.
Proof. induction l; intros a0; cbn; auto. Qed.

Lemma fold_prod {A B} (F : A -> B -> B -> A) (l1 l2 : list B) : forall init,
  fold_left (fun acc x => fold_left (fun acc2 y => F acc2 x y) l2 acc) l1 init =
  fold_left (fun acc p => F acc (fst p) (snd p)) (list_prod l1 l2) init.
Proof.
  induction l1 as [|a l1 IH]; intros init; cbn [fold_left list_prod]; auto.
  rewrite fold_left_app, fold_left_map. cbn [fst snd]. apply IH.
Qed.

Lemma nodup_list_prod {A B} (l1 : list A) (l2 : list B) : NoDup l1 -> NoDup l2 -> NoDup (list_prod l1 l2).
Proof.
  induction l1 as [|a l1 IH]; intros H1 H2; cbn [list_prod]; [constructor|].
  inversion H1 as [|? ? Hni H1']; subst. apply GraphInv.nodup_app.
  - apply FinFun.Injective_map_NoDup; auto. intros x y [= ->]. reflexivity.
  - apply IH; auto.
  - intros [x y] Hx Hy. apply in_map_iff in Hx. destruct Hx as [y' [[= <- <-] _]].
    apply in_prod_iff in Hy. tauto.
Qed.

Lemma nodup_map_in {A B} (f : A -> B) l : (forall x y, In x l -> In y l -> f x = f y -> x = y) -> NoDup l -> NoDup (map f l).
Proof.
  induction l as [|a l IH]; intros Hinj Hn; cbn; [constructor|]. inversion Hn as [|? ? Hni Hn']; subst. constructor.
  - intros Hin. apply in_map_iff in Hin. destruct Hin as [b [Heq Hb]].
    assert (b = a) by (apply Hinj; auto; [right; auto|left; auto]). subst. contradiction.
  - apply IH; auto. intros x y Hx Hy. apply Hinj; right; auto.
Qed.

Lemma bind_ret' {A} (r : res A) : (t <- r ;; Ok t) = r.
Proof. destruct r; reflexivity. Qed.

(* ------------------------------------------------------------------ generic graph construction folds *)
Section Build.
  Context {V : Type} `{Vertex V}.
  Notation gr := (graph V null_edge).

  Lemma fold_insert_payloads (ls : list V) : forall t : gr,
    graph_inv t -> NoDup (map vindex ls) -> (forall l, In l ls -> has_vertex t (vindex l) = false) ->
    exists t', fold_left (fun acc l => t0 <- acc ;; insert_vertex t0 l) ls (Ok t) = Ok t' /\ graph_inv t' /\
      (forall l, In l ls -> nm_get (vindex l) (g_vertices t') = Some l) /\
      (forall k, ~ In k (map vindex ls) -> nm_get k (g_vertices t') = nm_get k (g_vertices t)) /\
      g_edges t' = g_edges t.
  Proof.
    induction ls as [|l ls IH]; intros t Hgi Hnd Hfresh; cbn [fold_left].
    - exists t. split; [reflexivity|]. split; [exact Hgi|]. split; [intros l []|]. split; auto.
    - cbn [map] in Hnd. inversion Hnd as [|? ? Hni Hnd']; subst. cbn [bind].
      destruct (insert_vertex_inv t l Hgi (Hfresh l (or_introl eq_refl))) as [t1 [Hr [Hgi1 [Hv1 He1]]]]. rewrite Hr.
      destruct (IH t1 Hgi1 Hnd') as [t' [Hf [Hgi' [Hin' [Hout' He']]]]].
      { intros l' Hl'. unfold has_vertex. rewrite Hv1, nm_mem_insert. fold (has_vertex t (vindex l')).
        rewrite (Hfresh l' (or_intror Hl')), orb_false_r. apply N.eqb_neq. intros Heq. apply Hni. rewrite <- Heq.
        apply in_map. exact Hl'. }
      exists t'. split; [exact Hf|]. split; [exact Hgi'|]. split; [|split; [|congruence]].
      + intros l' [<-|Hl']; [|apply Hin'; exact Hl']. rewrite (Hout' _ Hni), Hv1. apply nm_get_insert_same.
      + intros k Hk. cbn [map In] in Hk. rewrite Hout' by tauto. rewrite Hv1. apply nm_get_insert_other. intros ->. tauto.
  Qed.

  Lemma fold_insert_edges_gen (el : list (N * N)) : forall t : gr,
    graph_inv t -> NoDup el ->
    (forall a b, In (a, b) el -> has_vertex t a = true /\ has_vertex t b = true /\ has_edge t a b = false) ->
    exists t', fold_left (fun acc e => t0 <- acc ;; insert_edge t0 e) el (Ok t) = Ok t' /\ graph_inv t' /\
      g_vertices t' = g_vertices t /\
      (forall a b, has_edge t' a b = has_edge t a b || existsb (edge_eqb (a, b)) el).
  Proof.
    induction el as [|[a b] el IH]; intros t Hgi Hnd Hall; cbn [fold_left].
    - exists t. split; [reflexivity|]. split; [exact Hgi|]. split; [reflexivity|]. intros. cbn. rewrite orb_false_r. reflexivity.
    - inversion Hnd as [|? ? Hni Hnd']; subst. cbn [bind].
      destruct (Hall a b (or_introl eq_refl)) as [Ha [Hb Hne]].
      destruct (insert_edge_inv t (a, b) Hgi Hne Ha Hb) as [t1 [Hr [Hgi1 [Hv1 He1]]]].
      unfold null_edge in *. rewrite Hr. cbn [ehead etail null_edge_Edge fst snd] in He1.
      assert (Hhe : forall a' b', has_edge t1 a' b' = edge_eqb (a', b') (a, b) || has_edge t a' b').
      { intros a' b'. unfold has_edge. rewrite He1, em_mem_insert. reflexivity. }
      destruct (IH t1 Hgi1 Hnd') as [t' [Hf [Hgi' [Hv' He']]]].
      { intros a' b' Hin. destruct (Hall a' b' (or_intror Hin)) as [Ha' [Hb' Hne']].
        unfold has_vertex. rewrite Hv1. split; [exact Ha'|]. split; [exact Hb'|].
        rewrite Hhe, Hne', orb_false_r. destruct (edge_eqb (a', b') (a, b)) eqn:Heq; auto.
        apply edge_eqb_eq in Heq. injection Heq as -> ->. contradiction. }
      exists t'. split; [exact Hf|]. split; [exact Hgi'|]. split; [congruence|].
      intros a' b'. rewrite He', Hhe. cbn [existsb].
      destruct (edge_eqb (a', b') (a, b)), (has_edge t a' b'), (existsb (edge_eqb (a', b')) el); reflexivity.
  Qed.
End Build.

(* ------------------------------------------------------------------ compute_loop_tree *)
Section LoopTree.
  Context {V E : Type} `{Vertex V} `{Edge E}.
  Variable g : graph V E.
  Hypothesis Hgi : graph_inv g.
  Variable r : N.
  Hypothesis Hr : has_vertex g r = true.
  Let es := edge_keys g.
  Variable m : nmap N.
  Hypothesis Hm : compute_immediate_dominators g r = Ok m.
  Hypothesis Hchk : idom_check (vertex_indices g) es r m = true.

  Theorem compute_loop_tree_correct :
    exists loops t, compute_loops g r = Ok loops /\ compute_loop_tree g r = Ok t /\ graph_inv t /\
      (forall h L, vertex t h = Ok (h, L) <-> In (h, L) loops) /\
      (forall h, has_vertex t h = true <-> is_header es r h) /\
      (forall a b, has_edge t a b = true <-> loop_nested es r a b).
  Proof.
    destruct (compute_loops_correct g Hgi r Hr m Hm Hchk) as [loops [Hl [Hso [Hhd Hbody]]]].
    exists loops. unfold compute_loop_tree. rewrite Hl. cbn [bind].
    assert (Hnd : NoDup (map fst loops)) by (apply nsorted_nodup; exact Hso).
    assert (Huniq : forall h L L', In (h, L) loops -> In (h, L') loops -> L = L').
    { intros h L L' H1 H2. apply (nm_get_in h L loops Hso) in H1. apply (nm_get_in h L' loops Hso) in H2. congruence. }
    destruct (fold_insert_payloads (V := loop) loops (new : loop_tree) graph_inv_new) as [t0 [Hf0 [Hgi0 [Hin0 [Hout0 He0]]]]].
    { exact Hnd. } { intros l _. reflexivity. }
    unfold loop_tree in *. rewrite Hf0. cbn [bind].
    assert (Hv0 : forall h, has_vertex t0 h = true <-> In h (map fst loops)).
    { intros h. unfold has_vertex. rewrite nm_mem_get. split.
      - intros [l Hgl]. destruct (in_dec N.eq_dec h (map fst loops)) as [|Hn]; auto.
        rewrite (Hout0 h Hn) in Hgl. discriminate.
      - intros Hin. apply in_map_iff in Hin. destruct Hin as [l [<- Hl']]. exists l. apply (Hin0 l Hl'). }
    (* the double loop as one fold over the pairs *)
    rewrite (fold_prod (fun acc2 l1 l2 => t <- acc2 ;; if is_nesting l1 l2 then insert_edge t (fst l1, fst l2) else Ok t) loops loops).
    set (pl := list_prod loops loops).
    set (c := fun p : loop * loop => is_nesting (fst p) (snd p)).
    set (ed := fun p : loop * loop => (fst (fst p), fst (snd p))).
    assert (Hfold : forall (l : list (loop * loop)) (acc : res (graph loop null_edge)),
              fold_left (fun acc p => t <- acc ;; if is_nesting (fst p) (snd p) then insert_edge t (fst (fst p), fst (snd p)) else Ok t) l acc =
              fold_left (fun acc e => t <- acc ;; insert_edge t e) (map ed (filter c l)) acc).
    { induction l as [|p l IHl]; intros acc; cbn [fold_left filter map]; auto. unfold c at 1.
      destruct (is_nesting (fst p) (snd p)); cbn [map fold_left]; rewrite IHl; auto. rewrite bind_ret'. reflexivity. }
    rewrite Hfold.
    assert (Hel : forall a b, In (a, b) (map ed (filter c pl)) <->
                   exists L1 L2, In (a, L1) loops /\ In (b, L2) loops /\ a <> b /\ In b L1).
    { intros a b. rewrite in_map_iff. split.
      - intros [[[h1 L1] [h2 L2]] [Heq Hin]]. unfold ed in Heq. cbn in Heq. injection Heq as <- <-.
        apply filter_In in Hin. destruct Hin as [Hin Hc]. apply in_prod_iff in Hin. destruct Hin as [H1 H2].
        unfold c, is_nesting in Hc. cbn in Hc. apply andb_true_iff in Hc. destruct Hc as [Hne Hmem].
        apply negb_true_iff, N.eqb_neq in Hne. apply ns_mem_in in Hmem. exists L1, L2. auto.
      - intros [L1 [L2 [H1 [H2 [Hne Hmem]]]]]. exists ((a, L1), (b, L2)). split; [reflexivity|].
        apply filter_In. split; [apply in_prod_iff; auto|]. unfold c, is_nesting. cbn.
        apply andb_true_iff. split; [apply negb_true_iff, N.eqb_neq; exact Hne|apply ns_mem_in; exact Hmem]. }
    destruct (fold_insert_edges_gen (V := loop) (map ed (filter c pl)) t0 Hgi0) as [t [Hf [Hgit [Hvt Het]]]].
    { apply nodup_map_in.
      - intros [[h1 L1] [h2 L2]] [[h1' L1'] [h2' L2']] Hx Hy Heq. unfold ed in Heq. cbn in Heq. injection Heq as <- <-.
        apply filter_In in Hx. apply filter_In in Hy. destruct Hx as [Hx _], Hy as [Hy _].
        apply in_prod_iff in Hx. apply in_prod_iff in Hy.
        rewrite (Huniq h1 L1 L1'), (Huniq h2 L2 L2'); tauto.
      - apply NoDup_filter. apply nodup_list_prod; apply (NoDup_map_inv fst); exact Hnd. }
    { intros a b Hin. apply Hel in Hin. destruct Hin as [L1 [L2 [H1 [H2 _]]]]. split; [|split].
      - apply Hv0, in_map_iff. exists (a, L1). auto.
      - apply Hv0, in_map_iff. exists (b, L2). auto.
      - unfold has_edge. rewrite He0. reflexivity. }
    unfold null_edge in *. exists t. split; [reflexivity|]. split; [exact Hf|]. split; [exact Hgit|]. split; [|split].
    - intros h L. unfold vertex. rewrite Hvt. split.
      + destruct (nm_get h (g_vertices t0)) as [l|] eqn:Hg; [|discriminate]. intros [= ->].
        destruct (in_dec N.eq_dec h (map fst loops)) as [Hin|Hn].
        * apply in_map_iff in Hin. destruct Hin as [[h' L'] [Heq Hl']]. cbn in Heq. subst h'.
          pose proof (Hin0 (h, L') Hl') as Hg'. cbn [vindex loop_Vertex fst] in Hg'. rewrite Hg in Hg'. injection Hg' as <-. exact Hl'.
        * rewrite (Hout0 h Hn) in Hg. discriminate.
      + intros Hin. pose proof (Hin0 (h, L) Hin) as Hg'. cbn [vindex loop_Vertex fst] in Hg'. rewrite Hg'. reflexivity.
    - intros h. unfold has_vertex. rewrite Hvt. fold (has_vertex t0 h). rewrite Hv0. apply Hhd.
    - intros a b. rewrite Het. unfold has_edge at 1. rewrite He0. cbn [orb].
      replace (em_mem (a, b) (g_edges (new : graph loop null_edge))) with false by reflexivity. cbn [orb].
      assert (Hex : existsb (edge_eqb (a, b)) (map ed (filter c pl)) = true <-> In (a, b) (map ed (filter c pl))).
      { rewrite existsb_exists. split.
        - intros [x [Hx Hq]]. apply edge_eqb_eq in Hq. subst. exact Hx.
        - intros Hx. exists (a, b). split; auto. apply edge_eqb_eq. reflexivity. }
      rewrite Hex, Hel. unfold loop_nested. split.
      + intros [L1 [L2 [H1 [H2 [Hne Hmem]]]]].
        assert (Hha : is_header es r a) by (apply Hhd, in_map_iff; exists (a, L1); auto).
        assert (Hhb : is_header es r b) by (apply Hhd, in_map_iff; exists (b, L2); auto).
        split; auto. split; auto. split; auto.
        apply (nesting_char es r a b Hne Hhb). apply (Hbody a L1 H1). exact Hmem.
      + intros [Hne [Hha [Hhb Hsub]]].
        apply Hhd, in_map_iff in Hha. destruct Hha as [[a' L1] [Heq H1]]. cbn in Heq. subst a'.
        apply Hhd, in_map_iff in Hhb. destruct Hhb as [[b' L2] [Heq H2]]. cbn in Heq. subst b'.
        exists L1, L2. split; auto. split; auto. split; auto.
        apply (Hbody a L1 H1). apply Hsub. split; [apply Hhd, in_map_iff; exists (b, L2); auto|left; reflexivity].
  Qed.
End LoopTree.
