(* Graph/AcyclicProofs.v -- [U] is_acyclic (recursive DFS with temporary / permanent marks and short-circuit `all`,
   fuel included): on every consistent graph and root vertex it returns Ok b, and b = true exactly when no cycle is
   reachable from the root. *)
From Coq Require Import NArith List Bool Lia.
From Falcon Require Import Base.Res Graph.NMap Graph.NMapFacts Graph.Graph Graph.GraphInv Graph.Algo Graph.Spec
  Graph.ReachProofs Graph.Oracle Graph.OracleProofs Graph.TopoProofs.
Import ListNotations.

Section Acyclic.
  Context {V E : Type} `{Vertex V} `{Edge E}.
  Variable g : graph V E.
  Hypothesis Hgi : graph_inv g.
  Let es := edge_keys g.
  Let VS := vertex_indices g.

  Notation astate := (nset * nset)%type.       (* (permanent, temporary) *)

  Record AI (st : astate) : Prop := {
    ai_closed : forall x y, In x (fst st) -> edge es x y -> In y (fst st);
    ai_vp : forall x, In x (fst st) -> has_vertex g x = true;
    ai_vt : forall x, In x (snd st) -> has_vertex g x = true;
    ai_disj : forall x, In x (fst st) -> In x (snd st) -> False;
    ai_acyc : forall x, In x (fst st) -> ~ reach_plus es x x }.

  Lemma ai_stay st : AI st -> forall a l b, path es a l b -> In a (fst st) -> In b (fst st).
  Proof.
    intros Hai a l b Hp. induction Hp as [a|a c l b He Hp IH]; intros Ha; auto.
    apply IH. eapply ai_closed; eauto.
  Qed.

  Definition agood (T0 P0 : nset) (req : list N) (r : res (bool * astate)) : Prop :=
    (exists st', r = Ok (true, st') /\ AI st' /\ (forall x, In x (snd st') <-> In x T0) /\
                 (forall x, In x P0 -> In x (fst st')) /\ (forall s, In s req -> In s (fst st')))
    \/ (exists st', r = Ok (false, st') /\ exists s c, In s req /\ reach es s c /\ reach_plus es c c).

  Definition AWL (f : nat) : Prop := forall node st,
    AI st -> has_vertex g node = true -> (forall t, In t (snd st) -> reach_plus es t node) ->
    (cntT g (snd st) < f)%nat -> agood (snd st) (fst st) [node] (acyc_walk f g node st).

  Definition afold f (ss : list N) (init : res (bool * astate)) : res (bool * astate) :=
    fold_left (fun (acc : res (bool * (nset * nset))) s => a <- acc ;;
                 if fst a then acyc_walk f g s (snd a) else Ok a) ss init.

  Lemma afold_false f ss st : afold f ss (Ok (false, st)) = Ok (false, st).
  Proof. induction ss; cbn; auto. Qed.

  Lemma AFL f : AWL f -> forall ss T0,
    (forall s, In s ss -> has_vertex g s = true /\ forall t, In t T0 -> reach_plus es t s) ->
    (cntT g T0 < f)%nat ->
    forall st, AI st -> (forall x, In x (snd st) <-> In x T0) ->
    agood T0 (fst st) ss (afold f ss (Ok (true, st))).
  Proof.
    intros Hwl ss T0. induction ss as [|s ss IH]; intros Hss Hc st Hai HT; cbn [afold fold_left].
    - left. exists st. split; [reflexivity|]. split; [exact Hai|]. split; [exact HT|]. split; [auto|intros s []].
    - cbn [bind fst snd]. destruct (Hss s (or_introl eq_refl)) as [Hvs Hts].
      destruct (Hwl s st Hai Hvs) as [[st1 [Hr [Hai1 [HT1 [HP1 Hreq1]]]]]|[st1 [Hr [s0 [c [Hs0 Hcyc]]]]]].
      + intros t Ht. apply Hts, HT, Ht.
      + rewrite (cntT_ext g _ T0 HT). exact Hc.
      + rewrite Hr. fold (afold f ss (Ok (true, st1))).
        destruct (IH (fun s' Hs' => Hss s' (or_intror Hs')) Hc st1 Hai1) as [[st2 [Hr2 [Hai2 [HT2 [HP2 Hreq2]]]]]|[st2 [Hr2 [s' [c [Hs' Hcyc]]]]]].
        * intros x. rewrite HT1. apply HT.
        * left. exists st2. split; [exact Hr2|]. split; [exact Hai2|]. split; [exact HT2|]. split.
          -- intros x Hx. apply HP2, HP1, Hx.
          -- intros s' [<-|Hs']; [apply HP2, Hreq1; left; auto|apply Hreq2; exact Hs'].
        * right. exists st2. split; [exact Hr2|]. exists s', c. split; [right; exact Hs'|exact Hcyc].
      + rewrite Hr. fold (afold f ss (Ok (false, st1))). rewrite afold_false. right. exists st1. split; [reflexivity|].
        destruct Hs0 as [<-|[]]. exists s, c. split; [left; auto|exact Hcyc].
  Qed.

  Lemma AWL_all f : AWL f.
  Proof.
    induction f as [|f IH]; intros node st Hai Hv Hanc Hc; [lia|]. cbn [acyc_walk].
    destruct (ns_mem node (fst st)) eqn:Hp.
    - apply ns_mem_in in Hp. left. exists st. split; [reflexivity|]. split; [exact Hai|]. split; [tauto|]. split; [auto|].
      intros s [<-|[]]. exact Hp.
    - apply ns_mem_false in Hp. destruct (ns_mem node (snd st)) eqn:Ht.
      + apply ns_mem_in in Ht. right. exists st. split; [reflexivity|]. exists node, node.
        split; [left; auto|]. split; [exists []; constructor|apply Hanc; exact Ht].
      + apply ns_mem_false in Ht.
        destruct (succs_of_spec g node Hgi Hv) as [ss [Hss [_ Hssin]]]. rewrite Hss. cbn [bind].
        set (st1 := (fst st, ns_insert node (snd st))).
        assert (Hai1 : AI st1).
        { destruct Hai. constructor; cbn; auto.
          - intros x Hx. apply ns_insert_in in Hx. destruct Hx as [->|Hx]; auto.
          - intros x Hx Hx'. apply ns_insert_in in Hx'. destruct Hx' as [->|Hx']; eauto. }
        assert (HnodeVS : In node VS) by (apply has_vertex_keys; exact Hv).
        change (fold_left _ ss (Ok (true, st1))) with (afold f ss (Ok (true, st1))).
        destruct (AFL f IH ss (ns_insert node (snd st))) with (st := st1)
          as [[st' [Hr [Hai' [HT' [HP' Hreq']]]]]|[st' [Hr [s [c [Hs [Hsc Hcyc]]]]]]]; auto.
        * intros s Hs. apply Hssin in Hs. split; [apply (has_edge_vertices g node s Hgi Hs)|].
          apply (edge_has'' g) in Hs. intros t Htt. apply ns_insert_in in Htt. destruct Htt as [->|Htt].
          -- exists s, []. split; auto. constructor.
          -- destruct (Hanc t Htt) as [c [l [He Hpth]]]. exists c, (l ++ [s]). split; auto.
             eapply path_snoc; eauto.
        * pose proof (cntT_insert g node (snd st) HnodeVS Ht). lia.
        * cbn. tauto.
        * rewrite Hr. cbn [bind fst snd negb]. left. eexists. split; [reflexivity|].
          assert (Hnp : ~ In node (fst st')).
          { intros Hx. apply (ai_disj st' Hai' node Hx). apply HT'. apply ns_insert_in. auto. }
          assert (Hsucc : forall y, edge es node y -> In y (fst st')).
          { intros y Hy. apply Hreq', Hssin, (edge_has'' g). exact Hy. }
          split; [|split; [|split]].
          -- constructor; cbn.
             ++ intros x y Hx Hxy. apply ns_insert_in. right. apply ns_insert_in in Hx. destruct Hx as [->|Hx]; auto.
                eapply ai_closed; eauto.
             ++ intros x Hx. apply ns_insert_in in Hx. destruct Hx as [->|Hx]; auto. apply (ai_vp st' Hai' x Hx).
             ++ intros x Hx. apply ns_remove_in in Hx. apply (ai_vt st' Hai' x), Hx.
             ++ intros x Hx Hx'. apply ns_remove_in in Hx'. destruct Hx' as [Hne Hx'].
                apply ns_insert_in in Hx. destruct Hx as [->|Hx]; [congruence|]. eapply (ai_disj st' Hai'); eauto.
             ++ intros x Hx Hcy. apply ns_insert_in in Hx. destruct Hx as [->|Hx]; [|eapply (ai_acyc st' Hai'); eauto].
                destruct Hcy as [c [l [He Hpth]]]. apply Hnp. eapply ai_stay; eauto.
          -- cbn. intros x. rewrite ns_remove_in, HT', ns_insert_in. split; [intros [? [?|?]]; [congruence|auto]|].
             intros Hx. split; auto. intros ->. contradiction.
          -- cbn. intros x Hx. apply ns_insert_in. right. apply HP'. exact Hx.
          -- cbn. intros s [<-|[]]. apply ns_insert_in. auto.
        * rewrite Hr. cbn [bind fst snd negb]. right. exists st'. split; [reflexivity|]. exists node, c.
          split; [left; auto|]. split; [|exact Hcyc].
          destruct Hsc as [l Hl]. exists (s :: l). apply path_cons with (b := s); auto.
          apply (edge_has'' g), Hssin. exact Hs.
  Qed.

  (* [U] is_acyclic_iff *)
  Theorem is_acyclic_correct root : has_vertex g root = true ->
    exists b, is_acyclic g root = Ok b /\ (b = true <-> ~ cyclic_from es root).
  Proof.
    intros Hr. unfold is_acyclic.
    assert (Hai0 : AI ([], [])) by (constructor; cbn; tauto).
    destruct (AWL_all (fuel_v g) root ([], []) Hai0 Hr) as [[st [Hres [Hai [_ [_ Hroot]]]]]|[st [Hres [s [c [Hs [Hsc Hcyc]]]]]]].
    - cbn. tauto.
    - cbn [snd]. pose proof (cntT_le g []) as Hle. unfold fuel_v. unfold vertex_indices in Hle. rewrite map_length in Hle. lia.
    - rewrite Hres. cbn [bind fst]. exists true. split; [reflexivity|]. split; auto. intros _ [v [Hrv Hcy]].
      assert (Hrt : In root (fst st)) by (apply Hroot; left; auto).
      destruct Hrv as [l Hl]. apply (ai_acyc st Hai v); auto. eapply ai_stay; eauto.
    - rewrite Hres. cbn [bind fst]. exists false. split; [reflexivity|]. split; [discriminate|]. intros Hn. exfalso. apply Hn.
      destruct Hs as [<-|[]]. exists c. auto.
  Qed.
End Acyclic.
