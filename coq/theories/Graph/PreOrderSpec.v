(* Graph/PreOrderSpec.v -- [U] the list returned by the MODEL of compute_pre_order is a depth-first pre-order in the
   sense of Graph/SpecDfs.v (relational definition over the bare edge relation). *)
From Coq Require Import NArith List Bool Lia Permutation.
From Falcon Require Import Base.Res Graph.NMap Graph.NMapFacts Graph.Graph Graph.GraphInv Graph.Algo Graph.Spec
  Graph.SpecDfs Graph.PreOrderIsDfs.
Import ListNotations.

Section PreSpec.
  Context {V E : Type} `{Vertex V} `{Edge E}.
  Variable g : graph V E.
  Hypothesis Hgi : graph_inv g.
  Let es := edge_keys g.

  Lemma succs_edges v ss : succs_of g v = Ok ss -> forall b, In b ss <-> edge es v b.
  Proof.
    intros Hs b. unfold succs_of in Hs. destruct (nm_get v (g_successors g)) as [s|] eqn:Hg; [|discriminate].
    injection Hs as <-. unfold edge, es. rewrite <- has_edge_keys. unfold has_edge.
    rewrite (ai_succ g (gi_adj g Hgi) v b). split.
    - intros Hin. eauto.
    - intros [s' [Hs' Hin]]. congruence.
  Qed.

  Lemma explore_spec :
    (forall vis v l, explore g vis v l -> (In v vis /\ l = []) \/ dfs_pre es vis v l) /\
    (forall vis ss l, explore_list g vis ss l ->
       forall u, (forall s, In s ss -> edge es u s) -> (forall b, edge es u b -> In b ss \/ In b vis) -> dfs_kids es vis u l).
  Proof.
    apply (explore_mutind g).
    - intros vis v Hin. left. auto.
    - intros vis v ss ss' seg Hn Hs Hp _ IH. right. constructor; auto.
      apply IH.
      + intros s Hs'. apply (succs_edges v ss Hs). eapply Permutation_in; eauto.
      + intros b Hb. left. apply (succs_edges v ss Hs) in Hb. eapply Permutation_in; [apply Permutation_sym|]; eauto.
    - intros vis u _ Hall. constructor. intros b Hb. destruct (Hall b Hb) as [[]|]; auto.
    - intros vis s rest l1 l2 _ IH1 _ IH2 u Hed Hall.
      destruct IH1 as [[Hin ->]|Hpre].
      + cbn [app]. apply IH2.
        * intros s' Hs'. apply Hed. right. exact Hs'.
        * intros b Hb. destruct (Hall b Hb) as [[<-|Hb']|Hb']; auto.
      + assert (Hl1 : exists t, l1 = s :: t /\ ~ In s vis) by (inversion Hpre; subst; eauto).
        destruct Hl1 as [t [-> Hns]]. eapply dk_step; eauto.
        * apply Hed. left. reflexivity.
        * apply IH2.
          -- intros s' Hs'. apply Hed. right. exact Hs'.
          -- intros b Hb. destruct (Hall b Hb) as [[<-|Hb']|Hb']; auto.
             ++ right. left. reflexivity.
             ++ right. apply in_or_app. auto.
  Qed.

  Theorem compute_pre_order_is_dfs_spec r l : compute_pre_order g r = Ok l -> is_dfs_pre_order es r l.
  Proof.
    intros Hl. destruct (proj1 explore_spec _ _ _ (compute_pre_order_is_dfs g r l Hl)) as [[[] _]|Hp]. exact Hp.
  Qed.
End PreSpec.
