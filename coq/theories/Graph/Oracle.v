(* Graph/Oracle.v -- executable reflections of the textbook definitions of Graph/Spec.v, used as the
   oracle of the C11 check and as the verified validator for immediate dominators ([V]).
   They work on the bare input (vertex list, edge list), not on the four-map model, and use the most
   naive algorithms: closure by repeated expansion, dominators by vertex deletion.
   Soundness lemmas: Graph/OracleProofs.v. *)
From Coq Require Import NArith List Bool.
Import ListNotations.
Local Open Scope N_scope.

Definition memb (x : N) (l : list N) : bool := existsb (N.eqb x) l.
Definition ememb (e : N * N) (l : list (N * N)) : bool :=
  existsb (fun f => (fst e =? fst f) && (snd e =? snd f)) l.
Definition osucc (es : list (N * N)) (a : N) : list N := map snd (filter (fun e => fst e =? a) es).
Definition opred (es : list (N * N)) (b : N) : list N := map fst (filter (fun e => snd e =? b) es).
Definition add_new (acc : list N) (b : N) : list N := if memb b acc then acc else b :: acc.
Definition subset_b (a b : list N) : bool := forallb (fun x => memb x b) a.
Definition seteq_b (a b : list N) : bool := subset_b a b && subset_b b a.
Fixpoint nodup_b (l : list N) : bool :=
  match l with [] => true | x :: t => negb (memb x t) && nodup_b t end.

(* every vertex name that can occur on a walk from r *)
Definition verts (vs : list N) (es : list (N * N)) (r : N) : list N :=
  fold_left add_new (r :: vs ++ map fst es ++ map snd es) [].

(* closure of S under the successors that are not avoided: at most `fuel` expansion rounds *)
Fixpoint grow (fuel : nat) (es : list (N * N)) (av : N -> bool) (X : list N) : list N :=
  match fuel with
  | O => X
  | S f =>
    let X' := fold_left add_new (filter (fun b => negb (av b)) (flat_map (osucc es) X)) X in
    if Nat.eqb (length X') (length X) then X else grow f es av X'
  end.
Definition closed_b (es : list (N * N)) (av : N -> bool) (X : list N) : bool :=
  forallb (fun a => forallb (fun b => av b || memb b X) (osucc es a)) X.
(* the set of vertices reachable from r by walks that avoid `av` (r included) *)
Definition cl (es : list (N * N)) (av : N -> bool) (r : N) : list N :=
  if av r then [] else grow (S (length es)) es av [r].
Definition cl_ok (es : list (N * N)) (av : N -> bool) (r : N) : bool :=
  closed_b es av (cl es av r).

(* one closure without deletion, and one per deleted vertex *)
Record domtab := mkTab { t_all : list N; t_del : list (N * list N) }.
Fixpoint tlook (d : N) (t : list (N * list N)) (dflt : list N) : list N :=
  match t with [] => dflt | (k, s) :: t' => if k =? d then s else tlook d t' dflt end.
Definition mk_tab (vs : list N) (es : list (N * N)) (r : N) : domtab :=
  mkTab (cl es (fun _ => false) r) (map (fun d => (d, cl es (N.eqb d) r)) (verts vs es r)).
Definition tab_ok (vs : list N) (es : list (N * N)) (r : N) : bool :=
  cl_ok es (fun _ => false) r && forallb (fun d => cl_ok es (N.eqb d) r) (verts vs es r).

Definition reach_b (t : domtab) (v : N) : bool := memb v (t_all t).
(* d dominates v: v reachable, and d = v or v is unreachable once d is deleted *)
Definition dom_b (t : domtab) (d v : N) : bool :=
  reach_b t v && ((d =? v) || negb (memb v (tlook d (t_del t) (t_all t)))).
Definition sdom_b (t : domtab) (d v : N) : bool := dom_b t d v && negb (d =? v).
Definition idom_b (t : domtab) (vv : list N) (d v : N) : bool :=
  sdom_b t d v && forallb (fun e => negb (sdom_b t e v) || dom_b t e d) vv.

Fixpoint alook (m : list (N * N)) (k : N) : option N :=
  match m with [] => None | (a, b) :: t => if a =? k then Some b else alook t k end.

(* THE VALIDATOR: `m` is exactly the immediate-dominator relation of (es, r) *)
Definition idom_check_t (t : domtab) (vv : list N) (m : list (N * N)) : bool :=
  forallb (fun p => memb (fst p) vv && memb (snd p) vv) m
  && forallb (fun v => forallb (fun d =>
        Bool.eqb (match alook m v with Some d' => d' =? d | None => false end) (idom_b t vv d v)) vv) vv.
Definition idom_check (vs : list N) (es : list (N * N)) (r : N) (m : list (N * N)) : bool :=
  tab_ok vs es r && idom_check_t (mk_tab vs es r) (verts vs es r) m.

(* ------------------------------------------------------------------ the other reflections *)
Definition set_of (f : N -> bool) (vv : list N) : list N := filter f vv.

(* dominator sets: exactly the reachable vertices are keys *)
Definition dominators_ok (t : domtab) (vv : list N) (m : list (N * list N)) : bool :=
  seteq_b (map fst m) (t_all t) && nodup_b (map fst m)
  && forallb (fun p => seteq_b (snd p) (set_of (fun d => dom_b t d (fst p)) vv) && nodup_b (snd p)) m.

Definition in_df_b (t : domtab) (es : list (N * N)) (x y : N) : bool :=
  existsb (fun p => dom_b t x p) (opred es y) && negb (sdom_b t x y).
(* frontiers: every vertex of the graph may be a key; an unreachable vertex has an empty frontier *)
Definition df_ok (t : domtab) (vv : list N) (es : list (N * N)) (m : list (N * list N)) : bool :=
  subset_b (t_all t) (map fst m) && subset_b (map fst m) vv && nodup_b (map fst m)
  && forallb (fun p => seteq_b (snd p) (set_of (fun y => in_df_b t es (fst p) y) vv) && nodup_b (snd p)) m.

(* dominator tree given as (vertices, edges) *)
Definition domtree_ok (t : domtab) (vv : list N) (tv : list N) (te : list (N * N)) : bool :=
  seteq_b tv (t_all t) && nodup_b tv
  && idom_check_t t vv (map (fun e => (snd e, fst e)) te)
  && nodup_b (map snd te).

Definition back_edge_b (t : domtab) (e : N * N) : bool := dom_b t (snd e) (fst e).
(* natural loop of header h: h + reachable vertices that reach a back-edge source avoiding h *)
Definition rev_edges (es : list (N * N)) : list (N * N) := map (fun e => (snd e, fst e)) es.
Definition loop_of (es : list (N * N)) (t : domtab) (h : N) : list N :=
  let tails := map fst (filter (fun e => (snd e =? h) && back_edge_b t e) es) in
  let res := filter (fun e => reach_b t (fst e) && reach_b t (snd e)) es in
  fold_left (fun acc tl => fold_left add_new (cl (rev_edges res) (N.eqb h) tl) acc) tails [h].
Definition loops_closed (es : list (N * N)) (t : domtab) (h : N) : bool :=
  let tails := map fst (filter (fun e => (snd e =? h) && back_edge_b t e) es) in
  let res := filter (fun e => reach_b t (fst e) && reach_b t (snd e)) es in
  forallb (fun tl => cl_ok (rev_edges res) (N.eqb h) tl) tails.
Definition headers (es : list (N * N)) (t : domtab) : list N :=
  fold_left add_new (map snd (filter (back_edge_b t) es)) [].
Definition loops_ok (t : domtab) (es : list (N * N)) (ls : list (N * list N)) : bool :=
  seteq_b (map fst ls) (headers es t) && nodup_b (map fst ls)
  && forallb (fun l => loops_closed es t (fst l)
                       && seteq_b (snd l) (loop_of es t (fst l)) && nodup_b (snd l)) ls.
(* nesting relation between loops: edge (outer header, inner header) *)
Definition looptree_ok (ls : list (N * list N)) (tv : list (N * list N)) (te : list (N * N)) : bool :=
  seteq_b (map fst tv) (map fst ls) && Nat.eqb (length tv) (length ls)
  && forallb (fun l => existsb (fun l' => (fst l =? fst l') && seteq_b (snd l) (snd l')) ls) tv
  && forallb (fun l1 => forallb (fun l2 =>
        Bool.eqb (ememb (fst l1, fst l2) te)
                 (negb (fst l1 =? fst l2) && subset_b (snd l2) (snd l1))) ls) ls
  && forallb (fun e => memb (fst e) (map fst ls) && memb (snd e) (map fst ls)) te.

(* is there a walk with at least one edge from a to a? *)
Definition on_cycle_b (es : list (N * N)) (a : N) : option bool :=
  let starts := osucc es a in
  if forallb (fun s => cl_ok es (fun _ => false) s) starts
  then Some (existsb (fun s => memb a (cl es (fun _ => false) s)) starts) else None.
Definition has_cycle_b (es : list (N * N)) (among : list N) : option bool :=
  fold_left (fun acc a => match acc, on_cycle_b es a with
                          | Some x, Some y => Some (x || y) | _, _ => None end) among (Some false).

(* reducibility, definition 1 (Hecht-Ullman): reachable subgraph minus dominance back edges is acyclic *)
Definition reducible_fe_b (t : domtab) (es : list (N * N)) : option bool :=
  let fe := filter (fun e => reach_b t (fst e) && negb (back_edge_b t e)) es in
  match has_cycle_b fe (t_all t) with Some c => Some (negb c) | None => None end.
(* reducibility, definition 2: T1 (delete a self loop) / T2 (merge a vertex with a unique predecessor
   into that predecessor) collapse the reachable flow graph to the single root *)
Definition t1t2_step (r : N) (st : list N * list (N * N)) : list N * list (N * N) :=
  let es1 := filter (fun e => negb (fst e =? snd e)) (snd st) in
  match filter (fun n => negb (n =? r) &&
                         match fold_left add_new (opred es1 n) [] with [_] => true | _ => false end) (fst st) with
  | [] => (fst st, es1)
  | n :: _ =>
    match fold_left add_new (opred es1 n) [] with
    | [m] =>
      let ren x := if x =? n then m else x in
      let es2 := fold_left (fun acc e => let e' := (ren (fst e), ren (snd e)) in
                                         if ememb e' acc then acc else e' :: acc) es1 [] in
      (filter (fun x => negb (x =? n)) (fst st), es2)
    | _ => (fst st, es1)
    end
  end.
Fixpoint iter {A} (n : nat) (f : A -> A) (a : A) : A := match n with O => a | S k => iter k f (f a) end.
Definition reducible_t1t2_b (t : domtab) (es : list (N * N)) (r : N) : bool :=
  let rv := t_all t in
  let res := filter (fun e => reach_b t (fst e)) es in
  match iter (S (length rv)) (t1t2_step r) (rv, res) with
  | ([_], _) => true
  | _ => false
  end.

(* position in a list *)
Fixpoint pos (x : N) (l : list N) (i : N) : option N :=
  match l with [] => None | y :: t => if x =? y then Some i else pos x t (N.succ i) end.
Definition before (l : list N) (a b : N) : bool :=
  match pos a l 0, pos b l 0 with Some i, Some j => i <? j | _, _ => false end.
Definition topo_ok (vs : list N) (es : list (N * N)) (l : list N) : bool :=
  seteq_b l vs && nodup_b l && forallb (fun e => before l (fst e) (snd e)) es.

Definition trans_preds_ok (vs : list N) (es : list (N * N)) (m : list (N * list N)) : bool :=
  seteq_b (map fst m) vs && nodup_b (map fst m)
  && forallb (fun p =>
       let v := fst p in
       let back := fold_left (fun acc s => fold_left add_new (cl (rev_edges es) (fun _ => false) s) acc) (opred es v) [] in
       forallb (fun s => cl_ok (rev_edges es) (fun _ => false) s) (opred es v)
       && seteq_b (snd p) back && nodup_b (snd p)) m.

(* a list is a DFS pre-order from r: recursive descent over the list, which chooses the next child *)
Fixpoint chk_v (fuel : nat) (es : list (N * N)) (vis : list N) (v : N) (l : list N) : option (list N * list N) :=
  match fuel with
  | O => None
  | S f =>
    match l with
    | x :: l' => if (x =? v) && negb (memb v vis) then chk_kids f es (v :: vis) v l' else None
    | [] => None
    end
  end
with chk_kids (fuel : nat) (es : list (N * N)) (vis : list N) (u : N) (l : list N) : option (list N * list N) :=
  match fuel with
  | O => None
  | S f =>
    match filter (fun s => negb (memb s vis)) (osucc es u) with
    | [] => Some (vis, l)                                      (* u is finished *)
    | cands =>
      match l with
      | [] => None                                             (* an unvisited successor was skipped *)
      | w :: _ => if memb w cands
                  then match chk_v f es vis w l with
                       | Some (vis', rest) => chk_kids f es vis' u rest
                       | None => None
                       end
                  else None
      end
    end
  end.
Definition pre_dfs_check (es : list (N * N)) (r : N) (l : list N) : bool :=
  match chk_v (S (S (2 * length l))) es [] r l with
  | Some (_, []) => true
  | _ => false
  end.
Definition pre_order_ok (vs : list N) (es : list (N * N)) (r : N) (l : list N) : bool := pre_dfs_check es r l.
(* post-order: a permutation of the reachable set, root last, and an edge a->b whose target finishes
   after its source closes a cycle (b reaches a) *)
Definition post_order_ok (t : domtab) (es : list (N * N)) (r : N) (l : list N) : bool :=
  seteq_b l (t_all t) && nodup_b l
  && match rev l with x :: _ => x =? r | [] => false end
  && forallb (fun e => negb (memb (fst e) l) || before l (snd e) (fst e)
                       || (cl_ok es (fun _ => false) (snd e) && memb (fst e) (cl es (fun _ => false) (snd e)))) es.

(* a spanning tree of the reachable set made of graph edges, every non-root vertex with one parent *)
Definition dfs_tree_ok (t : domtab) (es : list (N * N)) (r : N) (tv : list N) (te : list (N * N)) : bool :=
  seteq_b tv (t_all t) && nodup_b tv
  && forallb (fun e => ememb e es && memb (fst e) tv && memb (snd e) tv) te
  && forallb (fun v => if v =? r then match opred te v with [] => true | _ => false end
                       else match opred te v with [_] => true | _ => false end) tv
  && cl_ok te (fun _ => false) r && seteq_b (cl te (fun _ => false) r) tv.

(* compute_acyclic: a subgraph with the same vertices and the same reachable set, without a cycle
   reachable from the start, where every dropped edge closed a cycle *)
Definition acyclic_graph_ok (t : domtab) (vs : list N) (es : list (N * N)) (r : N) (tv : list N) (te : list (N * N)) : bool :=
  cl_ok te (fun _ => false) r
  && seteq_b tv vs && nodup_b tv
  && forallb (fun e => ememb e es) te
  && seteq_b (cl te (fun _ => false) r) (t_all t)
  && match has_cycle_b te (t_all t) with Some c => negb c | None => false end
  && forallb (fun e => ememb e te || negb (reach_b t (fst e))
                       || (cl_ok es (fun _ => false) (snd e) && memb (fst e) (cl es (fun _ => false) (snd e)))) es.
