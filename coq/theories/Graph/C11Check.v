(* Graph/C11Check.v -- the per-case checker evaluated in the kernel by the C11 case files:
   fst = tie (model = observed), snd = oracle (observed satisfies the textbook definition, through the
   executable reflections of Graph/Oracle.v -- computed from the bare input, not from the model). *)
From Coq Require Import NArith List Bool.
From Falcon Require Import Base.Res Graph.NMap Graph.Graph Graph.Algo Graph.Oracle.
Import ListNotations.
Local Open Scope N_scope.

(* ------------------------------------------------------------------ dumps through the public API *)
Definition adj := list (N * list N).
Definition gdump := (list N * list (N * N) * adj * adj)%type.          (* vertices, edges, succ, pred *)
Definition ldump := (list (N * list N) * list (N * N) * adj * adj)%type.

Fixpoint per_vertex {A} (f : N -> res A) (l : list N) : res (list (N * A)) :=
  match l with
  | [] => Ok []
  | v :: t => a <- f v ;; r <- per_vertex f t ;; Ok ((v, a) :: r)
  end.
Definition dump_tree (t : tree) : res gdump :=
  let vs := vertices t in
  s <- per_vertex (successor_indices t) vs ;;
  p <- per_vertex (predecessor_indices t) vs ;;
  Ok (vs, edges t, s, p).
Definition dump_looptree (t : loop_tree) : res ldump :=
  let vs := map fst (vertices t) in
  s <- per_vertex (successor_indices t) vs ;;
  p <- per_vertex (predecessor_indices t) vs ;;
  Ok (vertices t, edges t, s, p).

Definition nl_eqb := list_eqb N.eqb.
Definition el_eqb := list_eqb edge_eqb.
Definition adj_eqb : adj -> adj -> bool := list_eqb (pair_eqb N.eqb nl_eqb).
Definition gdump_eqb (a b : gdump) : bool :=
  match a, b with (v1, e1, s1, p1), (v2, e2, s2, p2) => nl_eqb v1 v2 && el_eqb e1 e2 && adj_eqb s1 s2 && adj_eqb p1 p2 end.
Definition ldump_eqb (a b : ldump) : bool :=
  match a, b with (v1, e1, s1, p1), (v2, e2, s2, p2) => adj_eqb v1 v2 && el_eqb e1 e2 && adj_eqb s1 s2 && adj_eqb p1 p2 end.
Definition nn_eqb : list (N * N) -> list (N * N) -> bool := el_eqb.

(* ------------------------------------------------------------------ algorithm cases *)
Record alg_obs := mkObs {
  o_reach : res (list N); o_unreach : res (list N); o_rm_unreach : res gdump;
  o_pre : res (list N); o_post : res (list N); o_dfs : res gdump;
  o_idom : res (list (N * N)); o_domtree : res gdump; o_doms : res adj; o_df : res adj;
  o_tpreds : res adj; o_acyclic_g : res gdump; o_is_acyclic : res bool; o_reducible : res bool;
  o_loops : res adj; o_looptree : res ldump; o_topo : res (list N) }.

Definition build (vs : list N) (es : list (N * N)) : res tree :=
  g <- fold_left (fun acc v => g <- acc ;; insert_vertex g v) vs (Ok (new : tree)) ;;
  fold_left (fun acc e => g <- acc ;; insert_edge g e) es (Ok g).

Definition model_obs (g : tree) (r : N) : alg_obs :=
  mkObs (reachable_vertices g r) (unreachable_vertices g r)
        (g' <- remove_unreachable_vertices g r ;; dump_tree g')
        (compute_pre_order g r) (compute_post_order g r)
        (t <- compute_dfs_tree g r ;; dump_tree t)
        (compute_immediate_dominators g r)
        (t <- compute_dominator_tree g r ;; dump_tree t)
        (compute_dominators g r) (compute_dominance_frontiers g r)
        (compute_predecessors g)
        (t <- compute_acyclic g r ;; dump_tree t)
        (is_acyclic g r) (is_reducible g r)
        (compute_loops g r)
        (t <- compute_loop_tree g r ;; dump_looptree t)
        (compute_topological_ordering g).

Definition obs_eqb (a b : alg_obs) : list bool :=
  [ res_eqb nl_eqb (o_reach a) (o_reach b); res_eqb nl_eqb (o_unreach a) (o_unreach b);
    res_eqb gdump_eqb (o_rm_unreach a) (o_rm_unreach b);
    res_eqb nl_eqb (o_pre a) (o_pre b); res_eqb nl_eqb (o_post a) (o_post b);
    res_eqb gdump_eqb (o_dfs a) (o_dfs b);
    res_eqb nn_eqb (o_idom a) (o_idom b); res_eqb gdump_eqb (o_domtree a) (o_domtree b);
    res_eqb adj_eqb (o_doms a) (o_doms b); res_eqb adj_eqb (o_df a) (o_df b);
    res_eqb adj_eqb (o_tpreds a) (o_tpreds b); res_eqb gdump_eqb (o_acyclic_g a) (o_acyclic_g b);
    res_eqb Bool.eqb (o_is_acyclic a) (o_is_acyclic b); res_eqb Bool.eqb (o_reducible a) (o_reducible b);
    res_eqb adj_eqb (o_loops a) (o_loops b); res_eqb ldump_eqb (o_looptree a) (o_looptree b);
    res_eqb nl_eqb (o_topo a) (o_topo b) ].

Definition okwith {A} (r : res A) (f : A -> bool) : bool := match r with Ok a => f a | _ => false end.
Definition dump_consistent (d : gdump) : bool :=
  match d with (v, e, s, p) =>
    nl_eqb (map fst s) v && nl_eqb (map fst p) v
    && forallb (fun x => seteq_b (snd x) (osucc e (fst x))) s
    && forallb (fun x => seteq_b (snd x) (opred e (fst x))) p
  end.

(* the oracle of an algorithm case whose root is a vertex of the graph; one bool per routine *)
Definition alg_oracle (vs : list N) (es : list (N * N)) (r : N) (o : alg_obs) : list bool :=
  let t := mk_tab vs es r in
  let reachable := t_all t in
  let vv := verts vs es r in
  [ tab_ok vs es r;
    okwith (o_reach o) (fun l => seteq_b l reachable && nodup_b l);
    okwith (o_unreach o) (fun l => seteq_b l (filter (fun v => negb (memb v reachable)) vs) && nodup_b l);
    okwith (o_rm_unreach o) (fun d => match d with (v, e, _, _) =>
        seteq_b v reachable && nodup_b v && dump_consistent d
        && forallb (fun x => ememb x es && memb (fst x) reachable) e
        && forallb (fun x => ememb x e || negb (memb (fst x) reachable)) es end);
    okwith (o_pre o) (fun l => pre_order_ok vs es r l && seteq_b l reachable && nodup_b l);
    okwith (o_post o) (post_order_ok t es r);
    okwith (o_dfs o) (fun d => match d with (v, e, _, _) => dfs_tree_ok t es r v e && dump_consistent d end);
    okwith (o_idom o) (idom_check_t t vv);
    okwith (o_domtree o) (fun d => match d with (v, e, _, _) => domtree_ok t vv v e && dump_consistent d end);
    okwith (o_doms o) (dominators_ok t vv);
    okwith (o_df o) (df_ok t vv es);
    okwith (o_tpreds o) (trans_preds_ok vs es);
    okwith (o_acyclic_g o) (fun d => match d with (v, e, _, _) => acyclic_graph_ok t vs es r v e && dump_consistent d end);
    okwith (o_is_acyclic o) (fun b => match has_cycle_b es reachable with Some c => Bool.eqb b (negb c) | None => false end);
    okwith (o_reducible o) (fun b => match reducible_fe_b t es with Some x => Bool.eqb b x | None => false end
                                     && Bool.eqb b (reducible_t1t2_b t es r));
    okwith (o_loops o) (loops_ok t es);
    match o_loops o, o_looptree o with
    | Ok ls, Ok (tv, te, ts, tp) =>
        looptree_ok ls tv te
        && dump_consistent (map fst tv, te, ts, tp)
    | _, _ => false
    end;
    match has_cycle_b es vs, o_topo o with
    | Some false, Ok l => topo_ok vs es l
    | Some true, Err _ => true
    | _, _ => false
    end ].

(* ------------------------------------------------------------------ edit histories *)
Definition tvert := (N * N)%type.              (* (index, tag) *)
Definition tedge := (N * N * N)%type.          (* (head, tail, tag) *)
#[global] Instance tvert_Vertex : Vertex tvert := {| vindex := fst |}.
#[global] Instance tedge_Edge : Edge tedge := {| ehead := fun e => fst (fst e); etail := fun e => snd (fst e) |}.
Definition tgraph := graph tvert tedge.

Inductive op := OInsV (i tag : N) | OInsE (h t tag : N) | ORemV (i : N) | ORemE (h t : N).

Record views := mkViews {
  w_num : N;
  w_vertices : list tvert; w_edges : list tedge;
  w_succ : adj; w_pred : adj;
  w_succv : list (N * list tvert); w_predv : list (N * list tvert);
  w_out : list (N * list tedge); w_in : list (N * list tedge);
  w_nopred : list tvert; w_nosucc : list tvert;
  (* for every id of the pool that is NOT a vertex: edges_in, edges_out, successor_indices, predecessor_indices *)
  w_probe : list (N * (res (list tedge) * res (list tedge) * res (list N) * res (list N)));
  (* graph == graph rebuilt from vertices() and edges() (derived PartialEq over the four maps) *)
  w_canon : bool }.

Definition tv_eqb : tvert -> tvert -> bool := pair_eqb N.eqb N.eqb.
Definition te_eqb : tedge -> tedge -> bool := pair_eqb (pair_eqb N.eqb N.eqb) N.eqb.
Definition probe_eqb (a b : N * (res (list tedge) * res (list tedge) * res (list N) * res (list N))) : bool :=
  (fst a =? fst b)
  && res_eqb (list_eqb te_eqb) (fst (fst (fst (snd a)))) (fst (fst (fst (snd b))))
  && res_eqb (list_eqb te_eqb) (snd (fst (fst (snd a)))) (snd (fst (fst (snd b))))
  && res_eqb nl_eqb (snd (fst (snd a))) (snd (fst (snd b)))
  && res_eqb nl_eqb (snd (snd a)) (snd (snd b)).
Definition views_core_eqb (a b : views) : bool :=
  (w_num a =? w_num b)
  && list_eqb tv_eqb (w_vertices a) (w_vertices b) && list_eqb te_eqb (w_edges a) (w_edges b)
  && adj_eqb (w_succ a) (w_succ b) && adj_eqb (w_pred a) (w_pred b)
  && list_eqb (pair_eqb N.eqb (list_eqb tv_eqb)) (w_succv a) (w_succv b)
  && list_eqb (pair_eqb N.eqb (list_eqb tv_eqb)) (w_predv a) (w_predv b)
  && list_eqb (pair_eqb N.eqb (list_eqb te_eqb)) (w_out a) (w_out b)
  && list_eqb (pair_eqb N.eqb (list_eqb te_eqb)) (w_in a) (w_in b)
  && list_eqb tv_eqb (w_nopred a) (w_nopred b) && list_eqb tv_eqb (w_nosucc a) (w_nosucc b).
Definition views_eqb (a b : views) : bool :=
  views_core_eqb a b && list_eqb probe_eqb (w_probe a) (w_probe b) && Bool.eqb (w_canon a) (w_canon b).

Definition rebuild (g : tgraph) : res tgraph :=
  g1 <- fold_left (fun acc v => g' <- acc ;; insert_vertex g' v) (vertices g) (Ok (new : tgraph)) ;;
  fold_left (fun acc e => g' <- acc ;; insert_edge g' e) (edges g) (Ok g1).

Definition model_views (pool : list N) (g : tgraph) : res views :=
  let ks := map fst (vertices g) in
  s <- per_vertex (successor_indices g) ks ;;
  p <- per_vertex (predecessor_indices g) ks ;;
  sv <- per_vertex (successors g) ks ;;
  pv <- per_vertex (predecessors g) ks ;;
  eo <- per_vertex (edges_out g) ks ;;
  ei <- per_vertex (edges_in g) ks ;;
  np <- vertices_without_predecessors g ;;
  nsu <- vertices_without_successors g ;;
  Ok (mkViews (num_vertices g) (vertices g) (edges g) s p sv pv eo ei np nsu
              (map (fun k => (k, (edges_in g k, edges_out g k, successor_indices g k, predecessor_indices g k)))
                   (filter (fun k => negb (has_vertex g k)) pool))
              (match rebuild g with Ok g2 => graph_eqb tv_eqb te_eqb g g2 | _ => false end)).

Definition apply_op (g : tgraph) (o : op) : res tgraph :=
  match o with
  | OInsV i tag => insert_vertex g (i, tag)
  | OInsE h t tag => insert_edge g (h, t, tag)
  | ORemV i => remove_vertex g i
  | ORemE h t => remove_edge g h t
  end.

Definition unit_eqb (a b : unit) : bool := true.
Definition step_eqb (a b : res unit * res views) : bool :=
  res_eqb unit_eqb (fst a) (fst b) && res_eqb views_eqb (snd a) (snd b).

Fixpoint model_hist (pool : list N) (g : tgraph) (ops : list op) : list (res unit * res views) :=
  match ops with
  | [] => []
  | o :: t =>
    match apply_op g o with
    | Ok g' => (Ok tt, model_views pool g') :: model_hist pool g' t
    | Err e => (Err e, model_views pool g) :: model_hist pool g t
    | Panic => (Panic, model_views pool g) :: model_hist pool g t
    end
  end.

(* the specification: a graph is a set of tagged vertices and a set of tagged edges *)
Definition sstate := (list tvert * list tedge)%type.
Definition s_hasv (s : sstate) (i : N) : bool := existsb (fun v => fst v =? i) (fst s).
Definition s_hase (s : sstate) (h t : N) : bool := existsb (fun e => (fst (fst e) =? h) && (snd (fst e) =? t)) (snd s).
(* None = the operation must fail and leave everything unchanged *)
Definition spec_op (s : sstate) (o : op) : option sstate :=
  match o with
  | OInsV i tag => if s_hasv s i then None else Some ((i, tag) :: fst s, snd s)
  | OInsE h t tag => if s_hase s h t || negb (s_hasv s h) || negb (s_hasv s t) then None
                     else Some (fst s, (h, t, tag) :: snd s)
  | ORemV i => if s_hasv s i
               then Some (filter (fun v => negb (fst v =? i)) (fst s),
                          filter (fun e => negb (fst (fst e) =? i) && negb (snd (fst e) =? i)) (snd s))
               else None
  | ORemE h t => if s_hase s h t
                 then Some (fst s, filter (fun e => negb ((fst (fst e) =? h) && (snd (fst e) =? t))) (snd s))
                 else None
  end.
(* the views the specification state determines: everything ascending by key *)
Definition sort_v (l : list tvert) : list tvert := fold_left (fun m v => nm_insert (fst v) (snd v) m) l [].
Definition sort_e (l : list tedge) : list tedge :=
  map (fun p => (fst p, snd p)) (fold_left (fun m e => em_insert (fst e) (snd e) m) l []).
Definition spec_views (s : sstate) : views :=
  let vs := sort_v (fst s) in
  let es := sort_e (snd s) in
  let ks := map fst vs in
  let outs v := filter (fun e => fst (fst e) =? v) es in
  let ins v := filter (fun e => snd (fst e) =? v) es in
  let look i := filter (fun v => fst v =? i) vs in
  mkViews (N.of_nat (length vs)) vs es
          (map (fun v => (v, map (fun e => snd (fst e)) (outs v))) ks)
          (map (fun v => (v, map (fun e => fst (fst e)) (ins v))) ks)
          (map (fun v => (v, flat_map (fun e => look (snd (fst e))) (outs v))) ks)
          (map (fun v => (v, flat_map (fun e => look (fst (fst e))) (ins v))) ks)
          (map (fun v => (v, outs v)) ks) (map (fun v => (v, ins v)) ks)
          (filter (fun v => match ins (fst v) with [] => true | _ => false end) vs)
          (filter (fun v => match outs (fst v) with [] => true | _ => false end) vs)
          [] true.
(* what the specification demands of the probes: exactly the ids of the pool that are not vertices are
   probed, every probe of such an id fails with an error (no stale adjacency entry answers), and the
   representation is canonical *)
Definition is_err {A} (r : res A) : bool := match r with Err _ => true | _ => false end.
Definition spec_probes (pool : list N) (s : sstate) (w : views) : bool :=
  nl_eqb (map fst (w_probe w)) (filter (fun k => negb (s_hasv s k)) pool)
  && forallb (fun p => is_err (fst (fst (fst (snd p)))) && is_err (snd (fst (fst (snd p))))
                       && is_err (snd (fst (snd p))) && is_err (snd (snd p))) (w_probe w)
  && w_canon w.

Fixpoint spec_hist (pool : list N) (s : sstate) (ops : list op) (obs : list (res unit * res views)) : bool :=
  match ops, obs with
  | [], [] => true
  | o :: t, (r, w) :: obs' =>
    match spec_op s o with
    | Some s' => match r with Ok _ => true | _ => false end
                 && okwith w (fun w => views_core_eqb (spec_views s') w && spec_probes pool s' w)
                 && spec_hist pool s' t obs'
    | None => match r with Err _ => true | _ => false end
              && okwith w (fun w => views_core_eqb (spec_views s) w && spec_probes pool s w)
              && spec_hist pool s t obs'
    end
  | _, _ => false
  end.

(* ------------------------------------------------------------------ cases *)
Inductive case :=
| KAlg (vs : list N) (es : list (N * N)) (r : N) (o : alg_obs)
| KHist (pool : list N) (ops : list op) (obs : list (res unit * res views)).

Arguments KAlg (vs es r)%N_scope o.
Arguments KHist pool%N_scope ops%N_scope obs%N_scope.
Arguments mkObs (o_reach o_unreach o_rm_unreach o_pre o_post o_dfs o_idom o_domtree o_doms o_df o_tpreds
                 o_acyclic_g o_is_acyclic o_reducible o_loops o_looptree o_topo)%N_scope.
Arguments mkViews (w_num w_vertices w_edges w_succ w_pred w_succv w_predv w_out w_in w_nopred w_nosucc w_probe)%N_scope w_canon.

Definition all_true (l : list bool) : bool := forallb (fun b => b) l.

Definition ck_detail (k : case) : list bool * list bool :=
  match k with
  | KAlg vs es r o =>
      (match build vs es with
       | Ok g => obs_eqb (model_obs g r) o
       | _ => [false]
       end,
       if memb r vs then alg_oracle vs es r o else [true])
  | KHist pool ops obs =>
      ([list_eqb step_eqb (model_hist pool (new : tgraph) ops) obs], [spec_hist pool ([], []) ops obs])
  end.
Definition ck (k : case) : bool * bool := (all_true (fst (ck_detail k)), all_true (snd (ck_detail k))).
