(* Graph/BackEdges.v -- [U] compute_back_edges, relative to compute_dominators: if the dominator sets are
   the textbook ones, the routine returns exactly the back edges (edges whose target dominates their
   source). *)
From Coq Require Import NArith List Bool Lia.
From Falcon Require Import Base.Res Graph.NMap Graph.NMapFacts Graph.Graph Graph.GraphInv Graph.Algo Graph.Spec Graph.LoopProofs.
Import ListNotations.
Local Open Scope N_scope.

Section BackEdges.
  Context {V E : Type} `{Vertex V} `{Edge E}.
  Variable g : graph V E.
  Hypothesis Hgi : graph_inv g.
  Let es := edge_keys g.
  Variable r : N.

  Lemma inner_fold a D ss : forall be e,
    In e (fold_left (fun b s => if ns_mem s D then es_insert (a, s) b else b) ss be) <->
    In e be \/ exists s, In s ss /\ In s D /\ e = (a, s).
  Proof.
    induction ss as [|s ss IH]; intros be e; cbn [fold_left].
    - split; auto. intros [Hx|[s [[] _]]]. exact Hx.
    - rewrite IH. destruct (ns_mem s D) eqn:Hm.
      + apply ns_mem_in in Hm. rewrite es_insert_in. split.
        * intros [[->|Hx]|[s' [Hs' Hr]]]; auto.
          -- right. exists s. split; [left; auto|auto].
          -- right. exists s'. split; [right; auto|auto].
        * intros [Hx|[s' [[<-|Hs'] [HD ->]]]]; auto. right. exists s'. auto.
      + apply ns_mem_false in Hm. split.
        * intros [Hx|[s' [Hs' Hr]]]; auto. right. exists s'. split; [right; auto|auto].
        * intros [Hx|[s' [[<-|Hs'] [HD ->]]]]; auto; [contradiction|]. right. exists s'. auto.
  Qed.

  Lemma outer_fold (doms : nmap nset) : (forall a D, In (a, D) doms -> has_vertex g a = true) ->
    forall be, exists be',
      fold_left (fun acc nd => be <- acc ;; ss <- succs_of g (fst nd) ;;
                   Ok (fold_left (fun b s => if ns_mem s (snd nd) then es_insert (fst nd, s) b else b) ss be))
                doms (Ok be) = Ok be' /\
      forall e, In e be' <-> In e be \/ exists a D s, In (a, D) doms /\ has_edge g a s = true /\ In s D /\ e = (a, s).
  Proof.
    induction doms as [|[a D] doms IH]; intros Hv be; cbn [fold_left].
    - exists be. split; auto. intros e. split; auto. intros [Hx|[a [D [s [[] _]]]]]. exact Hx.
    - destruct (succs_of_spec g a Hgi (Hv a D (or_introl eq_refl))) as [ss [Hss [_ Hin]]].
      cbn [bind fst snd]. rewrite Hss. cbn [bind].
      destruct (IH (fun a' D' Hx => Hv a' D' (or_intror Hx))
                   (fold_left (fun b s => if ns_mem s D then es_insert (a, s) b else b) ss be)) as [be' [Hf Hiff]].
      exists be'. split; [exact Hf|]. intros e. rewrite Hiff, inner_fold. split.
      + intros [[Hx|[s [Hs [HD ->]]]]|[a' [D' [s [Hin' Hr]]]]]; auto.
        * right. exists a, D, s. split; [left; auto|]. split; [apply Hin; exact Hs|auto].
        * right. exists a', D', s. split; [right; auto|exact Hr].
      + intros [Hx|[a' [D' [s [[[= <- <-]|Hin'] [He [HD ->]]]]]]]; auto.
        * left. right. exists s. split; [apply Hin; exact He|auto].
        * right. exists a', D', s. auto.
  Qed.

  Theorem back_edges_of_dominators doms :
    compute_dominators g r = Ok doms ->
    (forall v, In v (map fst doms) <-> reach es r v) ->
    (forall v D, In (v, D) doms -> forall d, In d D <-> dom es r d v) ->
    (forall v, reach es r v -> has_vertex g v = true) ->
    exists be, compute_back_edges g r = Ok be /\ forall a b, In (a, b) be <-> back_edge es r a b.
  Proof.
    intros Hd Hkeys Hsets Hrv. unfold compute_back_edges. rewrite Hd. cbn [bind].
    destruct (outer_fold doms) with (be := @nil (N * N)) as [be [Hf Hiff]].
    { intros a D Hin. apply Hrv, Hkeys, in_map_iff. exists (a, D). auto. }
    exists be. split; [exact Hf|]. intros a b. rewrite Hiff. unfold back_edge, edge, es. split.
    - intros [[]|[a' [D [s [Hin [He [HD [= -> ->]]]]]]]]. split.
      + apply has_edge_keys. exact He.
      + apply (Hsets a' D Hin). exact HD.
    - intros [He Hdom]. right.
      assert (Hra : reach es r a) by apply Hdom.
      apply Hkeys, in_map_iff in Hra. destruct Hra as [[a' D] [Heq Hin]]. cbn in Heq. subst a'.
      exists a, D, b. split; [exact Hin|]. split; [apply has_edge_keys; exact He|]. split; [|reflexivity].
      apply (Hsets a D Hin). exact Hdom.
  Qed.

  Lemma reach_has_vertex : has_vertex g r = true -> forall v, reach es r v -> has_vertex g v = true.
  Proof.
    intros Hr v [l Hp]. destruct (path_last_edge _ _ _ _ Hp) as [[_ <-]|[c Hc]]; auto.
    apply has_edge_keys in Hc. apply (has_edge_vertices g c v Hgi) in Hc. tauto.
  Qed.

  Theorem back_edges_correct doms :
    has_vertex g r = true ->
    compute_dominators g r = Ok doms ->
    (forall v, In v (map fst doms) <-> reach es r v) ->
    (forall v D, In (v, D) doms -> forall d, In d D <-> dom es r d v) ->
    exists be, compute_back_edges g r = Ok be /\ forall a b, In (a, b) be <-> back_edge es r a b.
  Proof.
    intros Hr Hd Hk Hs. apply (back_edges_of_dominators doms Hd Hk Hs). apply reach_has_vertex. exact Hr.
  Qed.
End BackEdges.
