(* Graph/Unreachable.v -- [U] "vertices unreachable from the root are excluded rather than causing a failure", for
   the MODEL functions: on every consistent graph with a root vertex, if the idom map returned by the model of
   Semi-NCA passes the validator idom_check, then reachable_vertices, compute_pre_order, compute_dominator_tree,
   compute_dominators, compute_back_edges and compute_dominance_frontiers all return Ok and mention reachable
   vertices only (an unreachable vertex keeps a key with an EMPTY frontier and occurs in no frontier). *)
From Coq Require Import NArith List Bool Lia.
From Falcon Require Import Base.Res Graph.NMap Graph.NMapFacts Graph.Graph Graph.GraphInv Graph.Algo Graph.Spec
  Graph.Oracle Graph.OracleProofs Graph.DomTheory Graph.ReachProofs Graph.PreOrderProofs Graph.DomModel
  Graph.FrontierModel.
Import ListNotations.
Local Open Scope N_scope.

Section Unreachable.
  Context {V E : Type} `{Vertex V} `{Edge E}.
  Variable g : graph V E.
  Hypothesis Hgi : graph_inv g.
  Variable r : N.
  Hypothesis Hr : has_vertex g r = true.
  Let es := edge_keys g.
  Variable m : nmap N.
  Hypothesis Hm : compute_immediate_dominators g r = Ok m.
  Hypothesis Hchk : idom_check (vertex_indices g) es r m = true.

  Theorem unreachable_excluded :
    (exists s, reachable_vertices g r = Ok s /\ forall v, In v s -> reach es r v) /\
    (exists l, compute_pre_order g r = Ok l /\ forall v, In v l -> reach es r v) /\
    (forall v d, In (v, d) m -> reach es r v /\ reach es r d) /\
    (exists t, compute_dominator_tree g r = Ok t /\ forall v, has_vertex t v = true -> reach es r v) /\
    (exists doms, compute_dominators g r = Ok doms /\
                  forall v D, In (v, D) doms -> reach es r v /\ forall d, In d D -> reach es r d) /\
    (exists be, compute_back_edges g r = Ok be /\ forall a b, In (a, b) be -> reach es r a /\ reach es r b) /\
    (exists df, compute_dominance_frontiers g r = Ok df /\
                forall x F, nm_get x df = Some F -> forall y, In y F -> reach es r x /\ reach es r y).
  Proof.
    split; [|split; [|split; [|split; [|split; [|split]]]]].
    - destruct (reachable_vertices_correct g Hgi r Hr) as [s [Hs [_ Hin]]]. exists s. split; auto. intros v. apply Hin.
    - destruct (compute_pre_order_correct g Hgi r Hr) as [l [Hl [_ Hin]]]. exists l. split; auto. intros v. apply Hin.
    - intros v d Hin. apply (m_spec g r m Hm Hchk) in Hin. destruct Hin as [[Hd _] _]. split.
      + apply Hd.
      + exact (dom_reach_dominator es r d v Hd).
    - destruct (dominator_tree_correct g r m Hm Hchk) as [t [Ht [_ [Hv _]]]]. exists t. split; auto. intros v. apply Hv.
    - destruct (compute_dominators_correct g r Hr m Hm Hchk) as [doms [Hd [_ [Hk Hs]]]]. exists doms. split; auto.
      intros v D Hin. split.
      + apply Hk. apply in_map_iff. exists (v, D). auto.
      + intros d Hd'. apply (Hs v D Hin) in Hd'. eapply dom_reach_dominator; eauto.
    - destruct (compute_back_edges_correct g Hgi r Hr m Hm Hchk) as [be [Hb Hin]]. exists be. split; auto.
      intros a b Hab. apply Hin in Hab. destruct Hab as [_ Hd]. split; [apply Hd|eapply dom_reach_dominator; eauto].
    - destruct (compute_dominance_frontiers_correct g Hgi r Hr m Hm Hchk) as [df [Hdf [_ Hs]]]. exists df. split; auto.
      intros x F Hg y Hy. apply (Hs x F Hg) in Hy. split.
      + destruct Hy as [p [_ [Hd _]]]. eapply dom_reach_dominator; eauto.
      + eapply in_DF_reach; eauto.
  Qed.
End Unreachable.
