(* Graph/SemiLoopMain.v -- towards unbounded Semi-NCA: the semidominator loop of the model computes the semidominator
   numbers, GIVEN the DFS facts (hypotheses of the section, see notes/C11.md "what remains"): the model's order is a
   depth-first pre-order of the graph in the sense of SpecDfs and dfs_parent is the closest proper DFS ancestor. *)
From Coq Require Import NArith List Bool Lia PeanoNat.
From Falcon Require Import Base.Res Graph.NMap Graph.NMapFacts Graph.Graph Graph.GraphInv Graph.Algo Graph.Spec
  Graph.SpecDfs Graph.Oracle Graph.OracleProofs Graph.DfsFacts Graph.AcyclicGraphModel Graph.PathLemma
  Graph.SemiDomTheory Graph.SemiNcaTheory Graph.SemiNcaFacts Graph.SemiLoop Graph.DomTheory Graph.IdomExists.
Import ListNotations.
Local Open Scope N_scope.

Lemma fold_none_get (l : list N) : forall (m0 : nmap (option N)) v,
  nm_get v (fold_left (fun m v => nm_insert v None m) l m0) = if in_dec N.eq_dec v l then Some None else nm_get v m0.
Proof.
  induction l as [|x l IH]; intros m0 v; cbn [fold_left]; [destruct (in_dec N.eq_dec v []) as [[]|]; reflexivity|].
  rewrite IH. destruct (in_dec N.eq_dec v l) as [Hin|Hn]; destruct (in_dec N.eq_dec v (x :: l)) as [Hin'|Hn']; auto.
  - exfalso. apply Hn'. right. exact Hin.
  - destruct Hin' as [->|]; [apply nm_get_insert_same|contradiction].
  - apply nm_get_insert_other. intros ->. apply Hn'. left. reflexivity.
Qed.

Lemma fold_lab_get (num : nmap N) (l : list N) : forall (m0 : nmap N) v,
  (forall x, In x l -> exists n, nm_get x num = Some n) ->
  nm_get v (fold_left (fun m v => match nm_get v num with Some n => nm_insert v n m | None => m end) l m0) =
  if in_dec N.eq_dec v l then nm_get v num else nm_get v m0.
Proof.
  induction l as [|x l IH]; intros m0 v Hall; cbn [fold_left]; [destruct (in_dec N.eq_dec v []) as [[]|]; reflexivity|].
  destruct (Hall x (or_introl eq_refl)) as [n Hn]. rewrite Hn. rewrite IH by (intros y Hy; apply Hall; right; exact Hy).
  destruct (in_dec N.eq_dec v l) as [Hin|Hni]; destruct (in_dec N.eq_dec v (x :: l)) as [Hin'|Hn']; auto.
  - exfalso. apply Hn'. right. exact Hin.
  - destruct Hin' as [->|]; [rewrite nm_get_insert_same; auto|contradiction].
  - apply nm_get_insert_other. intros ->. apply Hn'. left. reflexivity.
Qed.

Section Main.
  Context {V E : Type} `{Vertex V} `{Edge E}.
  Variable g : graph V E.
  Hypothesis Hgi : graph_inv g.
  Variable r : N.
  Let es := edge_keys g.
  Variable dfs : tree.
  Variable order : list N.
  Hypothesis Hdfs : is_dfs_pre_order es r order.
  Hypothesis Hvert : forall w, In w order -> has_vertex g w = true.
  Hypothesis Hsize : N.of_nat (length order) <= usize_max.

  Definition nn (v : N) : N := N.of_nat (idx v order).
  Let numm := number_from 0 order.
  Let inord (v : N) : Prop := In v order.

  Variable par : N -> option N.
  Hypothesis Hpar_model : forall v, In v order -> dfs_parent dfs v = Ok (par v).
  Hypothesis Hpar_some : forall v, In v order -> v <> r -> exists p, par v = Some p.
  Hypothesis Hpar_facts : forall v p, par v = Some p -> In p order /\ edge es p v /\ anc es order p v /\ p <> v.
  Hypothesis Hanc_chain : forall u v, anc es order u v -> chainp par v u.

  Lemma order_nodup : NoDup order.
  Proof. apply (l_nodup es r order Hdfs). Qed.

  Lemma num_in v : In v order -> nm_get v numm = Some (nn v).
  Proof.
    intros Hv. destruct (in_split _ _ Hv) as [l1 [l2 Heq]]. unfold numm.
    rewrite (number_from_get order 0 v l1 l2 order_nodup Heq). unfold nn. f_equal.
    assert (Hn : ~ In v l1).
    { pose proof order_nodup as Hnd. rewrite Heq in Hnd. intros Hx. apply (nodup_app_disj l1 (v :: l2) v Hnd Hx). left. reflexivity. }
    rewrite Heq, (idx_split l1 v l2 Hn). lia.
  Qed.
  Lemma num_out v : ~ In v order -> nm_get v numm = None.
  Proof. apply number_from_none. Qed.
  Lemma nn_lt_len v : In v order -> nn v < N.of_nat (length order).
  Proof. intros Hv. apply idx_lt in Hv. unfold nn. lia. Qed.
  Lemma nn_root : nn r = 0.
  Proof. destruct (pre_head es _ _ _ Hdfs) as [t [Heq _]]. unfold nn. rewrite Heq. cbn [idx]. rewrite N.eqb_refl. reflexivity. Qed.
  Lemma nn_num v : nn v = N.of_nat (SemiDomTheory.num order v).
  Proof. reflexivity. Qed.

  Lemma par_lt : forall v p, par v = Some p -> nn p < nn v /\ inord p.
  Proof.
    intros v p Hp. destruct (Hpar_facts v p Hp) as [Hin [_ [Ha Hne]]]. split; auto.
    pose proof (anc_lt es r order Hdfs p v Ha Hne). unfold nn, SemiDomTheory.num in *. lia.
  Qed.

  Lemma chain_anc v u : In v order -> chainp par v u -> anc es order u v.
  Proof.
    intros Hv Hc. induction Hc as [v|v p u Hp Hc IH].
    - apply (anc_self es r order Hdfs). exact Hv.
    - destruct (Hpar_facts v p Hp) as [Hin [_ [Ha _]]]. eapply (anc_nested es r order Hdfs); [apply IH; exact Hin|exact Ha].
  Qed.

  (* n is the semidominator number of v *)
  Definition SD (v n : N) : Prop :=
    (exists s, sd_cand es order v s /\ nn s = n) /\ forall s', sd_cand es order v s' -> n <= nn s'.

  Lemma SD_lt v n : In v order -> v <> r -> SD v n -> n < nn v.
  Proof.
    intros Hv Hne [_ Hmin]. destruct (Hpar_some v Hv Hne) as [p Hp]. destruct (Hpar_facts v p Hp) as [Hin [He _]].
    pose proof (Hmin p (sd_cand_edge es order p v Hin He)). pose proof (proj1 (par_lt v p Hp)). lia.
  Qed.

  Record LI (k : N) (st : snca_state) : Prop := {
    li_fi : FI nn par inord (st_semi st) k (st_anc st) (st_lab st);
    li_sd : forall v, In v order -> k < nn v -> exists sv, nm_get v (st_semi st) = Some sv /\ SD v sv;
    li_keys : forall v sv, nm_get v (st_semi st) = Some sv -> In v order /\ k < nn v }.

  Definition VAL (S : nmap N) (k : N) (p val : N) : Prop :=
    (nn p <= k /\ val = nn p) \/ (k < nn p /\ exists a, pmin par S a p val /\ In a order /\ nn a <= k).

  Lemma semi_pred_ok S k anc lab ms p : FI nn par inord S k anc lab ->
    exists anc' lab' ms', semi_pred (Datatypes.S (length order)) numm (Ok (anc, lab, ms)) p = Ok (anc', lab', ms') /\
      FI nn par inord S k anc' lab' /\
      ((~ In p order /\ ms' = ms) \/ (In p order /\ exists val, VAL S k p val /\ ms' = N.min ms val)).
  Proof.
    intros Hfi. unfold semi_pred. cbn [bind fst snd].
    destruct (in_dec N.eq_dec p order) as [Hp|Hp].
    - assert (Hm : nm_mem p numm = true) by (apply nm_mem_get; exists (nn p); apply num_in; exact Hp).
      rewrite Hm. cbn [negb].
      destruct (N.le_gt_cases (nn p) k) as [Hle|Hgt].
      + destruct (fi_un _ _ _ _ _ _ _ Hfi p Hp Hle) as [Ha Hl]. unfold nm_idx. rewrite Ha. cbn [res_of_option bind snd]. rewrite Hl.
        cbn [res_of_option bind]. eexists _, _, _. split; [reflexivity|]. split; [exact Hfi|]. right. split; auto.
        exists (nn p). split; [left; auto|reflexivity].
      + destruct (fi_pr _ _ _ _ _ _ _ Hfi p Hp Hgt) as [a0 [m0 [Ha0 _]]]. unfold nm_idx at 1. rewrite Ha0. cbn [res_of_option bind].
        destruct (compress_correct nn par inord par_lt S k (Datatypes.S (length order)) anc lab p Hfi Hp Hgt)
          as [anc' [lab' [Hc [Hfi' [[a [m [Ha [Hl [Hpm [Hina Hka]]]]]] _]]]]].
        { pose proof (nn_lt_len p Hp). lia. }
        rewrite Hc. cbn [bind snd fst]. unfold nm_idx. rewrite Hl. cbn [res_of_option bind].
        eexists _, _, _. split; [reflexivity|]. split; [exact Hfi'|]. right. split; auto.
        exists m. split; [right; split; auto; exists a; auto|reflexivity].
    - assert (Hm : nm_mem p numm = false) by (apply nm_mem_false_get, num_out; exact Hp).
      rewrite Hm. cbn [negb]. eexists _, _, _. split; [reflexivity|]. split; [exact Hfi|]. left. auto.
  Qed.

  Lemma semi_fold_ok S k (ps : list N) : forall anc lab ms, FI nn par inord S k anc lab ->
    exists anc' lab' ms', fold_left (semi_pred (Datatypes.S (length order)) numm) ps (Ok (anc, lab, ms)) = Ok (anc', lab', ms') /\
      FI nn par inord S k anc' lab' /\ ms' <= ms /\
      (forall p, In p ps -> In p order -> exists val, VAL S k p val /\ ms' <= val) /\
      (ms' = ms \/ exists p, In p ps /\ In p order /\ VAL S k p ms').
  Proof.
    induction ps as [|p ps IH]; intros anc lab ms Hfi; cbn [fold_left].
    - eexists _, _, _. split; [reflexivity|]. split; [exact Hfi|]. split; [lia|]. split; [intros p []|left; reflexivity].
    - destruct (semi_pred_ok S k anc lab ms p Hfi) as [anc1 [lab1 [ms1 [Hs [Hfi1 Hcase]]]]]. rewrite Hs.
      destruct (IH anc1 lab1 ms1 Hfi1) as [anc' [lab' [ms' [Hf [Hfi' [Hle [Hall Hatt]]]]]]].
      exists anc', lab', ms'. split; [exact Hf|]. split; [exact Hfi'|].
      destruct Hcase as [[Hnp ->]|[Hp [val [Hval ->]]]].
      + split; [exact Hle|]. split.
        * intros q [<-|Hq] Hqo; [contradiction|apply Hall; auto].
        * destruct Hatt as [->|[q [Hq [Hqo Hv]]]]; [left; reflexivity|right; exists q; split; [right; exact Hq|auto]].
      + split; [lia|]. split.
        * intros q [<-|Hq] Hqo; [exists val; split; auto; lia|apply Hall; auto].
        * destruct Hatt as [->|[q [Hq [Hqo Hv]]]]; [|right; exists q; split; [right; exact Hq|auto]].
          destruct (N.le_gt_cases ms val) as [Hl|Hg]; [left; lia|]. right. exists p. split; [left; auto|]. split; auto.
          replace (N.min ms val) with val by lia. exact Hval.
  Qed.

  (* the semantic step: the value computed for w is its semidominator number *)
  Lemma semi_value_SD k st w ps ms : LI k st -> In w order -> w <> r -> nn w = k ->
    (forall p, In p ps <-> edge es p w) ->
    ms <= usize_max ->
    (forall p, In p ps -> In p order -> exists val, VAL (st_semi st) k p val /\ ms <= val) ->
    (ms = usize_max \/ exists p, In p ps /\ In p order /\ VAL (st_semi st) k p ms) ->
    SD w ms.
  Proof.
    intros Hli Hw Hwr Hk Hps Hmax Hall Hatt.
    destruct (Hpar_some w Hw Hwr) as [pw Hpw]. destruct (Hpar_facts w pw Hpw) as [Hpwin [Hpwe _]].
    pose proof (proj1 (par_lt w pw Hpw)) as Hpwlt.
    assert (Hms_lt : ms < nn w).
    { destruct (Hall pw (proj2 (Hps pw) Hpwe) Hpwin) as [val [[[_ ->]|[Hgt _]] Hle]]; lia. }
    assert (Hcand_edge : forall s, In s order -> edge es s w -> ms <= nn s).
    { intros s Hs He. destruct (Hall s (proj2 (Hps s) He) Hs) as [val [[[_ ->]|[Hgt [a [Hpm _]]]] Hle]]; [lia|].
      destruct (pmin_le nn par inord par_lt _ a s val Hpm s (ch_refl par s) (pmin_lt nn par inord par_lt _ a s val Hpm)) as [su [Hsu Hle']].
      destruct (li_sd _ _ Hli s Hs Hgt) as [sv [Hsv Hsd]]. rewrite Hsu in Hsv. injection Hsv as ->.
      assert (Hsr : s <> r) by (intros ->; rewrite nn_root in Hgt; lia).
      pose proof (SD_lt s sv Hs Hsr Hsd). lia. }
    split.
    - destruct Hatt as [->|[p [Hp [Hpo Hv]]]].
      { pose proof (nn_lt_len w Hw). lia. }
      destruct Hv as [[Hle Heq]|[Hgt [a [Hpm [Hain Hak]]]]].
      + exists p. split; [apply sd_cand_edge; auto; apply Hps; exact Hp|congruence].
      + destruct (pmin_elem nn par inord par_lt _ a p ms Hpm) as [u [Hc [Hau Hsu]]].
        destruct (li_keys _ _ Hli u ms Hsu) as [Huo Huk].
        destruct (li_sd _ _ Hli u Huo Huk) as [sv [Hsv [[s [Hs Hns]] _]]]. rewrite Hsu in Hsv. injection Hsv as <-.
        exists s. split; auto.
        apply (sd_cand_up es r order Hdfs p w u s); auto.
        * apply Hps. exact Hp.
        * apply chain_anc; auto.
        * unfold SemiDomTheory.num. unfold nn in Huk, Hk. lia.
    - intros s' Hc'. pose proof Hc' as [Hs' _].
      destruct (cand_cases es r order Hdfs w s' Hw Hc') as [He|[u [v [Hvw [Hauv [Hwu Hcu]]]]]].
      + apply Hcand_edge; auto.
      + destruct (anc_num es r order Hdfs u v Hauv) as [Huv [Hvo Huo]].
        assert (Hvk : k < nn v) by (unfold nn, SemiDomTheory.num in *; lia).
        assert (Huk : k < nn u) by (unfold nn, SemiDomTheory.num in *; lia).
        destruct (Hall v (proj2 (Hps v) Hvw) Hvo) as [val [[[Hle _]|[_ [a [Hpm [Hain Hak]]]]] Hmsle]]; [lia|].
        destruct (pmin_le nn par inord par_lt _ a v val Hpm u (Hanc_chain u v Hauv)) as [su [Hsu Hle']]; [lia|].
        destruct (li_sd _ _ Hli u Huo Huk) as [sv [Hsv [_ Hmin]]]. rewrite Hsu in Hsv. injection Hsv as ->.
        pose proof (Hmin s' Hcu). lia.
  Qed.

  Lemma nn_inj a b : In a order -> nn a = nn b -> a = b.
  Proof. intros Ha Heq. apply (idx_inj order a b Ha). unfold nn in Heq. lia. Qed.

  Lemma semi_step_ok k st w : LI k st -> In w order -> w <> r -> nn w = k ->
    exists st', semi_step (Datatypes.S (length order)) g dfs numm (Ok st) w = Ok st' /\ LI (k - 1) st'.
  Proof.
    intros Hli Hw Hwr Hk. unfold semi_step. cbn [bind].
    destruct (preds_of_spec g w Hgi (Hvert w Hw)) as [ps [Hps [_ Hpsin]]]. rewrite Hps. cbn [bind].
    assert (Hpse : forall p, In p ps <-> edge es p w).
    { intros p. rewrite Hpsin. unfold edge, es. apply has_edge_keys. }
    destruct (semi_fold_ok (st_semi st) k ps (st_anc st) (st_lab st) usize_max (li_fi _ _ Hli))
      as [anc' [lab' [ms [Hf [Hfi [Hle [Hall Hatt]]]]]]].
    rewrite Hf. cbn [bind fst snd].
    pose proof (semi_value_SD k st w ps ms Hli Hw Hwr Hk Hpse Hle Hall Hatt) as Hsd.
    rewrite (Hpar_model w Hw). cbn [bind]. eexists. split; [reflexivity|].
    destruct (Hpar_some w Hw Hwr) as [pw Hpw]. destruct (Hpar_facts w pw Hpw) as [Hpwin _].
    assert (Hk1 : 1 <= k).
    { destruct (N.eq_dec k 0) as [Hz|]; [|lia]. exfalso. apply Hwr. apply nn_inj; auto. rewrite nn_root. lia. }
    assert (Hfresh : nm_get w (st_semi st) = None).
    { destruct (nm_get w (st_semi st)) as [sv|] eqn:Hg; auto. destruct (li_keys _ _ Hli w sv Hg). lia. }
    assert (Hmono : forall x sv, nm_get x (st_semi st) = Some sv -> nm_get x (nm_insert w ms (st_semi st)) = Some sv).
    { intros x sv Hx. rewrite nm_get_insert_other; auto. intros ->. congruence. }
    constructor; cbn [st_anc st_lab st_semi].
    - constructor.
      + intros v Hv Hvk. assert (Hne : v <> w) by (intros ->; lia).
        rewrite !nm_get_insert_other by assumption. apply (fi_un _ _ _ _ _ _ _ Hfi v Hv). lia.
      + intros v Hv Hvk. destruct (N.eq_dec v w) as [->|Hne].
        * exists pw, ms. rewrite !nm_get_insert_same. rewrite Hpw. split; auto. split; auto. split; auto.
          eapply pm_one; eauto. apply nm_get_insert_same.
        * rewrite !nm_get_insert_other by assumption.
          assert (Hgt : k < nn v).
          { destruct (N.eq_dec (nn v) k) as [Heq|]; [|lia]. exfalso. apply Hne. apply nn_inj; auto. lia. }
          destruct (fi_pr _ _ _ _ _ _ _ Hfi v Hv Hgt) as [a [m [Ha [Hl [Hpm Hain]]]]]. exists a, m. split; auto. split; auto. split; auto.
          eapply pmin_mono; eauto.
    - intros v Hv Hvk. destruct (N.eq_dec v w) as [->|Hne].
      + exists ms. rewrite nm_get_insert_same. auto.
      + rewrite nm_get_insert_other by assumption. apply (li_sd _ _ Hli v Hv).
        destruct (N.eq_dec (nn v) k) as [Heq|]; [|lia]. exfalso. apply Hne. apply nn_inj; auto. lia.
    - intros v sv. destruct (N.eq_dec v w) as [->|Hne].
      + intros _. split; auto. lia.
      + rewrite nm_get_insert_other by assumption. intros Hg. destruct (li_keys _ _ Hli v sv Hg). split; auto. lia.
  Qed.

  Fixpoint desc_from (k : N) (L : list N) : Prop :=
    match L with
    | [] => k = 0
    | w :: L' => In w order /\ w <> r /\ nn w = k /\ desc_from (k - 1) L'
    end.

  Lemma semi_loop_ok L : forall k st, desc_from k L -> LI k st ->
    exists st', fold_left (semi_step (Datatypes.S (length order)) g dfs numm) L (Ok st) = Ok st' /\ LI 0 st'.
  Proof.
    induction L as [|w L IH]; intros k st Hd Hli; cbn [fold_left].
    - cbn in Hd. subst k. exists st. auto.
    - destruct Hd as [Hw [Hwr [Hk Hd]]]. destruct (semi_step_ok k st w Hli Hw Hwr Hk) as [st1 [Hs Hli1]]. rewrite Hs.
      apply (IH (k - 1) st1 Hd Hli1).
  Qed.

  Lemma desc_rev_tl : desc_from (N.of_nat (length order) - 1) (rev (tl order)).
  Proof.
    destruct (pre_head es _ _ _ Hdfs) as [t [Heq _]].
    assert (Hgen : forall t1 t2, t = t1 ++ t2 -> desc_from (N.of_nat (length t1)) (rev t1)).
    { intros t1. induction t1 as [|x t1 IH] using rev_ind; intros t2 Ht; [reflexivity|].
      rewrite rev_app_distr. cbn [rev app]. rewrite <- app_assoc in Ht. cbn [app] in Ht.
      pose proof order_nodup as Hnd. rewrite Heq, Ht in Hnd.
      assert (Hx : ~ In x (r :: t1)).
      { change (r :: t1 ++ x :: t2) with ((r :: t1) ++ x :: t2) in Hnd. intros Hin.
        apply (nodup_app_disj (r :: t1) (x :: t2) x Hnd Hin). left. reflexivity. }
      split; [rewrite Heq, Ht; right; apply in_or_app; right; left; reflexivity|].
      split; [intros ->; apply Hx; left; reflexivity|]. split.
      - unfold nn. rewrite Heq, Ht. change (r :: t1 ++ x :: t2) with ((r :: t1) ++ x :: t2).
        rewrite (idx_split (r :: t1) x t2 Hx). rewrite app_length. cbn [length]. lia.
      - rewrite app_length. cbn [length]. replace (N.of_nat (length t1 + 1) - 1) with (N.of_nat (length t1)) by lia.
        apply (IH (x :: t2)). exact Ht. }
    rewrite Heq. cbn [tl length]. replace (N.of_nat (Datatypes.S (length t)) - 1) with (N.of_nat (length t)) by lia.
    apply (Hgen t []). rewrite app_nil_r. reflexivity.
  Qed.

  Definition anc0 : nmap (option N) := fold_left (fun m v => nm_insert v None m) order [].
  Definition lab0 : nmap N :=
    fold_left (fun m v => match nm_get v numm with Some n => nm_insert v n m | None => m end) order [].

  Lemma LI_init : LI (N.of_nat (length order) - 1) (mkSt anc0 lab0 []).
  Proof.
    constructor; cbn [st_anc st_lab st_semi].
    - constructor.
      + intros v Hv _. unfold anc0, lab0. rewrite fold_none_get, fold_lab_get.
        * destruct (in_dec N.eq_dec v order); [|contradiction]. split; auto. apply num_in. exact Hv.
        * intros x Hx. exists (nn x). apply num_in. exact Hx.
      + intros v Hv Hk. pose proof (nn_lt_len v Hv). lia.
    - intros v Hv Hk. pose proof (nn_lt_len v Hv). lia.
    - intros v sv Hg. discriminate.
  Qed.

  (* [U, given the DFS hypotheses] the semidominator loop of the model *)
  Theorem semi_loop_correct :
    exists st, fold_left (semi_step (Datatypes.S (length order)) g dfs numm) (rev (tl order)) (Ok (mkSt anc0 lab0 [])) = Ok st /\
      forall v, In v order -> v <> r -> exists sv, nm_get v (st_semi st) = Some sv /\ SD v sv.
  Proof.
    destruct (semi_loop_ok (rev (tl order)) _ _ desc_rev_tl LI_init) as [st [Hf Hli]]. exists st. split; auto.
    intros v Hv Hne. apply (li_sd _ _ Hli v Hv).
    destruct (N.eq_dec (nn v) 0) as [Hz|]; [|lia]. exfalso. apply Hne. apply nn_inj; auto. rewrite nn_root. exact Hz.
  Qed.

  (* ------------------------------------------------------------------ the immediate-dominator loop *)
  Variable S : nmap N.
  Hypothesis HS : forall v, In v order -> v <> r -> exists sv, nm_get v S = Some sv /\ SD v sv.

  Lemma in_reach v : In v order <-> reach es r v.
  Proof. apply (listed_reach es r order Hdfs). Qed.

  Lemma anc_nn z x : anc es order z x -> nn z <= nn x /\ In x order /\ In z order.
  Proof. intros Ha. destruct (anc_num es r order Hdfs z x Ha) as [Hle [Hx Hz]]. unfold nn, SemiDomTheory.num in *. split; [lia|auto]. Qed.
  Lemma anc_nn_lt z x : anc es order z x -> z <> x -> nn z < nn x.
  Proof. intros Ha Hne. pose proof (anc_lt es r order Hdfs z x Ha Hne). unfold nn, SemiDomTheory.num in *. lia. Qed.

  Lemma closest v p z : par v = Some p -> anc es order z v -> z <> v -> anc es order z p.
  Proof.
    intros Hp Ha Hne. pose proof (Hanc_chain z v Ha) as Hc. destruct (Hpar_facts v p Hp) as [Hin _].
    inversion Hc as [|? p' ? Hp' Hc']; subst; [congruence|]. rewrite Hp in Hp'. injection Hp' as <-. apply chain_anc; auto.
  Qed.

  Lemma idom_facts i w : In w order -> idom es r i w -> In i order /\ anc es order i w /\ nn i < nn w.
  Proof.
    intros Hw [[Hd Hne] _]. pose proof (dom_anc es r order Hdfs i w Hw Hd) as Ha. destruct (anc_nn i w Ha) as [_ [_ Hi]].
    split; auto. split; auto. apply anc_nn_lt; auto.
  Qed.

  Lemma idom_par i w pw : In w order -> par w = Some pw -> idom es r i w -> i = pw \/ dom es r i pw.
  Proof.
    intros Hw Hpw [[[_ Hd] Hne] _]. destruct (Hpar_facts w pw Hpw) as [Hin [He _]].
    destruct (N.eq_dec i pw) as [|Hip]; auto. right. split; [apply in_reach; exact Hin|]. intros q Hq.
    specialize (Hd (q ++ [w]) (path_snoc es r q pw w Hq He)).
    change (r :: q ++ [w]) with ((r :: q) ++ [w]) in Hd. apply in_app_or in Hd. destruct Hd as [|[Hx|[]]]; auto. congruence.
  Qed.

  Record DI (j : N) (idoms : nmap N) : Prop := {
    di_get : forall v, In v order -> 1 <= nn v <= j -> exists i, idom es r i v /\ nm_get (nn v) idoms = Some (nn i);
    di_keys : forall kk val, nm_get kk idoms = Some val ->
                exists v i, In v order /\ nn v = kk /\ 1 <= kk <= j /\ idom es r i v /\ val = nn i;
    di_sorted : nsorted (map fst idoms) }.

  Lemma climb_ok w pw i sv idoms : In w order -> w <> r -> par w = Some pw -> idom es r i w -> SD w sv ->
    DI (nn w - 1) idoms ->
    forall fuel c, In c order -> (c = pw \/ dom es r c pw) -> (i = c \/ sdom es r i c) -> nn c < N.of_nat fuel ->
      idom_climb fuel idoms sv (nn c) = Ok (nn i).
  Proof.
    intros Hw Hwr Hpw Hi Hsd Hdi.
    destruct (Hpar_facts w pw Hpw) as [Hpwin [Hpwe [Hpwanc Hpwne]]].
    pose proof (anc_nn_lt pw w Hpwanc Hpwne) as Hpwlt.
    assert (Hile : nn i <= sv).
    { destruct Hsd as [[s [Hs Hns]] _]. pose proof (idom_anc_cand es r order Hdfs i w s Hw Hi Hs) as Ha.
      destruct (anc_nn i s Ha). lia. }
    induction fuel as [|f IH]; intros c Hc Hcp Hic Hf; [lia|]. cbn [idom_climb].
    destruct Hic as [<-|Hsic].
    - destruct (N.ltb_spec sv (nn i)); [lia|reflexivity].
    - assert (Hcanc : anc es order c pw).
      { destruct Hcp as [->|Hd]; [apply (anc_self es r order Hdfs); exact Hpwin|apply (dom_anc es r order Hdfs); auto]. }
      destruct (anc_nn c pw Hcanc) as [Hcle _].
      assert (Hlt : sv < nn c).
      { destruct (N.lt_ge_cases sv (nn c)) as [|Hge]; auto. exfalso.
        assert (Hcw : anc es order c w) by (eapply (anc_nested es r order Hdfs); eauto).
        assert (Hcnw : c <> w) by (intros ->; lia).
        assert (Hdcw : dom es r c w).
        { apply (nca_step es r order Hdfs c w Hw Hwr Hcw Hcnw).
          - intros s Hs. destruct Hsd as [_ Hmin]. pose proof (Hmin s Hs). unfold nn, SemiDomTheory.num in *. lia.
          - intros v Hcv Hvw Hvnw Hvnc. pose proof (closest w pw v Hpw Hvw Hvnw) as Hvpw.
            destruct Hcp as [->|Hd].
            + exfalso. apply Hvnc. destruct (anc_nn pw v Hcv) as [H1 [Hvo _]]. destruct (anc_nn v pw Hvpw) as [H2 _].
              apply nn_inj; auto. lia.
            + apply (dom_between es r order Hdfs c v pw); auto. }
        destruct Hi as [_ Hall]. pose proof (Hall c (conj Hdcw Hcnw)) as Hci. destruct Hsic as [Hic Hne].
        apply Hne. apply (DomTheory.dom_antisym es r); auto. }
      destruct (N.ltb_spec sv (nn c)) as [_|]; [|lia].
      assert (Hcr : c <> r).
      { intros ->. destruct Hsic as [Hd Hne]. apply DomTheory.dom_root in Hd. congruence. }
      assert (Hc1 : 1 <= nn c).
      { destruct (N.eq_dec (nn c) 0) as [Hz|]; [|lia]. exfalso. apply Hcr. apply nn_inj; auto. rewrite nn_root. exact Hz. }
      destruct (di_get _ _ Hdi c Hc) as [c' [Hc' Hg]]; [lia|]. unfold nm_idx. rewrite Hg. cbn [res_of_option bind].
      destruct (idom_facts c' c Hc Hc') as [Hc'o [Hc'a Hc'lt]].
      apply IH; auto.
      + right. destruct Hc' as [[Hd _] _]. destruct Hcp as [->|Hdp]; auto. eapply DomTheory.dom_trans; eauto.
      + destruct Hc' as [_ Hall]. pose proof (Hall i Hsic) as Hd. destruct (N.eq_dec i c'); auto. right. split; auto.
      + lia.
  Qed.

  Lemma idom_step_ok k idoms w : DI (k - 1) idoms -> In w order -> w <> r -> nn w = k ->
    exists idoms', idom_step (Datatypes.S (length order)) dfs numm S (Ok idoms) w = Ok idoms' /\ DI k idoms'.
  Proof.
    intros Hdi Hw Hwr Hk. unfold idom_step. cbn [bind]. rewrite (Hpar_model w Hw). cbn [bind].
    destruct (Hpar_some w Hw Hwr) as [pw Hpw]. rewrite Hpw. destruct (Hpar_facts w pw Hpw) as [Hpwin [_ [Hpwanc Hpwne]]].
    unfold nm_idx. rewrite (num_in pw Hpwin). cbn [res_of_option bind].
    destruct (HS w Hw Hwr) as [sv [Hsv Hsd]]. rewrite Hsv. cbn [res_of_option bind].
    destruct (idom_exists es r w (proj1 (in_reach w) Hw) Hwr) as [i Hi].
    rewrite <- Hk in Hdi.
    rewrite (climb_ok w pw i sv idoms Hw Hwr Hpw Hi Hsd Hdi (Datatypes.S (length order)) pw Hpwin (or_introl eq_refl)).
    - cbn [bind]. rewrite (num_in w Hw). cbn [res_of_option bind]. eexists. split; [reflexivity|].
      assert (Hk1 : 1 <= k).
      { destruct (N.eq_dec k 0) as [Hz|]; [|lia]. exfalso. apply Hwr. apply nn_inj; auto. rewrite nn_root. lia. }
      constructor.
      + intros v Hv Hvk. destruct (N.eq_dec v w) as [->|Hne].
        * exists i. rewrite nm_get_insert_same. auto.
        * assert (Hnk : nn v <> nn w) by (intros Heq; apply Hne; apply nn_inj; auto).
          rewrite nm_get_insert_other by assumption. apply (di_get _ _ Hdi v Hv). lia.
      + intros kk val. destruct (N.eq_dec kk (nn w)) as [->|Hne].
        * rewrite nm_get_insert_same. intros [= <-]. exists w, i. split; [exact Hw|]. split; [reflexivity|]. split; [lia|]. split; [exact Hi|reflexivity].
        * rewrite nm_get_insert_other by assumption. intros Hg. destruct (di_keys _ _ Hdi kk val Hg) as [v [i' [Hv [Hnv [Hr' [Hi' Hval]]]]]].
          exists v, i'. split; [exact Hv|]. split; [exact Hnv|]. split; [lia|]. split; [exact Hi'|exact Hval].
      + apply nm_insert_sorted. apply (di_sorted _ _ Hdi).
    - destruct (N.eq_dec i pw) as [|Hne]; auto. right.
      destruct (idom_par i w pw Hw Hpw Hi) as [|Hd]; [contradiction|]. split; auto.
    - pose proof (nn_lt_len pw Hpwin). lia.
  Qed.

  Fixpoint asc_from (k : N) (L : list N) : Prop :=
    match L with
    | [] => True
    | w :: L' => In w order /\ w <> r /\ nn w = k /\ asc_from (k + 1) L'
    end.

  Lemma idom_loop_ok L : forall k idoms, asc_from k L -> DI (k - 1) idoms ->
    exists idoms', fold_left (idom_step (Datatypes.S (length order)) dfs numm S) L (Ok idoms) = Ok idoms' /\
                   DI (k - 1 + N.of_nat (length L)) idoms'.
  Proof.
    induction L as [|w L IH]; intros k idoms Ha Hdi; cbn [fold_left length].
    - exists idoms. split; auto. replace (k - 1 + N.of_nat 0) with (k - 1) by lia. exact Hdi.
    - destruct Ha as [Hw [Hwr [Hk Ha]]]. destruct (idom_step_ok k idoms w Hdi Hw Hwr Hk) as [id1 [Hs Hdi1]]. rewrite Hs.
      assert (Hk1 : 1 <= k).
      { destruct (N.eq_dec k 0) as [Hz|]; [|lia]. exfalso. apply Hwr. apply nn_inj; auto. rewrite nn_root. lia. }
      destruct (IH (k + 1) id1 Ha) as [id' [Hf Hdi']]; [replace (k + 1 - 1) with k by lia; exact Hdi1|].
      exists id'. split; auto. replace (k - 1 + N.of_nat (Datatypes.S (length L))) with (k + 1 - 1 + N.of_nat (length L)) by lia. exact Hdi'.
  Qed.

  Lemma asc_tl : asc_from 1 (tl order).
  Proof.
    destruct (pre_head es _ _ _ Hdfs) as [t [Heq _]].
    assert (Hgen : forall t2 t1, t = t1 ++ t2 -> asc_from (1 + N.of_nat (length t1)) t2).
    { induction t2 as [|x t2 IH]; intros t1 Ht; [exact I|].
      pose proof order_nodup as Hnd. rewrite Heq, Ht in Hnd.
      assert (Hx : ~ In x (r :: t1)).
      { change (r :: t1 ++ x :: t2) with ((r :: t1) ++ x :: t2) in Hnd. intros Hin.
        apply (nodup_app_disj (r :: t1) (x :: t2) x Hnd Hin). left. reflexivity. }
      split; [rewrite Heq, Ht; right; apply in_or_app; right; left; reflexivity|].
      split; [intros ->; apply Hx; left; reflexivity|]. split.
      - unfold nn. rewrite Heq, Ht. change (r :: t1 ++ x :: t2) with ((r :: t1) ++ x :: t2).
        rewrite (idx_split (r :: t1) x t2 Hx). cbn [length]. lia.
      - replace (1 + N.of_nat (length t1) + 1) with (1 + N.of_nat (length (t1 ++ [x]))) by (rewrite app_length; cbn [length]; lia).
        apply IH. rewrite <- app_assoc. exact Ht. }
    rewrite Heq. cbn [tl]. apply (Hgen t []). reflexivity.
  Qed.

  Lemma nth_idx v (l0 : list N) : In v l0 -> nth_error l0 (idx v l0) = Some v.
  Proof.
    induction l0 as [|y l0 IH]; intros Hin; [destruct Hin|]. cbn [idx].
    destruct (N.eqb_spec v y) as [->|Hne]; [reflexivity|]. cbn [nth_error]. apply IH. destruct Hin as [|]; [congruence|auto].
  Qed.
  Lemma vec_idx_nn v : In v order -> vec_idx order (nn v) = Ok v.
  Proof. intros Hv. unfold vec_idx, nn. rewrite Nat2N.id, (nth_idx v order Hv). reflexivity. Qed.

  Definition fin_step (acc : res (nmap N)) (p : N * N) : res (nmap N) :=
    m <- acc ;; v <- vec_idx order (fst p) ;; d <- vec_idx order (snd p) ;; Ok (nm_insert v d m).

  Lemma fin_fold (l0 : list (N * N)) : forall m0,
    (forall kk val, In (kk, val) l0 -> exists v i, In v order /\ nn v = kk /\ idom es r i v /\ val = nn i) ->
    (forall v d, nm_get v m0 = Some d -> idom es r d v) ->
    exists m, fold_left fin_step l0 (Ok m0) = Ok m /\
      (forall v d, nm_get v m = Some d -> idom es r d v) /\
      (forall v, (exists d, nm_get v m0 = Some d) -> exists d, nm_get v m = Some d) /\
      (forall kk val v, In (kk, val) l0 -> In v order -> nn v = kk -> exists d, nm_get v m = Some d).
  Proof.
    induction l0 as [|[kk val] l0 IH]; intros m0 Hall Hm0; cbn [fold_left].
    - exists m0. split; auto. split; auto. split; auto. intros kk val v [].
    - destruct (Hall kk val (or_introl eq_refl)) as [v [i [Hv [Hnv [Hi ->]]]]].
      destruct (idom_facts i v Hv Hi) as [Hio _].
      unfold fin_step at 2. cbn [bind fst snd]. rewrite <- Hnv, (vec_idx_nn v Hv). cbn [bind]. rewrite (vec_idx_nn i Hio). cbn [bind].
      destruct (IH (nm_insert v i m0)) as [m [Hf [Hs [Hk Hc]]]].
      + intros kk' val' Hin. apply Hall. right. exact Hin.
      + intros x d. destruct (N.eq_dec x v) as [->|Hne]; [rewrite nm_get_insert_same; intros [= <-]; exact Hi|].
        rewrite nm_get_insert_other by assumption. apply Hm0.
      + exists m. split; [exact Hf|]. split; [exact Hs|]. split.
        * intros x [d Hd]. apply Hk. destruct (N.eq_dec x v) as [->|Hne]; [exists i; apply nm_get_insert_same|].
          exists d. rewrite nm_get_insert_other by assumption. exact Hd.
        * intros kk' val' x [[= <- <-]|Hin] Hx Hnx.
          -- assert (x = v) by (apply nn_inj; auto). subst x. apply Hk. exists i. apply nm_get_insert_same.
          -- eapply Hc; eauto.
  Qed.

  Hypothesis Hdfs_model : compute_dfs_tree g r = Ok dfs.
  Hypothesis Hord_model : compute_pre_order dfs r = Ok order.
  Hypothesis HS_model : exists st,
    fold_left (semi_step (Datatypes.S (length order)) g dfs numm) (rev (tl order)) (Ok (mkSt anc0 lab0 [])) = Ok st /\ st_semi st = S.

  (* [U, given the DFS hypotheses] the model of compute_immediate_dominators returns exactly the idom relation *)
  Theorem snca_given_dfs :
    exists m, compute_immediate_dominators g r = Ok m /\ forall v d, nm_get v m = Some d <-> idom es r d v.
  Proof.
    assert (Hrin : In r order) by (destruct (pre_head es _ _ _ Hdfs) as [t [Heq _]]; rewrite Heq; left; reflexivity).
    unfold compute_immediate_dominators. rewrite (Hvert r Hrin). cbn [negb]. rewrite Hdfs_model. cbn [bind]. rewrite Hord_model. cbn [bind].
    cbv zeta.
    destruct HS_model as [st [Hst HstS]]. unfold anc0, lab0 in Hst. unfold numm in Hst. rewrite Hst. cbn [bind]. rewrite HstS.
    destruct (idom_loop_ok (tl order) 1 [] asc_tl) as [idoms [Hf Hdi]].
    { constructor; [intros v Hv Hk; lia|intros kk val Hg; discriminate|constructor]. }
    match goal with |- context [bind ?X _] => replace X with (Ok idoms : res (nmap N)) by (symmetry; exact Hf) end. cbn [bind].
    change (fold_left _ idoms (Ok [])) with (fold_left fin_step idoms (Ok ([] : nmap N))).
    destruct (fin_fold idoms []) as [m [Hm [Hs [_ Hc]]]].
    { intros kk val Hin. assert (Hg : nm_get kk idoms = Some val).
      { apply nm_get_in; [apply (di_sorted _ _ Hdi)|exact Hin]. }
      destruct (di_keys _ _ Hdi kk val Hg) as [v [i [Hv [Hnv [_ [Hi Hval]]]]]]. exists v, i. auto. }
    { intros v d Hg. discriminate. }
    exists m. split; [exact Hm|]. intros v d. split; [apply Hs|]. intros Hi.
    destruct (idom_not_root es r d v Hi) as [Hne Hre]. assert (Hv : In v order) by (apply in_reach; exact Hre).
    assert (Hnv1 : 1 <= nn v).
    { destruct (N.eq_dec (nn v) 0) as [Hz|]; [|lia]. exfalso. apply Hne. apply nn_inj; auto. rewrite nn_root. exact Hz. }
    destruct (di_get _ _ Hdi v Hv) as [i [Hi' Hg]].
    { split; auto. pose proof (nn_lt_len v Hv). destruct (pre_head es _ _ _ Hdfs) as [t [Heq _]]. rewrite Heq in *. cbn [tl length] in *. lia. }
    unfold nm_get in Hg. apply om_get_some_in in Hg; [|apply ncmp_eq].
    destruct (Hc (nn v) (nn i) v Hg Hv eq_refl) as [d' Hd']. pose proof (Hs v d' Hd') as Hid'.
    rewrite (idom_unique es r d d' v Hi Hid'). exact Hd'.
  Qed.
End Main.

(* the same statement with the semidominator loop discharged by [semi_loop_correct]:
   the only hypotheses left are the facts about the model's DFS tree / pre-order *)
Theorem snca_correct_given_dfs {V E : Type} `{Vertex V} `{Edge E} (g : graph V E) (r : N) (dfs : tree) (order : list N)
    (par : N -> option N) :
  graph_inv g ->
  compute_dfs_tree g r = Ok dfs -> compute_pre_order dfs r = Ok order ->
  is_dfs_pre_order (edge_keys g) r order ->
  (forall w, In w order -> has_vertex g w = true) ->
  N.of_nat (length order) <= usize_max ->
  (forall v, In v order -> dfs_parent dfs v = Ok (par v)) ->
  (forall v, In v order -> v <> r -> exists p, par v = Some p) ->
  (forall v p, par v = Some p -> In p order /\ edge (edge_keys g) p v /\ anc (edge_keys g) order p v /\ p <> v) ->
  (forall u v, anc (edge_keys g) order u v -> chainp par v u) ->
  exists m, compute_immediate_dominators g r = Ok m /\
            forall v d, nm_get v m = Some d <-> idom (edge_keys g) r d v.
Proof.
  intros Hgi Hm1 Hm2 Hdfs Hvert Hsize Hp1 Hp2 Hp3 Hp4.
  destruct (semi_loop_correct g Hgi r dfs order Hdfs Hvert Hsize par Hp1 Hp2 Hp3 Hp4) as [st [Hf Hsd]].
  eapply (snca_given_dfs g); eauto.
Qed.
