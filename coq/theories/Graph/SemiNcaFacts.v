(* Graph/SemiNcaFacts.v -- [U] the DFS-numbering facts the Semi-NCA model (compute_immediate_dominators) relies on,
   for the very objects it computes: dfs := compute_dfs_tree g root, order := compute_pre_order dfs root,
   num := number_from 0 order, dfs_parent.
   * order enumerates exactly the vertices reachable from the root, without duplicates, root first;
   * num is the position in order; every reachable vertex has a number, no other vertex has one;
   * dfs_parent returns the unique tree parent, which is a graph predecessor, and the parent's number is smaller.
   What is NOT proved (see notes/C11.md): the path lemma, the semidominator theorem, the compress/label invariant. *)
From Coq Require Import NArith List Bool Lia.
From Falcon Require Import Base.Res Graph.NMap Graph.NMapFacts Graph.Graph Graph.GraphInv Graph.Algo Graph.Spec
  Graph.Oracle Graph.OracleProofs Graph.LoopProofs Graph.BackEdges Graph.PreOrderProofs Graph.PreOrderDfs Graph.PreOrderIsDfs
  Graph.DfsTreeModel.
Import ListNotations.
Local Open Scope N_scope.

Lemma number_from_get l : forall i x l1 l2, NoDup l -> l = l1 ++ x :: l2 ->
  nm_get x (number_from i l) = Some (i + N.of_nat (length l1)).
Proof.
  induction l as [|y l IH]; intros i x l1 l2 Hnd Heq; [destruct l1; discriminate|].
  inversion Hnd as [|? ? Hni Hnd']; subst. cbn [number_from]. destruct l1 as [|z l1]; cbn [app] in Heq.
  - injection Heq as -> ->. rewrite nm_get_insert_same. f_equal. cbn. lia.
  - injection Heq as -> ->. rewrite nm_get_insert_other.
    + rewrite (IH (N.succ i) x l1 l2 Hnd' eq_refl). f_equal. cbn [length]. lia.
    + intros ->. apply Hni. apply in_or_app. right. left. reflexivity.
Qed.
Lemma number_from_none l : forall i x, ~ In x l -> nm_get x (number_from i l) = None.
Proof.
  induction l as [|y l IH]; intros i x Hn; cbn [number_from]; [reflexivity|].
  rewrite nm_get_insert_other; [apply IH; intros Hx; apply Hn; right; exact Hx|]. intros ->. apply Hn. left. reflexivity.
Qed.

Lemma single_list' (ps : list N) p : NoDup ps -> (forall h, In h ps <-> h = p) -> ps = [p].
Proof.
  intros Hn Hall. destruct ps as [|a ps]; [exfalso; apply (proj2 (Hall p) eq_refl)|].
  assert (a = p) as -> by (apply Hall; left; auto). f_equal.
  destruct ps as [|b ps]; auto. exfalso. inversion Hn as [|? ? Hni _]; subst.
  assert (b = p) by (apply Hall; right; left; auto). subst b. apply Hni. left; auto.
Qed.

Section Facts.
  Context {V E : Type} `{Vertex V} `{Edge E}.
  Variable g : graph V E.
  Hypothesis Hgi : graph_inv g.
  Variable r : N.
  Hypothesis Hr : has_vertex g r = true.
  Let es := edge_keys g.

  Theorem snca_numbering :
    exists dfs order, compute_dfs_tree g r = Ok dfs /\ compute_pre_order dfs r = Ok order /\
      NoDup order /\ (forall v, In v order <-> reach es r v) /\ (exists rest, order = r :: rest) /\
      (forall v, (exists n, nm_get v (number_from 0 order) = Some n) <-> reach es r v) /\
      (forall l1 v l2, order = l1 ++ v :: l2 -> nm_get v (number_from 0 order) = Some (N.of_nat (length l1))) /\
      dfs_parent dfs r = Ok None /\
      (forall v, reach es r v -> v <> r ->
         exists p, dfs_parent dfs v = Ok (Some p) /\ edge es p v /\ has_edge dfs p v = true /\
           exists np nv, nm_get p (number_from 0 order) = Some np /\ nm_get v (number_from 0 order) = Some nv /\ np < nv).
  Proof.
    destruct (compute_dfs_tree_correct g Hgi r Hr) as [t [Ht [Hgt [Htv [Hte [Htu [Htp Htr]]]]]]].
    assert (Htroot : has_vertex t r = true) by (apply Htv; exists []; constructor).
    destruct (compute_pre_order_correct t Hgt r Htroot) as [order [Ho [Hnd Hin]]].
    destruct (compute_pre_order_parent t r order Ho) as [o [Hrev Hpf]].
    assert (Hord : forall v, In v order <-> reach es r v).
    { intros v. rewrite Hin. split.
      - intros Hx. apply Htv. apply (reach_has_vertex t Hgt r Htroot). exact Hx.
      - apply Htr. }
    exists t, order. split; [exact Ht|]. split; [exact Ho|]. split; [exact Hnd|]. split; [exact Hord|].
    assert (Hsedge : forall p x, sedge t p x -> has_edge t p x = true).
    { intros p x [ss [Hss Hx]]. unfold succs_of in Hss. destruct (nm_get p (g_successors t)) as [s|] eqn:Hg; [|discriminate].
      injection Hss as <-. apply (ai_succ t (gi_adj t Hgt)). eauto. }
    assert (Hbefore : forall v, In v order -> v <> r -> forall p, has_edge t p v = true ->
              exists l1 l2 l3, order = l1 ++ p :: l2 ++ v :: l3).
    { intros v Hv Hne p Hp. rewrite Hrev in Hv |- *. apply in_rev in Hv.
      clear Hrev Ho Hnd Hin Hord. induction o as [|x o IH]; [destruct Hv|]. cbn [PFr] in Hpf. destruct Hpf as [Hx Hpf].
      cbn [rev]. destruct Hv as [->|Hv].
      - destruct Hx as [|[q [Hq Hqv]]]; [contradiction|].
        assert (q = p) by (eapply Htu; eauto). subst q.
        apply in_rev in Hq. destruct (in_split _ _ Hq) as [a [b Hab]]. exists a, b, []. rewrite Hab, <- app_assoc. reflexivity.
      - destruct (IH Hpf Hv) as [l1 [l2 [l3 Heq]]]. exists l1, l2, (l3 ++ [x]). rewrite Heq, <- !app_assoc. cbn [app].
        rewrite <- app_assoc. reflexivity. }
    assert (Hnum : forall l1 v l2, order = l1 ++ v :: l2 -> nm_get v (number_from 0 order) = Some (N.of_nat (length l1))).
    { intros l1 v l2 Heq. rewrite (number_from_get order 0 v l1 l2 Hnd Heq). f_equal. }
    split.
    { pose proof (PreOrderIsDfs.compute_pre_order_is_dfs t r order Ho) as Hex. inversion Hex as [? ? Hin0|]; subst; [destruct Hin0|eauto]. }
    split.
    { intros v. rewrite <- Hord. split.
      - intros [n Hn]. destruct (in_dec N.eq_dec v order) as [|Hni]; auto. rewrite (number_from_none order 0 v Hni) in Hn. discriminate.
      - intros Hv. destruct (in_split _ _ Hv) as [l1 [l2 Heq]]. eexists. apply (Hnum l1 v l2 Heq). }
    split; [exact Hnum|]. split.
    - unfold dfs_parent. destruct (preds_of_spec t r Hgt Htroot) as [ps [Hps [_ Hpin]]]. rewrite Hps. cbn [bind].
      destruct ps as [|h ps]; [reflexivity|]. exfalso. assert (Hh : has_edge t h r = true) by (apply Hpin; left; auto).
      apply Hte in Hh. destruct Hh as [_ Hh]. congruence.
    - intros v Hrv Hne. destruct (Htp v Hrv Hne) as [p Hp]. exists p.
      assert (Hvt : has_vertex t v = true) by (apply Htv; exact Hrv).
      destruct (preds_of_spec t v Hgt Hvt) as [ps [Hps [Hpso Hpin]]].
      assert (ps = [p]) as ->.
      { apply single_list'; [apply nsorted_nodup; exact Hpso|]. intros h. rewrite Hpin. split; [intros Hh; eapply Htu; eauto|intros ->; exact Hp]. }
      split; [unfold dfs_parent; rewrite Hps; reflexivity|]. split; [apply (Hte p v Hp)|]. split; [exact Hp|].
      destruct (Hbefore v (proj2 (Hord v) Hrv) Hne p Hp) as [l1 [l2 [l3 Heq]]].
      exists (N.of_nat (length l1)), (N.of_nat (length (l1 ++ p :: l2))). split; [apply (Hnum l1 p (l2 ++ v :: l3) Heq)|]. split.
      + apply (Hnum (l1 ++ p :: l2) v l3). rewrite Heq, <- app_assoc. reflexivity.
      + rewrite app_length. cbn [length]. lia.
  Qed.
End Facts.
